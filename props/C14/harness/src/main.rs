//! C14 harness: gix-commitgraph reader (File::at, Graph::new / from_info_dir, commit_at, id_at, lookup,
//! commit_by_id, iter_parents) on (a) commit-graph files given as bytes and (b) files written by real
//! `git commit-graph write [--split=no-merge]` for a random DAG of real commit objects.
use gix_commitgraph::{File, Graph, Position};
use gix_odb::Write as _;
use gixv_common::*;
use std::collections::HashMap;
use std::io::Write as _;
use std::path::{Path, PathBuf};
use std::process::{Command, Stdio};
use std::sync::atomic::{AtomicU64, Ordering};

const NO_PARENT: u32 = 0x7000_0000;
const HIGH: u32 = 0x8000_0000;
const TIME_MOD: u64 = 1 << 34;

// ---------------------------------------------------------------------------------------------------
// DAG description (field format shared with coq/Run.v: parse_dag)
#[derive(Clone, Debug)]
struct Cm {
    id: Vec<u8>,
    tree: Vec<u8>,
    time: u64,
    layer: u8,
    parents: Vec<u8>, // indices of earlier commits
}

fn dag_field(d: &[Cm]) -> Vec<u8> {
    let mut o = Vec::new();
    for c in d {
        o.extend_from_slice(&c.id);
        o.extend_from_slice(&c.tree);
        o.extend_from_slice(&c.time.to_be_bytes());
        o.push(c.layer);
        o.push(c.parents.len() as u8);
        o.extend_from_slice(&c.parents);
    }
    o
}
fn parse_dag(mut b: &[u8]) -> Vec<Cm> {
    let mut v = Vec::new();
    while b.len() >= 50 {
        let np = b[49] as usize;
        if b.len() < 50 + np {
            break;
        }
        v.push(Cm {
            id: b[..20].to_vec(),
            tree: b[20..40].to_vec(),
            time: u64::from_be_bytes(b[40..48].try_into().unwrap()),
            layer: b[48],
            parents: b[50..50 + np].to_vec(),
        });
        b = &b[50 + np..];
    }
    v
}

fn commit_object(d: &[Cm], i: usize) -> Vec<u8> {
    let c = &d[i];
    let mut s = format!("tree {}\n", hexs(&c.tree));
    for p in &c.parents {
        s.push_str(&format!("parent {}\n", hexs(&d[*p as usize].id)));
    }
    s.push_str(&format!("author A <a@b> 0 +0000\ncommitter C <c@d> {} +0000\n\nc{}\n", c.time, i));
    s.into_bytes()
}

// ---------------------------------------------------------------------------------------------------
// generator-side writer of commit-graph files (format documentation), with knobs for the malformed stream
#[derive(Clone)]
struct Rec {
    id: Vec<u8>,
    tree: Vec<u8>,
    p1: u32,
    p2: u32,
    gen: u32,
    time: u64,
}
#[derive(Clone)]
struct FileSpec {
    recs: Vec<Rec>, // sorted by id (unless a knob breaks it)
    edges: Vec<u8>, // raw EDGE chunk
    nbase: usize,
    extra: Vec<(Vec<u8>, Vec<u8>, usize)>, // unknown chunks: id, content, insert position
    fan_override: Option<(usize, u32)>,
    order: Vec<usize>, // permutation applied to the chunk list (empty = git's order)
}

fn fan_of(recs: &[Rec]) -> Vec<u32> {
    let mut fan = vec![0u32; 256];
    for r in recs {
        fan[r.id[0] as usize] += 1;
    }
    for i in 1..256 {
        fan[i] += fan[i - 1];
    }
    fan
}

fn write_file(fs: &FileSpec) -> Vec<u8> {
    let mut fan = fan_of(&fs.recs);
    if let Some((i, v)) = fs.fan_override {
        fan[i] = v;
    }
    let mut chunks: Vec<(Vec<u8>, Vec<u8>)> = Vec::new();
    chunks.push((b"OIDF".to_vec(), fan.iter().flat_map(|v| v.to_be_bytes()).collect()));
    chunks.push((b"OIDL".to_vec(), fs.recs.iter().flat_map(|r| r.id.clone()).collect()));
    let mut cdat = Vec::new();
    for r in &fs.recs {
        cdat.extend_from_slice(&r.tree);
        cdat.extend_from_slice(&r.p1.to_be_bytes());
        cdat.extend_from_slice(&r.p2.to_be_bytes());
        let w = ((r.gen as u64) << 34) | (r.time & (TIME_MOD - 1));
        cdat.extend_from_slice(&w.to_be_bytes());
    }
    chunks.push((b"CDAT".to_vec(), cdat));
    if !fs.edges.is_empty() {
        chunks.push((b"EDGE".to_vec(), fs.edges.clone()));
    }
    if fs.nbase > 0 {
        chunks.push((b"BASE".to_vec(), vec![0xbb; 20 * fs.nbase]));
    }
    for (id, content, at) in &fs.extra {
        let at = (*at).min(chunks.len());
        chunks.insert(at, (id.clone(), content.clone()));
    }
    if fs.order.len() == chunks.len() {
        chunks = fs.order.iter().map(|i| chunks[*i].clone()).collect();
    }
    let n = chunks.len();
    let mut out = b"CGPH".to_vec();
    out.extend_from_slice(&[1, 1, n as u8, fs.nbase as u8]);
    let mut ofs = (8 + 12 * (n + 1)) as u64;
    for (id, c) in &chunks {
        out.extend_from_slice(id);
        out.extend_from_slice(&ofs.to_be_bytes());
        ofs += c.len() as u64;
    }
    out.extend_from_slice(&[0, 0, 0, 0]);
    out.extend_from_slice(&ofs.to_be_bytes());
    for (_, c) in &chunks {
        out.extend_from_slice(c);
    }
    out.extend_from_slice(&[0xcc; 20]);
    out
}

/// topological levels of a dag (parents have smaller indices)
fn levels(d: &[Cm]) -> Vec<u32> {
    let mut g: Vec<u32> = Vec::new();
    for c in d {
        let m = c.parents.iter().map(|p| g[*p as usize]).max().unwrap_or(0);
        g.push(m + 1);
    }
    g
}

/// dag + layers -> file specs (generator's own transcription of the format)
fn specs_of(d: &[Cm], k: usize) -> Vec<FileSpec> {
    let lv = levels(d);
    let mut layers: Vec<Vec<usize>> = vec![Vec::new(); k];
    for (i, c) in d.iter().enumerate() {
        layers[c.layer as usize].push(i);
    }
    for l in layers.iter_mut() {
        l.sort_by(|a, b| d[*a].id.cmp(&d[*b].id));
    }
    let mut pos = vec![0u32; d.len()];
    let mut p = 0;
    for l in &layers {
        for i in l {
            pos[*i] = p;
            p += 1;
        }
    }
    let mut out = Vec::new();
    for (j, l) in layers.iter().enumerate() {
        let mut edges: Vec<u32> = Vec::new();
        let mut recs = Vec::new();
        for i in l {
            let c = &d[*i];
            let ps: Vec<u32> = c.parents.iter().map(|p| pos[*p as usize]).collect();
            let (p1, p2) = match ps.len() {
                0 => (NO_PARENT, NO_PARENT),
                1 => (ps[0], NO_PARENT),
                2 => (ps[0], ps[1]),
                _ => {
                    let idx = edges.len() as u32;
                    for (n, q) in ps[1..].iter().enumerate() {
                        edges.push(if n + 2 == ps.len() { *q | HIGH } else { *q });
                    }
                    (ps[0], HIGH | idx)
                }
            };
            recs.push(Rec { id: c.id.clone(), tree: c.tree.clone(), p1, p2, gen: lv[*i], time: c.time });
        }
        out.push(FileSpec {
            recs,
            edges: edges.iter().flat_map(|e| e.to_be_bytes()).collect(),
            nbase: j,
            extra: vec![],
            fan_override: None,
            order: vec![],
        });
    }
    out
}

// ---------------------------------------------------------------------------------------------------
// generators
fn gen_id(rng: &mut Rng, pool: &mut Vec<Vec<u8>>) -> Vec<u8> {
    // ids that collide in their first bytes: small first-byte alphabet, shared prefixes
    let mut id = if !pool.is_empty() && rng.chance(1, 3) {
        let mut b = rng.pick(pool).clone();
        let keep = rng.range(1, 19) as usize;
        for x in b.iter_mut().skip(keep) {
            *x = rng.next() as u8;
        }
        b
    } else {
        let mut b = rng.bytes(20);
        if rng.chance(2, 3) {
            b[0] = *rng.pick(&[0x00, 0x00, 0x01, 0x7f, 0x80, 0xfe, 0xff, 0xff]);
        }
        b
    };
    while pool.contains(&id) {
        id[19] = id[19].wrapping_add(1);
        if rng.chance(1, 2) {
            id[18] = rng.next() as u8;
        }
    }
    pool.push(id.clone());
    id
}

fn gen_time(rng: &mut Rng) -> u64 {
    match rng.below(10) {
        0 => *rng.pick(&[0, 1, (1 << 32) - 1, 1 << 32, (1 << 32) + 1, (1 << 33) + 5, TIME_MOD - 1, TIME_MOD - 2]),
        1 => rng.next() % TIME_MOD,
        2 => (1u64 << 32) + rng.below(1000),
        _ => 1_600_000_000 + rng.below(100_000),
    }
}

/// random dag: n commits in topological order, layers by prefix cuts. `real` = ids are the SHA-1 of
/// real commit objects.
fn gen_dag(rng: &mut Rng, n: usize, k: usize, real: bool) -> Vec<Cm> {
    let mut pool = Vec::new();
    let mut trees: Vec<Vec<u8>> = (0..3).map(|_| rng.bytes(20)).collect();
    trees.push(vec![0x11; 20]);
    let mut d: Vec<Cm> = Vec::new();
    // layer cut points
    let mut cuts: Vec<usize> = Vec::new();
    while cuts.len() + 1 < k {
        let c = rng.range(1, (n - 1) as i64) as usize;
        if !cuts.contains(&c) {
            cuts.push(c);
        }
    }
    cuts.sort();
    let octo = rng.chance(1, 2);
    for i in 0..n {
        let layer = cuts.iter().filter(|c| **c <= i).count() as u8;
        let np0 = if i == 0 {
            0
        } else {
            match rng.below(12) {
                0 | 1 => 0,
                2..=5 => 1,
                6..=8 => 2,
                _ => {
                    if octo {
                        rng.range(3, 7) as usize
                    } else {
                        rng.range(1, 2) as usize
                    }
                }
            }
        };
        let np = np0.min(i);
        let mut parents: Vec<u8> = Vec::new();
        while parents.len() < np {
            // prefer recent commits, sometimes reach far back (across layers)
            let p = if rng.chance(2, 3) { i - 1 - (rng.below(3.min(i as u64)) as usize) } else { rng.below(i as u64) as usize };
            if !parents.contains(&(p as u8)) {
                parents.push(p as u8);
            }
        }
        let tree = if rng.chance(1, 2) { rng.pick(&trees).clone() } else { rng.bytes(20) };
        let mut c = Cm { id: vec![], tree, time: gen_time(rng), layer, parents };
        d.push(c.clone());
        c.id = if real {
            gix_object::compute_hash(gix_hash::Kind::Sha1, gix_object::Kind::Commit, &commit_object(&d, i))
                .as_bytes()
                .to_vec()
        } else {
            gen_id(rng, &mut pool)
        };
        d[i] = c;
    }
    d
}

fn queries_for(rng: &mut Rng, ids: &[Vec<u8>], all: bool) -> Vec<u8> {
    let mut q: Vec<u8> = Vec::new();
    for id in ids {
        if all || rng.chance(2, 3) {
            q.extend_from_slice(id);
        }
    }
    let extra = rng.range(1, 4);
    for _ in 0..extra {
        // near misses: an existing id with the last / first byte changed, or random
        let mut id = if !ids.is_empty() && rng.chance(2, 3) { rng.pick(ids).clone() } else { rng.bytes(20) };
        if id.len() != 20 {
            id = rng.bytes(20);
        }
        match rng.below(4) {
            0 => id[19] ^= 1,
            1 => id[0] = id[0].wrapping_add(1),
            2 => id[rng.below(20) as usize] ^= 0x80,
            _ => {}
        }
        q.extend_from_slice(&id);
    }
    q
}

fn graph_case(files: &[Vec<u8>], q: Vec<u8>, dag: Option<(&[Cm], &str)>) -> Case {
    let mut c = vec![tag("graph"), num(files.len())];
    for f in files {
        c.push(f.clone());
    }
    c.push(q);
    if let Some((d, flags)) = dag {
        c.push(dag_field(d));
        c.push(tag(flags));
    }
    c
}

fn mutate_bytes(rng: &mut Rng, f: &mut Vec<u8>) {
    if f.len() < 8 {
        // nothing structured left to damage (an earlier mutation truncated the header)
        f.extend(rng.bytes(3));
        return;
    }
    match rng.below(9) {
        0 => {
            // header / table of contents
            let i = rng.below(100.min(f.len() as u64)) as usize;
            f[i] = rng.next() as u8;
        }
        1 => {
            let i = rng.below(100.min(f.len() as u64)) as usize;
            f[i] ^= 1 << rng.below(8);
        }
        2 => {
            let i = rng.below(f.len() as u64) as usize;
            f[i] = rng.next() as u8;
        }
        3 => {
            let n = rng.below(f.len() as u64 + 1) as usize;
            f.truncate(n);
        }
        4 => {
            let n = f.len() - rng.range(1, 24).min(f.len() as i64) as usize;
            f.truncate(n);
        }
        5 => {
            let extra = rng.range(1, 24) as usize;
            f.extend(rng.bytes(extra));
        }
        6 => {
            // an offset field of the table of contents: extreme values
            let nchunks = f[6] as usize;
            let e = rng.below(nchunks as u64 + 1) as usize;
            let at = 8 + 12 * e + 4;
            if at + 8 <= f.len() {
                let v: u64 = match rng.below(5) {
                    0 => 0,
                    1 => f.len() as u64,
                    2 => f.len() as u64 + 1,
                    3 => u64::MAX,
                    _ => u64::from_be_bytes(f[at..at + 8].try_into().unwrap()).wrapping_add(rng.range(-40, 40) as u64),
                };
                f[at..at + 8].copy_from_slice(&v.to_be_bytes());
            }
        }
        7 => {
            // chunk id replaced: duplicate of another, sentinel, unknown
            let nchunks = f[6] as usize;
            let e = rng.below(nchunks as u64 + 1) as usize;
            let at = 8 + 12 * e;
            if at + 4 <= f.len() {
                let id: [u8; 4] = *rng.pick(&[*b"OIDF", *b"OIDL", *b"CDAT", *b"EDGE", *b"BASE", [0; 4], *b"XXXX"]);
                f[at..at + 4].copy_from_slice(&id);
            }
        }
        _ => {
            // chunk count / base count / version bytes
            let i = rng.range(4, 7) as usize;
            f[i] = *rng.pick(&[0u8, 1, 2, 3, 4, 5, 6, 7, 255]);
        }
    }
}

fn gen(rng: &mut Rng, n: usize) -> Vec<Case> {
    let mut out: Vec<Case> = Vec::new();
    // ---- real-git cases first (arrow B looks at the first cases)
    let ngit = if n >= 20000 { 1200.min(n / 40) } else { (n / 20).clamp(1, 125) };
    for gi in 0..ngit {
        let k = if gi < 8 { 1 + gi % 4 } else { *rng.pick(&[1, 1, 2, 2, 3, 4]) as usize };
        let ncom0 = if gi < 4 { k } else { rng.range(k as i64, 14) as usize };
        let ncom = ncom0.max(if k > 1 { k + 1 } else { 1 });
        let d = gen_dag(rng, ncom, k, true);
        let ids: Vec<Vec<u8>> = d.iter().map(|c| c.id.clone()).collect();
        let q = queries_for(rng, &ids, true);
        let mode = match (k, rng.below(4)) {
            (1, 0) => "single-v1",
            (1, 1) => "single-v2",
            (_, 2) => "split-v1",
            _ => "split-v2",
        };
        out.push(vec![tag("git"), dag_field(&d), num(k), q, tag(mode)]);
    }
    // ---- boundary block for the reader: tiny graphs, every parent-count 0..=5, chain lengths 1..=4
    for np in 0..=5usize {
        for k in 1..=2usize {
            let mut pool = Vec::new();
            let mut d: Vec<Cm> = Vec::new();
            for i in 0..(np + 1) {
                let parents = if i == np { (0..np as u8).collect() } else { vec![] };
                d.push(Cm {
                    id: gen_id(rng, &mut pool),
                    tree: rng.bytes(20),
                    time: gen_time(rng),
                    layer: if k == 2 && i == np && np > 0 { 1 } else { 0 },
                    parents,
                });
            }
            let kk = if np == 0 { 1 } else { k };
            let files: Vec<Vec<u8>> = specs_of(&d, kk).iter().map(write_file).collect();
            let ids: Vec<Vec<u8>> = d.iter().map(|c| c.id.clone()).collect();
            out.push(graph_case(&files, queries_for(rng, &ids, true), Some((&d, "g"))));
        }
    }
    while out.len() < n {
        let k = *rng.pick(&[1usize, 1, 2, 2, 3, 4]);
        let hi = if rng.chance(1, 10) { 40 } else { 12 };
        let ncom = rng.range(k.max(2) as i64 + (k > 1) as i64, hi) as usize;
        let d = gen_dag(rng, ncom, k, false);
        let ids: Vec<Vec<u8>> = d.iter().map(|c| c.id.clone()).collect();
        let mut specs = specs_of(&d, k);
        let allq = rng.chance(1, 2);
        let q = queries_for(rng, &ids, allq);
        match rng.below(26) {
            0..=11 => {
                // valid, git's layout
                let files: Vec<Vec<u8>> = specs.iter().map(write_file).collect();
                out.push(graph_case(&files, q, Some((&d, "g"))));
            }
            12..=15 => {
                // valid, with chunks gitoxide does not know (GDA2, GDO2, BIDX, BDAT) and/or another chunk order
                for s in specs.iter_mut() {
                    let mut nchunks = 3 + (!s.edges.is_empty()) as usize + (s.nbase > 0) as usize;
                    for name in [&b"GDA2"[..], b"GDO2", b"BIDX", b"BDAT"] {
                        if rng.chance(1, 2) {
                            let len = if name == b"GDA2" { 4 * s.recs.len() } else { rng.range(0, 9) as usize };
                            let at = rng.below(nchunks as u64 + 1) as usize;
                            s.extra.push((name.to_vec(), rng.bytes(len), at));
                            nchunks += 1;
                        }
                    }
                    if rng.chance(1, 2) {
                        let mut o: Vec<usize> = (0..nchunks).collect();
                        for i in (1..o.len()).rev() {
                            o.swap(i, rng.below(i as u64 + 1) as usize);
                        }
                        s.order = o;
                    }
                }
                let files: Vec<Vec<u8>> = specs.iter().map(write_file).collect();
                out.push(graph_case(&files, q, Some((&d, "g"))));
            }
            16..=18 => {
                // valid records with arbitrary generation numbers / times (no generation check in prop)
                for s in specs.iter_mut() {
                    for r in s.recs.iter_mut() {
                        if rng.chance(1, 2) {
                            r.gen = *rng.pick(&[0u32, 1, 2, 0x3fff_fffe, 0x3fff_ffff, 0x2000_0000, 12345]);
                        }
                    }
                }
                let files: Vec<Vec<u8>> = specs.iter().map(write_file).collect();
                out.push(graph_case(&files, q, Some((&d, "-"))));
            }
            19 | 20 => {
                // record-level malformations: parent words, extra edge list
                let fi = rng.below(specs.len() as u64) as usize;
                let s = &mut specs[fi];
                let ri = rng.below(s.recs.len() as u64) as usize;
                match rng.below(8) {
                    0 => s.recs[ri].p1 = NO_PARENT,
                    1 => s.recs[ri].p1 = HIGH | rng.below(4) as u32,
                    2 => s.recs[ri].p2 = HIGH | rng.below(12) as u32,
                    3 => s.recs[ri].p2 = *rng.pick(&[NO_PARENT - 1, NO_PARENT + 1, HIGH - 1, HIGH, u32::MAX, 0]),
                    4 => {
                        // the last-edge mark removed: iteration runs on
                        for b in s.edges.chunks_mut(4) {
                            if rng.chance(1, 2) {
                                b[0] &= 0x7f;
                            }
                        }
                    }
                    5 => {
                        let cut = rng.range(1, 3) as usize;
                        let l = s.edges.len().saturating_sub(cut);
                        s.edges.truncate(l);
                    }
                    6 => {
                        let l = rng.range(1, 7) as usize;
                        s.edges.extend(rng.bytes(l))
                    }
                    _ => {
                        s.recs[ri].p2 = HIGH | rng.below(3) as u32;
                        let l = *rng.pick(&[0usize, 1, 3, 4, 5, 8, 9]);
                        s.edges = rng.bytes(l);
                        for b in s.edges.chunks_mut(4) {
                            b[0] &= 0x7f;
                        }
                    }
                }
                let files: Vec<Vec<u8>> = specs.iter().map(write_file).collect();
                out.push(graph_case(&files, q, None));
            }
            21 => {
                // fan-out malformations (not monotonic, beyond the count, huge)
                let fi = rng.below(specs.len() as u64) as usize;
                let nrec = specs[fi].recs.len() as u32;
                let i = if rng.chance(1, 3) { 255 } else { rng.below(256) as usize };
                let v = *rng.pick(&[0u32, 1, nrec, nrec + 1, nrec.wrapping_sub(1), 0x7fff_ffff, 0x8000_0000, 0xffff_fffe, u32::MAX]);
                specs[fi].fan_override = Some((i, v));
                // queries that hit the changed bucket
                let mut q = q;
                for _ in 0..3 {
                    let mut id = rng.bytes(20);
                    id[0] = (i as u8).wrapping_add(rng.below(2) as u8);
                    q.extend(id);
                }
                let files: Vec<Vec<u8>> = specs.iter().map(write_file).collect();
                out.push(graph_case(&files, q, None));
            }
            22 => {
                // the same commit in two files / unsorted ids: first file wins, bisection may miss
                let mut specs = specs;
                if specs.len() > 1 && rng.chance(1, 2) {
                    let r = specs[0].recs[0].clone();
                    let last = specs.len() - 1;
                    specs[last].recs.push(r);
                    specs[last].recs.sort_by(|a, b| a.id.cmp(&b.id));
                } else {
                    let s = &mut specs[0];
                    let a = rng.below(s.recs.len() as u64) as usize;
                    let b = rng.below(s.recs.len() as u64) as usize;
                    s.recs.swap(a, b);
                }
                let files: Vec<Vec<u8>> = specs.iter().map(write_file).collect();
                out.push(graph_case(&files, q, None));
            }
            _ => {
                // byte-level malformations
                let mut files: Vec<Vec<u8>> = specs.iter().map(write_file).collect();
                let fi = rng.below(files.len() as u64) as usize;
                let times = rng.range(1, 2);
                for _ in 0..times {
                    mutate_bytes(rng, &mut files[fi]);
                }
                out.push(graph_case(&files, q, None));
            }
        }
    }
    out.truncate(n.max(1));
    out
}

// ---------------------------------------------------------------------------------------------------
// scratch directories
static COUNTER: AtomicU64 = AtomicU64::new(0);
struct Scratch(PathBuf);
impl Scratch {
    fn new() -> Scratch {
        let p = std::env::temp_dir().join(format!(
            "gixv-c14-{}-{}",
            std::process::id(),
            COUNTER.fetch_add(1, Ordering::SeqCst)
        ));
        let _ = std::fs::remove_dir_all(&p);
        std::fs::create_dir_all(&p).expect("scratch dir");
        Scratch(p)
    }
}
impl Drop for Scratch {
    fn drop(&mut self) {
        let _ = std::fs::remove_dir_all(&self.0);
    }
}

// ---------------------------------------------------------------------------------------------------
// transcript of the reader
fn file_err(e: &gix_commitgraph::file::Error) -> String {
    use gix_chunk::file::decode::Error as D;
    use gix_commitgraph::file::Error as E;
    fn cid(id: &[u8; 4]) -> String {
        String::from_utf8_lossy(id).into_owned()
    }
    match e {
        E::Corrupt(m) if m.contains("too small") => "Corrupt:small".into(),
        E::Corrupt(_) => "Corrupt:signature".into(),
        E::UnsupportedVersion(_) => "UnsupportedVersion".into(),
        E::UnsupportedHashVersion(_) => "UnsupportedHashVersion".into(),
        E::ChunkFileDecode(d) => format!(
            "Chunk:{}",
            match d {
                D::EarlySentinelValue => "EarlySentinelValue",
                D::MissingSentinelValue { .. } => "MissingSentinelValue",
                D::ChunkSizeOutOfBounds { .. } => "ChunkSizeOutOfBounds",
                D::NonIncrementalChunkOffsets => "NonIncrementalChunkOffsets",
                D::DuplicateChunk { .. } => "DuplicateChunk",
                D::TocTooSmall { .. } => "TocTooSmall",
                D::Empty => "Empty",
            }
        ),
        E::InvalidChunkSize { id, .. } => format!("InvalidChunkSize:{}", cid(id)),
        E::BaseGraphMismatch { .. } => "BaseGraphMismatch".into(),
        E::MissingChunk(k) => format!("MissingChunk:{}", cid(&k.kind)),
        E::Trailer(_) => "Trailer".into(),
        E::CommitCountMismatch { chunk2_id, .. } => format!("CommitCountMismatch:{}", cid(chunk2_id)),
        E::Io { .. } => "Io".into(),
    }
}

fn parent_err(e: &gix_commitgraph::file::commit::Error) -> &'static str {
    use gix_commitgraph::file::commit::Error as E;
    match e {
        E::ExtraEdgesListOverflow(_) => "ExtraEdgesListOverflow",
        E::FirstParentIsExtraEdgeIndex(_) => "FirstParentIsExtraEdgeIndex",
        E::MissingExtraEdgesList(_) => "MissingExtraEdgesList",
        E::SecondParentWithoutFirstParent(_) => "SecondParentWithoutFirstParent",
    }
}

fn show_graph(g: &Graph, queries: &[u8]) -> String {
    let n = g.num_commits();
    let mut s = format!("n={n}");
    for p in 0..n {
        let id = g.id_at(Position(p));
        let c = g.commit_at(Position(p));
        let mut ps: Vec<String> = Vec::new();
        let mut err = String::new();
        for r in c.iter_parents() {
            match r {
                Ok(pos) => ps.push(pos.0.to_string()),
                Err(e) => err = format!("!{}", parent_err(&e)),
            }
        }
        s.push_str(&format!(
            " |{} {} g{} t{} p{}{}",
            hexs(id.as_bytes()),
            hexs(c.root_tree_id().as_bytes()),
            c.generation(),
            c.committer_timestamp(),
            ps.join(","),
            err
        ));
    }
    for q in queries.chunks_exact(20) {
        let id = gix_hash::ObjectId::from_bytes_or_panic(q);
        s.push_str(" ?");
        match g.lookup(id) {
            None => s.push_str("none"),
            Some(p) => s.push_str(&p.0.to_string()),
        }
        match g.commit_by_id(id) {
            None => s.push_str("/none"),
            Some(c) => s.push_str(&format!("/{}/{}", c.position().0, hexs(c.root_tree_id().as_bytes()))),
        }
    }
    s
}

/// write the files of a `graph` case into a scratch dir and open them one by one
fn open_graph_case(c: &Case, dir: &Path) -> Result<Graph, String> {
    let k = f_u64(c, 1) as usize;
    let mut files = Vec::new();
    for i in 0..k {
        let p = dir.join(format!("f{i}.graph"));
        std::fs::write(&p, f_str(c, 2 + i)).expect("write graph file");
        match File::at(&p) {
            Ok(f) => files.push(f),
            Err(e) => return Err(format!("file{} err {}", i, file_err(&e))),
        }
    }
    match Graph::new(files) {
        Ok(g) => Ok(g),
        Err(gix_commitgraph::init::Error::TooManyCommits(_)) => Err("err TooManyCommits".into()),
        Err(_) => Err("err other".into()),
    }
}

// ---------------------------------------------------------------------------------------------------
// real git
fn git(dir: &Path, args: &[&str], stdin: &[u8]) -> Result<Vec<u8>, String> {
    let mut ch = Command::new("git")
        .args(args)
        .env("GIT_DIR", dir)
        .env("GIT_CONFIG_NOSYSTEM", "1")
        .env("GIT_CONFIG_GLOBAL", "/dev/null")
        .env("HOME", dir)
        .env_remove("GIT_WORK_TREE")
        .stdin(Stdio::piped())
        .stdout(Stdio::piped())
        .stderr(Stdio::piped())
        .spawn()
        .map_err(|e| format!("spawn git: {e}"))?;
    ch.stdin.take().unwrap().write_all(stdin).map_err(|e| e.to_string())?;
    let o = ch.wait_with_output().map_err(|e| e.to_string())?;
    if !o.status.success() {
        return Err(format!("git {:?}: {}", args, String::from_utf8_lossy(&o.stderr)));
    }
    Ok(o.stdout)
}

/// bare repository with the dag's commits as loose objects and the commit-graph written by git, layer by layer
fn build_git_repo(c: &Case, dir: &Path) -> Result<Vec<Cm>, String> {
    let d = parse_dag(f_str(c, 1));
    let k = f_u64(c, 2) as usize;
    let mode = String::from_utf8_lossy(f_str(c, 4)).into_owned();
    std::fs::create_dir_all(dir.join("objects/info")).map_err(|e| e.to_string())?;
    std::fs::create_dir_all(dir.join("refs")).map_err(|e| e.to_string())?;
    std::fs::write(dir.join("HEAD"), "ref: refs/heads/main\n").map_err(|e| e.to_string())?;
    let store = gix_odb::loose::Store::at(dir.join("objects"), gix_hash::Kind::Sha1);
    for i in 0..d.len() {
        let id = store
            .write_buf(gix_object::Kind::Commit, &commit_object(&d, i))
            .map_err(|e| e.to_string())?;
        if id.as_bytes() != d[i].id.as_slice() {
            return Err(format!("commit {i}: id in the case is not the id of the commit object"));
        }
    }
    let genv = if mode.ends_with("v1") { "commitGraph.generationVersion=1" } else { "commitGraph.generationVersion=2" };
    for j in 0..k {
        let mut input = String::new();
        for cm in d.iter().filter(|cm| (cm.layer as usize) <= j) {
            input.push_str(&hexs(&cm.id));
            input.push('\n');
        }
        if mode.starts_with("single") {
            git(dir, &["-c", genv, "commit-graph", "write", "--stdin-commits"], input.as_bytes())?;
        } else {
            git(dir, &["-c", genv, "commit-graph", "write", "--split=no-merge", "--stdin-commits"], input.as_bytes())?;
        }
    }
    Ok(d)
}

fn imp(c: &Case) -> String {
    let sc = Scratch::new();
    match f_str(c, 0) {
        b"graph" => {
            let k = f_u64(c, 1) as usize;
            match open_graph_case(c, &sc.0) {
                Ok(g) => show_graph(&g, f_str(c, 2 + k)),
                Err(e) => e,
            }
        }
        b"git" => {
            if let Err(e) = build_git_repo(c, &sc.0) {
                return format!("setup-failed {e}");
            }
            match Graph::from_info_dir(&sc.0.join("objects/info")) {
                Ok(g) => show_graph(&g, f_str(c, 3)),
                Err(e) => format!("open-failed {e}"),
            }
        }
        _ => "?".into(),
    }
}

// ---------------------------------------------------------------------------------------------------
// the property itself
struct Want {
    tree: Vec<u8>,
    parents: Vec<Vec<u8>>,
    time: u64,
}

fn check_graph(g: &Graph, want: &HashMap<Vec<u8>, Want>, check_gen: bool, absent: &[Vec<u8>]) -> Result<(), (String, String)> {
    let f = |c: &str, d: String| Err((c.to_string(), d));
    if g.num_commits() as usize != want.len() {
        return f("commit-count", format!("graph has {} commits, history has {}", g.num_commits(), want.len()));
    }
    let mut gens: HashMap<Vec<u8>, u32> = HashMap::new();
    for (id, w) in want {
        let oid = gix_hash::ObjectId::from_bytes_or_panic(id);
        let Some(pos) = g.lookup(oid) else {
            return f("commit-not-found", hexs(id));
        };
        if g.id_at(pos).as_bytes() != id.as_slice() {
            return f("lookup-wrong-position", hexs(id));
        }
        let Some(c) = g.commit_by_id(oid) else {
            return f("commit-not-found", hexs(id));
        };
        if c.id().as_bytes() != id.as_slice() || g.commit_at(pos).id() != c.id() {
            return f("lookup-wrong-position", hexs(id));
        }
        if c.root_tree_id().as_bytes() != w.tree.as_slice() {
            return f("tree-differs", format!("{} tree {} want {}", hexs(id), hexs(c.root_tree_id().as_bytes()), hexs(&w.tree)));
        }
        if c.committer_timestamp() != w.time {
            return f("time-differs", format!("{} time {} want {}", hexs(id), c.committer_timestamp(), w.time));
        }
        let mut ps: Vec<Vec<u8>> = Vec::new();
        for r in c.iter_parents() {
            match r {
                Ok(p) => {
                    if p.0 >= g.num_commits() {
                        return f("parent-position-out-of-range", format!("{} parent pos {}", hexs(id), p.0));
                    }
                    ps.push(g.id_at(p).as_bytes().to_vec());
                }
                Err(e) => return f("parents-error", format!("{} {}", hexs(id), parent_err(&e))),
            }
        }
        if ps != w.parents {
            return f(
                "parents-differ",
                format!(
                    "{} parents [{}] want [{}]",
                    hexs(id),
                    ps.iter().map(|p| hexs(p)).collect::<Vec<_>>().join(","),
                    w.parents.iter().map(|p| hexs(p)).collect::<Vec<_>>().join(",")
                ),
            );
        }
        if c.parent1().ok().flatten().map(|p| g.id_at(p).as_bytes().to_vec()) != w.parents.first().cloned() {
            return f("parents-differ", format!("{} parent1()", hexs(id)));
        }
        gens.insert(id.clone(), c.generation());
    }
    if check_gen {
        for (id, w) in want {
            let m = w.parents.iter().map(|p| gens.get(p).copied().unwrap_or(u32::MAX - 1)).max().unwrap_or(0);
            if gens[id] != m + 1 {
                return f("generation-inconsistent", format!("{} generation {} parents' max {}", hexs(id), gens[id], m));
            }
        }
    }
    // every id the graph enumerates is a commit of the history
    for id in g.iter_ids() {
        if !want.contains_key(id.as_bytes()) {
            return f("unknown-commit-in-graph", hexs(id.as_bytes()));
        }
    }
    for a in absent {
        if !want.contains_key(a) && g.lookup(gix_hash::ObjectId::from_bytes_or_panic(a)).is_some() {
            return f("absent-id-found", hexs(a));
        }
    }
    Ok(())
}

fn want_of_dag(d: &[Cm]) -> HashMap<Vec<u8>, Want> {
    d.iter()
        .map(|c| {
            (
                c.id.clone(),
                Want {
                    tree: c.tree.clone(),
                    parents: c.parents.iter().map(|p| d[*p as usize].id.clone()).collect(),
                    time: c.time,
                },
            )
        })
        .collect()
}

fn class_of(d: &[Cm], k: usize) -> String {
    let maxp = d.iter().map(|c| c.parents.len()).max().unwrap_or(0);
    let cross = d.iter().any(|c| c.parents.iter().any(|p| d[*p as usize].layer != c.layer));
    format!(
        "{}{}{}",
        match maxp {
            0 => "roots",
            1 => "linear",
            2 => "merge",
            _ => "octopus",
        },
        if k > 1 { format!("-chain{k}") } else { String::new() },
        if cross { "-cross" } else { "" }
    )
}

fn prop(c: &Case) -> Verdict {
    let sc = Scratch::new();
    match f_str(c, 0) {
        b"graph" => {
            let k = f_u64(c, 1) as usize;
            if c.len() < 5 + k {
                return Verdict::ok(false, "malformed-or-unchecked");
            }
            let d = parse_dag(f_str(c, 3 + k));
            let check_gen = f_str(c, 4 + k) == b"g";
            let absent: Vec<Vec<u8>> = f_str(c, 2 + k).chunks_exact(20).map(|q| q.to_vec()).collect();
            match open_graph_case(c, &sc.0) {
                Err(e) => Verdict::fail("valid-graph-rejected", e),
                Ok(g) => match check_graph(&g, &want_of_dag(&d), check_gen, &absent) {
                    Ok(()) => Verdict::ok(true, format!("w-{}", class_of(&d, k))),
                    Err((cl, de)) => Verdict::fail(cl, de),
                },
            }
        }
        b"git" => {
            let d = match build_git_repo(c, &sc.0) {
                Ok(d) => d,
                Err(e) => return Verdict::fail("git-setup-failed", e),
            };
            let k = f_u64(c, 2) as usize;
            // the oracle: the commit objects as real git reads them (commit-graph switched off)
            let mut input = String::new();
            for cm in &d {
                input.push_str(&hexs(&cm.id));
                input.push('\n');
            }
            let out = match git(
                &sc.0,
                &["-c", "core.commitGraph=false", "log", "--no-walk=unsorted", "--stdin", "--format=%H %T %ct %P"],
                input.as_bytes(),
            ) {
                Ok(o) => o,
                Err(e) => return Verdict::fail("git-setup-failed", e),
            };
            let mut want: HashMap<Vec<u8>, Want> = HashMap::new();
            for line in String::from_utf8_lossy(&out).lines() {
                let mut it = line.split(' ').filter(|s| !s.is_empty());
                let (Some(h), Some(t), Some(ct)) = (it.next(), it.next(), it.next()) else {
                    return Verdict::fail("git-setup-failed", format!("git log line {line:?}"));
                };
                want.insert(
                    unhex(h),
                    Want { tree: unhex(t), parents: it.map(unhex).collect(), time: ct.parse().unwrap_or(u64::MAX) },
                );
            }
            if want.len() != d.len() {
                return Verdict::fail("git-setup-failed", format!("git log printed {} of {} commits", want.len(), d.len()));
            }
            let overflow = want.values().any(|w| w.time >= TIME_MOD);
            if overflow {
                // the format stores 34 bits of the commit time
                for w in want.values_mut() {
                    w.time %= TIME_MOD;
                }
            }
            let absent: Vec<Vec<u8>> = f_str(c, 3).chunks_exact(20).map(|q| q.to_vec()).collect();
            let g = match Graph::from_info_dir(&sc.0.join("objects/info")) {
                Ok(g) => g,
                Err(e) => return Verdict::fail("git-graph-rejected", e.to_string()),
            };
            // also through the generic entry point
            match Graph::at(&sc.0.join("objects/info")) {
                Ok(g2) if g2.num_commits() == g.num_commits() => {}
                _ => return Verdict::fail("git-graph-rejected", "Graph::at differs from from_info_dir"),
            }
            match check_graph(&g, &want, true, &absent) {
                Ok(()) => Verdict::ok(!overflow, format!("git-{}", class_of(&d, k))),
                Err((cl, de)) => Verdict::fail(cl, de),
            }
        }
        _ => Verdict::ok(false, "?"),
    }
}

// ---------------------------------------------------------------------------------------------------
// arrow B: the chunks gitoxide reads, from git's files (compared with the Spec writer's)
fn chunk_dump(data: &[u8]) -> String {
    let n = data[6] as usize;
    let mut toc: Vec<([u8; 4], usize, usize)> = Vec::new();
    for i in 0..n {
        let at = 8 + 12 * i;
        let id: [u8; 4] = data[at..at + 4].try_into().unwrap();
        let s = u64::from_be_bytes(data[at + 4..at + 12].try_into().unwrap()) as usize;
        let e = u64::from_be_bytes(data[at + 16..at + 24].try_into().unwrap()) as usize;
        toc.push((id, s, e));
    }
    let find = |k: &[u8; 4]| match toc.iter().find(|t| &t.0 == k) {
        Some((_, s, e)) => hexs(&data[*s..*e]),
        None => "-".into(),
    };
    format!(
        " [base={} OIDF={} OIDL={} CDAT={} EDGE={}]",
        data[7],
        find(b"OIDF"),
        find(b"OIDL"),
        find(b"CDAT"),
        find(b"EDGE")
    )
}

fn git_fn(c: &Case) -> String {
    if f_str(c, 0) != b"git" {
        return "-".into();
    }
    let sc = Scratch::new();
    if let Err(e) = build_git_repo(c, &sc.0) {
        return format!("setup-failed {e}");
    }
    let info = sc.0.join("objects/info");
    let mut paths: Vec<PathBuf> = Vec::new();
    if info.join("commit-graph").is_file() {
        paths.push(info.join("commit-graph"));
    } else {
        let chain = std::fs::read_to_string(info.join("commit-graphs/commit-graph-chain")).unwrap_or_default();
        for h in chain.lines() {
            paths.push(info.join(format!("commit-graphs/graph-{h}.graph")));
        }
    }
    let mut s = format!("files={}", paths.len());
    for p in paths {
        match std::fs::read(&p) {
            Ok(d) if d.len() > 32 => s.push_str(&chunk_dump(&d)),
            _ => s.push_str(" [unreadable]"),
        }
    }
    s
}

fn main() {
    main_with(Harness { gen, imp, prop, git: Some(git_fn), deadline: std::time::Duration::from_secs(300) });
}
