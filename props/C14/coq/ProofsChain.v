(* C14 — chain level: a Graph over files that hold the layers' tables reads, at graph position
   (commits in lower layers + index in the layer), the record written there, and finds every id. *)
From Coq Require Import Lia ZifyBool ZifyNat ZifyN Sorted.
From GixV.Base Require Import Bytes BytesFacts Outcome.
From GixV.C14 Require Import Model Spec ProofsBisect ProofsOrder ProofsLookup ProofsRecord ProofsFile ProofsGraph.
Ltac Zify.zify_post_hook ::= Z.div_mod_to_equations.
Local Open Scope N_scope.

Definition layer_ok (rs : list rec) : Prop :=
  Forall rec_ok rs /\ sorted_ids (map r_id rs) /\ N.of_nat (length rs) <= HIGH_BIT /\
  N.of_nat (length (snd (cdat_edges rs []))) < HIGH_BIT.

Definition commits_in (layers : list (list rec)) : N := N.of_nat (length (concat layers)).

Lemma commits_in_cons rs l : commits_in (rs :: l) = N.of_nat (length rs) + commits_in l.
Proof. unfold commits_in. cbn [concat]. rewrite app_length. lia. Qed.

Lemma total_of_holds : forall pre lpre, Forall2 file_holds pre lpre -> Forall layer_ok lpre ->
  total_commits pre = commits_in lpre.
Proof.
  induction 1 as [|f rs pre lpre Hf _ IH]; intros Hok; [reflexivity|].
  inversion Hok as [|? ? [H1 [H2 [H3 H4]]] Hr]; subst.
  rewrite total_commits_cons, commits_in_cons, IH by exact Hr.
  rewrite (L_num_commits f rs Hf H1 H3 H4). reflexivity.
Qed.

Lemma pre_lookup_none : forall pre lpre, Forall2 file_holds pre lpre -> Forall layer_ok lpre ->
  forall id, ~ In id (map r_id (concat lpre)) ->
  forall f', In f' pre -> file_lookup f' id = Ok None.
Proof.
  induction 1 as [|f0 rs0 pre0 lpre0 H0 HF IH]; intros Hokpre id Hni f' Hin; [destruct Hin|].
  inversion Hokpre as [|? ? [H1 [H2 [H3 H4]]] Hr]; subst.
  cbn [concat] in Hni. rewrite map_app, in_app_iff in Hni.
  destruct Hin as [<-|Hin].
  - destruct (L_file_lookup f0 rs0 H0 H1 H2 H3 H4 id) as [res [Hres Hs]].
    destruct res as [m|]; [|exact Hres].
    exfalso. apply Hni. left. destruct Hs as [Hm <-]. apply in_map, nth_In. exact Hm.
  - apply (IH Hr id); [tauto|exact Hin].
Qed.

Section Chain.
  Variables (pre post : list file) (f : file).
  Variables (lpre : list (list rec)) (rs : list rec).
  Hypothesis Hpre : Forall2 file_holds pre lpre.
  Hypothesis Hf : file_holds f rs.
  Hypothesis Hokpre : Forall layer_ok lpre.
  Hypothesis Hok : layer_ok rs.
  Let g := pre ++ f :: post.

  (* position of record i of this layer in the whole graph *)
  Definition gpos (i : nat) : N := commits_in lpre + N.of_nat i.

  Lemma L_chain_pos : forall i, (i < length rs)%nat -> lookup_by_pos g (gpos i) = Ok (f, N.of_nat i).
  Proof.
    intros i Hi. unfold g, gpos. rewrite <- (total_of_holds pre lpre Hpre Hokpre).
    apply L_lookup_by_pos. destruct Hok as [H1 [H2 [H3 H4]]]. rewrite (L_num_commits f rs Hf H1 H3 H4). lia.
  Qed.

  Lemma L_chain_commit : forall i, (i < length rs)%nat ->
    let r := nth i rs dummy_rec in
    graph_id_at g (gpos i) = Ok (r_id r) /\
    exists c, graph_commit_at g (gpos i) = Ok (f, c) /\
      c_tree c = r_tree r /\ c_generation c = r_gen r /\ c_time c = r_time r /\
      parents f c = Ok (r_parents r, None).
  Proof.
    intros i Hi r. destruct Hok as [H1 [H2 [H3 H4]]].
    unfold graph_id_at, graph_commit_at. rewrite (L_chain_pos i Hi). cbn [obind fst snd].
    split; [apply (L_id_at f rs Hf H1 H3 H4 i Hi)|].
    destruct (L_commit_at f rs Hf H1 H3 H4 i Hi) as [c [Hc Hrest]].
    exists c. rewrite Hc. cbn [obind]. split; [reflexivity|exact Hrest].
  Qed.

  (* every written commit is found by its id, at its graph position *)
  Lemma L_chain_lookup : forall i, (i < length rs)%nat ->
    let r := nth i rs dummy_rec in
    ~ In (r_id r) (map r_id (concat lpre)) -> NoDup (map r_id rs) ->
    commits_in lpre + N.of_nat (length rs) < U32 ->
    graph_lookup g (r_id r) = Ok (Some (gpos i)) /\
    exists c, graph_commit_by_id g (r_id r) = Ok (Some (f, N.of_nat i, c)) /\
      c_tree c = r_tree r /\ c_generation c = r_gen r /\ c_time c = r_time r /\
      parents f c = Ok (r_parents r, None).
  Proof.
    intros i Hi r Hni Hnd Hb. destruct Hok as [H1 [H2 [H3 H4]]].
    destruct (L_file_lookup f rs Hf H1 H2 H3 H4 (r_id r)) as [res [Hres Hs]].
    assert (E : res = Some (N.of_nat i)).
    { destruct res as [m|].
      - destruct Hs as [Hm Hid]. f_equal.
        assert (N.to_nat m = i).
        { apply (proj1 (NoDup_nth (map r_id rs) []) Hnd); rewrite ?map_length; try assumption.
          change [] with (r_id dummy_rec). rewrite !map_nth. exact Hid. }
        lia.
      - exfalso. apply Hs. apply in_map, nth_In. exact Hi. }
    subst res.
    assert (L : lookup_by_id g 0 (r_id r) = Ok (Some (f, N.of_nat i, gpos i))).
    { unfold g. rewrite (L_lookup_by_id_found pre f post 0 (r_id r) (N.of_nat i)).
      - unfold gpos. rewrite (total_of_holds pre lpre Hpre Hokpre). reflexivity.
      - apply (pre_lookup_none pre lpre Hpre Hokpre). exact Hni.
      - exact Hres.
      - rewrite (total_of_holds pre lpre Hpre Hokpre). lia. }
    unfold graph_lookup, graph_commit_by_id. rewrite L. cbn [obind option_map snd].
    split; [reflexivity|].
    destruct (L_commit_at f rs Hf H1 H3 H4 i Hi) as [c [Hc Hrest]].
    exists c. rewrite Hc. cbn [obind]. split; [reflexivity|exact Hrest].
  Qed.
End Chain.

(* an id no layer contains is not found *)
Lemma L_chain_absent : forall g layers id, Forall2 file_holds g layers -> Forall layer_ok layers ->
  ~ In id (map r_id (concat layers)) -> commits_in layers < U32 ->
  graph_lookup g id = Ok None.
Proof.
  intros g layers id Hh Hok Hni Hb. unfold graph_lookup.
  rewrite (L_lookup_by_id_absent g 0 id).
  - reflexivity.
  - apply (pre_lookup_none g layers Hh Hok id Hni).
  - rewrite (total_of_holds g layers Hh Hok). lia.
Qed.

Lemma L_graph_new : forall g layers, Forall2 file_holds g layers -> Forall layer_ok layers ->
  commits_in layers <= MAX_COMMITS ->
  graph_new g = Ok g /\ graph_num_commits g = Ok (commits_in layers).
Proof.
  intros g layers Hh Hok Hb. unfold graph_new, graph_num_commits.
  rewrite (total_of_holds g layers Hh Hok).
  destruct (N.ltb_spec MAX_COMMITS (commits_in layers)); [lia|]. split; [reflexivity|].
  unfold MAX_COMMITS, U32 in *. destruct (N.ltb_spec (commits_in layers) 4294967296); [reflexivity|lia].
Qed.
