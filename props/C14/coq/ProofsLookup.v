(* C14 — lookup over a sorted id table with its fan-out counts (lemma shared with props/C09).
   [oid_at] is any accessor that returns entry i of the table (File::id_at on a well-formed file). *)
From Coq Require Import Lia ZifyBool ZifyNat ZifyN Sorted.
From GixV.Base Require Import Bytes BytesFacts Outcome.
From GixV.C14 Require Import Model ProofsBisect ProofsOrder.
Ltac Zify.zify_post_hook ::= Z.div_mod_to_equations.
Local Open Scope N_scope.

Lemma pow33 : 2 ^ N.of_nat 33 = 8589934592.
Proof. vm_compute. reflexivity. Qed.

Section Table.
  Variable ids : list bytes.
  Variable fan : list N.
  Variable oid_at : N -> outcome bytes err.
  Local Notation n := (N.of_nat (length ids)).
  Hypothesis Hs : sorted_ids ids.
  Hypothesis Ha : all20 ids.
  Hypothesis Hn : n <= HIGH_BIT.
  Hypothesis Hfan : fan_of ids fan.
  Hypothesis Hat : forall i, i < n -> oid_at i = Ok (nth (N.to_nat i) ids []).

  Lemma L_lookup : forall id,
    exists r, lookup fan oid_at id = Ok r /\
      match r with
      | Some m => m < n /\ nth (N.to_nat m) ids [] = id
      | None => ~ In id ids
      end.
  Proof.
    intros id. unfold lookup.
    pose proof (fan_bounds_bucket ids fan (first_byte id) Hs Ha Hfan) as B.
    destruct (fan_bounds fan (first_byte id)) as [lo hi]. destruct B as [Hlh [Hhn Hb]].
    set (c := fun i => bytes_cmp id (nth (N.to_nat i) ids [])).
    destruct (bisect_spec (fun mid => obind (oid_at mid) (fun o => Ok (bytes_cmp id o))) c 33 lo hi)
      as [r [Hr Hspec]].
    - rewrite pow33. unfold HIGH_BIT in Hn. lia.
    - lia.
    - intros i Hi. rewrite Hat by lia. reflexivity.
    - eapply mono_sub; [apply (mono_full_id ids id Hs)|lia|lia].
    - exists r. split; [exact Hr|]. destruct r as [m|].
      + destruct Hspec as [Hm Hc]. split; [lia|]. unfold c in Hc. apply bytes_cmp_eq_iff in Hc. congruence.
      + intros Hin. destruct (In_nth _ _ [] Hin) as [i [Hi Hnth]].
        assert (Hb' : lo <= N.of_nat i < hi).
        { apply (proj2 (Hb (N.of_nat i) ltac:(clear -Hi; unfold bytes in *; lia))). rewrite Nat2N.id. f_equal. exact Hnth. }
        apply (Hspec (N.of_nat i) Hb'). unfold c. rewrite Nat2N.id. apply bytes_cmp_eq_iff. symmetry. exact Hnth.
  Qed.

End Table.

Lemma L_bisect_overflow : forall cmp_at fuel lo hi, lo < hi -> U32 <= lo + hi ->
  bisect (S fuel) cmp_at lo hi = Panic.
Proof. intros cmp_at. exact (bisect_overflow cmp_at (fun _ => Eq)). Qed.
