(* C14 — order facts (shared with props/C09): bytes_cmp is a total order, a table sorted by id is sorted by first byte,
   and the fan-out counts delimit the buckets. *)
From Coq Require Import Lia ZifyBool ZifyNat ZifyN Sorted.
From GixV.Base Require Import Bytes BytesFacts Outcome.
From GixV.C14 Require Import Model ProofsBisect.
Ltac Zify.zify_post_hook ::= Z.div_mod_to_equations.
Local Open Scope N_scope.

(* ---- bytes_cmp: transitivity ---------------------------------------------------------------------- *)
Lemma bytes_cmp_trans a : forall b c x, bytes_cmp a b = x -> bytes_cmp b c = x -> bytes_cmp a c = x.
Proof.
  induction a as [|a0 a IH]; intros [|b0 b] [|c0 c] x; cbn [bytes_cmp]; try congruence.
  destruct (N.compare_spec (b2N a0) (b2N b0)), (N.compare_spec (b2N b0) (b2N c0)),
           (N.compare_spec (b2N a0) (b2N c0)); try lia; intros; subst; try congruence; eauto.
Qed.

Definition ble (a b : bytes) : Prop := bytes_cmp a b <> Gt.

Lemma ble_refl a : ble a a.
Proof. unfold ble. rewrite bytes_cmp_refl. discriminate. Qed.

Lemma lt_le_trans x a b : bytes_cmp x a = Lt -> ble a b -> bytes_cmp x b = Lt.
Proof.
  unfold ble. intros H1 H2. destruct (bytes_cmp a b) eqn:E; [| |congruence].
  - apply bytes_cmp_eq_iff in E. subst. exact H1.
  - eapply bytes_cmp_trans; eassumption.
Qed.

Lemma le_lt_trans a b x : ble a b -> bytes_cmp b x = Lt -> bytes_cmp a x = Lt.
Proof.
  unfold ble. intros H1 H2. destruct (bytes_cmp a b) eqn:E; [| |congruence].
  - apply bytes_cmp_eq_iff in E. subst. exact H2.
  - eapply bytes_cmp_trans; eassumption.
Qed.

Lemma gt_le x a b : bytes_cmp x b = Gt -> ble a b -> bytes_cmp x a = Gt.
Proof.
  intros H1 H2. rewrite (bytes_cmp_antisym b x) in H1.
  assert (bytes_cmp b x = Lt) by (destruct (bytes_cmp b x); cbn in H1; congruence).
  rewrite (bytes_cmp_antisym a x). rewrite (le_lt_trans a b x H2 H). reflexivity.
Qed.

Lemma ble_trans a b c : ble a b -> ble b c -> ble a c.
Proof.
  intros H1 H2. unfold ble. intros G.
  pose proof (gt_le a b c G H2) as G'. apply H1. exact G'.
Qed.

Lemma ble_total a b : ble a b \/ ble b a.
Proof.
  unfold ble. rewrite (bytes_cmp_antisym a b). destruct (bytes_cmp a b); cbn [CompOpp];
    [left; discriminate | left; discriminate | right; discriminate].
Qed.

(* ---- tables sorted by id ---------------------------------------------------------------------------- *)
Definition sorted_ids (ids : list bytes) : Prop := StronglySorted ble ids.
Definition all20 (ids : list bytes) : Prop := Forall (fun x => length x = 20%nat) ids.

Lemma sorted_nth ids : sorted_ids ids -> forall i j, (i <= j < length ids)%nat ->
  ble (nth i ids []) (nth j ids []).
Proof.
  induction 1 as [|x l Hs IH Hf]; intros i j Hij; cbn [length] in Hij; [lia|].
  destruct i as [|i], j as [|j]; cbn [nth]; try lia.
  - apply ble_refl.
  - rewrite Forall_forall in Hf. apply Hf, nth_In. lia.
  - apply IH. lia.
Qed.

Lemma mono_full_id ids id : sorted_ids ids ->
  mono (fun i => bytes_cmp id (nth (N.to_nat i) ids [])) 0 (N.of_nat (length ids)).
Proof.
  intros Hs i j H0 Hij Hj. cbv beta.
  assert (L : ble (nth (N.to_nat i) ids []) (nth (N.to_nat j) ids [])) by (apply sorted_nth; [assumption|lia]).
  split; intros H.
  - eapply lt_le_trans; eassumption.
  - eapply gt_le; eassumption.
Qed.


(* ---- fan-out counts ------------------------------------------------------------------------------------ *)
(* number of values <= b *)
Definition cnt (b : N) (fbs : list N) : N := N.of_nat (length (filter (fun v => v <=? b) fbs)).

Lemma cnt_all_gt b fbs : Forall (fun v => b < v) fbs -> cnt b fbs = 0.
Proof.
  unfold cnt. induction 1 as [|v l Hv _ IH]; [reflexivity|]. cbn [filter].
  destruct (N.leb_spec v b); [lia|]. exact IH.
Qed.

Lemma cnt_le_length b fbs : cnt b fbs <= N.of_nat (length fbs).
Proof.
  unfold cnt. induction fbs as [|v l IH]; [cbn; lia|]. cbn [filter length].
  destruct (v <=? b); cbn [length]; lia.
Qed.

Lemma cnt_mono b b' fbs : b <= b' -> cnt b fbs <= cnt b' fbs.
Proof.
  intros H. unfold cnt. induction fbs as [|v l IH]; [cbn; lia|]. cbn [filter].
  destruct (N.leb_spec v b), (N.leb_spec v b'); cbn [length]; lia.
Qed.

Lemma cnt_nth fbs : StronglySorted N.le fbs -> forall b (i : nat), (i < length fbs)%nat ->
  (N.of_nat i < cnt b fbs <-> nth i fbs 0 <= b).
Proof.
  induction 1 as [|x l Hs IH Hf]; intros b i Hi; cbn [length] in Hi; [lia|].
  unfold cnt. cbn [filter]. destruct (N.leb_spec x b) as [Hx|Hx].
  - cbn [length]. destruct i as [|i]; cbn [nth]; [lia|].
    specialize (IH b i ltac:(lia)). unfold cnt in IH. lia.
  - assert (Z : cnt b l = 0).
    { apply cnt_all_gt. rewrite Forall_forall in *. intros v Hv. specialize (Hf v Hv). lia. }
    unfold cnt in Z. rewrite Z. destruct i as [|i]; cbn [nth]; [lia|].
    rewrite Forall_forall in Hf. assert (x <= nth i l 0) by (apply Hf, nth_In; lia). lia.
Qed.

Definition fbs_of (ids : list bytes) : list N := map (fun x => b2N (first_byte x)) ids.

Lemma ble_first_byte x y : x <> [] -> y <> [] -> ble x y -> b2N (first_byte x) <= b2N (first_byte y).
Proof.
  destruct x as [|a x], y as [|b y]; try congruence. intros _ _ H. unfold ble in H. cbn in *.
  destruct (N.compare_spec (b2N a) (b2N b)); try lia. congruence.
Qed.

Lemma sorted_fbs ids : sorted_ids ids -> all20 ids -> StronglySorted N.le (fbs_of ids).
Proof.
  induction 1 as [|x l Hs IH Hf]; intros Ha; [constructor|].
  inversion Ha as [|? ? Hx Hl]; subst. cbn. constructor; [apply IH; assumption|].
  rewrite Forall_forall in *. intros v Hv. apply in_map_iff in Hv. destruct Hv as [y [<- Hy]].
  apply ble_first_byte.
  - intros ->; discriminate.
  - specialize (Hl y Hy). intros ->; discriminate.
  - apply Hf, Hy.
Qed.

(* the table the reader finds: 256 values, value b = number of ids whose first byte is <= b *)
Definition fan_of (ids : list bytes) (fan : list N) : Prop :=
  length fan = 256%nat /\ forall b, b < 256 -> nth (N.to_nat b) fan 0 = cnt b (fbs_of ids).

Lemma fan_bounds_bucket ids fan fb : sorted_ids ids -> all20 ids -> fan_of ids fan ->
  let '(lo, hi) := fan_bounds fan fb in
  lo <= hi /\ hi <= N.of_nat (length ids) /\
  forall i, i < N.of_nat (length ids) ->
    (lo <= i < hi <-> first_byte (nth (N.to_nat i) ids []) = fb).
Proof.
  intros Hs Ha [Hl Hfan]. unfold fan_bounds.
  pose proof (b2N_lt fb) as Hb.
  pose proof (sorted_fbs ids Hs Ha) as Sf.
  assert (Lf : length (fbs_of ids) = length ids) by (unfold fbs_of; apply map_length).
  assert (Hnth : forall i, (i < length ids)%nat -> nth i (fbs_of ids) 0 = b2N (first_byte (nth i ids []))).
  { intros i Hi. unfold fbs_of. rewrite (nth_indep _ 0 (b2N (first_byte []))) by (rewrite map_length; lia).
    apply (List.map_nth (fun x => b2N (first_byte x))). }
  rewrite (Hfan (b2N fb) Hb).
  destruct (N.eqb_spec (b2N fb) 0) as [Z|Z].
  - split; [lia|]. split; [rewrite <- Lf; apply cnt_le_length|].
    intros i Hi.
    pose proof (cnt_nth _ Sf (b2N fb) (N.to_nat i) ltac:(lia)) as C1.
    rewrite N2Nat.id, Hnth in C1 by lia. split.
    + intros H. apply b2N_inj. lia.
    + intros <-. lia.
  - rewrite (Hfan (b2N fb - 1)) by lia.
    split; [apply cnt_mono; lia|]. split; [rewrite <- Lf; apply cnt_le_length|].
    intros i Hi.
    pose proof (cnt_nth _ Sf (b2N fb) (N.to_nat i) ltac:(lia)) as C1.
    pose proof (cnt_nth _ Sf (b2N fb - 1) (N.to_nat i) ltac:(lia)) as C2.
    rewrite N2Nat.id, Hnth in C1, C2 by lia. split.
    + intros H. apply b2N_inj. lia.
    + intros <-. lia.
Qed.
