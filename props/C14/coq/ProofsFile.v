(* C14 — file level: a File whose chunk regions hold the tables the writer makes from the records [rs]
   (predicate [file_holds]) returns, for every record, its id, tree, generation, time and parent list, and
   its lookup finds exactly the written ids. *)
From Coq Require Import Lia ZifyBool ZifyNat ZifyN Sorted.
From GixV.Base Require Import Bytes BytesFacts Outcome.
From GixV.C14 Require Import Model Spec ProofsBisect ProofsOrder ProofsLookup ProofsRecord.
Ltac Zify.zify_post_hook ::= Z.div_mod_to_equations.
Local Open Scope N_scope.

Definition dummy_rec : rec := {| r_id := []; r_tree := []; r_parents := []; r_gen := 0; r_time := 0 |}.

Record rec_ok (r : rec) : Prop := {
  ok_id : length (r_id r) = 20%nat;
  ok_tree : length (r_tree r) = 20%nat;
  ok_par : Forall pos_ok (r_parents r);
  ok_gen : r_gen r < GEN_LIMIT;
  ok_time : r_time r < TIME_MOD
}.

(* what it means that the file's OIDF / OIDL / CDAT / EDGE regions hold the writer's tables *)
Definition file_holds (f : file) (rs : list rec) : Prop :=
  ffan f = fan_table (map r_id rs) /\
  (forall i, (i < length rs)%nat ->
     slice (fdata f) (oid_lookup_offset f + N.of_nat i * 20) 20 = Ok (r_id (nth i rs dummy_rec))) /\
  (forall i, (i < length rs)%nat ->
     slice (fdata f) (commit_data_offset f + N.of_nat i * 36) 36
     = Ok (firstn 36 (skipn (36 * i) (fst (cdat_edges rs []))))) /\
  (snd (cdat_edges rs []) <> [] ->
     extra_edges_data f = Ok (Some (concat_map be32 (snd (cdat_edges rs []))))).

(* ---- the fan-out table ----------------------------------------------------------------------------- *)
Lemma filter_map_length {A B} (g : A -> B) (p : B -> bool) l :
  length (filter p (map g l)) = length (filter (fun x => p (g x)) l).
Proof.
  induction l as [|x l IH]; [reflexivity|]. cbn [map filter]. destruct (p (g x)); cbn [length]; rewrite IH; reflexivity.
Qed.

Lemma fan_table_nth ids (b : nat) : (b < 256)%nat ->
  nth b (fan_table ids) 0 = cnt (N.of_nat b) (fbs_of ids).
Proof.
  intros Hb. unfold fan_table.
  set (g := fun b0 : nat => N.of_nat (length (filter (fun id => b2N (first_byte id) <=? N.of_nat b0) ids))).
  rewrite (nth_indep _ 0 (g 0%nat)) by (rewrite map_length, seq_length; exact Hb).
  rewrite (map_nth g), seq_nth by exact Hb. cbn [Nat.add]. unfold g, cnt, fbs_of.
  rewrite filter_map_length. reflexivity.
Qed.

Lemma fan_table_fan_of ids : fan_of ids (fan_table ids).
Proof.
  split.
  - unfold fan_table. rewrite map_length, seq_length. reflexivity.
  - intros b Hb. rewrite fan_table_nth by lia. rewrite N2Nat.id. reflexivity.
Qed.

Lemma cnt_255 ids : all20 ids -> cnt 255 (fbs_of ids) = N.of_nat (length ids).
Proof.
  intros _. unfold cnt, fbs_of. rewrite filter_map_length.
  induction ids as [|x l IH]; [reflexivity|]. cbn [filter].
  pose proof (b2N_lt (first_byte x)) as Hx.
  destruct (N.leb_spec (b2N (first_byte x)) 255); [|lia]. cbn [length]. lia.
Qed.

(* ---- CDAT and EDGE as the writer builds them ------------------------------------------------------ *)
Lemma record_bytes_len r p1 p2 : length (r_tree r) = 20%nat -> length (record_bytes r p1 p2) = 36%nat.
Proof. intros H. unfold record_bytes. rewrite !app_length, !be32_len, H. reflexivity. Qed.

Lemma cdat_edges_extends : forall rs e0, exists tail, snd (cdat_edges rs e0) = e0 ++ tail.
Proof.
  induction rs as [|r rs IH]; intros e0.
  - exists []. cbn. rewrite app_nil_r. reflexivity.
  - cbn [cdat_edges].
    destruct (encode_parents (r_parents r) (N.of_nat (length e0))) as [[p1 p2] ex].
    destruct (IH (e0 ++ ex)) as [tail Ht].
    destruct (cdat_edges rs (e0 ++ ex)) as [b e]. cbn [snd] in *.
    exists (ex ++ tail). rewrite Ht, app_assoc. reflexivity.
Qed.

Lemma cdat_edges_nth : forall rs e0, Forall rec_ok rs ->
  forall i, (i < length rs)%nat ->
  exists before after p1 p2 ex,
    encode_parents (r_parents (nth i rs dummy_rec)) (N.of_nat (length before)) = (p1, p2, ex) /\
    snd (cdat_edges rs e0) = before ++ ex ++ after /\
    firstn 36 (skipn (36 * i) (fst (cdat_edges rs e0))) = record_bytes (nth i rs dummy_rec) p1 p2.
Proof.
  induction rs as [|r rs IH]; intros e0 Hok i Hi; cbn [length] in Hi; [lia|].
  inversion Hok as [|? ? Hr Hrs]; subst.
  cbn [cdat_edges].
  destruct (encode_parents (r_parents r) (N.of_nat (length e0))) as [[p1 p2] ex] eqn:Ee.
  destruct i as [|i].
  - destruct (cdat_edges_extends rs (e0 ++ ex)) as [tail Ht].
    destruct (cdat_edges rs (e0 ++ ex)) as [b e]. cbn [fst snd nth] in *.
    exists e0, tail, p1, p2, ex. split; [exact Ee|]. split; [rewrite Ht, app_assoc; reflexivity|].
    cbn [Nat.mul skipn]. apply firstn_app_len. symmetry. apply record_bytes_len. apply (ok_tree r Hr).
  - destruct (IH (e0 ++ ex) Hrs i ltac:(lia)) as [before [after [q1 [q2 [ex' [H1 [H2 H3]]]]]]].
    destruct (cdat_edges rs (e0 ++ ex)) as [b e]. cbn [fst snd nth] in *.
    exists before, after, q1, q2, ex'. split; [exact H1|]. split; [exact H2|].
    rewrite (skipn_app_add (record_bytes r p1 p2) b (36 * S i) (36 * i)).
    + exact H3.
    + rewrite record_bytes_len by apply (ok_tree r Hr). lia.
Qed.

Lemma encode_parents_words ps idx p1 p2 ex : encode_parents ps idx = (p1, p2, ex) ->
  Forall pos_ok ps -> idx < HIGH_BIT -> p1 < U32 /\ p2 < U32.
Proof.
  unfold pos_ok, NO_PARENT, HIGH_BIT, U32. intros He Hf Hi.
  destruct ps as [|a [|b [|x rest]]]; unfold encode_parents in He;
    apply pair_equal_spec in He; destruct He as [He <-]; apply pair_equal_spec in He; destruct He as [<- <-];
    unfold NO_PARENT, HIGH_BIT.
  - lia.
  - inversion Hf; subst. lia.
  - inversion Hf as [|? ? Ha Hf']; subst. inversion Hf'; subst. lia.
  - inversion Hf; subst. lia.
Qed.

(* ---- the file-level theorem -------------------------------------------------------------------------- *)
Section File.
  Variable f : file.
  Variable rs : list rec.
  Hypothesis Hh : file_holds f rs.
  Hypothesis Hok : Forall rec_ok rs.
  Hypothesis Hsorted : sorted_ids (map r_id rs).
  Hypothesis Hn : N.of_nat (length rs) <= HIGH_BIT.
  Hypothesis He : N.of_nat (length (snd (cdat_edges rs []))) < HIGH_BIT.

  Lemma ids_all20 : all20 (map r_id rs).
  Proof.
    unfold all20. rewrite Forall_forall in *. intros x Hx. apply in_map_iff in Hx.
    destruct Hx as [r [<- Hr]]. apply (ok_id r (Hok r Hr)).
  Qed.

  Lemma L_num_commits : num_commits f = N.of_nat (length rs).
  Proof.
    destruct Hh as [Hfan _]. unfold num_commits. rewrite Hfan, fan_table_nth by lia.
    change (N.of_nat 255) with 255. rewrite cnt_255 by apply ids_all20. rewrite map_length. reflexivity.
  Qed.

  Lemma L_id_at : forall i, (i < length rs)%nat -> id_at f (N.of_nat i) = Ok (r_id (nth i rs dummy_rec)).
  Proof.
    intros i Hi. unfold id_at. rewrite L_num_commits.
    destruct (N.ltb_spec (N.of_nat i) (N.of_nat (length rs))); [|lia].
    destruct Hh as [_ [Hids _]]. apply Hids. exact Hi.
  Qed.

  Lemma L_commit_at : forall i, (i < length rs)%nat ->
    let r := nth i rs dummy_rec in
    exists c, commit_new f (N.of_nat i) = Ok c /\
      c_tree c = r_tree r /\ c_generation c = r_gen r /\ c_time c = r_time r /\
      parents f c = Ok (r_parents r, None).
  Proof.
    intros i Hi r.
    assert (Hr : rec_ok r) by (rewrite Forall_forall in Hok; apply Hok, nth_In; exact Hi).
    destruct (cdat_edges_nth rs [] Hok i Hi) as [before [after [p1 [p2 [ex [E1 [E2 E3]]]]]]].
    fold r in E1, E3.
    assert (Hb : N.of_nat (length before) < HIGH_BIT).
    { rewrite E2, app_length in He. lia. }
    destruct (encode_parents_words _ _ _ _ _ E1 (ok_par r Hr) Hb) as [P1 P2].
    destruct (L_record_decode r p1 p2 (ok_tree r Hr) P1 P2 (ok_gen r Hr) (ok_time r Hr))
      as [_ [D1 [D2 [D3 [D4 D5]]]]].
    unfold commit_new, commit_data_bytes. rewrite L_num_commits.
    destruct (N.ltb_spec (N.of_nat i) (N.of_nat (length rs))); [|lia].
    destruct Hh as [_ [_ [Hc Hedge]]]. unfold ENTRY_SIZE. rewrite (Hc i Hi), E3. cbn [obind].
    eexists. split; [reflexivity|]. cbn [c_tree c_generation c_time c_p1 c_p2].
    split; [exact D1|]. split; [exact D4|]. split; [exact D5|].
    apply (L_parents_decode f _ (r_parents r) before after p1 p2 ex E1 (ok_par r Hr) Hb).
    - cbn [c_p1]. rewrite D2. reflexivity.
    - cbn [c_p2]. rewrite D3. reflexivity.
    - intros Hex. rewrite <- E2. apply Hedge. rewrite E2. intros Z.
      apply app_eq_nil in Z. destruct Z as [_ Z]. apply app_eq_nil in Z. destruct Z as [Z _]. exact (Hex Z).
  Qed.

  Lemma L_file_lookup : forall id,
    exists res, file_lookup f id = Ok res /\
      match res with
      | Some m => (N.to_nat m < length rs)%nat /\ r_id (nth (N.to_nat m) rs dummy_rec) = id
      | None => ~ In id (map r_id rs)
      end.
  Proof.
    intros id. unfold file_lookup.
    destruct (L_lookup (map r_id rs) (ffan f) (id_at f) Hsorted ids_all20) with (id := id) as [res [Hr Hs]].
    - rewrite map_length. exact Hn.
    - destruct Hh as [Hfan _]. rewrite Hfan. apply fan_table_fan_of.
    - intros i Hi. rewrite map_length in Hi.
      replace i with (N.of_nat (N.to_nat i)) at 1 by lia. rewrite L_id_at by lia.
      f_equal. change [] with (r_id dummy_rec). symmetry. apply map_nth.
    - exists res. split; [exact Hr|]. destruct res as [m|]; [|exact Hs].
      destruct Hs as [Hm Hid]. rewrite map_length in Hm. split; [lia|].
      rewrite <- Hid. change [] with (r_id dummy_rec). symmetry. apply map_nth.
  Qed.
End File.
