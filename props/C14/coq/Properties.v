(* C14 — property theorems.  Only statements here; the proofs are in Proofs*.v. *)
From Coq Require Import Lia.
From GixV.Base Require Import Bytes Outcome.
From GixV.C14 Require Import Model Spec ProofsRecord.
Local Open Scope N_scope.

(* The 36 bytes git writes for a commit (tree, parent words, generation << 2 | time >> 32, time) decode to
   the same tree, parent words, generation (30 bits) and commit time (34 bits). *)
Theorem commit_record_roundtrip : forall r p1 p2,
  length (r_tree r) = 20%nat -> p1 < U32 -> p2 < U32 -> r_gen r < GEN_LIMIT -> r_time r < TIME_MOD ->
  let b := record_bytes r p1 p2 in
  length b = 36%nat /\
  firstn 20 b = r_tree r /\
  be_to_N (firstn 4 (skipn 20 b)) = p1 /\
  be_to_N (firstn 4 (skipn 24 b)) = p2 /\
  be_to_N (firstn 4 (skipn 28 b)) / 4 = r_gen r /\
  be_to_N (firstn 8 (skipn 28 b)) mod TIME_MOD = r_time r.
Proof. exact L_record_decode. Qed.

(* A commit whose two parent words come from git's encoding of the parent list [ps] (none / one / two /
   octopus via the extra edge list at index [length before]) iterates exactly [ps], without error. *)
Theorem parents_roundtrip : forall f c ps before after p1 p2 ex,
  encode_parents ps (N.of_nat (length before)) = (p1, p2, ex) ->
  Forall pos_ok ps ->
  N.of_nat (length before) < HIGH_BIT ->
  c_p1 c = edge_from_raw p1 -> c_p2 c = edge_from_raw p2 ->
  (ex <> [] -> extra_edges_data f = Ok (Some (concat_map be32 (before ++ ex ++ after)))) ->
  parents f c = Ok (ps, None).
Proof. exact L_parents_decode. Qed.
