(* C14 — property theorems.  Only statements here; the proofs are in Proofs*.v. *)
From Coq Require Import Lia.
From GixV.Base Require Import Bytes Outcome.
From GixV.C14 Require Import Model Spec ProofsRecord.
Local Open Scope N_scope.

(* The 36 bytes git writes for a commit (tree, parent words, generation << 2 | time >> 32, time) decode to
   the same tree, parent words, generation (30 bits) and commit time (34 bits). *)
Theorem commit_record_roundtrip : forall r p1 p2,
  length (r_tree r) = 20%nat -> p1 < U32 -> p2 < U32 -> r_gen r < GEN_LIMIT -> r_time r < TIME_MOD ->
  let b := record_bytes r p1 p2 in
  length b = 36%nat /\
  firstn 20 b = r_tree r /\
  be_to_N (firstn 4 (skipn 20 b)) = p1 /\
  be_to_N (firstn 4 (skipn 24 b)) = p2 /\
  be_to_N (firstn 4 (skipn 28 b)) / 4 = r_gen r /\
  be_to_N (firstn 8 (skipn 28 b)) mod TIME_MOD = r_time r.
Proof. exact L_record_decode. Qed.

(* A commit whose two parent words come from git's encoding of the parent list [ps] (none / one / two /
   octopus via the extra edge list at index [length before]) iterates exactly [ps], without error. *)
Theorem parents_roundtrip : forall f c ps before after p1 p2 ex,
  encode_parents ps (N.of_nat (length before)) = (p1, p2, ex) ->
  Forall pos_ok ps ->
  N.of_nat (length before) < HIGH_BIT ->
  c_p1 c = edge_from_raw p1 -> c_p2 c = edge_from_raw p2 ->
  (ex <> [] -> extra_edges_data f = Ok (Some (concat_map be32 (before ++ ex ++ after)))) ->
  parents f c = Ok (ps, None).
Proof. exact L_parents_decode. Qed.

From Coq Require Import Sorted.
From GixV.C14 Require Import ProofsOrder ProofsFile ProofsGraph ProofsChain.

(* ---- one file ---------------------------------------------------------------------------------------
   [file_holds f rs]: the File's fan-out is the writer's fan-out of the ids and its OIDL / CDAT / EDGE regions
   hold the tables the writer builds from the records [rs].  For such a file, with git's side conditions
   (20-byte ids sorted, positions below 0x70000000, 30-bit generation, 34-bit time, < 2^31 entries): *)
Theorem file_reads_written_records : forall f rs,
  file_holds f rs -> Forall rec_ok rs ->
  N.of_nat (length rs) <= HIGH_BIT -> N.of_nat (length (snd (cdat_edges rs []))) < HIGH_BIT ->
  num_commits f = N.of_nat (length rs) /\
  forall i, (i < length rs)%nat ->
    let r := nth i rs dummy_rec in
    id_at f (N.of_nat i) = Ok (r_id r) /\
    exists c, commit_new f (N.of_nat i) = Ok c /\
      c_tree c = r_tree r /\ c_generation c = r_gen r /\ c_time c = r_time r /\
      parents f c = Ok (r_parents r, None).
Proof.
  intros f rs Hh Hok Hn He. split; [exact (L_num_commits f rs Hh Hok Hn He)|].
  intros i Hi. split; [exact (L_id_at f rs Hh Hok Hn He i Hi)|exact (L_commit_at f rs Hh Hok Hn He i Hi)].
Qed.

(* File::lookup never panics, needs at most 34 bisection steps, and finds an id exactly when it was written *)
Theorem file_lookup_iff_written : forall f rs,
  file_holds f rs -> Forall rec_ok rs -> sorted_ids (map r_id rs) ->
  N.of_nat (length rs) <= HIGH_BIT -> N.of_nat (length (snd (cdat_edges rs []))) < HIGH_BIT ->
  forall id, exists res, file_lookup f id = Ok res /\
    match res with
    | Some m => (N.to_nat m < length rs)%nat /\ r_id (nth (N.to_nat m) rs dummy_rec) = id
    | None => ~ In id (map r_id rs)
    end.
Proof. exact L_file_lookup. Qed.

(* ---- graph positions across the files of a chain ------------------------------------------------------ *)
Theorem graph_position_translation : forall pre f post i, i < num_commits f ->
  lookup_by_pos (pre ++ f :: post) (total_commits pre + i) = Ok (f, i).
Proof. exact L_lookup_by_pos. Qed.

Theorem graph_position_beyond_panics : forall g p, total_commits g <= p -> lookup_by_pos g p = Panic.
Proof. exact L_lookup_by_pos_beyond. Qed.

Theorem graph_lookup_first_file_wins : forall pre f post start id lex,
  (forall f', In f' pre -> file_lookup f' id = Ok None) ->
  file_lookup f id = Ok (Some lex) ->
  start + total_commits pre + lex < U32 ->
  lookup_by_id (pre ++ f :: post) start id = Ok (Some (f, lex, start + total_commits pre + lex)).
Proof. exact L_lookup_by_id_found. Qed.

(* ---- a chain of files: graph_RT ------------------------------------------------------------------------
   layers [lpre ++ rs :: …] held by files [pre ++ f :: post]: record i of layer [rs] is read at graph position
   (#commits of the lower layers + i) with its id, tree, generation, time and parent positions … *)
Theorem graph_reads_written_commit : forall pre post f lpre rs,
  Forall2 file_holds pre lpre -> file_holds f rs -> Forall layer_ok lpre -> layer_ok rs ->
  forall i, (i < length rs)%nat ->
    let r := nth i rs dummy_rec in
    let g := pre ++ f :: post in
    graph_id_at g (gpos lpre i) = Ok (r_id r) /\
    exists c, graph_commit_at g (gpos lpre i) = Ok (f, c) /\
      c_tree c = r_tree r /\ c_generation c = r_gen r /\ c_time c = r_time r /\
      parents f c = Ok (r_parents r, None).
Proof. exact L_chain_commit. Qed.

(* … and every commit is found by its id (lookup and commit_by_id), at that position, when ids are unique *)
Theorem every_commit_found : forall pre post f lpre rs,
  Forall2 file_holds pre lpre -> file_holds f rs -> Forall layer_ok lpre -> layer_ok rs ->
  forall i, (i < length rs)%nat ->
    let r := nth i rs dummy_rec in
    let g := pre ++ f :: post in
    ~ In (r_id r) (map r_id (concat lpre)) -> NoDup (map r_id rs) ->
    commits_in lpre + N.of_nat (length rs) < U32 ->
    graph_lookup g (r_id r) = Ok (Some (gpos lpre i)) /\
    exists c, graph_commit_by_id g (r_id r) = Ok (Some (f, N.of_nat i, c)) /\
      c_tree c = r_tree r /\ c_generation c = r_gen r /\ c_time c = r_time r /\
      parents f c = Ok (r_parents r, None).
Proof. exact L_chain_lookup. Qed.

Theorem absent_id_not_found : forall g layers id, Forall2 file_holds g layers -> Forall layer_ok layers ->
  ~ In id (map r_id (concat layers)) -> commits_in layers < U32 ->
  graph_lookup g id = Ok None.
Proof. exact L_chain_absent. Qed.

Theorem graph_new_accepts_chain : forall g layers, Forall2 file_holds g layers -> Forall layer_ok layers ->
  commits_in layers <= MAX_COMMITS ->
  graph_new g = Ok g /\ graph_num_commits g = Ok (commits_in layers).
Proof. exact L_graph_new. Qed.

(* ---- non-vacuity: a file written by the Spec writer (two roots, a merge, an octopus over the extra edge
   list) opens, holds its records, and satisfies every side condition above ---------------------------- *)
Definition ex_rs : list rec :=
  [ {| r_id := repeat x01 20; r_tree := repeat xa1 20; r_parents := []; r_gen := 1; r_time := 5 |};
    {| r_id := repeat x02 20; r_tree := repeat xa2 20; r_parents := []; r_gen := 1; r_time := 17179869183 |};
    {| r_id := repeat x7f 20; r_tree := repeat xa3 20; r_parents := [0; 1]; r_gen := 2; r_time := 4294967296 |};
    {| r_id := repeat xff 20; r_tree := repeat xa4 20; r_parents := [2; 0; 1]; r_gen := 3; r_time := 7 |} ].
Definition ex_file : file :=
  match file_new (write_file ex_rs [] (repeat x00 20)) with
  | Ok f => f
  | _ => {| fdata := []; base_graph_count := 0; base_graphs_list_offset := None; commit_data_offset := 0;
            extra_edges_list_range := None; ffan := []; oid_lookup_offset := 0 |}
  end.
Example written_file_holds : file_new (write_file ex_rs [] (repeat x00 20)) = Ok ex_file /\
  file_holds ex_file ex_rs /\ layer_ok ex_rs /\ NoDup (map r_id ex_rs).
Proof.
  split; [vm_compute; reflexivity|]. split.
  - unfold file_holds. split; [vm_compute; reflexivity|].
    split; [|split].
    + intros i Hi. do 4 (destruct i as [|i]; [vm_compute; reflexivity|]). cbn in Hi. lia.
    + intros i Hi. do 4 (destruct i as [|i]; [vm_compute; reflexivity|]). cbn in Hi. lia.
    + intros _. vm_compute. reflexivity.
  - split.
    + split.
      * repeat (apply Forall_cons; [constructor; [reflexivity|reflexivity|repeat (apply Forall_cons; [reflexivity|]); apply Forall_nil|reflexivity|reflexivity]|]). apply Forall_nil.
      * split; [|split; vm_compute; (reflexivity || (intros; discriminate))].
        unfold sorted_ids. repeat constructor; vm_compute; discriminate.
    + repeat constructor; cbn; intros H; repeat (destruct H as [H|H]; [discriminate H|]); exact H.
Qed.

(* ---- gix-chunk's table of contents on ANY assembled chunk list ---------------------------------------------
   (also files with chunks gitoxide does not read: GDA2, GDO2, BIDX, BDAT; any chunk order) *)
From GixV.C14 Require Import ProofsToc.

Theorem toc_of_assembled_file : forall nbase chunks trailer,
  chunks <> [] -> (length chunks < 256)%nat ->
  Forall (fun c => id_ok (fst c)) chunks -> NoDup (map fst chunks) ->
  len (assemble nbase chunks trailer) < U64 ->
  let data := assemble nbase chunks trailer in
  let n := N.of_nat (length chunks) in
  b2N (nth 6 data x00) = n /\
  toc_from_bytes data 8 n = Ok (toc_of (sizes chunks) (8 + 12 * (n + 1))).
Proof. exact L_toc_of_assemble. Qed.

(* every chunk is found by its id; its range starts after the header, the table and the chunks before it … *)
Theorem chunk_found_by_id : forall pre id c post ofs, id_ok id -> ~ In id (map fst pre) ->
  toc_find (toc_of (sizes (pre ++ (id, c) :: post)) ofs) id
  = Some (ofs + total_size (sizes pre), ofs + total_size (sizes pre) + len c).
Proof. exact toc_find_region. Qed.

Theorem chunk_absent_not_found : forall chunks id ofs, ~ In id (map fst chunks) ->
  toc_find (toc_of (sizes chunks) ofs) id = None.
Proof. exact toc_find_absent. Qed.

(* … and the file's bytes from there on are the chunk's content, the later chunks and the trailer *)
Theorem chunk_range_holds_content : forall nbase pre id c post trailer,
  Forall (fun c => id_ok (fst c)) (pre ++ (id, c) :: post) ->
  let chunks := pre ++ (id, c) :: post in
  let n := N.of_nat (length chunks) in
  skipn (N.to_nat (8 + 12 * (n + 1) + total_size (sizes pre))) (assemble nbase chunks trailer)
  = c ++ concat (map snd post) ++ trailer.
Proof. exact region_content. Qed.

Example toc_hypotheses_satisfiable :
  let chunks := file_chunks ex_rs [] in
  chunks <> [] /\ (length chunks < 256)%nat /\ Forall (fun c => id_ok (fst c)) chunks /\ NoDup (map fst chunks) /\
  len (assemble 0 chunks (repeat x00 20)) < U64.
Proof.
  vm_compute. split; [discriminate|]. split; [lia|]. split.
  - repeat (apply Forall_cons; [split; [reflexivity|discriminate]|]). apply Forall_nil.
  - split; [|reflexivity].
    repeat constructor; cbn; intros H; repeat (destruct H as [H|H]; [discriminate H|]); exact H.
Qed.

(* ---- the composition: files written by the Spec writer, for ANY record lists ------------------------------- *)
From GixV.C14 Require Import ProofsWrite.

(* File::new accepts every file [write_file] makes (with or without EDGE / BASE chunk) and the File it returns holds
   the writer's tables: the hypothesis [file_holds] of the theorems above is discharged. *)
Theorem written_file_opens : forall rs base trailer,
  Forall rec_ok rs -> N.of_nat (length rs) < U32 -> length trailer = 20%nat ->
  len base mod 20 = 0 -> len base / 20 < 256 ->
  len (write_file rs base trailer) < U64 ->
  exists f, file_new (write_file rs base trailer) = Ok f /\ file_holds f rs.
Proof. exact L_written_file_holds. Qed.

(* graph_RT + every_commit_found, end to end on bytes: for a chain of written files (layers lpre ++ rs :: lpost,
   any base checksums and trailers) every file opens, Graph::new accepts them, num_commits is the number of commits,
   and record i of layer rs is read at graph position (#commits below + i) with its id, tree, generation, time and
   parent positions - through commit_at/id_at and, ids being unique, through lookup/commit_by_id. *)
Theorem graph_RT_written_chain : forall ds lpre rs lpost,
  Forall2 written_as ds (lpre ++ rs :: lpost) -> Forall layer_ok (lpre ++ rs :: lpost) ->
  commits_in (lpre ++ rs :: lpost) <= MAX_COMMITS ->
  exists g f, open_all ds = Ok g /\ graph_new g = Ok g /\
    graph_num_commits g = Ok (commits_in (lpre ++ rs :: lpost)) /\
    forall i, (i < length rs)%nat ->
      let r := nth i rs dummy_rec in
      graph_id_at g (gpos lpre i) = Ok (r_id r) /\
      (exists c, graph_commit_at g (gpos lpre i) = Ok (f, c) /\
         c_tree c = r_tree r /\ c_generation c = r_gen r /\ c_time c = r_time r /\
         parents f c = Ok (r_parents r, None)) /\
      (~ In (r_id r) (map r_id (concat lpre)) -> NoDup (map r_id rs) ->
       graph_lookup g (r_id r) = Ok (Some (gpos lpre i)) /\
       exists c, graph_commit_by_id g (r_id r) = Ok (Some (f, N.of_nat i, c)) /\
         c_tree c = r_tree r /\ c_generation c = r_gen r /\ c_time c = r_time r /\
         parents f c = Ok (r_parents r, None)).
Proof. exact L_graph_RT_written. Qed.

Example written_chain_hypotheses_satisfiable :
  Forall2 written_as [write_file ex_rs [] (repeat x00 20)] ([] ++ ex_rs :: []) /\
  Forall layer_ok ([] ++ ex_rs :: []) /\ commits_in ([] ++ ex_rs :: []) <= MAX_COMMITS.
Proof.
  split; [|split].
  - constructor; [|constructor]. exists [], (repeat x00 20).
    split; [reflexivity|]. split; [reflexivity|]. split; [reflexivity|]. split; [reflexivity|].
    vm_compute. reflexivity.
  - constructor; [|constructor]. apply written_file_holds.
  - vm_compute. intros H; discriminate H.
Qed.
