(* C14 — the last composition step: File::new on the bytes [Spec.write_file] makes from ANY record list
   succeeds, and the resulting File holds the writer's tables ([file_holds]). *)
From Coq Require Import Lia ZifyBool ZifyNat ZifyN Sorted.
From GixV.Base Require Import Bytes BytesFacts Outcome.
From GixV.C14 Require Import Model Spec ProofsOrder ProofsRecord ProofsFile ProofsToc.
Ltac Zify.zify_post_hook ::= Z.div_mod_to_equations.
Local Open Scope N_scope.

(* ---- lists of fixed-size pieces (as in props/C09) ---------------------------------------------------- *)
Lemma concat_map_nth {A} (f : A -> bytes) (k : nat) (d : A) :
  (forall x, length (f x) = k) -> forall l (i : nat), (i < length l)%nat ->
  firstn k (skipn (i * k) (concat_map f l)) = f (nth i l d).
Proof.
  intros H. unfold concat_map. induction l as [|x l IH]; intros i Hi; cbn [length] in Hi; [lia|].
  cbn [map concat]. destruct i as [|i].
  - cbn [Nat.mul skipn nth]. rewrite firstn_app, <- (H x), firstn_all, Nat.sub_diag. cbn [firstn].
    apply app_nil_r.
  - cbn [nth]. replace (S i * k)%nat with (length (f x) + i * k)%nat by (rewrite H; lia).
    rewrite skipn_app, skipn_all2 by lia. cbn [app].
    replace (length (f x) + i * k - length (f x))%nat with (i * k)%nat by lia.
    apply IH. lia.
Qed.

Lemma chunks_concat {A} (f : A -> bytes) (k : nat) :
  (forall x, length (f x) = k) -> forall l rest, chunks k (length l) (concat_map f l ++ rest) = map f l.
Proof.
  intros H. unfold concat_map. induction l as [|x l IH]; intros rest; cbn [length chunks map concat]; [reflexivity|].
  rewrite <- app_assoc. rewrite firstn_app, (firstn_all2 (f x)) by (rewrite H; lia).
  rewrite (H x), Nat.sub_diag. cbn [firstn]. rewrite app_nil_r.
  rewrite skipn_app, (skipn_all2 (f x)) by (rewrite H; lia). rewrite (H x), Nat.sub_diag. cbn [skipn app].
  f_equal. apply IH.
Qed.

Lemma firstn_skipn_app (a b : bytes) k n : (k + n <= length a)%nat ->
  firstn n (skipn k (a ++ b)) = firstn n (skipn k a).
Proof.
  intros H. rewrite skipn_app. rewrite firstn_app. rewrite skipn_length.
  replace (n - (length a - k))%nat with 0%nat by lia. cbn [firstn]. apply app_nil_r.
Qed.

(* ---- sizes of the written tables ------------------------------------------------------------------------ *)
Lemma cdat_edges_length : forall rs e0, Forall rec_ok rs ->
  length (fst (cdat_edges rs e0)) = (36 * length rs)%nat.
Proof.
  induction rs as [|r rs IH]; intros e0 Hok; [reflexivity|].
  inversion Hok as [|? ? Hr Hrs]; subst. cbn [cdat_edges].
  destruct (encode_parents (r_parents r) (N.of_nat (length e0))) as [[p1 p2] ex].
  specialize (IH (e0 ++ ex) Hrs). destruct (cdat_edges rs (e0 ++ ex)) as [b e]. cbn [fst] in *.
  rewrite app_length, record_bytes_len by apply (ok_tree r Hr). cbn [length]. lia.
Qed.

Lemma oidl_length rs : Forall rec_ok rs -> length (concat_map r_id rs) = (20 * length rs)%nat.
Proof.
  intros Hok. unfold concat_map. induction Hok as [|r rs Hr _ IH]; [reflexivity|].
  cbn [map concat length]. rewrite app_length, IH, (ok_id r Hr). lia.
Qed.

Lemma oidl_nth rs : Forall rec_ok rs -> forall i, (i < length rs)%nat ->
  firstn 20 (skipn (i * 20) (concat_map r_id rs)) = r_id (nth i rs dummy_rec).
Proof.
  intros Hok. unfold concat_map. induction Hok as [|r rs Hr _ IH]; intros i Hi; cbn [length] in Hi; [lia|].
  cbn [map concat]. pose proof (ok_id r Hr) as L. destruct i as [|i].
  - cbn [Nat.mul skipn nth]. apply firstn_app_len. symmetry. exact L.
  - cbn [nth]. rewrite (skipn_app_add (r_id r) _ _ (i * 20)) by lia. apply IH. lia.
Qed.

Lemma fan_table_length ids : length (fan_table ids) = 256%nat.
Proof. unfold fan_table. rewrite map_length, seq_length. reflexivity. Qed.

Lemma filter_len_le {A} (p : A -> bool) l : (length (filter p l) <= length l)%nat.
Proof. induction l as [|x l IH]; [cbn; lia|]. cbn [filter]. destruct (p x); cbn [length]; lia. Qed.

Lemma fan_table_bound ids : Forall (fun v => v <= N.of_nat (length ids)) (fan_table ids).
Proof.
  unfold fan_table. rewrite Forall_forall. intros v Hv. apply in_map_iff in Hv. destruct Hv as [b [<- _]].
  pose proof (filter_len_le (fun id => b2N (first_byte id) <=? N.of_nat b) ids). lia.
Qed.

Lemma map_be_rt l : Forall (fun v => v < U32) l -> map be_to_N (map be32 l) = l.
Proof.
  induction 1 as [|v l Hv _ IH]; [reflexivity|]. cbn [map]. rewrite be32_rt, IH by exact Hv. reflexivity.
Qed.

(* ---- the table of contents of a written file ----------------------------------------------------------- *)
Lemma toc_of_app cs1 : forall cs2 ofs,
  toc_of (cs1 ++ cs2) ofs = toc_of cs1 ofs ++ toc_of cs2 (ofs + total_size cs1).
Proof.
  induction cs1 as [|[id sz] r IH]; intros cs2 ofs.
  - cbn [app toc_of]. unfold total_size. cbn [fold_right]. f_equal. lia.
  - cbn [app toc_of]. rewrite IH. change (total_size ((id, sz) :: r)) with (sz + total_size r).
    replace (ofs + sz + total_size r) with (ofs + (sz + total_size r)) by lia. reflexivity.
Qed.

Lemma total_size_app cs1 cs2 : total_size (cs1 ++ cs2) = total_size cs1 + total_size cs2.
Proof.
  unfold total_size. induction cs1 as [|c r IH]; cbn [app fold_right]; [lia|]. rewrite IH. lia.
Qed.

Lemma highest_offset_toc cs ofs : cs <> [] -> highest_offset (toc_of cs ofs) = Ok (ofs + total_size cs).
Proof.
  intros Hne. destruct (exists_last Hne) as [cs' [[id sz] ->]].
  rewrite toc_of_app. cbn [toc_of]. unfold highest_offset. rewrite rev_app_distr. cbn [rev app].
  rewrite total_size_app. change (total_size [(id, sz)]) with (sz + 0). f_equal. lia.
Qed.

(* ---- File::new accepts a file whose table of contents has the five chunks in good shape ------------------- *)
Lemma file_new_from_regions : forall data nb nc toc sF sL sC n eopt bopt hi fan,
  MIN_FILE_SIZE <= len data ->
  firstn 4 data = SIGNATURE -> nth 4 data x00 = x01 -> nth 5 data x00 = x01 ->
  b2N (nth 6 data x00) = nc -> b2N (nth 7 data x00) = nb ->
  toc_from_bytes data 8 nc = Ok toc ->
  toc_find toc (kind_id KOidf) = Some (sF, sF + 1024) ->
  toc_find toc (kind_id KOidl) = Some (sL, sL + 20 * n) ->
  toc_find toc (kind_id KCdat) = Some (sC, sC + 36 * n) ->
  toc_find toc (kind_id KEdge) = eopt ->
  toc_find toc (kind_id KBase) = bopt ->
  ((bopt = None /\ nb = 0) \/ (exists s, bopt = Some (s, s + 20 * nb))) ->
  highest_offset toc = Ok hi -> len data = hi + 20 -> sF + 1024 <= len data ->
  n < U32 -> nb < 256 ->
  map be_to_N (chunks 4 256 (skipn (N.to_nat sF) data)) = fan -> nth 255 fan 0 = n ->
  file_new data = Ok {| fdata := data; base_graph_count := nb; base_graphs_list_offset := option_map fst bopt;
                        commit_data_offset := sC; extra_edges_list_range := eopt; ffan := fan;
                        oid_lookup_offset := sL |}.
Proof.
  intros data nb nc toc sF sL sC n eopt bopt hi fan Hmin Hsig H4 H5 H6 H7 Htoc HF HL HC HE HB Hbase Hhi Hlen HsF Hn Hnb Hfan H255.
  unfold file_new.
  destruct (N.ltb_spec (len data) MIN_FILE_SIZE); [lia|].
  rewrite Hsig, (proj2 (bytes_eqb_eq SIGNATURE SIGNATURE) eq_refl). cbn [negb].
  rewrite H4, H5. change (b2N x01 =? 1) with true. cbn [negb].
  rewrite H6, H7, Htoc. cbn [obind].
  rewrite HB, HC, HF, HL, HE, Hhi.
  unfold HASH_LEN, ENTRY_SIZE, to_u32, U32 in *.
  assert (Ebase : (match bopt with
           | None => Ok None
           | Some (s, e) =>
               if negb ((e - s) mod 20 =? 0) then Err (EInvalidChunkSize KBase)
               else obind (if (e - s) / 20 <? 4294967296 then Ok ((e - s) / 20) else Panic) (fun cnt =>
                      if negb (cnt =? nb) then Err EBaseGraphMismatch else Ok (Some s))
           end : outcome (option N) err) = Ok (option_map fst bopt)).
  { destruct Hbase as [[-> _]|[s ->]]; [reflexivity|].
    replace (s + 20 * nb - s) with (20 * nb) by lia.
    replace (20 * nb mod 20) with 0 by lia. change (0 =? 0) with true. cbn [negb].
    replace (20 * nb / 20) with nb by lia.
    destruct (N.ltb_spec nb 4294967296); [|lia]. cbn [obind]. rewrite N.eqb_refl. reflexivity. }
  rewrite Ebase. cbn [obind].
  replace (sC + 36 * n - sC) with (36 * n) by lia.
  replace (36 * n mod 36) with 0 by lia. change (0 =? 0) with true. cbn [negb].
  replace (36 * n / 36) with n by lia.
  destruct (N.ltb_spec n 4294967296); [|lia]. cbn [obind].
  replace (sF + 1024 - sF) with 1024 by lia. change (1024 =? 1024) with true. cbn [negb obind].
  replace (sL + 20 * n - sL) with (20 * n) by lia.
  replace (20 * n mod 20) with 0 by lia. change (0 =? 0) with true. cbn [negb].
  replace (20 * n / 20) with n by lia.
  destruct (N.ltb_spec n 4294967296); [|lia]. cbn [obind].
  destruct (N.ltb_spec (len data) hi); [lia|].
  replace (len data - hi) with 20 by lia. change (20 =? 20) with true. cbn [negb].
  assert (Eb : ((0 <? nb) && match option_map fst bopt with None => true | Some _ => false end) = false).
  { destruct Hbase as [[-> ->]|[s ->]]; [reflexivity|]. cbn [option_map]. apply andb_false_r. }
  rewrite Eb.
  destruct (N.ltb_spec (len data) sF); [lia|].
  unfold read_fan.
  assert (Lk : len (skipn (N.to_nat sF) data) = len data - sF) by (unfold len; rewrite skipn_length; lia).
  destruct (N.ltb_spec (len (skipn (N.to_nat sF) data)) 1024); [lia|]. cbn [obind].
  rewrite Hfan, H255. cbn [fst snd]. rewrite N.eqb_refl. cbn [negb]. reflexivity.
Qed.

Lemma assemble_length nbase chunks trailer : Forall (fun c => id_ok (fst c)) chunks ->
  len (assemble nbase chunks trailer)
  = 8 + 12 * (N.of_nat (length chunks) + 1) + total_size (sizes chunks) + len trailer.
Proof.
  intros Hok.
  assert (Hoks : Forall (fun c => id_ok (fst c)) (sizes chunks)).
  { unfold sizes. rewrite Forall_forall in *. intros c Hc. apply in_map_iff in Hc.
    destruct Hc as [c0 [<- Hc0]]. cbn [fst]. apply Hok, Hc0. }
  unfold assemble, len. rewrite !app_length. fold (sizes chunks).
  rewrite toc_bytes_length by exact Hoks. rewrite total_size_sizes. unfold sizes, len. rewrite map_length.
  rewrite signature_bytes. cbn [length]. lia.
Qed.

Lemma assemble_header nbase chunks trailer :
  let data := assemble nbase chunks trailer in
  firstn 4 data = SIGNATURE /\ nth 4 data x00 = x01 /\ nth 5 data x00 = x01 /\ nth 7 data x00 = N2b nbase.
Proof.
  cbv zeta. unfold assemble. rewrite signature_bytes. cbn [app firstn nth]. repeat split; reflexivity.
Qed.

Lemma kind_ids_ok : forall k, id_ok (kind_id k).
Proof. intros []; split; vm_compute; (reflexivity || discriminate). Qed.

Lemma written_generic : forall rs nb tail trailer cdat edges,
  cdat_edges rs [] = (cdat, edges) -> Forall rec_ok rs -> N.of_nat (length rs) < U32 ->
  length trailer = 20%nat -> nb < 256 ->
  let F := concat_map be32 (fan_table (map r_id rs)) in
  let L := concat_map r_id rs in
  let cs := (kind_id KOidf, F) :: (kind_id KOidl, L) :: (kind_id KCdat, cdat) :: tail in
  Forall (fun c => id_ok (fst c)) cs -> NoDup (map fst cs) -> (length cs < 256)%nat ->
  len (assemble nb cs trailer) < U64 ->
  let toc := toc_of (sizes cs) (8 + 12 * (N.of_nat (length cs) + 1)) in
  ((toc_find toc (kind_id KBase) = None /\ nb = 0) \/
   (exists s, toc_find toc (kind_id KBase) = Some (s, s + 20 * nb))) ->
  (edges <> [] -> exists pre' post', tail = pre' ++ (kind_id KEdge, concat_map be32 edges) :: post' /\
                                     ~ In (kind_id KEdge) (map fst pre')) ->
  exists f, file_new (assemble nb cs trailer) = Ok f /\ file_holds f rs.
Proof.
  intros rs nb tail trailer cdat edges Ece Hok Hn Htr Hnb F L cs Hids Hnd Hcl Hlen toc Hbase Hedge.
  set (n := N.of_nat (length rs)) in *.
  set (data := assemble nb cs trailer) in *.
  set (ofs0 := 8 + 12 * (N.of_nat (length cs) + 1)) in *.
  assert (LF : len F = 1024).
  { unfold F, len. rewrite (concat_map_length be32 4) by apply be32_len. rewrite fan_table_length. reflexivity. }
  assert (LL : len L = 20 * n) by (unfold L, len, n; rewrite oidl_length by exact Hok; lia).
  assert (LC : len cdat = 36 * n).
  { pose proof (cdat_edges_length rs [] Hok) as H. rewrite Ece in H. cbn [fst] in H. unfold len, n. lia. }
  destruct (L_toc_of_assemble nb cs trailer ltac:(discriminate) Hcl Hids Hnd Hlen) as [H6 Htoc].
  fold data in H6, Htoc. fold ofs0 in Htoc. fold toc in Htoc.
  destruct (assemble_header nb cs trailer) as [Hsig [H4 [H5 H7]]]. fold data in Hsig, H4, H5, H7.
  pose proof (assemble_length nb cs trailer Hids) as LD. fold data in LD. fold ofs0 in LD.
  assert (TS : total_size (sizes cs) = 1024 + 20 * n + 36 * n + total_size (sizes tail)).
  { unfold cs. change (sizes ((kind_id KOidf, F) :: (kind_id KOidl, L) :: (kind_id KCdat, cdat) :: tail))
      with ((kind_id KOidf, len F) :: (kind_id KOidl, len L) :: (kind_id KCdat, len cdat) :: sizes tail).
    unfold total_size. cbn [fold_right snd]. fold (total_size (sizes tail)). rewrite LF, LL, LC. lia. }
  (* the three mandatory chunks *)
  assert (HF : toc_find toc (kind_id KOidf) = Some (ofs0, ofs0 + 1024)).
  { pose proof (toc_find_region [] (kind_id KOidf) F ((kind_id KOidl, L) :: (kind_id KCdat, cdat) :: tail) ofs0 (kind_ids_ok _)
                  ltac:(intros [])) as H.
    cbn [app] in H. unfold toc, cs. rewrite H. rewrite LF. change (total_size (sizes [])) with 0. apply f_equal. apply pair_equal_spec. split; lia. }
  assert (HL : toc_find toc (kind_id KOidl) = Some (ofs0 + 1024, ofs0 + 1024 + 20 * n)).
  { pose proof (toc_find_region [(kind_id KOidf, F)] (kind_id KOidl) L ((kind_id KCdat, cdat) :: tail) ofs0 (kind_ids_ok _)
                  ltac:(cbn; intros [H|[]]; vm_compute in H; discriminate H)) as H.
    cbn [app] in H. unfold toc, cs. rewrite H. rewrite LL. change (total_size (sizes [(kind_id KOidf, F)])) with (len F + 0). rewrite LF.
    apply f_equal. apply pair_equal_spec. split; lia. }
  assert (HC : toc_find toc (kind_id KCdat) = Some (ofs0 + 1024 + 20 * n, ofs0 + 1024 + 20 * n + 36 * n)).
  { pose proof (toc_find_region [(kind_id KOidf, F); (kind_id KOidl, L)] (kind_id KCdat) cdat tail ofs0 (kind_ids_ok _)
                  ltac:(cbn; intros [H|[H|[]]]; vm_compute in H; discriminate H)) as H.
    cbn [app] in H. unfold toc, cs. rewrite H. rewrite LC. change (total_size (sizes [(kind_id KOidf, F); (kind_id KOidl, L)])) with (len F + (len L + 0)).
    rewrite LF, LL. apply f_equal. apply pair_equal_spec. split; lia. }
  (* fan-out as read *)
  assert (RF : skipn (N.to_nat ofs0) data = F ++ concat (map snd ((kind_id KOidl, L) :: (kind_id KCdat, cdat) :: tail)) ++ trailer).
  { pose proof (region_content nb [] (kind_id KOidf) F ((kind_id KOidl, L) :: (kind_id KCdat, cdat) :: tail) trailer Hids) as R.
    cbv zeta in R. change (total_size (sizes [])) with 0 in R.
    replace (ofs0) with (8 + 12 * (N.of_nat (length cs) + 1) + 0) by (unfold ofs0; lia). exact R. }
  assert (Hfan : map be_to_N (chunks 4 256 (skipn (N.to_nat ofs0) data)) = fan_table (map r_id rs)).
  { rewrite RF. unfold F.
    rewrite <- (fan_table_length (map r_id rs)) at 1.
    rewrite (chunks_concat be32 4 be32_len). apply map_be_rt.
    pose proof (fan_table_bound (map r_id rs)) as B. rewrite map_length in B.
    rewrite Forall_forall in *. intros v Hv. specialize (B v Hv). fold n in B. lia. }
  assert (H255 : nth 255 (fan_table (map r_id rs)) 0 = n).
  { rewrite fan_table_nth by lia. change (N.of_nat 255) with 255. rewrite cnt_255 by (apply ids_all20; exact Hok).
    rewrite map_length. reflexivity. }
  assert (Hhi : highest_offset toc = Ok (ofs0 + total_size (sizes cs))).
  { unfold toc. apply highest_offset_toc. unfold cs. discriminate. }
  assert (LDt : len data = ofs0 + total_size (sizes cs) + 20) by (rewrite LD; unfold len; rewrite Htr; lia).
  assert (Hcs3 : 3 <= N.of_nat (length cs)) by (unfold cs; cbn [length]; lia).
  eexists. split.
  - apply (file_new_from_regions data nb (N.of_nat (length cs)) toc ofs0 (ofs0 + 1024) (ofs0 + 1024 + 20 * n) n
             (toc_find toc (kind_id KEdge)) (toc_find toc (kind_id KBase)) (ofs0 + total_size (sizes cs))
             (fan_table (map r_id rs))); try assumption; try reflexivity.
    + unfold MIN_FILE_SIZE. rewrite LDt, TS. unfold ofs0. lia.
    + rewrite H7, b2N_N2b_mod. apply N.mod_small. exact Hnb.
    + rewrite LDt, TS. lia.
  - unfold file_holds. cbn [ffan fdata oid_lookup_offset commit_data_offset]. rewrite Ece. cbn [fst snd].
    split; [reflexivity|]. split; [|split].
    + intros i Hi.
      pose proof (region_content nb [(kind_id KOidf, F)] (kind_id KOidl) L ((kind_id KCdat, cdat) :: tail) trailer Hids) as R.
      cbv zeta in R. change (total_size (sizes [(kind_id KOidf, F)])) with (len F + 0) in R. rewrite LF in R.
      replace (8 + 12 * (N.of_nat (length ([(kind_id KOidf, F)] ++ (kind_id KOidl, L) :: (kind_id KCdat, cdat) :: tail)) + 1) + (1024 + 0))
        with (ofs0 + 1024) in R by (unfold ofs0, cs; cbn [app length]; lia).
      fold data in R.
      rewrite (slice_suffix data (ofs0 + 1024) _ (N.of_nat i * 20) 20 ltac:(rewrite LDt, TS; lia) R).
      * f_equal. replace (N.to_nat (N.of_nat i * 20)) with (i * 20)%nat by lia. change (N.to_nat 20) with 20%nat.
        rewrite firstn_skipn_app by (unfold L; rewrite oidl_length by exact Hok; lia).
        apply oidl_nth; assumption.
      * unfold len. rewrite app_length. fold (len L). unfold len in LL. unfold n in LL. lia.
    + intros i Hi.
      pose proof (region_content nb [(kind_id KOidf, F); (kind_id KOidl, L)] (kind_id KCdat) cdat tail trailer Hids) as R.
      cbv zeta in R. change (total_size (sizes [(kind_id KOidf, F); (kind_id KOidl, L)])) with (len F + (len L + 0)) in R.
      rewrite LF, LL in R.
      replace (8 + 12 * (N.of_nat (length ([(kind_id KOidf, F); (kind_id KOidl, L)] ++ (kind_id KCdat, cdat) :: tail)) + 1) + (1024 + (20 * n + 0)))
        with (ofs0 + 1024 + 20 * n) in R by (unfold ofs0, cs; cbn [app length]; lia).
      fold data in R.
      rewrite (slice_suffix data (ofs0 + 1024 + 20 * n) _ (N.of_nat i * 36) 36 ltac:(rewrite LDt, TS; lia) R).
      * f_equal. replace (N.to_nat (N.of_nat i * 36)) with (36 * i)%nat by lia. change (N.to_nat 36) with 36%nat.
        apply firstn_skipn_app. unfold len, n in LC. lia.
      * unfold len. rewrite app_length. unfold len, n in LC. lia.
    + intros Hne. destruct (Hedge Hne) as [pre' [post' [-> Hni]]].
      set (ce := concat_map be32 edges) in *.
      set (pre := (kind_id KOidf, F) :: (kind_id KOidl, L) :: (kind_id KCdat, cdat) :: pre').
      assert (Hpre : ~ In (kind_id KEdge) (map fst pre)).
      { unfold pre. cbn [map fst In]. intros [H|[H|[H|H]]]; try (vm_compute in H; discriminate H). exact (Hni H). }
      assert (HE : toc_find toc (kind_id KEdge)
                   = Some (ofs0 + total_size (sizes pre), ofs0 + total_size (sizes pre) + len ce)).
      { unfold toc, cs. apply (toc_find_region pre (kind_id KEdge) ce post' ofs0 (kind_ids_ok _) Hpre). }
      pose proof (region_content nb pre (kind_id KEdge) ce post' trailer Hids) as R. cbv zeta in R.
      change (pre ++ (kind_id KEdge, ce) :: post') with cs in R. fold ofs0 in R. fold data in R.
      assert (TSe : total_size (sizes cs) = total_size (sizes pre) + len ce + total_size (sizes post')).
      { change cs with (pre ++ (kind_id KEdge, ce) :: post'). unfold sizes. rewrite map_app, total_size_app.
        cbn [map fst snd]. change (total_size ((kind_id KEdge, len ce) :: map (fun c => (fst c, len (snd c))) post'))
          with (len ce + total_size (map (fun c => (fst c, len (snd c))) post')). lia. }
      unfold extra_edges_data. cbn [extra_edges_list_range fdata]. rewrite HE.
      destruct (N.leb_spec (ofs0 + total_size (sizes pre)) (ofs0 + total_size (sizes pre) + len ce)); [|lia].
      destruct (N.leb_spec (ofs0 + total_size (sizes pre) + len ce) (len data)); [|lia].
      cbn [andb]. rewrite R. do 2 f_equal.
      apply firstn_app_len. unfold len. lia.
Qed.

Ltac kind_notin :=
  cbn [map fst In]; let H := fresh "H" in intros H;
  repeat (destruct H as [H|H]; [vm_compute in H; discriminate H|]); exact H.

Ltac chunk_side_conditions :=
  match goal with
  | |- Forall _ _ => repeat (apply Forall_cons; [cbn [fst]; apply kind_ids_ok|]); apply Forall_nil
  | |- NoDup _ => cbn [map fst]; repeat (apply NoDup_cons; [kind_notin|]); apply NoDup_nil
  | |- (length _ < 256)%nat => cbn [length]; lia
  end.

Theorem L_written_file_holds : forall rs base trailer,
  Forall rec_ok rs -> N.of_nat (length rs) < U32 -> length trailer = 20%nat ->
  len base mod 20 = 0 -> len base / 20 < 256 ->
  len (write_file rs base trailer) < U64 ->
  exists f, file_new (write_file rs base trailer) = Ok f /\ file_holds f rs.
Proof.
  intros rs base trailer Hok Hn Htr Hb20 Hb256 Hlen.
  unfold write_file, file_chunks in *. destruct (cdat_edges rs []) as [cdat edges] eqn:Ece.
  assert (Hbl : len base = 20 * (len base / 20)) by lia.
  destruct edges as [|e0 et]; destruct base as [|b0 bt]; cbn [app] in *.
  - (* no octopus, no base *)
    apply (written_generic rs _ [] trailer cdat [] Ece Hok Hn Htr Hb256); try exact Hlen; try chunk_side_conditions.
    + left. split; [apply toc_find_absent; kind_notin|reflexivity].
    + intros H; congruence.
  - set (base := b0 :: bt) in *.
    apply (written_generic rs _ [(kind_id KBase, base)] trailer cdat [] Ece Hok Hn Htr Hb256);
      try exact Hlen; try chunk_side_conditions.
    + right. eexists. rewrite <- Hbl.
      refine (toc_find_region [_; _; _] (kind_id KBase) base [] _ (kind_ids_ok _) _). kind_notin.
    + intros H; congruence.
  - set (edges := e0 :: et) in *.
    apply (written_generic rs _ [(kind_id KEdge, concat_map be32 edges)] trailer cdat edges Ece Hok Hn Htr Hb256);
      try exact Hlen; try chunk_side_conditions.
    + left. split; [apply toc_find_absent; kind_notin|reflexivity].
    + intros _. exists [], []. split; [reflexivity|intros []].
  - set (edges := e0 :: et) in *. set (base := b0 :: bt) in *.
    apply (written_generic rs _ [(kind_id KEdge, concat_map be32 edges); (kind_id KBase, base)] trailer cdat edges
             Ece Hok Hn Htr Hb256); try exact Hlen; try chunk_side_conditions.
    + right. eexists. rewrite <- Hbl.
      refine (toc_find_region [_; _; _; _] (kind_id KBase) base [] _ (kind_ids_ok _) _). kind_notin.
    + intros _. exists [], [(kind_id KBase, base)]. split; [reflexivity|intros []].
Qed.

(* ---- whole chains of written files ------------------------------------------------------------------------ *)
From GixV.C14 Require Import ProofsGraph ProofsChain.

Fixpoint open_all (ds : list bytes) : outcome (list file) err :=
  match ds with
  | [] => Ok []
  | d :: r => obind (file_new d) (fun f => obind (open_all r) (fun l => Ok (f :: l)))
  end.

(* [d] is what the writer makes of the layer [rs], for some base-graph checksums and some trailer *)
Definition written_as (d : bytes) (rs : list rec) : Prop :=
  exists base trailer, d = write_file rs base trailer /\ length trailer = 20%nat /\
    len base mod 20 = 0 /\ len base / 20 < 256 /\ len d < U64.

Lemma open_all_written : forall ds ls, Forall2 written_as ds ls -> Forall layer_ok ls ->
  exists g, open_all ds = Ok g /\ Forall2 file_holds g ls.
Proof.
  induction 1 as [|d rs ds ls Hw _ IH]; intros Hok.
  - exists []. split; [reflexivity|constructor].
  - inversion Hok as [|? ? [H1 [H2 [H3 H4]]] Hr]; subst.
    destruct Hw as [base [trailer [-> [Ht [Hb1 [Hb2 Hl]]]]]].
    destruct (L_written_file_holds rs base trailer H1 ltac:(unfold HIGH_BIT, U32 in *; lia) Ht Hb1 Hb2 Hl) as [f [Hf Hh]].
    destruct (IH Hr) as [g [Hg Hhs]].
    exists (f :: g). cbn [open_all]. rewrite Hf. cbn [obind]. rewrite Hg. cbn [obind].
    split; [reflexivity|constructor; assumption].
Qed.

Theorem L_graph_RT_written : forall ds lpre rs lpost,
  Forall2 written_as ds (lpre ++ rs :: lpost) -> Forall layer_ok (lpre ++ rs :: lpost) ->
  commits_in (lpre ++ rs :: lpost) <= MAX_COMMITS ->
  exists g f, open_all ds = Ok g /\ graph_new g = Ok g /\
    graph_num_commits g = Ok (commits_in (lpre ++ rs :: lpost)) /\
    forall i, (i < length rs)%nat ->
      let r := nth i rs dummy_rec in
      graph_id_at g (gpos lpre i) = Ok (r_id r) /\
      (exists c, graph_commit_at g (gpos lpre i) = Ok (f, c) /\
         c_tree c = r_tree r /\ c_generation c = r_gen r /\ c_time c = r_time r /\
         parents f c = Ok (r_parents r, None)) /\
      (~ In (r_id r) (map r_id (concat lpre)) -> NoDup (map r_id rs) ->
       graph_lookup g (r_id r) = Ok (Some (gpos lpre i)) /\
       exists c, graph_commit_by_id g (r_id r) = Ok (Some (f, N.of_nat i, c)) /\
         c_tree c = r_tree r /\ c_generation c = r_gen r /\ c_time c = r_time r /\
         parents f c = Ok (r_parents r, None)).
Proof.
  intros ds lpre rs lpost Hw Hok Hmax.
  destruct (open_all_written ds _ Hw Hok) as [g [Hg Hh]].
  destruct (L_graph_new g _ Hh Hok Hmax) as [Hnew Hnum].
  destruct (Forall2_app_inv_r _ _ Hh) as [pre [g2 [Hpre [H2 ->]]]].
  inversion H2 as [|f ? post ? Hf Hpost]; subst.
  apply Forall_app in Hok. destruct Hok as [Hokpre Hok2]. inversion Hok2 as [|? ? Hokrs _]; subst.
  exists (pre ++ f :: post), f. split; [exact Hg|]. split; [exact Hnew|]. split; [exact Hnum|].
  intros i Hi r.
  destruct (L_chain_commit pre post f lpre rs Hpre Hf Hokpre Hokrs i Hi) as [A B].
  split; [exact A|]. split; [exact B|].
  intros Hni Hnd.
  apply (L_chain_lookup pre post f lpre rs Hpre Hf Hokpre Hokrs i Hi Hni Hnd).
  unfold commits_in in *. rewrite concat_app, app_length in Hmax. cbn [concat] in Hmax. rewrite app_length in Hmax.
  unfold MAX_COMMITS, U32 in *. lia.
Qed.
