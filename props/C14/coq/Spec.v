(* C14 — specification: git's commit-graph writer, from Documentation/gitformat-commit-graph.txt
   (and commit-graph.c of git 2.39 for the details the text leaves open: NO_PARENT = 0x70000000,
   octopus edges in the EDGE chunk with the last one marked 0x80000000, generation << 2 | date >> 32,
   graph positions count through the chain, base layers first).
   Two stages:
     B  [write_file]: one layer, given as records sorted by id whose parents are already graph positions
        -> header, table of contents, OIDF, OIDL, CDAT, [EDGE], [BASE], trailer.
        [assemble] lays out ANY chunk list, so that files with further chunks (GDA2, GDO2, BIDX, BDAT,
        which git 2.39 writes and gitoxide ignores) are covered by the layout theorems too.
     A  [write_chain]: a DAG (commits in topological order, parents by index, each commit assigned to a
        layer) -> the records of every layer: sorting by id, graph positions, topological levels.
   The trailing checksum and the BASE chunk's content (checksums of the lower files) are SHA-1 values;
   they are parameters here (never interpreted by the reader) and zero in the executable instance.
   NO proofs in this file. *)
From GixV.Base Require Import Bytes Outcome.
From GixV.C14 Require Import Model.
Local Open Scope N_scope.

(* the low [k] bytes of n, most significant first *)
Fixpoint N_to_be (k : nat) (n : N) : bytes :=
  match k with
  | O => []
  | S k' => N_to_be k' (n / 256) ++ [N2b n]
  end.
Definition be32 (n : N) : bytes := N_to_be 4 n.
Definition be64 (n : N) : bytes := N_to_be 8 n.

Definition concat_map {A} (f : A -> bytes) (l : list A) : bytes := concat (map f l).

(* ---- stage B: one file ------------------------------------------------------------------------------ *)
Record rec := { r_id : bytes; r_tree : bytes; r_parents : list N; r_gen : N; r_time : N }.

(* all but the last entry as they are, the last one with LAST_EXTENDED_EDGE_MASK *)
Fixpoint mark_last (ps : list N) : list N :=
  match ps with
  | [] => []
  | [p] => [HIGH_BIT + p]
  | p :: r => p :: mark_last r
  end.

(* (parent1 word, parent2 word, entries appended to the extra edge list); [edge_idx] = entries so far *)
Definition encode_parents (ps : list N) (edge_idx : N) : N * N * list N :=
  match ps with
  | [] => (NO_PARENT, NO_PARENT, [])
  | [a] => (a, NO_PARENT, [])
  | [a; b] => (a, b, [])
  | a :: rest => (a, HIGH_BIT + edge_idx, mark_last rest)
  end.

Definition POW32 : N := 4294967296.

Definition record_bytes (r : rec) (p1 p2 : N) : bytes :=
  r_tree r ++ be32 p1 ++ be32 p2 ++ be32 (r_gen r * 4 + r_time r / POW32) ++ be32 (r_time r mod POW32).

(* CDAT records and the extra edge list, [edges] = the list so far *)
Fixpoint cdat_edges (rs : list rec) (edges : list N) : bytes * list N :=
  match rs with
  | [] => ([], edges)
  | r :: rest =>
      let '(p1, p2, ex) := encode_parents (r_parents r) (N.of_nat (length edges)) in
      let '(b, e) := cdat_edges rest (edges ++ ex) in
      (record_bytes r p1 p2 ++ b, e)
  end.

(* fan-out: entry b = number of ids whose first byte is <= b *)
Definition fan_table (ids : list bytes) : list N :=
  map (fun b => N.of_nat (length (filter (fun id => b2N (first_byte id) <=? N.of_nat b) ids))) (seq 0 256).

(* table of contents: (id, size) in order, then the sentinel entry *)
Fixpoint toc_bytes (chunks : list (bytes * N)) (ofs : N) : bytes :=
  match chunks with
  | [] => SENTINEL ++ be64 ofs
  | (id, size) :: r => id ++ be64 ofs ++ toc_bytes r (ofs + size)
  end.

Definition assemble (nbase : N) (chunks : list (bytes * bytes)) (trailer : bytes) : bytes :=
  let n := N.of_nat (length chunks) in
  SIGNATURE ++ [x01; x01; N2b n; N2b nbase]
  ++ toc_bytes (map (fun c => (fst c, len (snd c))) chunks) (8 + 12 * (n + 1))
  ++ concat (map snd chunks) ++ trailer.

(* the chunks gitoxide reads, in git's order; [base] = concatenated checksums of the lower layers *)
Definition file_chunks (rs : list rec) (base : bytes) : list (bytes * bytes) :=
  let '(cdat, edges) := cdat_edges rs [] in
  [(kind_id KOidf, concat_map be32 (fan_table (map r_id rs)));
   (kind_id KOidl, concat_map r_id rs);
   (kind_id KCdat, cdat)]
  ++ (match edges with [] => [] | _ => [(kind_id KEdge, concat_map be32 edges)] end)
  ++ (match base with [] => [] | _ => [(kind_id KBase, base)] end).

Definition write_file (rs : list rec) (base trailer : bytes) : bytes :=
  assemble (len base / 20) (file_chunks rs base) trailer.

(* ---- stage A: a DAG split into layers --------------------------------------------------------------- *)
Record cdesc := { d_id : bytes; d_tree : bytes; d_time : N; d_layer : N; d_parents : list nat }.

Definition GENERATION_NUMBER_V1_MAX : N := 1073741823.   (* 0x3FFFFFFF *)

(* topological levels: 1 + max over the parents (0 for none), commits in topological order;
   [acc] = levels of the commits before, in order *)
Definition level_of (acc : list N) (c : cdesc) : N :=
  N.min GENERATION_NUMBER_V1_MAX (1 + fold_right (fun p m => N.max (nth p acc 0) m) 0 (d_parents c)).
Fixpoint levels_acc (dag : list cdesc) (acc : list N) : list N :=
  match dag with
  | [] => acc
  | c :: r => levels_acc r (acc ++ [level_of acc c])
  end.
Definition levels (dag : list cdesc) : list N := levels_acc dag [].

(* stable insertion sort *)
Fixpoint insert_by {A} (cmp : A -> A -> comparison) (x : A) (l : list A) : list A :=
  match l with
  | [] => [x]
  | y :: r => match cmp x y with
              | Gt => y :: insert_by cmp x r
              | _ => x :: y :: r
              end
  end.
Definition sort_by {A} (cmp : A -> A -> comparison) (l : list A) : list A :=
  fold_right (insert_by cmp) [] l.

Definition cmp_id (a b : cdesc * N) : comparison := bytes_cmp (d_id (fst a)) (d_id (fst b)).

(* commits of layer j with their levels, sorted by id *)
Definition layer_commits (dag : list cdesc) (j : N) : list (cdesc * N) :=
  sort_by cmp_id (filter (fun cg => d_layer (fst cg) =? j) (combine dag (levels dag))).

(* all commits in graph position order: layer 0 first *)
Definition graph_order (dag : list cdesc) (k : nat) : list (cdesc * N) :=
  concat (map (fun j => layer_commits dag (N.of_nat j)) (seq 0 k)).

Fixpoint index_of (id : bytes) (l : list (cdesc * N)) : N :=
  match l with
  | [] => 0
  | x :: r => if bytes_eqb (d_id (fst x)) id then 0 else 1 + index_of id r
  end.

Definition dummy : cdesc := {| d_id := []; d_tree := []; d_time := 0; d_layer := 0; d_parents := [] |}.

Definition rec_of (dag : list cdesc) (order : list (cdesc * N)) (cg : cdesc * N) : rec :=
  {| r_id := d_id (fst cg);
     r_tree := d_tree (fst cg);
     r_parents := map (fun p => index_of (d_id (nth p dag dummy)) order) (d_parents (fst cg));
     r_gen := snd cg;
     r_time := d_time (fst cg) mod TIME_MOD |}.

Definition layer_recs (dag : list cdesc) (k : nat) (j : N) : list rec :=
  map (rec_of dag (graph_order dag k)) (layer_commits dag j).

(* layer j's file; base checksums and trailer are zero bytes in this executable instance *)
Definition write_chain (dag : list cdesc) (k : nat) : list bytes :=
  map (fun j => write_file (layer_recs dag k (N.of_nat j)) (repeat x00 (20 * j)) (repeat x00 20)) (seq 0 k).
