(* C14 — transcript printer: the same observable line the Rust harness prints for a case.
   cases:  graph <k> <file>{k} <queries> [<dag>]      the reader on the given bytes (dag: for prop only)
           git <dag> <k> <queries> <mode>             model: reader on the files the Spec writer makes
                                                      impl : gitoxide on the files real git writes
   queries = concatenated 20-byte ids
   dag     = per commit: id(20) tree(20) time(be64) layer(1) np(1) parent indices (np bytes)
   mode "spec" on a git case prints the chunks gitoxide reads of every Spec-written file (arrow B). *)
From GixV.Base Require Import Bytes Outcome.
From GixV.C14 Require Import Model Spec.
Local Open Scope N_scope.

Definition chunk_err_name (c : chunk_err) : bytes :=
  match c with
  | CEmpty => bs "Empty" | CTocTooSmall => bs "TocTooSmall" | CEarlySentinel => bs "EarlySentinelValue"
  | CDuplicate => bs "DuplicateChunk" | COutOfBounds => bs "ChunkSizeOutOfBounds"
  | CNonIncremental => bs "NonIncrementalChunkOffsets" | CMissingSentinel => bs "MissingSentinelValue"
  end.

Definition err_name (e : err) : bytes :=
  match e with
  | ETooSmall => bs "Corrupt:small" | EBadSignature => bs "Corrupt:signature"
  | EUnsupportedVersion => bs "UnsupportedVersion" | EUnsupportedHashVersion => bs "UnsupportedHashVersion"
  | EChunk c => bs "Chunk:" ++ chunk_err_name c
  | EInvalidChunkSize k => bs "InvalidChunkSize:" ++ kind_id k
  | EBaseGraphMismatch => bs "BaseGraphMismatch"
  | EMissingChunk k => bs "MissingChunk:" ++ kind_id k
  | ETrailer => bs "Trailer"
  | ECommitCountMismatch k => bs "CommitCountMismatch:" ++ kind_id k
  | ETooManyCommits => bs "TooManyCommits"
  end.

Definition perr_name (e : perr) : bytes :=
  match e with
  | SecondParentWithoutFirstParent => bs "SecondParentWithoutFirstParent"
  | FirstParentIsExtraEdgeIndex => bs "FirstParentIsExtraEdgeIndex"
  | MissingExtraEdgesList => bs "MissingExtraEdgesList"
  | ExtraEdgesListOverflow => bs "ExtraEdgesListOverflow"
  end.

Fixpoint records (k : nat) (fuel : nat) (l : bytes) : list bytes :=
  match fuel with
  | O => []
  | S f => if Nat.ltb (length l) k then [] else firstn k l :: records k f (skipn k l)
  end.
Definition recs (k : nat) (l : bytes) : list bytes := records k (length l) l.

Fixpoint join_comma (ls : list bytes) : bytes :=
  match ls with
  | [] => []
  | [x] => x
  | x :: r => x ++ bs "," ++ join_comma r
  end.
Definition dec := N_to_dec.

(* open the files in order; the first failure ends it: (index, error) *)
Fixpoint open_files (i : N) (fs : list bytes) : outcome (list file) (N * err) :=
  match fs with
  | [] => Ok []
  | d :: r =>
      match file_new d with
      | Ok f => match open_files (i + 1) r with
                | Ok l => Ok (f :: l)
                | Err e => Err e
                | Panic => Panic
                | OutOfFuel => OutOfFuel
                end
      | Err e => Err (i, e)
      | Panic => Panic
      | OutOfFuel => OutOfFuel
      end
  end.

Definition show_commit (g : graph) (pos : N) : outcome bytes err :=
  obind (graph_id_at g pos) (fun id =>
  obind (graph_commit_at g pos) (fun fc =>
  obind (parents (fst fc) (snd fc)) (fun ps =>
    let c := snd fc in
    Ok (bs " |" ++ hex_encode id ++ bs " " ++ hex_encode (c_tree c)
        ++ bs " g" ++ dec (c_generation c) ++ bs " t" ++ dec (c_time c)
        ++ bs " p" ++ join_comma (map dec (fst ps))
        ++ match snd ps with None => [] | Some e => bs "!" ++ perr_name e end)))).

Fixpoint show_commits (g : graph) (poss : list N) : outcome bytes err :=
  match poss with
  | [] => Ok []
  | p :: r => obind (show_commit g p) (fun a => obind (show_commits g r) (fun b => Ok (a ++ b)))
  end.

Definition show_query (g : graph) (id : bytes) : outcome bytes err :=
  obind (graph_lookup g id) (fun r =>
  obind (graph_commit_by_id g id) (fun c =>
    Ok (bs " ?" ++ match r with None => bs "none" | Some p => dec p end
        ++ match c with
           | None => bs "/none"
           | Some (_, lex, cm) => bs "/" ++ dec lex ++ bs "/" ++ hex_encode (c_tree cm)
           end))).

Fixpoint show_queries (g : graph) (qs : list bytes) : outcome bytes err :=
  match qs with
  | [] => Ok []
  | q :: r => obind (show_query g q) (fun a => obind (show_queries g r) (fun b => Ok (a ++ b)))
  end.

Definition N_range (lo : N) (count : nat) : list N := map (fun i => lo + N.of_nat i) (seq 0 count).

Definition show_graph (datas : list bytes) (queries : bytes) : bytes :=
  match open_files 0 datas with
  | Err (i, e) => bs "file" ++ dec i ++ bs " err " ++ err_name e
  | Panic => bs "PANIC"
  | OutOfFuel => bs "HANG"
  | Ok files =>
      match graph_new files with
      | Err e => bs "err " ++ err_name e
      | Panic => bs "PANIC"
      | OutOfFuel => bs "HANG"
      | Ok g =>
          match obind (graph_num_commits g) (fun n =>
                obind (show_commits g (N_range 0 (N.to_nat n))) (fun a =>
                obind (show_queries g (recs 20 queries)) (fun b =>
                  Ok (bs "n=" ++ dec n ++ a ++ b)))) with
          | Ok t => t
          | Err e => bs "err " ++ err_name e
          | Panic => bs "PANIC"
          | OutOfFuel => bs "HANG"
          end
      end
  end.

(* ---- dag field ---- *)
Fixpoint parse_dag (fuel : nat) (b : bytes) : list cdesc :=
  match fuel with
  | O => []
  | S f =>
      if Nat.ltb (length b) 50 then []
      else
        let np := N.to_nat (b2N (nth 49 b x00)) in
        {| d_id := firstn 20 b; d_tree := firstn 20 (skipn 20 b); d_time := be_to_N (firstn 8 (skipn 40 b));
           d_layer := b2N (nth 48 b x00);
           d_parents := map (fun x => N.to_nat (b2N x)) (firstn np (skipn 50 b)) |}
        :: parse_dag f (skipn (50 + np) b)
  end.

Definition find_chunk (data : bytes) (k : chunk_name) : bytes :=
  match toc_from_bytes data 8 (b2N (nth 6 data x00)) with
  | Ok toc => match toc_find toc (kind_id k) with
              | Some (s, e) => hex_encode (firstn (N.to_nat (e - s)) (skipn (N.to_nat s) data))
              | None => bs "-"
              end
  | _ => bs "?"
  end.

Definition show_file_chunks (data : bytes) : bytes :=
  bs " [base=" ++ dec (b2N (nth 7 data x00))
  ++ bs " OIDF=" ++ find_chunk data KOidf ++ bs " OIDL=" ++ find_chunk data KOidl
  ++ bs " CDAT=" ++ find_chunk data KCdat ++ bs " EDGE=" ++ find_chunk data KEdge ++ bs "]".

Definition run_case (spec : bool) (fs : list bytes) : bytes :=
  let op := nth_field 0 fs in
  if bytes_eqb op (bs "graph") then
    if spec then bs "-" else
    let k := N.to_nat (field_N 1 fs) in
    show_graph (firstn k (skipn 2 fs)) (nth_field (2 + k) fs)
  else if bytes_eqb op (bs "git") then
    let dag := parse_dag (length (nth_field 1 fs)) (nth_field 1 fs) in
    let k := N.to_nat (field_N 2 fs) in
    let files := write_chain dag k in
    if spec then bs "files=" ++ dec (N.of_nat k) ++ concat (map show_file_chunks files)
    else show_graph files (nth_field 3 fs)
  else bs "?".

Definition run (fs : list bytes) : bytes :=
  match fs with
  | mode :: rest => run_case (bytes_eqb mode (bs "spec")) rest
  | [] => bs "?"
  end.
