(* C14 — Graph level: translation between graph positions and (file, file-local position) across the
   files of a chain (Graph::lookup_by_pos, Graph::lookup_by_id). *)
From Coq Require Import Lia ZifyBool ZifyNat ZifyN.
From GixV.Base Require Import Bytes BytesFacts Outcome.
From GixV.C14 Require Import Model.
Ltac Zify.zify_post_hook ::= Z.div_mod_to_equations.
Local Open Scope N_scope.

Lemma total_commits_app a b : total_commits (a ++ b) = total_commits a + total_commits b.
Proof. unfold total_commits. induction a as [|f a IH]; cbn [app fold_right]; [lia|]. rewrite IH. lia. Qed.

Lemma total_commits_cons f a : total_commits (f :: a) = num_commits f + total_commits a.
Proof. reflexivity. Qed.

(* position [total pre + i] is entry i of the file after [pre] *)
Lemma L_lookup_by_pos : forall pre f post i, i < num_commits f ->
  lookup_by_pos (pre ++ f :: post) (total_commits pre + i) = Ok (f, i).
Proof.
  induction pre as [|f0 pre IH]; intros f post i Hi.
  - cbn [app lookup_by_pos]. change (total_commits []) with 0.
    destruct (N.leb_spec (num_commits f) (0 + i)); [lia|]. replace (0 + i) with i by lia. reflexivity.
  - cbn [app lookup_by_pos]. rewrite total_commits_cons.
    destruct (N.leb_spec (num_commits f0) (num_commits f0 + total_commits pre + i)); [|lia].
    replace (num_commits f0 + total_commits pre + i - num_commits f0) with (total_commits pre + i) by lia.
    apply IH. exact Hi.
Qed.

(* a position at or beyond the total is the panic of lookup_by_pos *)
Lemma L_lookup_by_pos_beyond : forall g p, total_commits g <= p -> lookup_by_pos g p = Panic.
Proof.
  induction g as [|f g IH]; intros p H; [reflexivity|].
  cbn [lookup_by_pos]. rewrite total_commits_cons in H.
  destruct (N.leb_spec (num_commits f) p); [|lia]. apply IH. lia.
Qed.

(* the first file that knows the id answers, its position shifted by the sizes of the files before *)
Lemma L_lookup_by_id_found : forall pre f post start id lex,
  (forall f', In f' pre -> file_lookup f' id = Ok None) ->
  file_lookup f id = Ok (Some lex) ->
  start + total_commits pre + lex < U32 ->
  lookup_by_id (pre ++ f :: post) start id = Ok (Some (f, lex, start + total_commits pre + lex)).
Proof.
  induction pre as [|f0 pre IH]; intros f post start id lex Hpre Hf Hb.
  - cbn [app lookup_by_id]. rewrite Hf. cbn [obind]. change (total_commits []) with 0 in *.
    destruct (N.leb_spec U32 (start + lex)); [lia|]. replace (start + 0 + lex) with (start + lex) by lia. reflexivity.
  - cbn [app lookup_by_id]. rewrite (Hpre f0 (or_introl eq_refl)). cbn [obind].
    rewrite total_commits_cons in Hb.
    destruct (N.leb_spec U32 (start + num_commits f0)); [lia|].
    rewrite (IH f post (start + num_commits f0) id lex).
    + rewrite total_commits_cons.
      replace (start + num_commits f0 + total_commits pre + lex) with (start + (num_commits f0 + total_commits pre) + lex) by lia.
      reflexivity.
    + intros f' H'. apply Hpre. right. exact H'.
    + exact Hf.
    + lia.
Qed.

Lemma L_lookup_by_id_absent : forall g start id,
  (forall f, In f g -> file_lookup f id = Ok None) ->
  start + total_commits g < U32 ->
  lookup_by_id g start id = Ok None.
Proof.
  induction g as [|f g IH]; intros start id Hg Hb; [reflexivity|].
  cbn [lookup_by_id]. rewrite (Hg f (or_introl eq_refl)). cbn [obind].
  rewrite total_commits_cons in Hb.
  destruct (N.leb_spec U32 (start + num_commits f)); [lia|].
  apply IH; [intros f' H'; apply Hg; right; exact H'|lia].
Qed.
