(* C14 — record level: big-endian words, the 36-byte commit data record (tree, two parent words,
   generation << 2 | time >> 32, low time word), parent edge words and the extra edge list. *)
From Coq Require Import Lia ZifyBool ZifyNat ZifyN.
From GixV.Base Require Import Bytes BytesFacts Outcome.
From GixV.C14 Require Import Model Spec.
Ltac Zify.zify_post_hook ::= Z.div_mod_to_equations.
Local Open Scope N_scope.

(* ---- lists ------------------------------------------------------------------------------------------ *)
Lemma firstn_app_len {A} (a b : list A) n : n = length a -> firstn n (a ++ b) = a.
Proof. intros ->. rewrite firstn_app, firstn_all, Nat.sub_diag. cbn [firstn]. apply app_nil_r. Qed.
Lemma skipn_app_len {A} (a b : list A) n : n = length a -> skipn n (a ++ b) = b.
Proof. intros ->. rewrite skipn_app, skipn_all, Nat.sub_diag. reflexivity. Qed.
Lemma skipn_app_add {A} (a b : list A) n k : n = (length a + k)%nat -> skipn n (a ++ b) = skipn k b.
Proof.
  intros ->. rewrite skipn_app, skipn_all2 by lia. cbn [app]. f_equal. lia.
Qed.

(* ---- big-endian integers ---------------------------------------------------------------------------- *)
Lemma be_to_N_acc_app l : forall acc b, be_to_N_acc (l ++ [b]) acc = 256 * be_to_N_acc l acc + b2N b.
Proof. induction l as [|x l IH]; intros acc b; cbn [app be_to_N_acc]; [reflexivity|]. apply IH. Qed.

Lemma b2N_N2b_mod n : b2N (N2b n) = n mod 256.
Proof.
  unfold N2b, b2N. pose proof (N.mod_upper_bound n 256 ltac:(lia)) as Hb.
  destruct (Byte.of_N (n mod 256)) as [x|] eqn:Ex.
  - apply Byte.to_of_N in Ex. exact Ex.
  - apply Byte.of_N_None_iff in Ex. lia.
Qed.

Lemma L_be_roundtrip : forall (k : nat) n, be_to_N (N_to_be k n) = n mod 256 ^ N.of_nat k /\
  length (N_to_be k n) = k.
Proof.
  induction k as [|k IH]; intros n.
  - cbn. split; [rewrite N.mod_1_r; reflexivity|reflexivity].
  - cbn [N_to_be]. destruct (IH (n / 256)) as [H1 H2]. split.
    + unfold be_to_N in *. rewrite be_to_N_acc_app, H1, b2N_N2b_mod.
      rewrite Nat2N.inj_succ, N.pow_succ_r'.
      assert (P : 0 < 256 ^ N.of_nat k) by (apply N.neq_0_lt_0, N.pow_nonzero; lia).
      rewrite (N.mod_mul_r n 256 (256 ^ N.of_nat k)) by lia. lia.
    + rewrite app_length, H2. cbn. lia.
Qed.

Lemma be32_len n : length (be32 n) = 4%nat.
Proof. apply (L_be_roundtrip 4 n). Qed.
Lemma be64_len n : length (be64 n) = 8%nat.
Proof. apply (L_be_roundtrip 8 n). Qed.
Lemma be32_rt n : n < U32 -> be_to_N (be32 n) = n.
Proof.
  intros H. unfold be32. rewrite (proj1 (L_be_roundtrip 4 n)). apply N.mod_small.
  change (256 ^ N.of_nat 4) with 4294967296. exact H.
Qed.
Lemma be64_rt n : n < 18446744073709551616 -> be_to_N (be64 n) = n.
Proof.
  intros H. unfold be64. rewrite (proj1 (L_be_roundtrip 8 n)). apply N.mod_small.
  change (256 ^ N.of_nat 8) with 18446744073709551616. exact H.
Qed.

Lemma be_to_N_acc_shift l : forall acc, be_to_N_acc l acc = acc * 256 ^ N.of_nat (length l) + be_to_N_acc l 0.
Proof.
  induction l as [|x l IH]; intros acc; cbn [be_to_N_acc length].
  - change (256 ^ N.of_nat 0) with 1. lia.
  - rewrite (IH (256 * acc + b2N x)), (IH (256 * 0 + b2N x)).
    rewrite Nat2N.inj_succ, N.pow_succ_r'. lia.
Qed.
Lemma be_to_N_acc_app2 a b : forall acc,
  be_to_N_acc (a ++ b) acc = be_to_N_acc a acc * 256 ^ N.of_nat (length b) + be_to_N_acc b 0.
Proof.
  induction a as [|x a IH]; intros acc; cbn [app be_to_N_acc].
  - apply be_to_N_acc_shift.
  - apply IH.
Qed.
Lemma be_to_N_app a b : be_to_N (a ++ b) = be_to_N a * 256 ^ N.of_nat (length b) + be_to_N b.
Proof. unfold be_to_N. apply be_to_N_acc_app2. Qed.

Lemma be32_four n : exists a b c d, be32 n = [a; b; c; d].
Proof.
  pose proof (be32_len n) as H. destruct (be32 n) as [|a [|b [|c [|d [|e l]]]]]; try discriminate.
  eauto.
Qed.

(* ---- the commit data record --------------------------------------------------------------------------- *)
Definition GEN_LIMIT : N := 1073741824.     (* 2^30: the generation field has 30 bits *)

Lemma L_record_decode : forall r p1 p2,
  length (r_tree r) = 20%nat -> p1 < U32 -> p2 < U32 -> r_gen r < GEN_LIMIT -> r_time r < TIME_MOD ->
  let b := record_bytes r p1 p2 in
  length b = 36%nat /\
  firstn 20 b = r_tree r /\
  be_to_N (firstn 4 (skipn 20 b)) = p1 /\
  be_to_N (firstn 4 (skipn 24 b)) = p2 /\
  be_to_N (firstn 4 (skipn 28 b)) / 4 = r_gen r /\
  be_to_N (firstn 8 (skipn 28 b)) mod TIME_MOD = r_time r.
Proof.
  intros r p1 p2 Ht H1 H2 Hg Htm b. unfold GEN_LIMIT, TIME_MOD, U32 in *.
  unfold b, record_bytes, POW32.
  set (w1 := r_gen r * 4 + r_time r / 4294967296).
  set (w2 := r_time r mod 4294967296).
  assert (W1 : w1 < 4294967296) by (unfold w1; lia).
  assert (W2 : w2 < 4294967296) by (unfold w2; lia).
  split; [rewrite !app_length, !be32_len, Ht; reflexivity|].
  split; [apply firstn_app_len; symmetry; exact Ht|].
  split.
  { rewrite (skipn_app_len (r_tree r)) by (symmetry; exact Ht).
    rewrite firstn_app_len by (symmetry; apply be32_len). apply be32_rt. exact H1. }
  split.
  { rewrite (skipn_app_add (r_tree r) _ 24 4) by (rewrite Ht; reflexivity).
    rewrite (skipn_app_len (be32 p1)) by (symmetry; apply be32_len).
    rewrite firstn_app_len by (symmetry; apply be32_len). apply be32_rt. exact H2. }
  assert (S28 : skipn 28 (r_tree r ++ be32 p1 ++ be32 p2 ++ be32 w1 ++ be32 w2) = be32 w1 ++ be32 w2).
  { rewrite (skipn_app_add (r_tree r) _ 28 8) by (rewrite Ht; reflexivity).
    rewrite (skipn_app_add (be32 p1) _ 8 4) by (rewrite be32_len; reflexivity).
    apply skipn_app_len. symmetry; apply be32_len. }
  rewrite S28. split.
  - rewrite firstn_app_len by (symmetry; apply be32_len). rewrite be32_rt by exact W1. unfold w1. lia.
  - rewrite firstn_all2 by (rewrite app_length, !be32_len; lia).
    rewrite be_to_N_app, be32_len, !be32_rt by assumption.
    change (256 ^ N.of_nat 4) with 4294967296. unfold w1, w2. lia.
Qed.

(* ---- parent words ------------------------------------------------------------------------------------- *)
(* graph positions are below NO_PARENT = MAX_COMMITS + 1 *)
Definition pos_ok (p : N) : Prop := p < NO_PARENT.

Lemma edge_pos p : pos_ok p -> edge_from_raw p = EPos p.
Proof.
  unfold pos_ok, edge_from_raw, NO_PARENT, HIGH_BIT. intros H.
  destruct (N.eqb_spec p 1879048192); [lia|]. destruct (N.leb_spec 2147483648 p); [lia|]. reflexivity.
Qed.
Lemma edge_none : edge_from_raw NO_PARENT = ENone.
Proof. reflexivity. Qed.
Lemma edge_extra i : i < HIGH_BIT -> edge_from_raw (HIGH_BIT + i) = EExtra i.
Proof.
  unfold edge_from_raw, NO_PARENT, HIGH_BIT. intros H.
  destruct (N.eqb_spec (2147483648 + i) 1879048192); [lia|].
  destruct (N.leb_spec 2147483648 (2147483648 + i)); [|lia]. f_equal. lia.
Qed.

Lemma concat_map_app {A} (f : A -> bytes) l1 l2 : concat_map f (l1 ++ l2) = concat_map f l1 ++ concat_map f l2.
Proof. unfold concat_map. rewrite map_app, concat_app. reflexivity. Qed.

Lemma concat_map_length {A} (f : A -> bytes) (k : nat) l :
  (forall x, length (f x) = k) -> length (concat_map f l) = (k * length l)%nat.
Proof.
  intros H. unfold concat_map. induction l as [|x l IH]; cbn [map concat length]; [lia|].
  rewrite app_length, H, IH. lia.
Qed.

(* the extra edge loop reads back a marked list, whatever follows it *)
Lemma extra_loop_marked : forall rest after acc, rest <> [] -> Forall pos_ok rest ->
  extra_loop (concat_map be32 (mark_last rest ++ after)) acc = Ok (rev acc ++ rest, None).
Proof.
  induction rest as [|p rest IH]; intros after acc Hne Hf; [congruence|].
  inversion Hf as [|? ? Hp Hr]; subst. unfold pos_ok, NO_PARENT in Hp.
  destruct rest as [|q rest'].
  - cbn [mark_last app]. unfold concat_map. cbn [map concat].
    destruct (be32_four (HIGH_BIT + p)) as [a [b [c [d E]]]]. rewrite E. cbn [app extra_loop].
    rewrite <- E, be32_rt by (unfold HIGH_BIT, U32; lia).
    unfold HIGH_BIT. destruct (N.leb_spec 2147483648 (2147483648 + p)); [|lia].
    replace (2147483648 + p - 2147483648) with p by lia. cbn [rev]. reflexivity.
  - change (mark_last (p :: q :: rest')) with (p :: mark_last (q :: rest')).
    cbn [app]. unfold concat_map. cbn [map concat].
    destruct (be32_four p) as [a [b [c [d E]]]]. rewrite E. cbn [app extra_loop].
    rewrite <- E, be32_rt by (unfold U32; lia).
    unfold HIGH_BIT. destruct (N.leb_spec 2147483648 p); [lia|].
    fold (concat_map be32 (mark_last (q :: rest') ++ after)).
    rewrite (IH after (p :: acc)) by (congruence || assumption).
    cbn [rev]. rewrite <- app_assoc. reflexivity.
Qed.

(* a commit whose parent words were produced by [encode_parents] and whose file's EDGE chunk holds the
   entries at the recorded index yields exactly the parent list *)
Lemma L_parents_decode : forall f c ps before after p1 p2 ex,
  encode_parents ps (N.of_nat (length before)) = (p1, p2, ex) ->
  Forall pos_ok ps ->
  N.of_nat (length before) < HIGH_BIT ->
  c_p1 c = edge_from_raw p1 -> c_p2 c = edge_from_raw p2 ->
  (ex <> [] -> extra_edges_data f = Ok (Some (concat_map be32 (before ++ ex ++ after)))) ->
  parents f c = Ok (ps, None).
Proof.
  intros f c ps before after p1 p2 ex He Hf Hb E1 E2 Hx.
  unfold parents. rewrite E1, E2.
  destruct ps as [|a [|b [|x rest]]]; unfold encode_parents in He;
    apply pair_equal_spec in He; destruct He as [He <-]; apply pair_equal_spec in He; destruct He as [<- <-].
  - rewrite edge_none. reflexivity.
  - inversion Hf; subst. rewrite edge_pos by assumption. rewrite edge_none. reflexivity.
  - inversion Hf as [|? ? Ha Hf']; subst. inversion Hf'; subst.
    rewrite !edge_pos by assumption. reflexivity.
  - inversion Hf as [|? ? Ha Hf']; subst.
    rewrite edge_pos by assumption. rewrite edge_extra by assumption.
    rewrite Hx by (destruct rest; discriminate). cbn [obind].
    set (l := concat_map be32 (before ++ mark_last (b :: x :: rest) ++ after)).
    assert (Ll : skipn (N.to_nat (N.of_nat (length before) * 4)) l
                 = concat_map be32 (mark_last (b :: x :: rest) ++ after)).
    { unfold l. rewrite concat_map_app. apply skipn_app_len.
      rewrite (concat_map_length be32 4) by apply be32_len. lia. }
    assert (Lb : N.of_nat (length before) * 4 <= len l).
    { unfold l, len. rewrite concat_map_app, app_length, (concat_map_length be32 4 before) by apply be32_len. lia. }
    cbv zeta. destruct (N.leb_spec (N.of_nat (length before) * 4) (len l)); [|lia].
    rewrite Ll, extra_loop_marked by (congruence || assumption). reflexivity.
Qed.
