(* C14 — executable model of gitoxide's commit-graph reader.
   Sources (pinned tree):
     gix-chunk/src/file/decode.rs            Index::from_bytes (table of contents)
     gix-chunk/src/file/index.rs             offset_by_id / validated_usize_offset_by_id / highest_offset
     gix-commitgraph/src/file/init.rs        File::new (header, chunk validation, read_fan)
     gix-commitgraph/src/file/access.rs      id_at, commit_data_bytes, extra_edges_data, lookup_inner, num_commits
     gix-commitgraph/src/file/commit.rs      Commit::new, ParentEdge/ExtraEdge::from_raw, the Parents iterator
     gix-commitgraph/src/init.rs             Graph::new
     gix-commitgraph/src/access.rs           Graph::{lookup_by_id, lookup_by_pos, commit_at, id_at, lookup, commit_by_id, num_commits}
   Conventions: object ids are 20 bytes (Kind::Sha1 is the only kind).  usize is 64 bit.  u32 values are [N];
   [raw & 0x8000_0000 != 0] is written [2^31 <= raw], [raw & !0x8000_0000] is [raw - 2^31] under that guard,
   [x >> 2] is [x / 4], [x & 0x3_ffff_ffff] is [x mod 2^34].  Panics (slice out of range, assert!, u32 overflow in
   a debug build, try_into().unwrap() on a short chunk) are [Panic].  NO proofs in this file. *)
From GixV.Base Require Import Bytes Outcome.
Local Open Scope N_scope.

Inductive chunk_err := CEmpty | CTocTooSmall | CEarlySentinel | CDuplicate | COutOfBounds | CNonIncremental
                     | CMissingSentinel.
Inductive chunk_name := KBase | KCdat | KOidf | KOidl | KEdge.
Inductive err :=
| ETooSmall | EBadSignature | EUnsupportedVersion | EUnsupportedHashVersion
| EChunk (c : chunk_err) | EInvalidChunkSize (k : chunk_name) | EBaseGraphMismatch
| EMissingChunk (k : chunk_name) | ETrailer | ECommitCountMismatch (k : chunk_name)
| ETooManyCommits.

Definition U32 : N := 4294967296.
Definition HIGH_BIT : N := 2147483648.                 (* EXTENDED_EDGES_MASK = LAST_EXTENDED_EDGE_MASK = 0x8000_0000 *)
Definition NO_PARENT : N := 1879048192.                (* 0x7000_0000 *)
Definition TIME_MOD : N := 17179869184.                (* 2^34: & 0x0003_ffff_ffff *)
Definition MAX_COMMITS : N := 1879048191.              (* (1 << 30) + (1 << 29) + (1 << 28) - 1 *)
Definition MIN_FILE_SIZE : N := 1100.                  (* 8 + 12 * 4 + 256 * 4 + 20 *)
Definition HASH_LEN : N := 20.
Definition ENTRY_SIZE : N := 36.                       (* hash_len + COMMIT_DATA_ENTRY_SIZE_SANS_HASH *)
Definition SIGNATURE : bytes := bs "CGPH".
Definition SENTINEL : bytes := [x00; x00; x00; x00].

Definition kind_id (k : chunk_name) : bytes :=
  match k with
  | KBase => bs "BASE" | KCdat => bs "CDAT" | KOidf => bs "OIDF" | KOidl => bs "OIDL" | KEdge => bs "EDGE"
  end.

Definition len (l : bytes) : N := N.of_nat (length l).

(* ---- big endian integers ------------------------------------------------------------------------ *)
Fixpoint be_to_N_acc (l : bytes) (acc : N) : N :=
  match l with
  | [] => acc
  | b :: r => be_to_N_acc r (256 * acc + b2N b)
  end.
Definition be_to_N (l : bytes) : N := be_to_N_acc l 0.

(* ---- slices: &data[start..][..n]  (panics when out of bounds) ----------------------------------- *)
Definition slice (data : bytes) (start n : N) : outcome bytes err :=
  if start + n <=? len data
  then Ok (firstn (N.to_nat n) (skipn (N.to_nat start) data))
  else Panic.

(* ---- gix_chunk::file::Index::from_bytes ----------------------------------------------------------
   [acc] holds the entries decoded so far, most recent first: (kind, start, end). *)
Definition toc_entry : Type := bytes * (N * N).

Fixpoint toc_loop (data : bytes) (count : nat) (pos : N) (acc : list toc_entry)
  : outcome (list toc_entry) err :=
  match count with
  | O =>
      obind (slice data pos 4) (fun s =>
        if bytes_eqb s SENTINEL then Ok (rev acc) else Err (EChunk CMissingSentinel))
  | S c =>
      obind (slice data pos 4) (fun kind =>
        if bytes_eqb kind SENTINEL then Err (EChunk CEarlySentinel)
        else if existsb (fun e => bytes_eqb (fst e) kind) acc then Err (EChunk CDuplicate)
        else
          obind (slice data (pos + 4) 8) (fun o =>
            let offset := be_to_N o in
            if len data <? offset then Err (EChunk COutOfBounds)
            else
              obind (slice data (pos + 16) 8) (fun nx =>
                let next := be_to_N nx in
                if len data <? next then Err (EChunk COutOfBounds)
                else if next <? offset then Err (EChunk CNonIncremental)
                else toc_loop data c (pos + 12) ((kind, (offset, next)) :: acc))))
  end.

Definition toc_from_bytes (data : bytes) (toc_offset : N) (num_chunks : N) : outcome (list toc_entry) err :=
  if num_chunks =? 0 then Err (EChunk CEmpty)
  else if len data <? toc_offset then Panic                       (* &data[toc_offset..] *)
  else if len data - toc_offset <? (num_chunks + 1) * 12 then Err (EChunk CTocTooSmall)
  else toc_loop data (N.to_nat num_chunks) toc_offset [].

(* chunks.iter().find_map(|c| (c.kind == kind).then(|| c.offset.clone())) *)
Fixpoint toc_find (toc : list toc_entry) (kind : bytes) : option (N * N) :=
  match toc with
  | [] => None
  | (k, r) :: rest => if bytes_eqb k kind then Some r else toc_find rest kind
  end.

(* chunks.last().expect("at least one chunk").offset.end *)
Definition highest_offset (toc : list toc_entry) : outcome N err :=
  match rev toc with
  | [] => Panic
  | (_, (_, e)) :: _ => Ok e
  end.

(* ---- File ------------------------------------------------------------------------------------------ *)
Record file := {
  fdata : bytes;
  base_graph_count : N;
  base_graphs_list_offset : option N;
  commit_data_offset : N;
  extra_edges_list_range : option (N * N);
  ffan : list N;
  oid_lookup_offset : N
}.

(* chunks_exact(4) over the first 1024 bytes *)
Fixpoint chunks (k : nat) (count : nat) (l : bytes) : list bytes :=
  match count with
  | O => []
  | S c => firstn k l :: chunks k c (skipn k l)
  end.

Definition read_fan (d : bytes) : outcome (list N) err :=
  if len d <? 1024 then Panic                            (* assert!(d.len() >= FAN_LEN * 4) *)
  else Ok (map be_to_N (chunks 4 256 d)).

(* (chunk_size / entry).try_into().expect("… to fit in 32 bits") *)
Definition to_u32 (v : N) : outcome N err := if v <? U32 then Ok v else Panic.

Definition num_commits (f : file) : N := nth 255 (ffan f) 0.

Definition file_new (data : bytes) : outcome file err :=
  if len data <? MIN_FILE_SIZE then Err ETooSmall
  else if negb (bytes_eqb (firstn 4 data) SIGNATURE) then Err EBadSignature
  else if negb (b2N (nth 4 data x00) =? 1) then Err EUnsupportedVersion
  else if negb (b2N (nth 5 data x00) =? 1) then Err EUnsupportedHashVersion
  else
    let chunk_count := b2N (nth 6 data x00) in
    let bgc := b2N (nth 7 data x00) in
    obind (toc_from_bytes data 8 chunk_count) (fun toc =>
    (* BASE: validated_usize_offset_by_id(..).ok().transpose()? *)
    obind (match toc_find toc (kind_id KBase) with
           | None => Ok None
           | Some (s, e) =>
               let size := e - s in
               if negb (size mod HASH_LEN =? 0) then Err (EInvalidChunkSize KBase)
               else obind (to_u32 (size / HASH_LEN)) (fun cnt =>
                      if negb (cnt =? bgc) then Err EBaseGraphMismatch else Ok (Some s))
           end) (fun base_ofs =>
    obind (match toc_find toc (kind_id KCdat) with
           | None => Err (EMissingChunk KCdat)
           | Some (s, e) =>
               let size := e - s in
               if negb (size mod ENTRY_SIZE =? 0) then Err (EInvalidChunkSize KCdat)
               else obind (to_u32 (size / ENTRY_SIZE)) (fun cnt => Ok (s, cnt))
           end) (fun cdat =>
    obind (match toc_find toc (kind_id KOidf) with
           | None => Err (EMissingChunk KOidf)
           | Some (s, e) => if negb (e - s =? 1024) then Err (EInvalidChunkSize KOidf) else Ok s
           end) (fun fan_offset =>
    obind (match toc_find toc (kind_id KOidl) with
           | None => Err (EMissingChunk KOidl)
           | Some (s, e) =>
               let size := e - s in
               if negb (size mod HASH_LEN =? 0) then Err (EInvalidChunkSize KOidl)
               else obind (to_u32 (size / HASH_LEN)) (fun cnt => Ok (s, cnt))
           end) (fun oidl =>
    let edge := toc_find toc (kind_id KEdge) in
    obind (highest_offset toc) (fun hi =>
    if len data <? hi then Panic                                   (* &data[highest_offset..] *)
    else if negb (len data - hi =? HASH_LEN) then Err ETrailer
    else if (0 <? bgc) && (match base_ofs with None => true | Some _ => false end)
    then Err (EMissingChunk KBase)
    else if len data <? fan_offset then Panic                      (* &data[fan_offset..] *)
    else
      obind (read_fan (skipn (N.to_nat fan_offset) data)) (fun fan =>
        let n := nth 255 fan 0 in
        if negb (snd oidl =? n) then Err (ECommitCountMismatch KOidl)
        else if negb (snd cdat =? n) then Err (ECommitCountMismatch KCdat)
        else Ok {| fdata := data; base_graph_count := bgc; base_graphs_list_offset := base_ofs;
                   commit_data_offset := fst cdat; extra_edges_list_range := edge;
                   ffan := fan; oid_lookup_offset := fst oidl |}))))))).

(* ---- file::access ----------------------------------------------------------------------------------- *)
Definition id_at (f : file) (pos : N) : outcome bytes err :=
  if pos <? num_commits f                                 (* assert!(pos.0 < self.num_commits()) *)
  then slice (fdata f) (oid_lookup_offset f + pos * HASH_LEN) HASH_LEN
  else Panic.

Definition commit_data_bytes (f : file) (pos : N) : outcome bytes err :=
  if pos <? num_commits f
  then slice (fdata f) (commit_data_offset f + pos * ENTRY_SIZE) ENTRY_SIZE
  else Panic.

(* Some(&self.data[self.extra_edges_list_range.clone()?]) *)
Definition extra_edges_data (f : file) : outcome (option bytes) err :=
  match extra_edges_list_range f with
  | None => Ok None
  | Some (s, e) =>
      if (s <=? e) && (e <=? len (fdata f))
      then Ok (Some (firstn (N.to_nat (e - s)) (skipn (N.to_nat s) (fdata f))))
      else Panic
  end.

Definition first_byte (id : bytes) : byte := hd x00 id.

(* while lower < upper { mid = (lower + upper) / 2 … }  in u32 arithmetic, debug build *)
Fixpoint bisect (fuel : nat) (cmp_at : N -> outcome comparison err) (lo hi : N)
  : outcome (option N) err :=
  match fuel with
  | O => OutOfFuel
  | S fuel' =>
      if lo <? hi then
        if U32 <=? lo + hi then Panic                    (* attempt to add with overflow *)
        else
          let mid := (lo + hi) / 2 in
          obind (cmp_at mid) (fun c =>
            match c with
            | Lt => bisect fuel' cmp_at lo mid
            | Eq => Ok (Some mid)
            | Gt => bisect fuel' cmp_at (mid + 1) hi
            end)
      else Ok None
  end.

Definition BISECT_FUEL : nat := 34.

Definition fan_bounds (fan : list N) (fb : byte) : N * N :=
  let b := b2N fb in
  (if b =? 0 then 0 else nth (N.to_nat (b - 1)) fan 0, nth (N.to_nat b) fan 0).

Definition lookup (fan : list N) (oid_at : N -> outcome bytes err) (id : bytes) : outcome (option N) err :=
  let '(lo, hi) := fan_bounds fan (first_byte id) in
  bisect BISECT_FUEL (fun mid => obind (oid_at mid) (fun o => Ok (bytes_cmp id o))) lo hi.

Definition file_lookup (f : file) (id : bytes) : outcome (option N) err := lookup (ffan f) (id_at f) id.

(* ---- file::commit ----------------------------------------------------------------------------------- *)
Inductive edge := ENone | EPos (p : N) | EExtra (i : N).
Definition edge_from_raw (raw : N) : edge :=
  if raw =? NO_PARENT then ENone
  else if HIGH_BIT <=? raw then EExtra (raw - HIGH_BIT)
  else EPos raw.

Record commit := {
  c_tree : bytes;
  c_p1 : edge;
  c_p2 : edge;
  c_generation : N;
  c_time : N
}.

(* the slices of Commit::new are all inside the 36 bytes commit_data_bytes returned *)
Definition commit_new (f : file) (pos : N) : outcome commit err :=
  obind (commit_data_bytes f pos) (fun b =>
    Ok {| c_tree := firstn 20 b;
          c_p1 := edge_from_raw (be_to_N (firstn 4 (skipn 20 b)));
          c_p2 := edge_from_raw (be_to_N (firstn 4 (skipn 24 b)));
          c_generation := be_to_N (firstn 4 (skipn 28 b)) / 4;
          c_time := be_to_N (firstn 8 (skipn 28 b)) mod TIME_MOD |}).

Inductive perr := SecondParentWithoutFirstParent | FirstParentIsExtraEdgeIndex | MissingExtraEdgesList
                | ExtraEdgesListOverflow.

(* ParentIteratorState::Extra(chunks): tail.chunks(4); a final chunk shorter than 4 bytes makes
   read_u32's try_into().unwrap() panic.  Result: the positions yielded, and the error that ended the
   iteration if any (the iterator is exhausted after an error). *)
Fixpoint extra_loop (tail : bytes) (acc : list N) : outcome (list N * option perr) err :=
  match tail with
  | [] => Ok (rev acc, Some ExtraEdgesListOverflow)
  | a :: b :: c :: d :: rest =>
      let raw := be_to_N [a; b; c; d] in
      if HIGH_BIT <=? raw then Ok (rev ((raw - HIGH_BIT) :: acc), None)
      else extra_loop rest (raw :: acc)
  | _ => Panic
  end.

(* everything `for p in commit.iter_parents()` yields *)
Definition parents (f : file) (c : commit) : outcome (list N * option perr) err :=
  match c_p1 c with
  | ENone => match c_p2 c with
             | ENone => Ok ([], None)
             | _ => Ok ([], Some SecondParentWithoutFirstParent)
             end
  | EExtra _ => Ok ([], Some FirstParentIsExtraEdgeIndex)
  | EPos p1 =>
      match c_p2 c with
      | ENone => Ok ([p1], None)
      | EPos p2 => Ok ([p1; p2], None)
      | EExtra idx =>
          obind (extra_edges_data f) (fun ee =>
            match ee with
            | None => Ok ([p1], Some MissingExtraEdgesList)
            | Some l =>
                let start := idx * 4 in
                if start <=? len l                                (* extra_edges_list.get(start_offset..) *)
                then obind (extra_loop (skipn (N.to_nat start) l) []) (fun r => Ok (p1 :: fst r, snd r))
                else Ok ([p1], Some ExtraEdgesListOverflow)
            end)
      end
  end.

(* ---- Graph ------------------------------------------------------------------------------------------ *)
Definition graph := list file.

Definition total_commits (g : graph) : N := fold_right (fun f acc => num_commits f + acc) 0 g.

Definition graph_new (files : list file) : outcome graph err :=
  if MAX_COMMITS <? total_commits files then Err ETooManyCommits else Ok files.

(* Graph::num_commits: u32 sum (cannot overflow below MAX_COMMITS) *)
Definition graph_num_commits (g : graph) : outcome N err :=
  let t := total_commits g in if t <? U32 then Ok t else Panic.

(* lookup_by_pos: (file, file-local position) *)
Fixpoint lookup_by_pos (g : graph) (remaining : N) : outcome (file * N) err :=
  match g with
  | [] => Panic                                           (* panic!("graph position too large") *)
  | f :: rest =>
      if num_commits f <=? remaining                      (* remaining.checked_sub(file.num_commits()) *)
      then lookup_by_pos rest (remaining - num_commits f)
      else Ok (f, remaining)
  end.

(* lookup_by_id: (file, file position, graph position) *)
Fixpoint lookup_by_id (g : graph) (current_file_start : N) (id : bytes) : outcome (option (file * N * N)) err :=
  match g with
  | [] => Ok None
  | f :: rest =>
      obind (file_lookup f id) (fun r =>
        match r with
        | Some lex =>
            if U32 <=? current_file_start + lex then Panic
            else Ok (Some (f, lex, current_file_start + lex))
        | None =>
            if U32 <=? current_file_start + num_commits f then Panic
            else lookup_by_id rest (current_file_start + num_commits f) id
        end)
  end.

Definition graph_commit_at (g : graph) (pos : N) : outcome (file * commit) err :=
  obind (lookup_by_pos g pos) (fun r => obind (commit_new (fst r) (snd r)) (fun c => Ok (fst r, c))).
Definition graph_id_at (g : graph) (pos : N) : outcome bytes err :=
  obind (lookup_by_pos g pos) (fun r => id_at (fst r) (snd r)).
Definition graph_lookup (g : graph) (id : bytes) : outcome (option N) err :=
  obind (lookup_by_id g 0 id) (fun r => Ok (option_map snd r)).
Definition graph_commit_by_id (g : graph) (id : bytes) : outcome (option (file * N * commit)) err :=
  obind (lookup_by_id g 0 id) (fun r =>
    match r with
    | None => Ok None
    | Some (f, lex, _) => obind (commit_new f lex) (fun c => Ok (Some (f, lex, c)))
    end).
