(* C14 — the bisection of file::access::lookup_inner against an abstract comparison sequence
   (lemmas shared with props/C09, whose lookup has the same shape). *)
From Coq Require Import Lia ZifyBool ZifyNat ZifyN.
From GixV.Base Require Import Bytes BytesFacts Outcome.
From GixV.C14 Require Import Model.
Ltac Zify.zify_post_hook ::= Z.div_mod_to_equations.
Local Open Scope N_scope.

Definition mono (c : N -> comparison) (lo hi : N) : Prop :=
  forall i j, lo <= i -> i <= j -> j < hi -> (c i = Lt -> c j = Lt) /\ (c j = Gt -> c i = Gt).

Lemma mono_sub c lo hi lo' hi' : mono c lo hi -> lo <= lo' -> hi' <= hi -> mono c lo' hi'.
Proof. intros M A B i j H1 H2 H3. apply M; lia. Qed.

Section Bisect.
  Variable cmp_at : N -> outcome comparison err.
  Variable c : N -> comparison.

  (* ---- lookup ---- *)
  Lemma bisect_spec : forall fuel lo hi,
    hi - lo < 2 ^ N.of_nat fuel -> hi <= HIGH_BIT ->
    (forall i, lo <= i < hi -> cmp_at i = Ok (c i)) -> mono c lo hi ->
    exists r, bisect (S fuel) cmp_at lo hi = Ok r /\
      match r with
      | Some m => lo <= m < hi /\ c m = Eq
      | None => forall i, lo <= i < hi -> c i <> Eq
      end.
  Proof.
    induction fuel as [|fuel IH]; intros lo hi Hsz Hhi Hok Hm.
    - cbn [N.of_nat] in Hsz. change (2 ^ 0) with 1 in Hsz.
      cbn [bisect]. destruct (N.ltb_spec lo hi); [lia|].
      exists None. split; [reflexivity|]. intros; lia.
    - rewrite Nat2N.inj_succ, N.pow_succ_r' in Hsz.
      remember (S fuel) as sf. cbn [bisect]. subst sf.
      destruct (N.ltb_spec lo hi) as [Hlt|Hge].
      2:{ exists None. split; [reflexivity|]. intros; lia. }
      unfold HIGH_BIT in Hhi. unfold U32.
      destruct (N.leb_spec 4294967296 (lo + hi)); [lia|].
      set (mid := (lo + hi) / 2).
      assert (Hmid : lo <= mid < hi) by (unfold mid; lia).
      rewrite (Hok mid Hmid). cbn [obind].
      destruct (c mid) eqn:Hc.
      + exists (Some mid). split; [reflexivity|]. split; assumption.
      + destruct (IH lo mid) as [r [Hr Hs]].
        * unfold mid; lia.
        * unfold HIGH_BIT; lia.
        * intros; apply Hok; lia.
        * eapply mono_sub; [exact Hm|lia|lia].
        * exists r. split; [exact Hr|]. destruct r as [m|].
          -- destruct Hs; split; [lia|assumption].
          -- intros i Hi. destruct (N.ltb_spec i mid).
             ++ apply Hs; lia.
             ++ destruct (Hm mid i) as [A _]; try lia. rewrite (A Hc). discriminate.
      + destruct (IH (mid + 1) hi) as [r [Hr Hs]].
        * unfold mid; lia.
        * unfold HIGH_BIT; lia.
        * intros; apply Hok; lia.
        * eapply mono_sub; [exact Hm|lia|lia].
        * exists r. split; [exact Hr|]. destruct r as [m|].
          -- destruct Hs; split; [lia|assumption].
          -- intros i Hi. destruct (N.ltb_spec mid i).
             ++ apply Hs; lia.
             ++ destruct (Hm i mid) as [_ A]; try lia. rewrite (A Hc). discriminate.
  Qed.

  (* the overflowing case: with more than 2^31 objects the sum of the bounds can exceed u32 *)
  Lemma bisect_overflow : forall fuel lo hi, lo < hi -> U32 <= lo + hi ->
    bisect (S fuel) cmp_at lo hi = Panic.
  Proof.
    intros fuel lo hi H1 H2. cbn [bisect].
    destruct (N.ltb_spec lo hi); [|lia]. destruct (N.leb_spec U32 (lo + hi)); [reflexivity|lia].
  Qed.

End Bisect.
