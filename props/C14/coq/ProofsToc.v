(* C14 — gix-chunk's table of contents on assembled files: for ANY chunk list (distinct 4-byte ids, none the
   sentinel) laid out by [Spec.assemble], Index::from_bytes returns exactly the chunks' ranges, every chunk is found
   by its id, and its range holds its content. *)
From Coq Require Import Lia ZifyBool ZifyNat ZifyN.
From GixV.Base Require Import Bytes BytesFacts Outcome.
From GixV.C14 Require Import Model Spec ProofsRecord.
Ltac Zify.zify_post_hook ::= Z.div_mod_to_equations.
Local Open Scope N_scope.

Definition U64 : N := 18446744073709551616.

Fixpoint toc_of (cs : list (bytes * N)) (ofs : N) : list toc_entry :=
  match cs with
  | [] => []
  | (id, sz) :: r => (id, (ofs, ofs + sz)) :: toc_of r (ofs + sz)
  end.

Definition total_size (cs : list (bytes * N)) : N := fold_right (fun c a => snd c + a) 0 cs.

Definition id_ok (id : bytes) : Prop := length id = 4%nat /\ id <> SENTINEL.

Lemma skipn_add {A} (l : list A) : forall a b, skipn a (skipn b l) = skipn (b + a) l.
Proof.
  induction l as [|x l IH]; intros a b.
  - rewrite !skipn_nil. reflexivity.
  - destruct b as [|b]; cbn [skipn Nat.add]; [reflexivity|apply IH].
Qed.

Lemma slice_suffix data pos X k n :
  pos <= len data -> skipn (N.to_nat pos) data = X -> k + n <= len X ->
  slice data (pos + k) n = Ok (firstn (N.to_nat n) (skipn (N.to_nat k) X)).
Proof.
  intros Hp HX Hk. unfold slice.
  assert (L : len X = len data - pos) by (subst X; unfold len; rewrite skipn_length; lia).
  destruct (N.leb_spec (pos + k + n) (len data)); [|lia].
  subst X. rewrite skipn_add. do 3 f_equal. lia.
Qed.

(* every table-of-contents tail starts with a 4-byte id (or the sentinel) followed by the current offset *)
Lemma toc_bytes_head cs ofs : Forall (fun c => id_ok (fst c)) cs ->
  exists h t, toc_bytes cs ofs = h ++ be64 ofs ++ t /\ length h = 4%nat.
Proof.
  intros Hf. destruct cs as [|[id sz] r]; cbn [toc_bytes].
  - exists SENTINEL, []. rewrite app_nil_r. split; reflexivity.
  - inversion Hf as [|? ? [E _] _]; subst. exists id, (toc_bytes r (ofs + sz)). split; [reflexivity|exact E].
Qed.

Lemma existsb_ids_false (acc : list toc_entry) id :
  ~ In id (map fst acc) -> existsb (fun e => bytes_eqb (fst e) id) acc = false.
Proof.
  induction acc as [|e acc IH]; intros H; [reflexivity|]. cbn [existsb map In] in *.
  destruct (bytes_eqb (fst e) id) eqn:E.
  - apply bytes_eqb_eq in E. tauto.
  - cbn [orb]. apply IH. tauto.
Qed.

Lemma toc_loop_spec : forall rem data pos ofs acc rest,
  pos <= len data ->
  skipn (N.to_nat pos) data = toc_bytes rem ofs ++ rest ->
  Forall (fun c => id_ok (fst c)) rem ->
  NoDup (map fst rem) -> (forall c, In c rem -> ~ In (fst c) (map fst acc)) ->
  ofs + total_size rem <= len data -> len data < U64 ->
  toc_loop data (length rem) pos acc = Ok (rev acc ++ toc_of rem ofs).
Proof.
  induction rem as [|[id sz] r IH]; intros data pos ofs acc rest Hp HX Hok Hnd Hacc Hsz Hlen.
  - cbn [length toc_loop toc_bytes toc_of] in *. rewrite <- app_assoc in HX.
    assert (L : len (SENTINEL ++ be64 ofs ++ rest) = len data - pos)
      by (rewrite <- HX; unfold len; rewrite skipn_length; lia).
    unfold len in L. rewrite !app_length, be64_len in L. cbn [length SENTINEL] in L.
    replace pos with (pos + 0) at 1 by lia.
    rewrite (slice_suffix data pos _ 0 4 Hp HX) by (unfold len; rewrite !app_length, be64_len; cbn [length SENTINEL]; lia).
    cbn [obind N.to_nat skipn Pos.to_nat Pos.iter_op Nat.add firstn app SENTINEL].
    rewrite app_nil_r. reflexivity.
  - cbn [length toc_loop toc_bytes toc_of] in *.
    inversion Hok as [|? ? [Hid Hns] Hokr]; subst. cbn [fst] in Hid, Hns.
    inversion Hnd as [|? ? Hnin Hndr]; subst.
    destruct (toc_bytes_head r (ofs + sz) Hokr) as [h [t [Eh Lh]]].
    set (X := id ++ be64 ofs ++ toc_bytes r (ofs + sz) ++ rest) in *.
    assert (HX' : skipn (N.to_nat pos) data = X) by (unfold X; rewrite HX, <- !app_assoc; reflexivity).
    assert (L : len X = len data - pos) by (rewrite <- HX'; unfold len; rewrite skipn_length; lia).
    assert (LX : 24 <= len X).
    { unfold X, len. rewrite Eh. rewrite !app_length, !be64_len, Hid, Lh. lia. }
    unfold total_size in Hsz. cbn [fold_right snd] in Hsz. fold (total_size r) in Hsz.
    (* kind *)
    replace pos with (pos + 0) at 1 by lia.
    rewrite (slice_suffix data pos X 0 4 Hp HX') by lia.
    change (N.to_nat 0) with 0%nat. change (N.to_nat 4) with 4%nat. cbn [skipn obind].
    assert (F4 : firstn 4 X = id) by (unfold X; apply firstn_app_len; symmetry; exact Hid).
    rewrite F4.
    destruct (bytes_eqb id SENTINEL) eqn:Es; [apply bytes_eqb_eq in Es; contradiction|].
    rewrite existsb_ids_false by (apply (Hacc (id, sz)); left; reflexivity).
    (* offset *)
    rewrite (slice_suffix data pos X 4 8 Hp HX') by lia.
    change (N.to_nat 4) with 4%nat. change (N.to_nat 8) with 8%nat.
    assert (F8 : firstn 8 (skipn 4 X) = be64 ofs).
    { unfold X. rewrite (skipn_app_len id) by (symmetry; exact Hid).
      apply firstn_app_len. symmetry. apply be64_len. }
    rewrite F8. cbn [obind]. rewrite be64_rt by (unfold U64 in *; lia).
    destruct (N.ltb_spec (len data) ofs); [lia|].
    (* next offset *)
    rewrite (slice_suffix data pos X 16 8 Hp HX') by lia.
    change (N.to_nat 16) with 16%nat. change (N.to_nat 8) with 8%nat.
    assert (F16 : firstn 8 (skipn 16 X) = be64 (ofs + sz)).
    { unfold X. rewrite (skipn_app_add id _ 16 12) by (rewrite Hid; reflexivity).
      rewrite (skipn_app_add (be64 ofs) _ 12 4) by (rewrite be64_len; reflexivity).
      rewrite Eh, <- !app_assoc. rewrite (skipn_app_len h) by (symmetry; exact Lh).
      apply firstn_app_len. symmetry. apply be64_len. }
    rewrite F16. cbn [obind]. rewrite be64_rt by (unfold U64 in *; lia).
    destruct (N.ltb_spec (len data) (ofs + sz)); [lia|].
    destruct (N.ltb_spec (ofs + sz) ofs); [lia|].
    (* the remaining entries *)
    rewrite (IH data (pos + 12) (ofs + sz) ((id, (ofs, ofs + sz)) :: acc) rest).
    + cbn [rev]. rewrite <- app_assoc. reflexivity.
    + lia.
    + replace (N.to_nat (pos + 12)) with (12 + N.to_nat pos)%nat by lia.
      rewrite Nat.add_comm, <- skipn_add, HX'. unfold X.
      rewrite (skipn_app_add id _ 12 8) by (rewrite Hid; reflexivity).
      apply skipn_app_len. symmetry. apply be64_len.
    + exact Hokr.
    + exact Hndr.
    + intros c Hc. cbn [map In fst]. intros [E|E].
      * apply Hnin. rewrite E. apply in_map. exact Hc.
      * apply (Hacc c (or_intror Hc)). exact E.
    + lia.
    + exact Hlen.
Qed.

(* ---- assembled files ------------------------------------------------------------------------------------ *)
Definition sizes (chunks : list (bytes * bytes)) : list (bytes * N) := map (fun c => (fst c, len (snd c))) chunks.

Lemma toc_bytes_length cs : forall ofs, Forall (fun c => id_ok (fst c)) cs ->
  length (toc_bytes cs ofs) = (12 * (length cs + 1))%nat.
Proof.
  induction cs as [|[id sz] r IH]; intros ofs Hf; cbn [toc_bytes length].
  - rewrite app_length, be64_len. reflexivity.
  - inversion Hf as [|? ? [E _] Hr]; subst. cbn [fst] in E.
    rewrite !app_length, be64_len, E, (IH _ Hr). lia.
Qed.

Lemma total_size_sizes chunks : total_size (sizes chunks) = len (concat (map snd chunks)).
Proof.
  unfold total_size, sizes, len. induction chunks as [|c r IH]; [reflexivity|].
  cbn [map fold_right snd concat]. rewrite app_length, IH. unfold len. lia.
Qed.

Lemma sizes_ids chunks : map fst (sizes chunks) = map fst chunks.
Proof. unfold sizes. rewrite map_map. reflexivity. Qed.

Lemma signature_bytes : SIGNATURE = [x43; x47; x50; x48].
Proof. vm_compute. reflexivity. Qed.

Theorem L_toc_of_assemble : forall nbase chunks trailer,
  chunks <> [] -> (length chunks < 256)%nat ->
  Forall (fun c => id_ok (fst c)) chunks -> NoDup (map fst chunks) ->
  len (assemble nbase chunks trailer) < U64 ->
  let data := assemble nbase chunks trailer in
  let n := N.of_nat (length chunks) in
  b2N (nth 6 data x00) = n /\
  toc_from_bytes data 8 n = Ok (toc_of (sizes chunks) (8 + 12 * (n + 1))).
Proof.
  intros nbase chunks trailer Hne Hlt Hok Hnd Hlen data n.
  assert (Hoks : Forall (fun c => id_ok (fst c)) (sizes chunks)).
  { unfold sizes. rewrite Forall_forall in *. intros c Hc. apply in_map_iff in Hc.
    destruct Hc as [c0 [<- Hc0]]. cbn [fst]. apply Hok, Hc0. }
  assert (Ls : length (sizes chunks) = length chunks) by (unfold sizes; apply map_length).
  set (T := toc_bytes (sizes chunks) (8 + 12 * (n + 1))).
  set (R := concat (map snd chunks) ++ trailer).
  assert (D : data = [x43; x47; x50; x48; x01; x01; N2b n; N2b nbase] ++ T ++ R).
  { unfold data, assemble. rewrite signature_bytes. fold n. fold T. unfold R. reflexivity. }
  assert (LT : length T = (12 * (length chunks + 1))%nat) by (unfold T; rewrite toc_bytes_length, Ls by exact Hoks; reflexivity).
  assert (LD : len data = 8 + 12 * (n + 1) + total_size (sizes chunks) + len trailer).
  { rewrite D. unfold len, R. rewrite !app_length, LT, total_size_sizes. unfold len, n. cbn [length]. lia. }
  split.
  - rewrite D. cbn [app nth]. rewrite b2N_N2b_mod. unfold n. apply N.mod_small. lia.
  - unfold toc_from_bytes. fold data in Hlen.
    assert (Hn0 : n <> 0) by (unfold n; destruct chunks; [congruence|cbn [length]; lia]).
    destruct (N.eqb_spec n 0); [contradiction|].
    destruct (N.ltb_spec (len data) 8); [lia|].
    destruct (N.ltb_spec (len data - 8) ((n + 1) * 12)); [lia|].
    replace (N.to_nat n) with (length (sizes chunks)) by (rewrite Ls; unfold n; lia).
    pose proof (toc_loop_spec (sizes chunks) data 8 (8 + 12 * (n + 1)) [] R) as HL. cbn [rev app] in HL. apply HL.
    + lia.
    + rewrite D. reflexivity.
    + exact Hoks.
    + rewrite sizes_ids. exact Hnd.
    + intros c _ [].
    + lia.
    + exact Hlen.
Qed.

(* a chunk is found by its id, and its range is where the assembler put it *)
Lemma toc_find_region : forall pre id c post ofs, id_ok id -> ~ In id (map fst pre) ->
  toc_find (toc_of (sizes (pre ++ (id, c) :: post)) ofs) id
  = Some (ofs + total_size (sizes pre), ofs + total_size (sizes pre) + len c).
Proof.
  induction pre as [|[i0 c0] pre IH]; intros id c post ofs Hid Hni.
  - cbn [app sizes map toc_of toc_find fst snd]. rewrite (proj2 (bytes_eqb_eq id id) eq_refl).
    unfold total_size. cbn [fold_right]. repeat f_equal; lia.
  - change (sizes (((i0, c0) :: pre) ++ (id, c) :: post)) with ((i0, len c0) :: sizes (pre ++ (id, c) :: post)).
    change (sizes ((i0, c0) :: pre)) with ((i0, len c0) :: sizes pre).
    cbn [toc_of toc_find]. cbn [map fst In] in Hni.
    destruct (bytes_eqb i0 id) eqn:E; [apply bytes_eqb_eq in E; tauto|].
    rewrite IH by tauto.
    change (total_size ((i0, len c0) :: sizes pre)) with (len c0 + total_size (sizes pre)).
    f_equal. f_equal; lia.
Qed.

Lemma toc_find_absent : forall chunks id ofs, ~ In id (map fst chunks) -> toc_find (toc_of (sizes chunks) ofs) id = None.
Proof.
  induction chunks as [|[i0 c0] r IH]; intros id ofs Hni; [reflexivity|].
  cbn [sizes map toc_of toc_find fst snd]. cbn [map fst In] in Hni.
  destruct (bytes_eqb i0 id) eqn:E; [apply bytes_eqb_eq in E; tauto|].
  fold (sizes r). apply IH. tauto.
Qed.

(* the bytes at a chunk's range are its content *)
Lemma region_content : forall nbase pre id c post trailer,
  Forall (fun c => id_ok (fst c)) (pre ++ (id, c) :: post) ->
  let chunks := pre ++ (id, c) :: post in
  let n := N.of_nat (length chunks) in
  skipn (N.to_nat (8 + 12 * (n + 1) + total_size (sizes pre))) (assemble nbase chunks trailer)
  = c ++ concat (map snd post) ++ trailer.
Proof.
  intros nbase pre id c post trailer Hok chunks n.
  assert (Hoks : Forall (fun c => id_ok (fst c)) (sizes chunks)).
  { unfold sizes. rewrite Forall_forall in *. intros x Hx. apply in_map_iff in Hx.
    destruct Hx as [c0 [<- Hc0]]. cbn [fst]. apply Hok, Hc0. }
  unfold assemble. fold chunks. fold n. rewrite signature_bytes.
  set (T := toc_bytes (map (fun c0 => (fst c0, len (snd c0))) chunks) (8 + 12 * (n + 1))).
  assert (LT : length T = (12 * (length chunks + 1))%nat).
  { unfold T. fold (sizes chunks). rewrite toc_bytes_length by exact Hoks. unfold sizes. rewrite map_length. reflexivity. }
  change ([x43; x47; x50; x48] ++ [x01; x01; N2b n; N2b nbase] ++ T ++ concat (map snd chunks) ++ trailer)
    with ([x43; x47; x50; x48; x01; x01; N2b n; N2b nbase] ++ T ++ concat (map snd chunks) ++ trailer).
  rewrite (skipn_app_add _ _ _ (N.to_nat (12 * (n + 1) + total_size (sizes pre)))) by (cbn [length]; lia).
  rewrite (skipn_app_add T _ _ (N.to_nat (total_size (sizes pre)))) by (rewrite LT; unfold n; lia).
  unfold chunks. rewrite map_app, concat_app. cbn [map concat snd]. rewrite <- !app_assoc.
  apply skipn_app_len. rewrite total_size_sizes. unfold len. lia.
Qed.
