(* C47 — executable model of gix-traverse's commit walks (as they are after the fixes listed in NOTES.md):
     gix-traverse/src/commit/simple.rs    Simple::{filtered, sorting, parents, next_by_topology, next_by_commit_date}
     gix-traverse/src/commit/topo/init.rs Builder::build
     gix-traverse/src/commit/topo/iter.rs Queue, compute_indegrees_to_depth, indegree_walk_step, explore_to_depth,
                                          explore_walk_step, expand_topo_walk, process_parents, pop_commit, next
     gix-revwalk/src/queue.rs             PriorityQueue = std BinaryHeap ordered by the key only
   The object database (+ optional commit-graph) is one list of commits; the id of a commit is its position.
   No proofs here. *)
From GixV.Base Require Import Bytes Outcome.
Local Open Scope N_scope.

Definition id := N.
Record commit := mkC { c_time : Z; c_gen : N (* 0: not in the commit-graph *); c_parents : list id }.
Definition odb := list commit.
Definition find (o : odb) (i : id) : option commit := nth_error o (N.to_nat i).

Fixpoint mem (x : id) (l : list id) : bool :=
  match l with [] => false | y :: r => if N.eqb x y then true else mem x r end.

(* all errors are collapsed *)
Notation res A := (outcome A unit).
Local Open Scope outcome_scope.

(* ---- std::collections::BinaryHeap<Item<K, V>>, Item ordered by key only (library/alloc binary_heap:
   push = sift_up(0, old_len); pop = swap last to 0, sift_down_to_bottom(0), sift_up) ---------------- *)
Section Heap.
  Context {K V : Type}.
  Variable le : K -> K -> bool.
  Definition heap := list (K * V).

  Fixpoint set_nth (l : heap) (n : nat) (x : K * V) : heap :=
    match l, n with
    | [], _ => []
    | _ :: t, O => x :: t
    | h :: t, S n' => h :: set_nth t n' x
    end.
  Definition swap (l : heap) (i j : nat) : heap :=
    match nth_error l i, nth_error l j with
    | Some a, Some b => set_nth (set_nth l i b) j a
    | _, _ => l
    end.
  Definition key_le_at (l : heap) (i j : nat) : bool :=
    match nth_error l i, nth_error l j with
    | Some a, Some b => le (fst a) (fst b)
    | _, _ => true
    end.

  Fixpoint sift_up (fuel : nat) (l : heap) (pos : nat) : heap :=
    match fuel with
    | O => l
    | S fuel' =>
        match pos with
        | O => l
        | S _ =>
            let parent := Nat.div (pos - 1) 2 in
            if key_le_at l pos parent then l
            else sift_up fuel' (swap l pos parent) parent
        end
    end.

  Definition heap_push (l : heap) (x : K * V) : heap :=
    let l' := l ++ [x] in sift_up (length l') l' (length l).

  Fixpoint sift_down_to_bottom (fuel : nat) (l : heap) (pos : nat) (en : nat) : heap * nat :=
    match fuel with
    | O => (l, pos)
    | S fuel' =>
        let child := (2 * pos + 1)%nat in
        if Nat.leb child (en - 2) && Nat.leb 2 en then
          let child' := if key_le_at l child (child + 1) then (child + 1)%nat else child in
          sift_down_to_bottom fuel' (swap l pos child') child' en
        else if Nat.eqb child (en - 1) && Nat.leb 1 en then (swap l pos child, child)
        else (l, pos)
    end.

  Definition heap_pop (l : heap) : option ((K * V) * heap) :=
    match rev l with
    | [] => None
    | last :: _ =>
        match removelast l with
        | [] => Some (last, [])
        | top :: rest =>
            let l1 := last :: rest in
            let '(l2, pos) := sift_down_to_bottom (length l1) l1 0 (length l1) in
            Some (top, sift_up (length l2) l2 pos)
        end
    end.
  Definition heap_peek (l : heap) : option (K * V) := hd_error l.
End Heap.

(* ================================ Simple ================================================ *)
Inductive sorting := SBfs | STime (newest : bool) (cutoff : option Z).

Record sst := mkS { s_next : list id; s_queue : @heap Z id; s_seen : list id }.

Definition to_key (newest : bool) (t : Z) : Z := if newest then t else Z.opp t.
Definition below_cutoff (cutoff : option Z) (t : Z) : bool :=
  match cutoff with Some c => Z.ltb t c | None => false end.
Definition hpush := @heap_push Z id Z.leb.
Definition hpop := @heap_pop Z id Z.leb.

(* Simple::filtered *)
Fixpoint init_tips (pred : id -> bool) (tips : list id) (seen next : list id) : list id * list id :=
  match tips with
  | [] => (seen, next)
  | t :: r =>
      if mem t seen then init_tips pred r seen next
      else init_tips pred r (t :: seen) (if pred t then next ++ [t] else next)
  end.
Definition simple_new (pred : id -> bool) (tips : list id) : sst :=
  let '(seen, next) := init_tips pred tips [] [] in mkS next [] seen.

Definition queue_to_vecdeque (s : sst) : sst :=
  mkS (s_next s ++ map snd (s_queue s)) [] (s_seen s).

Fixpoint sort_tips (o : odb) (newest : bool) (cutoff : option Z) (ids : list id) (q : heap) : res heap :=
  match ids with
  | [] => Ok q
  | i :: r =>
      match find o i with
      | None => Err tt
      | Some c =>
          let t := c_time c in
          if below_cutoff cutoff t then sort_tips o newest cutoff r q
          else sort_tips o newest cutoff r (hpush q (to_key newest t, i))
      end
  end.

(* Simple::sorting, [first] = the parents mode at the time of the call *)
Definition set_sorting (o : odb) (first : bool) (srt : sorting) (s : sst) : res sst :=
  match srt with
  | SBfs => Ok (queue_to_vecdeque s)
  | STime nw cut =>
      q <- sort_tips o nw cut (s_next s) (s_queue s);;
      let s' := mkS [] q (s_seen s) in
      Ok (if first then queue_to_vecdeque s' else s')
  end.
(* Simple::parents *)
Definition set_parents (first : bool) (s : sst) : sst := if first then queue_to_vecdeque s else s.

(* an item: the commit that was popped, and whether it was found (false = the iterator returned Err) *)
Definition item := (id * bool)%type.

Fixpoint topo_parents (pred : id -> bool) (first : bool) (ps : list id) (seen next : list id)
  : list id * list id :=
  match ps with
  | [] => (seen, next)
  | p :: r =>
      let ins := negb (mem p seen) in
      let seen' := if ins then p :: seen else seen in
      let next' := if ins && pred p then next ++ [p] else next in
      if first then (seen', next') else topo_parents pred first r seen' next'
  end.

Definition step_topology (o : odb) (pred : id -> bool) (first : bool) (s : sst) : option (item * sst) :=
  match s_next s with
  | [] => None
  | i :: rest =>
      match find o i with
      | None => Some ((i, false), mkS rest (s_queue s) (s_seen s))
      | Some c =>
          let '(seen, next) := topo_parents pred first (c_parents c) (s_seen s) rest in
          Some ((i, true), mkS next (s_queue s) seen)
      end
  end.

Fixpoint date_parents (o : odb) (pred : id -> bool) (newest : bool) (cutoff : option Z)
         (ps : list id) (seen : list id) (q : heap) : list id * heap :=
  match ps with
  | [] => (seen, q)
  | p :: r =>
      let ins := negb (mem p seen) in
      let seen' := if ins then p :: seen else seen in
      if ins && pred p then
        let t := match find o p with Some c => c_time c | None => 0%Z end in
        if below_cutoff cutoff t then date_parents o pred newest cutoff r seen' q
        else date_parents o pred newest cutoff r seen' (hpush q (to_key newest t, p))
      else date_parents o pred newest cutoff r seen' q
  end.

Definition step_date (o : odb) (pred : id -> bool) (newest : bool) (cutoff : option Z) (s : sst)
  : option (item * sst) :=
  match hpop (s_queue s) with
  | None => None
  | Some ((_, i), q') =>
      match find o i with
      | None => Some ((i, false), mkS (s_next s) q' (s_seen s))
      | Some c =>
          let '(seen, q2) := date_parents o pred newest cutoff (c_parents c) (s_seen s) q' in
          Some ((i, true), mkS (s_next s) q2 seen)
      end
  end.

(* Iterator::next *)
Definition simple_step (o : odb) (pred : id -> bool) (first : bool) (srt : sorting) (s : sst)
  : option (item * sst) :=
  if first then step_topology o pred true s
  else match srt with
       | SBfs => step_topology o pred false s
       | STime nw cut => step_date o pred nw cut s
       end.

Fixpoint iterate {S : Type} (step : S -> option (item * S)) (fuel : nat) (s : S) : res (list item) :=
  match fuel with
  | O => OutOfFuel
  | S f =>
      match step s with
      | None => Ok []
      | Some (x, s') => omap (cons x) (iterate step f s')
      end
  end.

(* [sp]: `.sorting(srt)?.parents(first)`, otherwise `.parents(first).sorting(srt)?` *)
Definition simple_build (o : odb) (pred : id -> bool) (tips : list id) (first : bool) (srt : sorting) (sp : bool)
  : res sst :=
  let s0 := simple_new pred tips in
  if sp then omap (set_parents first) (set_sorting o false srt s0)
  else set_sorting o first srt (set_parents first s0).

Definition simple_walk (o : odb) (pred : id -> bool) (tips : list id) (first : bool) (srt : sorting) (sp : bool)
           (fuel : nat) : res (list item) :=
  s <- simple_build o pred tips first srt sp;;
  iterate (simple_step o pred first srt) fuel s.

(* ================================ Topo =================================================== *)
Record flags := mkF { f_seen : bool; f_expl : bool; f_indeg : bool; f_unint : bool; f_bottom : bool; f_added : bool }.
Definition f_or (a b : flags) : flags :=
  mkF (f_seen a || f_seen b) (f_expl a || f_expl b) (f_indeg a || f_indeg b)
      (f_unint a || f_unint b) (f_bottom a || f_bottom b) (f_added a || f_added b).
Definition fl_empty := mkF false false false false false false.
Definition fl_seen := mkF true false false false false false.
Definition fl_unint := mkF false false false true false false.
Definition fl_unint_seen := mkF true false false true false false.
Definition fl_tip := mkF true true true false false false.
Definition fl_end := mkF true true true true true false.
Definition fl_expl := mkF false true false false false false.
Definition fl_indeg := mkF false false true false false false.
Definition fl_added := mkF false false false false false true.

Section Map.
  Context {V : Type}.
  Fixpoint m_get (m : list (id * V)) (i : id) : option V :=
    match m with [] => None | (j, v) :: r => if N.eqb i j then Some v else m_get r i end.
  Fixpoint m_set (m : list (id * V)) (i : id) (v : V) : list (id * V) :=
    match m with
    | [] => [(i, v)]
    | (j, w) :: r => if N.eqb i j then (j, v) :: r else (j, w) :: m_set r i v
    end.
End Map.

Definition GEN_INF : N := 4294967295.
Definition gkey := (N * Z)%type.
Definition gkey_le (a b : gkey) : bool :=
  match N.compare (fst a) (fst b) with
  | Lt => true
  | Gt => false
  | Eq => Z.leb (snd a) (snd b)
  end.
Definition key_of (c : commit) : gkey := (if N.eqb (c_gen c) 0 then GEN_INF else c_gen c, c_time c).
Definition gpush := @heap_push gkey id gkey_le.
Definition gpop := @heap_pop gkey id gkey_le.

(* topo_queue: (time, Reverse(counter)) keys for date order; a stack for topo order (head = end of the Vec) *)
Definition dkey := (Z * N)%type.
Definition dkey_le (a b : dkey) : bool :=
  match Z.compare (fst a) (fst b) with
  | Lt => true
  | Gt => false
  | Eq => N.leb (snd b) (snd a)
  end.
Inductive tqueue := TQDate (h : @heap dkey id) (ctr : N) | TQTopo (stack : list (Z * id)).
Definition tq_push (q : tqueue) (t : Z) (i : id) : tqueue :=
  match q with
  | TQDate h c => TQDate (@heap_push dkey id dkey_le h ((t, c), i)) (c + 1)
  | TQTopo st => TQTopo ((t, i) :: st)
  end.
Definition tq_pop (q : tqueue) : option (id * tqueue) :=
  match q with
  | TQDate h c => match @heap_pop dkey id dkey_le h with
                  | Some ((_, i), h') => Some (i, TQDate h' c)
                  | None => None
                  end
  | TQTopo [] => None
  | TQTopo ((_, i) :: st) => Some (i, TQTopo st)
  end.
(* slice::sort_by(time ascending): stable *)
Fixpoint ins_asc (x : Z * id) (l : list (Z * id)) : list (Z * id) :=
  match l with
  | [] => [x]
  | y :: r => if Z.ltb (fst x) (fst y) then x :: l else y :: ins_asc x r
  end.
Definition sort_asc (l : list (Z * id)) : list (Z * id) := fold_left (fun acc x => ins_asc x acc) l [].
(* Vec::reverse, stable sort ascending; the Vec reads [rev stack] *)
Definition tq_initial_sort (q : tqueue) : tqueue :=
  match q with
  | TQDate _ _ => q
  | TQTopo st => TQTopo (rev (sort_asc st))
  end.

Record tst := mkT {
  t_indeg : list (id * Z);
  t_states : list (id * flags);
  t_explore : @heap gkey id;
  t_indegq : @heap gkey id;
  t_topo : tqueue;
  t_min_gen : N }.

Section Topo.
  Variable o : odb.
  Variable first : bool.
  Variable F : nat.    (* fuel of each inner loop *)

  Fixpoint with_keys (ps : list id) : res (list (id * gkey)) :=
    match ps with
    | [] => Ok []
    | p :: r =>
        match find o p with
        | None => Err tt
        | Some c => omap (cons (p, key_of c)) (with_keys r)
        end
    end.
  Definition collect_parents (i : id) (first_only : bool) : res (list (id * gkey)) :=
    match find o i with
    | None => Err tt
    | Some c => with_keys (if first_only then firstn 1 (c_parents c) else c_parents c)
    end.

  Definition mark (sm : list (id * flags)) (p : id) (pass ins : flags) : list (id * flags) :=
    match m_get sm p with
    | Some f => m_set sm p (f_or f pass)
    | None => m_set sm p ins
    end.

  (* the `while let Some(id) = pending.pop()` loop of process_parents; the head of [pending] is the end of the Vec *)
  Fixpoint mark_gps (gps : list (id * gkey)) (sm : list (id * flags)) (pending : list id)
    : list (id * flags) * list id :=
    match gps with
    | [] => (sm, pending)
    | (g, _) :: r =>
        match m_get sm g with
        | Some f =>
            if f_unint f then mark_gps r sm pending
            else mark_gps r (m_set sm g (f_or f fl_unint)) (if f_added f then g :: pending else pending)
        | None => mark_gps r (m_set sm g fl_unint_seen) pending
        end
    end.
  Fixpoint mark_ancestors (fuel : nat) (pending : list id) (sm : list (id * flags)) : res (list (id * flags)) :=
    match fuel with
    | O => OutOfFuel
    | S f =>
        match pending with
        | [] => Ok sm
        | p :: rest =>
            gps <- collect_parents p false;;
            let '(sm', pending') := mark_gps gps sm rest in
            mark_ancestors f pending' sm'
        end
    end.

  Definition process_parents (i : id) (parents : list (id * gkey)) (sm : list (id * flags))
    : res (list (id * flags)) :=
    match m_get sm i with
    | None => Err tt
    | Some f =>
        if f_added f then Ok sm
        else
          let sm1 := m_set sm i (f_or f fl_added) in
          if f_unint f then
            sm2 <- mark_ancestors (F + length parents) (rev (map fst parents)) sm1;;
            Ok (fold_left (fun sm p => mark sm (fst p) fl_unint fl_unint) parents sm2)
          else Ok (fold_left (fun sm p => mark sm (fst p) fl_empty fl_seen) parents sm1)
    end.

  Fixpoint explore_push (ps : list (id * gkey)) (sm : list (id * flags)) (q : heap)
    : res (list (id * flags) * heap) :=
    match ps with
    | [] => Ok (sm, q)
    | (p, k) :: r =>
        match m_get sm p with
        | None => Err tt
        | Some f =>
            if f_expl f then explore_push r sm q
            else explore_push r (m_set sm p (f_or f fl_expl)) (gpush q (k, p))
        end
    end.

  Definition explore_walk_step (st : tst) : res tst :=
    match gpop (t_explore st) with
    | None => Ok st
    | Some ((_, i), q') =>
        ps <- collect_parents i false;;     (* all parents, also in first-parent mode *)
        sm <- process_parents i ps (t_states st);;
        '(sm', q'') <- explore_push ps sm q';;
        Ok (mkT (t_indeg st) sm' q'' (t_indegq st) (t_topo st) (t_min_gen st))
    end.

  Fixpoint explore_to_depth (fuel : nat) (cutoff : N) (st : tst) : res tst :=
    match fuel with
    | O => OutOfFuel
    | S f =>
        match heap_peek (t_explore st) with
        | Some ((g, _), _) =>
            if N.leb cutoff g then st' <- explore_walk_step st;; explore_to_depth f cutoff st'
            else Ok st
        | None => Ok st
        end
    end.

  Fixpoint indegree_push (ps : list (id * gkey)) (im : list (id * Z)) (sm : list (id * flags)) (q : heap)
    : res (list (id * Z) * list (id * flags) * heap) :=
    match ps with
    | [] => Ok (im, sm, q)
    | (p, k) :: r =>
        let im' := match m_get im p with Some e => m_set im p (e + 1)%Z | None => m_set im p 2%Z end in
        match m_get sm p with
        | None => Err tt
        | Some f =>
            if f_indeg f then indegree_push r im' sm q
            else indegree_push r im' (m_set sm p (f_or f fl_indeg)) (gpush q (k, p))
        end
    end.

  Definition indegree_walk_step (st : tst) : res tst :=
    match gpop (t_indegq st) with
    | None => Ok st
    | Some (((g, _), i), q') =>
        st1 <- explore_to_depth F g (mkT (t_indeg st) (t_states st) (t_explore st) q' (t_topo st) (t_min_gen st));;
        ps <- collect_parents i first;;
        '(im, sm, q'') <- indegree_push ps (t_indeg st1) (t_states st1) (t_indegq st1);;
        Ok (mkT im sm (t_explore st1) q'' (t_topo st1) (t_min_gen st1))
    end.

  Fixpoint compute_indegrees_to_depth (fuel : nat) (cutoff : N) (st : tst) : res tst :=
    match fuel with
    | O => OutOfFuel
    | S f =>
        match heap_peek (t_indegq st) with
        | Some ((g, _), _) =>
            if N.leb cutoff g then st' <- indegree_walk_step st;; compute_indegrees_to_depth f cutoff st'
            else Ok st
        | None => Ok st
        end
    end.

  Fixpoint expand_parents (ps : list (id * gkey)) (st : tst) : res tst :=
    match ps with
    | [] => Ok st
    | (p, (pgen, ptime)) :: r =>
        match m_get (t_states st) p with
        | None => Err tt
        | Some pf =>
            if f_unint pf then expand_parents r st
            else
              st1 <- (if N.ltb pgen (t_min_gen st)
                      then compute_indegrees_to_depth F pgen
                             (mkT (t_indeg st) (t_states st) (t_explore st) (t_indegq st) (t_topo st) pgen)
                      else Ok st);;
              (* exploring deeper may have revealed that the parent is hidden *)
              if N.ltb pgen (t_min_gen st)
                 && match m_get (t_states st1) p with Some f => f_unint f | None => false end
              then expand_parents r st1
              else
              match m_get (t_indeg st1) p with
              | None => Err tt
              | Some i =>
                  let i' := (i - 1)%Z in
                  let st2 := mkT (m_set (t_indeg st1) p i') (t_states st1) (t_explore st1) (t_indegq st1)
                                 (t_topo st1) (t_min_gen st1) in
                  if negb (Z.eqb i' 1) then expand_parents r st2
                  else
                    _ <- collect_parents p false;;
                    expand_parents r (mkT (t_indeg st2) (t_states st2) (t_explore st2) (t_indegq st2)
                                          (tq_push (t_topo st2) ptime p) (t_min_gen st2))
              end
        end
    end.

  Definition expand_topo_walk (i : id) (st : tst) : res tst :=
    ps <- collect_parents i first;;
    sm <- process_parents i ps (t_states st);;
    expand_parents ps (mkT (t_indeg st) sm (t_explore st) (t_indegq st) (t_topo st) (t_min_gen st)).

  (* Builder::build *)
  Fixpoint build_tips (l : list (id * flags)) (st : tst) (uniq : list id) : res (tst * list id) :=
    match l with
    | [] => Ok (st, rev uniq)
    | (i, fl) :: r =>
        match m_get (t_states st) i with
        | Some f =>
            build_tips r (mkT (t_indeg st) (m_set (t_states st) i (f_or f fl)) (t_explore st) (t_indegq st)
                              (t_topo st) (t_min_gen st)) uniq
        | None =>
            let uniq' := if f_unint fl then uniq else i :: uniq in
            match find o i with
            | None => Err tt
            | Some c =>
                let k := key_of c in
                build_tips r (mkT (m_set (t_indeg st) i 1%Z) (m_set (t_states st) i fl)
                                  (gpush (t_explore st) (k, i)) (gpush (t_indegq st) (k, i)) (t_topo st)
                                  (if N.ltb (fst k) (t_min_gen st) then fst k else t_min_gen st)) uniq'
            end
        end
    end.

  Fixpoint build_ends (ends : list id) (sm : list (id * flags)) : res (list (id * flags)) :=
    match ends with
    | [] => Ok sm
    | e :: r =>
        ps <- collect_parents e false;;
        build_ends r (fold_left (fun sm p => mark sm (fst p) fl_unint fl_unint_seen) ps sm)
    end.

  Fixpoint build_queue (tips : list id) (st : tst) : res tst :=
    match tips with
    | [] => Ok st
    | i :: r =>
        match m_get (t_indeg st) i with
        | None => Err tt
        | Some d =>
            if negb (Z.eqb d 1) then build_queue r st
            else if match m_get (t_states st) i with Some f => f_unint f | None => false end then build_queue r st
            else
              match find o i with
              | None => Err tt
              | Some c =>
                  _ <- collect_parents i false;;
                  build_queue r (mkT (t_indeg st) (t_states st) (t_explore st) (t_indegq st)
                                     (tq_push (t_topo st) (c_time c) i) (t_min_gen st))
              end
        end
    end.

  Definition topo_build (date : bool) (tips ends : list id) : res tst :=
    let st0 := mkT [] [] [] [] (if date then TQDate [] 0 else TQTopo []) GEN_INF in
    '(st1, uniq) <- build_tips (map (fun i => (i, fl_tip)) tips ++ map (fun i => (i, fl_end)) ends) st0 [];;
    sm <- build_ends ends (t_states st1);;
    st2 <- compute_indegrees_to_depth F (t_min_gen st1)
             (mkT (t_indeg st1) sm (t_explore st1) (t_indegq st1) (t_topo st1) (t_min_gen st1));;
    st3 <- build_queue uniq st2;;
    Ok (mkT (t_indeg st3) (t_states st3) (t_explore st3) (t_indegq st3) (tq_initial_sort (t_topo st3)) (t_min_gen st3)).

  (* Iterator::next until the end or the first error item (the harness stops there as well) *)
  Fixpoint topo_iter (pred : id -> bool) (fuel : nat) (st : tst) : res (list item) :=
    match fuel with
    | O => OutOfFuel
    | S f =>
        match tq_pop (t_topo st) with
        | None => Ok []
        | Some (i, tq') =>
            match m_get (t_indeg st) i with
            | None => Ok [(i, false)]
            | Some _ =>
                match expand_topo_walk i (mkT (m_set (t_indeg st) i 0%Z) (t_states st) (t_explore st)
                                              (t_indegq st) tq' (t_min_gen st)) with
                | Ok st' => omap (fun r => if pred i then (i, true) :: r else r) (topo_iter pred f st')
                | Err _ => Ok [(i, false)]
                | Panic => Panic
                | OutOfFuel => OutOfFuel
                end
            end
        end
    end.

  Definition topo_walk (pred : id -> bool) (date : bool) (tips ends : list id) : res (list item) :=
    st <- topo_build date tips ends;;
    topo_iter pred F st.
End Topo.
