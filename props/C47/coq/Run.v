(* C47 — transcript printer: the same observable string the Rust harness prints for a case.
   case:  <op> <opts> <cutoff> <tips> <ends> <rejected> <n> (<time,gen,p1,p2,…>){n}     (see harness/src/main.rs) *)
From GixV.Base Require Import Bytes Outcome.
From GixV.C47 Require Import Model Spec.
Local Open Scope N_scope.

Definition comma : byte := x2c.
Fixpoint split_comma_acc (l : bytes) (cur : bytes) : list bytes :=
  match l with
  | [] => [rev cur]
  | b :: r => if beqb b comma then rev cur :: split_comma_acc r [] else split_comma_acc r (b :: cur)
  end.
Definition split_comma (l : bytes) : list bytes :=
  match l with [] => [] | _ => split_comma_acc l [] end.
Definition nums (l : bytes) : list N :=
  map (fun w => match dec_to_N w with Some v => v | None => 0 end) (split_comma l).

Definition has (w : bytes) (opts : list bytes) : bool := existsb (bytes_eqb w) opts.

Definition parse_commit (f : bytes) : commit :=
  match nums f with
  | t :: g :: ps => mkC (Z.of_N t) g ps
  | _ => mkC 0%Z 0 []
  end.

Fixpoint join_comma (ls : list bytes) : bytes :=
  match ls with
  | [] => []
  | [x] => x
  | x :: r => x ++ comma :: join_comma r
  end.
Definition show_item (it : item) : bytes := if snd it then N_to_dec (fst it) else bs "E".
Definition show (r : outcome (list item) unit) : bytes :=
  match r with
  | Ok l => bs "ok " ++ join_comma (map show_item l)
  | Err _ => bs "err"
  | Panic => bs "PANIC"
  | OutOfFuel => bs "HANG"
  end.

Definition run_case (spec : bool) (fs : list bytes) : bytes :=
  let op := nth_field 0 fs in
  let opts := split_comma (nth_field 1 fs) in
  let cutoff := Z.of_N (field_N 2 fs) in
  let tips := nums (nth_field 3 fs) in
  let ends := nums (nth_field 4 fs) in
  let rej := nums (nth_field 5 fs) in
  let n := N.to_nat (field_N 6 fs) in
  let o := map parse_commit (firstn n (skipn 7 fs)) in
  let pred := fun i => negb (mem i rej) in
  let first := has (bs "first") opts in
  let fuel := (4 * (n + length tips + length ends) + 18)%nat in
  if bytes_eqb op (bs "simple") then
    let srt :=
      if has (bs "bfs") opts then SBfs
      else if has (bs "new") opts then STime true None
      else if has (bs "old") opts then STime false None
      else if has (bs "newcut") opts then STime true (Some cutoff)
      else STime false (Some cutoff) in
    if spec then bs "ok " ++ join_comma (map N_to_dec (git_default_order o tips fuel))
    else show (simple_walk o pred tips first srt (negb (has (bs "ps") opts)) fuel)
  else if bytes_eqb op (bs "topo") then
    let date := has (bs "date") opts in
    if spec then bs "ok " ++ join_comma (map N_to_dec (git_topo_order o first date tips ends fuel))
    else show (topo_walk o first fuel pred date tips ends)
  else bs "?".

Definition run (fs : list bytes) : bytes :=
  match fs with
  | mode :: rest => run_case (bytes_eqb mode (bs "spec")) rest
  | [] => bs "?"
  end.
