(* C47 — commit walks agree with git rev-list: the theorems (statements only; proofs are in Proofs*.v).
   [simple_walk o pred tips first srt sp fuel] is the model of
       Simple::filtered(tips, o, pred) .sorting(srt)/.parents(first) in either order (sp), iterated to the end;
   an item is (commit, found?).  [reach o first ok tips x]: x is reachable from an accepted tip along
   (first) parents through accepted commits.  [ok_eff]: accepted by the predicate and, for the date-sorted
   walks over all parents, not older than the cut-off. *)
From Coq Require Import List Permutation NArith ZArith.
From GixV.Base Require Import Bytes Outcome.
From GixV.C47 Require Import Model Spec ProofsHeap ProofsWalk Proofs ProofsTopo ProofsTopoAll.
Import ListNotations.

(* every commit is returned at most once — every object database (any graph, even cyclic), any tips (also
   repeated), any predicate, every sorting, cut-off and parents mode, both builder orders *)
Theorem simple_each_once :
  forall o pred tips first srt sp fuel items,
    (first = true -> cutoff_of srt = None) ->
    simple_walk o pred tips first srt sp fuel = Ok items ->
    NoDup (map fst items).
Proof. intros o pred tips first srt sp fuel items H. exact (walk_each_once o pred tips first srt H sp fuel items). Qed.

(* exactly the reachable set *)
Theorem simple_exactly_reachable :
  forall o pred tips first srt sp fuel items x,
    (first = true -> cutoff_of srt = None) ->
    simple_walk o pred tips first srt sp fuel = Ok items ->
    (In x (map fst items) <-> reach o first (ok_eff o pred first srt) tips x).
Proof. intros o pred tips first srt sp fuel items x H. exact (walk_exact o pred tips first srt H sp fuel items x). Qed.

(* first-parent mode follows only first parents *)
Theorem simple_first_parent_only :
  forall o pred tips srt sp fuel items x,
    cutoff_of srt = None ->
    simple_walk o pred tips true srt sp fuel = Ok items ->
    In x (map fst items) ->
    In x tips \/ exists y c, In y (map fst items) /\ find o y = Some c /\ hd_error (c_parents c) = Some x.
Proof. exact first_parent_only_lemma. Qed.

(* the builder order is irrelevant for the set that is returned (the defect fixed by 43baee353) *)
Theorem simple_builder_order_irrelevant :
  forall o pred tips first srt fuel fuel' items items' x,
    (first = true -> cutoff_of srt = None) ->
    simple_walk o pred tips first srt true fuel = Ok items ->
    simple_walk o pred tips first srt false fuel' = Ok items' ->
    (In x (map fst items) <-> In x (map fst items')).
Proof. exact builder_order_lemma. Qed.

(* the priority queue (std BinaryHeap as used by gix_revwalk::PriorityQueue) never loses or invents an entry *)
Theorem heap_push_is_insert :
  forall (K V : Type) (le : K -> K -> bool) (l : @heap K V) x, Permutation (heap_push le l x) (x :: l).
Proof. intros. apply heap_push_perm. Qed.
Theorem heap_pop_is_remove :
  forall (K V : Type) (le : K -> K -> bool) (l : @heap K V) x l',
    heap_pop le l = Some (x, l') -> Permutation l (x :: l').
Proof. intros. eapply heap_pop_perm; eauto. Qed.
Theorem heap_pop_none_is_empty :
  forall (K V : Type) (le : K -> K -> bool) (l : @heap K V), heap_pop le l = None -> l = [].
Proof. intros. eapply heap_pop_none; eauto. Qed.

(* ---- Topo (topo::Builder::build + Iterator::next): every tips / ends / predicate / sorting / parents mode / fuel ---- *)
(* no commit is returned twice (also with repeated tips: fix e60a841bd) — object databases without commit-graph
   data ([no_graph]: the walk is eager; with generation numbers in-degrees grow lazily and the statement needs
   their consistency, which is only tested) *)
Theorem topo_each_once :
  forall o first F pred date tips ends items,
    no_graph o ->
    topo_walk o first F pred date tips ends = Ok items ->
    NoDup (map fst items).
Proof. intros o first F pred date tips ends items NG H. exact (proj1 (topo_walk_facts o first F tips NG pred date ends items H)). Qed.

(* every returned commit is reachable from a tip along the (first) parents the walk follows — EVERY object
   database, with or without (even inconsistent) commit-graph data *)
Theorem topo_subset_reachable_from_tips :
  forall o first F pred date tips ends items x,
    topo_walk o first F pred date tips ends = Ok items ->
    In x (map fst items) -> reach o first (fun _ => true) tips x.
Proof. intros o first F pred date tips ends items x H. exact (topo_walk_reach o first F tips pred date ends items H x). Qed.

(* ---- non-vacuity: a history with a merge, colliding times, a repeated tip ---- *)
Definition ex_odb : odb :=
  [ mkC 10 0 []; mkC 10 0 [0%N]; mkC 11 0 [0%N]; mkC 11 0 [1%N; 2%N]; mkC 5 0 [3%N] ].

Example ex_date_walk :
  simple_walk ex_odb (fun _ => true) [4%N; 4%N] false (STime true None) true 30
  = Ok [(4%N, true); (3%N, true); (2%N, true); (1%N, true); (0%N, true)].
Proof. vm_compute. reflexivity. Qed.
Example ex_first_parent_after_sorting :
  simple_walk ex_odb (fun _ => true) [4%N] true (STime true None) false 30
  = Ok [(4%N, true); (3%N, true); (1%N, true); (0%N, true)].
Proof. vm_compute. reflexivity. Qed.
Example ex_cutoff :
  simple_walk ex_odb (fun _ => true) [3%N] false (STime true (Some 11%Z)) true 30
  = Ok [(3%N, true); (2%N, true)].
Proof. vm_compute. reflexivity. Qed.
Example ex_reach : reach ex_odb true (fun _ => true) [4%N] 1%N.
Proof.
  apply (reach_step _ _ _ _ 3%N 1%N).
  - apply (reach_step _ _ _ _ 4%N 3%N).
    + apply reach_tip; [left; reflexivity | reflexivity].
    + vm_compute. auto.
    + reflexivity.
  - vm_compute. auto.
  - reflexivity.
Qed.
Example ex_topo_date :
  topo_walk ex_odb false 40 (fun _ => true) true [3%N; 3%N] [1%N] = Ok [(3%N, true); (2%N, true)].
Proof. vm_compute. reflexivity. Qed.
Example ex_topo_order_is_git :
  map fst (match topo_walk ex_odb false 40 (fun _ => true) false [4%N] [] with Ok l => l | _ => [] end)
  = git_topo_order ex_odb false false [4%N] [] 40.
Proof. vm_compute. reflexivity. Qed.
Example ex_no_graph : no_graph ex_odb.
Proof.
  intros i c H. unfold find, ex_odb in H.
  destruct (N.to_nat i) as [|[|[|[|[|n]]]]]; cbn in H; try (inversion H; reflexivity).
  destruct n; discriminate.
Qed.
