(* C47 — Simple refines the abstract worklist walk; the theorems about its result *)
From Coq Require Import List Permutation Lia Arith NArith ZArith Bool.
From GixV.Base Require Import Bytes Outcome.
From GixV.C47 Require Import Model Spec ProofsHeap ProofsWalk.
Import ListNotations.

Definition cutoff_of (srt : sorting) : option Z :=
  match srt with SBfs => None | STime _ cut => cut end.
Definition not_below (o : odb) (cut : option Z) (p : id) : bool := negb (below_cutoff cut (time_of o p)).
(* the commits a walk may enter: accepted by the predicate and, for the sorted walks, not older than the cut-off *)
Definition ok_eff (o : odb) (pred : id -> bool) (first : bool) (srt : sorting) (p : id) : bool :=
  pred p && (if first then true else not_below o (cutoff_of srt) p).
Definition uses_next (first : bool) (srt : sorting) : bool :=
  first || match srt with SBfs => true | STime _ _ => false end.
Definition pending_of (first : bool) (srt : sorting) (s : sst) : list id :=
  if uses_next first srt then s_next s else map snd (s_queue s).

Lemma visit_ext ok ok' ps : (forall p, ok p = ok' p) -> forall seen, visit ok ps seen = visit ok' ps seen.
Proof.
  intros E. induction ps as [|p r IH]; intros seen; cbn [visit]; auto.
  destruct (mem p seen); auto. rewrite IH, E. reflexivity.
Qed.

Lemma topo_parents_first pred ps seen next :
  topo_parents pred true ps seen next = topo_parents pred false (firstn 1 ps) seen next.
Proof. destruct ps; reflexivity. Qed.

Lemma topo_parents_visit pred ps : forall seen next,
  topo_parents pred false ps seen next = (fst (visit pred ps seen), next ++ snd (visit pred ps seen)).
Proof.
  induction ps as [|p r IH]; intros seen next; cbn [topo_parents visit].
  - cbn. rewrite app_nil_r. reflexivity.
  - destruct (mem p seen) eqn:M; cbn [negb andb].
    + apply IH.
    + rewrite IH. destruct (visit pred r (p :: seen)) as [s' n]. cbn [fst snd].
      destruct (pred p); auto. rewrite <- app_assoc. reflexivity.
Qed.

Lemma init_tips_visit pred tips : forall seen next,
  init_tips pred tips seen next = (fst (visit pred tips seen), next ++ snd (visit pred tips seen)).
Proof.
  induction tips as [|p r IH]; intros seen next; cbn [init_tips visit].
  - cbn. rewrite app_nil_r. reflexivity.
  - destruct (mem p seen) eqn:M.
    + apply IH.
    + rewrite IH. destruct (visit pred r (p :: seen)) as [s' n]. cbn [fst snd].
      destruct (pred p); auto. rewrite <- app_assoc. reflexivity.
Qed.

Lemma hpush_ids q x : Permutation (map snd (hpush q x)) (snd x :: map snd q).
Proof. unfold hpush. change (snd x :: map snd q) with (map snd (x :: q)). apply Permutation_map, heap_push_perm. Qed.

Section Simple.
  Variable o : odb.
  Variable pred : id -> bool.

  Lemma time_of_find i c : find o i = Some c -> time_of o i = c_time c.
  Proof. unfold time_of. intros ->. reflexivity. Qed.

  Lemma date_parents_visit nw cut ps : forall seen q,
    fst (date_parents o pred nw cut ps seen q) = fst (visit (ok_eff o pred false (STime nw cut)) ps seen) /\
    Permutation (map snd (snd (date_parents o pred nw cut ps seen q)))
                (map snd q ++ snd (visit (ok_eff o pred false (STime nw cut)) ps seen)).
  Proof.
    induction ps as [|p r IH]; intros seen q; cbn [date_parents visit].
    - cbn. rewrite app_nil_r. split; reflexivity.
    - destruct (mem p seen) eqn:M; cbn [negb andb].
      + apply IH.
      + assert (Eok : ok_eff o pred false (STime nw cut) p =
                      pred p && negb (below_cutoff cut match find o p with Some c => c_time c | None => 0%Z end))
          by reflexivity.
        rewrite Eok. clear Eok.
        destruct (pred p); cbn [andb].
        * destruct (below_cutoff cut _) eqn:B; cbn [negb].
          -- specialize (IH (p :: seen) q). destruct (visit _ r (p :: seen)) as [s' n]. exact IH.
          -- specialize (IH (p :: seen) (hpush q (to_key nw match find o p with Some c => c_time c | None => 0%Z end, p))).
             destruct (visit _ r (p :: seen)) as [s' n]. cbn [fst snd] in *. destruct IH as [A P]. split; auto.
             eapply perm_trans; [exact P|].
             eapply perm_trans; [apply Permutation_app_tail, hpush_ids|]. cbn [snd app].
             apply Permutation_middle.
        * specialize (IH (p :: seen) q). destruct (visit _ r (p :: seen)) as [s' n]. exact IH.
  Qed.

  Variable first : bool.
  Variable srt : sorting.
  Notation ok := (ok_eff o pred first srt).

  Lemma ok_topology : uses_next first srt = true -> forall p, pred p = ok p.
  Proof.
    unfold uses_next, ok, ok_eff, not_below, cutoff_of. intros U p.
    destruct first; cbn in *; [rewrite andb_true_r; auto|].
    destruct srt; [cbn; rewrite andb_true_r; auto | discriminate].
  Qed.

  Lemma step_topology_spec s x s' :
    uses_next first srt = true ->
    step_topology o pred first s = Some (x, s') ->
    exists rest, s_next s = fst x :: rest /\
      s_next s' = rest ++ snd (visit ok (succs o first (fst x)) (s_seen s)) /\
      s_seen s' = fst (visit ok (succs o first (fst x)) (s_seen s)).
  Proof.
    intros U. unfold step_topology, succs. destruct (s_next s) as [|i rest]; [discriminate|].
    destruct (find o i) as [c|] eqn:F.
    - assert (E : topo_parents pred first (c_parents c) (s_seen s) rest =
                  (fst (visit ok (if first then firstn 1 (c_parents c) else c_parents c) (s_seen s)),
                   rest ++ snd (visit ok (if first then firstn 1 (c_parents c) else c_parents c) (s_seen s)))).
      { rewrite <- (visit_ext pred ok _ (ok_topology U)).
        destruct first; [rewrite topo_parents_first|]; apply topo_parents_visit. }
      rewrite E. intros X; inversion X; subst. cbn [fst]. rewrite F. exists rest. cbn. auto.
    - intros X; inversion X; subst. cbn [fst]. rewrite F. exists rest. cbn. rewrite app_nil_r. auto.
  Qed.

  Lemma step_date_spec nw cut s x s' :
    first = false -> srt = STime nw cut ->
    step_date o pred nw cut s = Some (x, s') ->
    exists rest, Permutation (map snd (s_queue s)) (fst x :: rest) /\
      Permutation (map snd (s_queue s')) (rest ++ snd (visit ok (succs o first (fst x)) (s_seen s))) /\
      s_seen s' = fst (visit ok (succs o first (fst x)) (s_seen s)).
  Proof.
    intros Hf Hs. unfold ok. subst first srt. unfold step_date, succs.
    destruct (hpop (s_queue s)) as [[[k i] q']|] eqn:P; [|discriminate].
    apply heap_pop_perm in P. apply (Permutation_map snd) in P. cbn [map snd] in P.
    destruct (find o i) as [c|] eqn:F.
    - pose proof (date_parents_visit nw cut (c_parents c) (s_seen s) q') as [A B].
      destruct (date_parents o pred nw cut (c_parents c) (s_seen s) q') as [seen q2]. cbn [fst snd] in *.
      intros X; inversion X; subst. cbn [fst s_queue s_seen]. rewrite F. exists (map snd q'). auto.
    - intros X; inversion X; subst. cbn [fst s_queue s_seen]. rewrite F. exists (map snd q'). cbn.
      rewrite app_nil_r. auto.
  Qed.

  Lemma simple_step_cases s r :
    simple_step o pred first srt s = r ->
    (uses_next first srt = true /\ step_topology o pred first s = r) \/
    (exists nw cut, first = false /\ srt = STime nw cut /\ step_date o pred nw cut s = r).
  Proof.
    unfold simple_step. destruct first; [left; auto|]. destruct srt as [|nw cut]; [left; auto|].
    right. eauto.
  Qed.

  Lemma simple_step_spec s x s' :
    simple_step o pred first srt s = Some (x, s') ->
    exists rest, Permutation (pending_of first srt s) (fst x :: rest) /\
      Permutation (pending_of first srt s') (rest ++ snd (visit ok (succs o first (fst x)) (s_seen s))) /\
      s_seen s' = fst (visit ok (succs o first (fst x)) (s_seen s)).
  Proof.
    intros H. apply simple_step_cases in H. destruct H as [[U H]|[nw [cut [Hf [Hs H]]]]].
    - apply step_topology_spec in H; [|exact U].
      destruct H as [rest [A [B C]]]. exists rest. unfold pending_of. rewrite U, A, B. auto.
    - assert (U : uses_next first srt = false) by (rewrite Hf, Hs; reflexivity).
      unfold pending_of. rewrite U. eapply step_date_spec; eauto.
  Qed.

  Lemma simple_step_none s : simple_step o pred first srt s = None -> pending_of first srt s = [].
  Proof.
    intros H. apply simple_step_cases in H. destruct H as [[U H]|[nw [cut [Hf [Hs H]]]]].
    - unfold pending_of. rewrite U. unfold step_topology in H.
      destruct (s_next s); auto. destruct (find o i); [destruct (topo_parents _ _ _ _ _)|]; discriminate.
    - assert (U : uses_next first srt = false) by (rewrite Hf, Hs; reflexivity).
      unfold pending_of. rewrite U. unfold step_date in H.
      destruct (hpop (s_queue s)) as [[[k i] q']|] eqn:P.
      + destruct (find o i); [destruct (date_parents _ _ _ _ _ _ _)|]; discriminate.
      + apply heap_pop_none in P. rewrite P. reflexivity.
  Qed.

  Variable tips : list id.

  Lemma iterate_inv fuel : forall s emitted items,
    Inv o first ok tips (pending_of first srt s) (s_seen s) emitted ->
    iterate (simple_step o pred first srt) fuel s = Ok items ->
    exists seen, Inv o first ok tips [] seen (emitted ++ map fst items).
  Proof.
    induction fuel as [|fuel IH]; intros s emitted items I; cbn [iterate]; [discriminate|].
    destruct (simple_step o pred first srt s) as [[x s']|] eqn:St.
    - destruct (iterate _ fuel s') as [items'| | |] eqn:It; cbn; try discriminate.
      intros X; inversion X; subst items. clear X.
      destruct (simple_step_spec _ _ _ St) as [rest [P1 [P2 Es]]].
      apply (Inv_perm _ _ _ _ _ _ _ _ P1) in I. apply Inv_step in I.
      rewrite <- Es in I. apply (Inv_perm _ _ _ _ _ _ _ _ (Permutation_sym P2)) in I.
      destruct (IH _ _ _ I It) as [seen J]. exists seen. cbn [map]. rewrite <- app_assoc in J. exact J.
    - intros X; inversion X; subst. apply simple_step_none in St. rewrite St in I.
      exists (s_seen s). cbn. rewrite app_nil_r. exact I.
  Qed.
End Simple.

(* ---- the state after construction ---- *)
Lemma filter_all {A} (f : A -> bool) l : (forall x, f x = true) -> filter f l = l.
Proof. intros H. induction l; cbn; auto. rewrite H, IHl. reflexivity. Qed.

Section SimpleInit.
  Variable o : odb.
  Variable pred : id -> bool.
  Variable tips : list id.
  Variable first : bool.
  Variable srt : sorting.
  Notation ok := (ok_eff o pred first srt).
  Definition T0 := snd (visit pred tips []).
  Definition seen0 := fst (visit pred tips []).
  Definition P0 := filter (not_below o (cutoff_of srt)) T0.

  Lemma simple_new_eq : simple_new pred tips = mkS T0 [] seen0.
  Proof. unfold simple_new. rewrite init_tips_visit. reflexivity. Qed.

  Lemma sort_tips_perm nw cut ids : forall q q',
    sort_tips o nw cut ids q = Ok q' -> Permutation (map snd q') (map snd q ++ filter (not_below o cut) ids).
  Proof.
    induction ids as [|a ids IH]; intros q q'; cbn [sort_tips filter].
    - intros X; inversion X. rewrite app_nil_r. reflexivity.
    - destruct (find o a) as [c|] eqn:F; [|discriminate]. unfold not_below at 1.
      rewrite (time_of_find o _ _ F).
      destruct (below_cutoff cut (c_time c)); cbn [negb].
      + apply IH.
      + intros H. apply IH in H. eapply perm_trans; [exact H|].
        eapply perm_trans; [apply Permutation_app_tail, hpush_ids|]. cbn [snd app].
        apply Permutation_middle.
  Qed.

  Lemma P0_bfs : srt = SBfs -> P0 = T0.
  Proof. intros H. unfold P0. rewrite H. apply filter_all. reflexivity. Qed.

  Lemma build_pending sp s :
    simple_build o pred tips first srt sp = Ok s ->
    s_seen s = seen0 /\ Permutation (pending_of first srt s) P0.
  Proof.
    unfold simple_build. rewrite simple_new_eq. unfold pending_of.
    destruct srt as [|nw cut] eqn:Es.
    - rewrite (P0_bfs Es).
      destruct sp, first; cbn; intros X; inversion X; subst s; cbn; rewrite ?app_nil_r; split; reflexivity.
    - unfold P0. rewrite Es. cbn [cutoff_of].
      destruct sp, first; cbn [set_parents set_sorting queue_to_vecdeque uses_next orb obind omap s_next s_queue s_seen map];
        rewrite ?app_nil_r;
        (destruct (sort_tips o nw cut T0 []) as [q| | |] eqn:S; cbn; try discriminate;
         intros X; inversion X; subst s; cbn; apply sort_tips_perm in S; split; [reflexivity | exact S]).
  Qed.

  Hypothesis no_cutoff_with_first : first = true -> cutoff_of srt = None.

  Lemma seen0_tips x : In x seen0 <-> In x tips.
  Proof. unfold seen0. rewrite visit_seen. cbn. tauto. Qed.
  Lemma T0_spec x : In x T0 <-> In x tips /\ pred x = true.
  Proof.
    unfold T0. split.
    - intros H. apply visit_new in H. tauto.
    - intros [A B]. apply visit_complete; auto.
  Qed.

  Lemma Inv_init : Inv o first ok tips P0 seen0 [].
  Proof.
    assert (PO : forall x, In x P0 -> In x tips /\ ok x = true).
    { intros x H. unfold P0 in H. apply filter_In in H. destruct H as [H N]. apply T0_spec in H.
      destruct H as [A B]. split; auto. unfold ok_eff. rewrite B. destruct first; auto. }
    constructor; cbn [app].
    - unfold P0. apply NoDup_filter. apply visit_nodup.
    - intros x H. apply seen0_tips. apply PO. exact H.
    - intros x H. destruct (PO _ H). apply reach_tip; auto.
    - intros x H. left. apply PO. exact H.
    - intros x H O. apply seen0_tips in H. unfold ok_eff in O. apply andb_prop in O. destruct O as [O1 O2].
      unfold P0. apply filter_In. split; [apply T0_spec; auto|].
      destruct first; auto. rewrite (no_cutoff_with_first eq_refl). reflexivity.
    - intros x [].
    - intros t H. apply seen0_tips. exact H.
  Qed.

  Lemma simple_walk_inv sp fuel items :
    simple_walk o pred tips first srt sp fuel = Ok items ->
    exists seen, Inv o first ok tips [] seen (map fst items).
  Proof.
    unfold simple_walk. destruct (simple_build o pred tips first srt sp) as [s| | |] eqn:B; cbn; try discriminate.
    intros It. destruct (build_pending _ _ B) as [Es P].
    pose proof Inv_init as I. apply (Inv_perm _ _ _ _ _ _ _ _ (Permutation_sym P)) in I. rewrite <- Es in I.
    destruct (iterate_inv o pred first srt tips fuel s [] items I It) as [seen J]. exists seen. exact J.
  Qed.

  Lemma walk_each_once sp fuel items :
    simple_walk o pred tips first srt sp fuel = Ok items -> NoDup (map fst items).
  Proof.
    intros H. destruct (simple_walk_inv _ _ _ H) as [seen [A _ _ _ _ _ _]]. rewrite app_nil_r in A. exact A.
  Qed.

  Lemma walk_exact sp fuel items x :
    simple_walk o pred tips first srt sp fuel = Ok items ->
    (In x (map fst items) <-> reach o first ok tips x).
  Proof.
    intros H. destruct (simple_walk_inv _ _ _ H) as [seen [A B C D E F G]].
    split.
    - intros I. apply C. rewrite app_nil_r. exact I.
    - intros R. induction R as [t T O | y p R IH P O].
      + specialize (E t (G t T) O). rewrite app_nil_r in E. exact E.
      + specialize (E p (F y IH p P) O). rewrite app_nil_r in E. exact E.
  Qed.

  Lemma walk_origin sp fuel items x :
    simple_walk o pred tips first srt sp fuel = Ok items ->
    In x (map fst items) ->
    In x tips \/ exists y, In y (map fst items) /\ In x (succs o first y).
  Proof.
    intros H I. destruct (simple_walk_inv _ _ _ H) as [seen [A B C D E F G]].
    rewrite <- (app_nil_r (map fst items)) in I. destruct (D x I) as [[T _]|[y [Y [S _]]]]; [left; auto|].
    right. exists y. auto.
  Qed.
End SimpleInit.

Lemma first_parent_only_lemma :
  forall o pred tips srt sp fuel items x,
    cutoff_of srt = None ->
    simple_walk o pred tips true srt sp fuel = Ok items ->
    In x (map fst items) ->
    In x tips \/ exists y c, In y (map fst items) /\ find o y = Some c /\ hd_error (c_parents c) = Some x.
Proof.
  intros o pred tips srt sp fuel items x Hc H I.
  destruct (walk_origin o pred tips true srt (fun _ => Hc) sp fuel items x H I) as [T|[y [Y S]]]; [left; auto|].
  right. unfold succs in S. destruct (find o y) as [c|] eqn:F; [|destruct S].
  exists y, c. split; auto. split; auto.
  destruct (c_parents c) as [|p r]; cbn in S; [destruct S|]. destruct S as [S|[]]. subst. reflexivity.
Qed.

Lemma builder_order_lemma :
  forall o pred tips first srt fuel fuel' items items' x,
    (first = true -> cutoff_of srt = None) ->
    simple_walk o pred tips first srt true fuel = Ok items ->
    simple_walk o pred tips first srt false fuel' = Ok items' ->
    (In x (map fst items) <-> In x (map fst items')).
Proof.
  intros o pred tips first srt fuel fuel' items items' x H A B.
  rewrite (walk_exact o pred tips first srt H true fuel items x A).
  rewrite (walk_exact o pred tips first srt H false fuel' items' x B). tauto.
Qed.
