(* C47 — the BinaryHeap model only permutes what was pushed (no key assumption needed) *)
From Coq Require Import List Permutation Lia Arith.
From GixV.Base Require Import Bytes Outcome.
From GixV.C47 Require Import Model.
Import ListNotations.

Section HeapFacts.
  Context {K V : Type}.
  Variable le : K -> K -> bool.
  Notation heap := (@heap K V).

  Lemma set_nth_length (l : heap) n x : length (set_nth l n x) = length l.
  Proof. revert n; induction l; destruct n; cbn; auto. Qed.

  Lemma set_one_perm (t : heap) j a b :
    nth_error t j = Some b -> Permutation (b :: set_nth t j a) (a :: t).
  Proof.
    revert j. induction t as [|c t IH]; intros j H; destruct j; cbn in *; try discriminate.
    - inversion H; subst. apply perm_swap.
    - specialize (IH j H).
      eapply perm_trans; [apply perm_swap|]. eapply perm_trans; [|apply perm_swap].
      apply perm_skip. exact IH.
  Qed.

  Lemma set_set_perm (l : heap) i j a b :
    nth_error l i = Some a -> nth_error l j = Some b ->
    Permutation (set_nth (set_nth l i b) j a) l.
  Proof.
    revert i j. induction l as [|c l IH]; intros i j Hi Hj; destruct i, j; cbn in *; try discriminate.
    - inversion Hi; inversion Hj; subst. reflexivity.
    - inversion Hi; subst. apply set_one_perm; auto.
    - inversion Hj; subst. apply set_one_perm; auto.
    - apply perm_skip. apply IH; auto.
  Qed.

  Lemma swap_perm (l : heap) i j : Permutation (swap l i j) l.
  Proof.
    unfold swap. destruct (nth_error l i) eqn:Ei; [|reflexivity].
    destruct (nth_error l j) eqn:Ej; [|reflexivity]. apply set_set_perm; auto.
  Qed.

  Lemma sift_up_perm fuel : forall (l : heap) pos, Permutation (sift_up le fuel l pos) l.
  Proof.
    induction fuel as [|fuel IH]; intros l pos; cbn [sift_up]; [reflexivity|].
    destruct pos as [|pos]; [reflexivity|].
    destruct (key_le_at _ _ _ _); [reflexivity|].
    eapply perm_trans; [apply IH|]. apply swap_perm.
  Qed.

  Lemma heap_push_perm (l : heap) x : Permutation (heap_push le l x) (x :: l).
  Proof.
    unfold heap_push. eapply perm_trans; [apply sift_up_perm|].
    eapply perm_trans; [apply Permutation_app_comm|]. reflexivity.
  Qed.

  Lemma sdb_perm fuel : forall (l : heap) pos en,
    Permutation (fst (sift_down_to_bottom le fuel l pos en)) l.
  Proof.
    induction fuel as [|fuel IH]; intros l pos en; cbn [sift_down_to_bottom]; [reflexivity|].
    destruct (_ && _).
    - eapply perm_trans; [apply IH|]. apply swap_perm.
    - destruct (_ && _); cbn [fst]; [apply swap_perm | reflexivity].
  Qed.

  Lemma removelast_rev {A} (l : list A) x r : rev l = x :: r -> l = rev r ++ [x] /\ removelast l = rev r.
  Proof.
    intros H. assert (E : l = rev r ++ [x]).
    { rewrite <- (rev_involutive l), H. reflexivity. }
    split; auto. rewrite E. apply removelast_last.
  Qed.

  Lemma heap_pop_perm (l : heap) x l' : heap_pop le l = Some (x, l') -> Permutation l (x :: l').
  Proof.
    unfold heap_pop. destruct (rev l) as [|last r] eqn:R; [discriminate|].
    destruct (removelast_rev l last r R) as [El Er]. rewrite Er.
    destruct (rev r) as [|top rest] eqn:RR.
    - intros X; inversion X; subst. cbn. reflexivity.
    - destruct (sift_down_to_bottom _ _ _ _ _) as [l2 pos] eqn:S.
      intros X; inversion X; subst x l'. clear X.
      pose proof (sdb_perm (length (last :: rest)) (last :: rest) 0 (length (last :: rest))) as P.
      rewrite S in P. cbn [fst] in P.
      rewrite El. eapply perm_trans; [apply Permutation_app_comm|]. cbn [app].
      eapply perm_trans; [apply perm_swap|]. apply perm_skip.
      eapply perm_trans; [|symmetry; apply sift_up_perm].
      symmetry. exact P.
  Qed.

  Lemma heap_pop_none (l : heap) : heap_pop le l = None -> l = [].
  Proof.
    unfold heap_pop. destruct (rev l) as [|last r] eqn:R.
    - intros _. rewrite <- (rev_involutive l), R. reflexivity.
    - destruct (removelast l); [discriminate|]. destruct (sift_down_to_bottom _ _ _ _ _). discriminate.
  Qed.
End HeapFacts.
