(* C47 — Topo, every object database (with or without commit-graph data): whatever is returned is reachable
   from a tip along the (first) parents the walk follows. *)
From Coq Require Import List Permutation Lia Arith NArith ZArith Bool.
From GixV.Base Require Import Bytes Outcome.
From GixV.C47 Require Import Model Spec ProofsHeap ProofsWalk ProofsTopo.
Import ListNotations.
Local Open Scope N_scope.

Section TopoAll.
  Variable o : odb.
  Variable first : bool.
  Variable F : nat.
  Variable tips : list id.
  Notation reachT := (reach o first (fun _ => true) tips).
  Definition R (Q : list id) : Prop := forall x, In x Q -> reachT x.

  Lemma R_perm Q Q' : Permutation Q Q' -> R Q -> R Q'.
  Proof. intros P H x I. apply H. eapply Permutation_in; [symmetry; exact P | exact I]. Qed.

  Lemma with_keys_fst l : forall ps, with_keys o l = Ok ps -> map fst ps = l.
  Proof.
    induction l as [|p r IH]; intros ps; cbn [with_keys].
    - intros X; inversion X. reflexivity.
    - destruct (find o p) as [c|]; [|discriminate].
      destruct (with_keys o r) as [ps'| | |]; cbn [omap obind]; try discriminate.
      intros X; inversion X; subst ps. cbn. rewrite (IH ps' eq_refl). reflexivity.
  Qed.
  Lemma collect_parents_succs i b ps : collect_parents o i b = Ok ps -> forall p k, In (p, k) ps -> In p (succs o b i).
  Proof.
    unfold collect_parents, succs. destruct (find o i) as [c|]; [|discriminate].
    intros H p k I. apply with_keys_fst in H. rewrite <- H. apply (in_map fst) in I. exact I.
  Qed.

  Lemma expand_parents_R ps : forall st st',
    (forall p k, In (p, k) ps -> reachT p) ->
    R (tq_ids (t_topo st)) ->
    expand_parents o first F ps st = Ok st' ->
    R (tq_ids (t_topo st')).
  Proof.
    induction ps as [|[p [pgen ptime]] r IH]; intros st st' HR HQ; cbn [expand_parents].
    - intros X; inversion X; subst. auto.
    - assert (HR' : forall q k, In (q, k) r -> reachT q) by (intros q k I; eapply HR; right; exact I).
      assert (Rp : reachT p) by (eapply HR; left; reflexivity).
      destruct (m_get (t_states st) p) as [pf|]; [|discriminate].
      destruct (f_unint pf); [apply IH; auto|].
      assert (TAIL : forall st1 (b : bool), R (tq_ids (t_topo st1)) ->
        (if b then expand_parents o first F r st1
         else match m_get (t_indeg st1) p with
              | None => Err tt
              | Some i =>
                  let i' := (i - 1)%Z in
                  let st2 := mkT (m_set (t_indeg st1) p i') (t_states st1) (t_explore st1) (t_indegq st1)
                                 (t_topo st1) (t_min_gen st1) in
                  if negb (Z.eqb i' 1) then expand_parents o first F r st2
                  else
                    obind (collect_parents o p false) (fun _ =>
                    expand_parents o first F r (mkT (t_indeg st2) (t_states st2) (t_explore st2) (t_indegq st2)
                                          (tq_push (t_topo st2) ptime p) (t_min_gen st2)))
              end) = Ok st' -> R (tq_ids (t_topo st'))).
      { intros st1 b H1. destruct b; [apply IH; auto|].
        destruct (m_get (t_indeg st1) p) as [i|]; [|discriminate]. cbn zeta.
        destruct (negb (Z.eqb (i - 1) 1)); [apply IH; auto|].
        destruct (collect_parents o p false) as [x| | |]; cbn [obind]; try discriminate.
        apply IH; auto. cbn [t_topo]. eapply R_perm; [symmetry; apply tq_push_ids|].
        intros x0 [I|I]; [subst; auto | auto]. }
      destruct (N.ltb pgen (t_min_gen st)).
      + destruct (compute_indegrees_to_depth o first F F pgen _) as [st1| | |] eqn:C; cbn [obind]; try discriminate.
        apply compute_tm in C. destruct C as [T _]. cbn [t_topo] in T.
        apply TAIL. rewrite T. exact HQ.
      + cbn [obind]. apply TAIL. exact HQ.
  Qed.

  Lemma topo_iter_R pred fuel : forall st items,
    R (tq_ids (t_topo st)) ->
    topo_iter o first F pred fuel st = Ok items ->
    forall x, In x (map fst items) -> reachT x.
  Proof.
    induction fuel as [|fuel IH]; intros st items HQ; cbn [topo_iter]; [discriminate|].
    destruct (tq_pop (t_topo st)) as [[i tq']|] eqn:P.
    2:{ intros X; inversion X; subst. intros x []. }
    apply tq_pop_ids in P. apply (R_perm _ _ P) in HQ.
    assert (Ri : reachT i) by (apply HQ; left; reflexivity).
    assert (HQ' : R (tq_ids tq')) by (intros x I; apply HQ; right; exact I).
    destruct (m_get (t_indeg st) i) as [d|].
    2:{ intros X; inversion X; subst. intros x [H|[]]; subst; auto. }
    destruct (expand_topo_walk o first F i _) as [st'| | |] eqn:X; try discriminate.
    2:{ intros Y; inversion Y; subst. intros x [H|[]]; subst; auto. }
    unfold expand_topo_walk in X. cbn [t_states t_indeg t_explore t_indegq t_topo t_min_gen] in X.
    destruct (collect_parents o i first) as [ps| | |] eqn:CP; cbn [obind] in X; try discriminate.
    destruct (process_parents o F i ps (t_states st)) as [sm| | |]; cbn [obind] in X; try discriminate.
    apply expand_parents_R in X; auto.
    2:{ intros p k I. eapply reach_step; [exact Ri | eapply collect_parents_succs; eauto | reflexivity]. }
    destruct (topo_iter o first F pred fuel st') as [r| | |] eqn:It; cbn [omap obind]; try discriminate.
    intros Y; inversion Y; subst items. clear Y.
    pose proof (IH _ _ X It) as RR.
    destruct (pred i); cbn [map fst]; auto.
    intros x [H|H]; [subst; auto | auto].
  Qed.

  Lemma build_tips_R l : forall st uniq st' u',
    build_tips o l st uniq = Ok (st', u') ->
    t_topo st' = t_topo st /\ (forall x, In x u' -> In x uniq \/ exists fl, In (x, fl) l /\ f_unint fl = false).
  Proof.
    induction l as [|[i fl] r IH]; intros st uniq st' u'; cbn [build_tips].
    - intros X; inversion X; subst. split; [reflexivity|]. intros x I. left. apply in_rev. exact I.
    - destruct (m_get (t_states st) i) as [f|].
      + intros H. apply IH in H. destruct H as [A D]. cbn in A. split; [auto|].
        intros x I. destruct (D x I) as [L|[fl' [L1 L2]]]; [left; auto|]. right. exists fl'. split; [right; auto | auto].
      + destruct (find o i) as [c|]; [|discriminate].
        intros H. apply IH in H. destruct H as [A D]. cbn in A. split; [auto|].
        intros x I. destruct (D x I) as [L|[fl' [L1 L2]]].
        * destruct (f_unint fl) eqn:U; [left; auto|]. destruct L as [L|L]; [|left; auto].
          subst x. right. exists fl. split; [left; reflexivity | auto].
        * right. exists fl'. split; [right; auto | auto].
  Qed.

  Lemma build_queue_R l : forall st st',
    (forall x, In x l -> In x tips) -> R (tq_ids (t_topo st)) ->
    build_queue o l st = Ok st' -> R (tq_ids (t_topo st')).
  Proof.
    induction l as [|i r IH]; intros st st' HT HQ; cbn [build_queue].
    - intros X; inversion X; subst. auto.
    - assert (HT' : forall x, In x r -> In x tips) by (intros; apply HT; right; auto).
      destruct (m_get (t_indeg st) i) as [d|]; [|discriminate].
      destruct (negb (Z.eqb d 1)); [apply IH; auto|].
      destruct (match m_get (t_states st) i with Some f => f_unint f | None => false end); [apply IH; auto|].
      destruct (find o i) as [c|]; [|discriminate].
      destruct (collect_parents o i false) as [ps| | |]; cbn [obind]; try discriminate.
      apply IH; auto. cbn [t_topo]. eapply R_perm; [symmetry; apply tq_push_ids|].
      intros x [I|I]; [subst; apply reach_tip; [apply HT; left; reflexivity | reflexivity] | auto].
  Qed.

  Lemma topo_walk_reach pred date ends items :
    topo_walk o first F pred date tips ends = Ok items ->
    forall x, In x (map fst items) -> reachT x.
  Proof.
    unfold topo_walk, topo_build.
    destruct (build_tips o _ _ []) as [[st1 uniq]| | |] eqn:BT; cbn [obind]; try discriminate.
    apply build_tips_R in BT. destruct BT as [T1 U]. cbn [t_topo] in T1.
    destruct (build_ends o ends (t_states st1)) as [sm| | |]; cbn [obind]; try discriminate.
    destruct (compute_indegrees_to_depth o first F F (t_min_gen st1) _) as [st2| | |] eqn:C; cbn [obind]; try discriminate.
    apply compute_tm in C. destruct C as [T2 _]. cbn [t_topo] in T2.
    destruct (build_queue o uniq st2) as [st3| | |] eqn:BQ; cbn [obind]; try discriminate.
    assert (E2 : tq_ids (t_topo st2) = []) by (rewrite T2, T1; destruct date; reflexivity).
    apply build_queue_R in BQ.
    - apply topo_iter_R. cbn [t_topo]. eapply R_perm; [symmetry; apply tq_initial_sort_ids | exact BQ].
    - intros x I. destruct (U x I) as [[]|[fl [I1 I2]]]. apply in_app_or in I1. destruct I1 as [I1|I1].
      + apply in_map_iff in I1. destruct I1 as [y [Y1 Y2]]. inversion Y1; subst. exact Y2.
      + apply in_map_iff in I1. destruct I1 as [y [Y1 Y2]]. inversion Y1; subst. discriminate.
    - rewrite E2. intros x [].
  Qed.
End TopoAll.
