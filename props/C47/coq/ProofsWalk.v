(* C47 — the abstract worklist walk behind Simple: pop any pending commit, add its unseen acceptable parents *)
From Coq Require Import List Permutation Lia Arith NArith Bool.
From GixV.Base Require Import Bytes Outcome.
From GixV.C47 Require Import Model Spec.
Import ListNotations.

Lemma mem_In x l : mem x l = true <-> In x l.
Proof.
  induction l as [|y l IH]; cbn; [split; [discriminate | tauto]|].
  destruct (N.eqb x y) eqn:E.
  - apply N.eqb_eq in E. subst. tauto.
  - apply N.eqb_neq in E. rewrite IH. split; [tauto|]. intros [H|H]; [congruence | auto].
Qed.
Lemma mem_false x l : mem x l = false <-> ~ In x l.
Proof. rewrite <- mem_In. destruct (mem x l); split; congruence. Qed.

(* what both parent loops compute: the new seen set and the newly queued parents, in order *)
Fixpoint visit (ok : id -> bool) (ps seen : list id) : list id * list id :=
  match ps with
  | [] => (seen, [])
  | p :: r =>
      if mem p seen then visit ok r seen
      else let '(s', n) := visit ok r (p :: seen) in (s', if ok p then p :: n else n)
  end.

Lemma visit_seen ok ps : forall seen y, In y (fst (visit ok ps seen)) <-> In y seen \/ In y ps.
Proof.
  induction ps as [|p r IH]; intros seen y; cbn [visit]; [cbn; tauto|].
  destruct (mem p seen) eqn:M.
  - rewrite IH. apply mem_In in M. cbn. split; [tauto|]. intros [H|[H|H]]; subst; auto.
  - specialize (IH (p :: seen) y). destruct (visit ok r (p :: seen)) as [s' n]. cbn [fst] in *.
    rewrite IH. cbn. tauto.
Qed.

Lemma visit_new ok ps : forall seen p, In p (snd (visit ok ps seen)) -> In p ps /\ ~ In p seen /\ ok p = true.
Proof.
  induction ps as [|q r IH]; intros seen p; cbn [visit]; [cbn; tauto|].
  destruct (mem q seen) eqn:M.
  - intros H. destruct (IH _ _ H) as [A [B C]]. cbn. auto.
  - specialize (IH (q :: seen) p). destruct (visit ok r (q :: seen)) as [s' n]. cbn [snd] in *.
    apply mem_false in M.
    destruct (ok q) eqn:Oq.
    + intros [H|H].
      * subst. cbn. auto.
      * destruct (IH H) as [A [B C]]. cbn in *. tauto.
    + intros H. destruct (IH H) as [A [B C]]. cbn in *. tauto.
Qed.

Lemma visit_nodup ok ps : forall seen, NoDup (snd (visit ok ps seen)).
Proof.
  induction ps as [|q r IH]; intros seen; cbn [visit]; [constructor|].
  destruct (mem q seen) eqn:M; [apply IH|].
  pose proof (IH (q :: seen)) as N. pose proof (visit_new ok r (q :: seen)) as VN.
  destruct (visit ok r (q :: seen)) as [s' n]. cbn [snd] in *.
  destruct (ok q); auto. constructor; auto.
  intros H. destruct (VN _ H) as [_ [B _]]. apply B. cbn. auto.
Qed.

Lemma visit_complete ok ps : forall seen p, In p ps -> ok p = true -> ~ In p seen -> In p (snd (visit ok ps seen)).
Proof.
  induction ps as [|q r IH]; intros seen p Hin Hok Hns; cbn [visit]; [destruct Hin|].
  destruct (mem q seen) eqn:M.
  - apply mem_In in M. destruct Hin as [E|Hin]; [subst; contradiction|]. apply IH; auto.
  - specialize (IH (q :: seen) p). destruct (visit ok r (q :: seen)) as [s' n]. cbn [snd] in *.
    destruct (N.eq_dec q p) as [E|NE].
    + subst. rewrite Hok. cbn. auto.
    + destruct Hin as [E|Hin]; [contradiction|].
      assert (In p n) by (apply IH; auto; cbn; tauto).
      destruct (ok q); cbn; auto.
Qed.

Lemma NoDup_app_intro {A} (a b : list A) :
  NoDup a -> NoDup b -> (forall x, In x a -> ~ In x b) -> NoDup (a ++ b).
Proof.
  induction a as [|y a IH]; intros Ha Hb D; cbn; auto.
  inversion Ha; subst. constructor.
  - rewrite in_app_iff. intros [H|H]; [contradiction|]. apply (D y); cbn; auto.
  - apply IH; auto. intros x Hx. apply D. cbn. auto.
Qed.

Section Walk.
  Variable o : odb.
  Variable first : bool.
  Variable ok : id -> bool.
  Variable tips : list id.

  Record Inv (pending seen emitted : list id) : Prop := mkInv {
    inv_nodup : NoDup (emitted ++ pending);
    inv_seen : forall x, In x (emitted ++ pending) -> In x seen;
    inv_reach : forall x, In x (emitted ++ pending) -> reach o first ok tips x;
    inv_origin : forall x, In x (emitted ++ pending) ->
                   (In x tips /\ ok x = true) \/ (exists y, In y emitted /\ In x (succs o first y) /\ ok x = true);
    inv_ok : forall x, In x seen -> ok x = true -> In x (emitted ++ pending);
    inv_closed : forall x, In x emitted -> forall p, In p (succs o first x) -> In p seen;
    inv_tips : forall t, In t tips -> In t seen }.

  Lemma Inv_perm pending pending' seen emitted :
    Permutation pending pending' -> Inv pending seen emitted -> Inv pending' seen emitted.
  Proof.
    intros P [A B C D E F G].
    assert (Q : Permutation (emitted ++ pending) (emitted ++ pending')) by (apply Permutation_app_head; auto).
    constructor; auto.
    - eapply Permutation_NoDup; eauto.
    - intros x H. apply B. eapply Permutation_in; [symmetry; exact Q | exact H].
    - intros x H. apply C. eapply Permutation_in; [symmetry; exact Q | exact H].
    - intros x H. apply D. eapply Permutation_in; [symmetry; exact Q | exact H].
    - intros x H H'. eapply Permutation_in; [exact Q | apply E; auto].
  Qed.

  Lemma Inv_step x rest seen emitted :
    Inv (x :: rest) seen emitted ->
    Inv (rest ++ snd (visit ok (succs o first x) seen)) (fst (visit ok (succs o first x) seen)) (emitted ++ [x]).
  Proof.
    intros [A B C D E F G].
    set (ps := succs o first x).
    pose proof (visit_seen ok ps seen) as VS. pose proof (visit_new ok ps seen) as VN.
    pose proof (visit_nodup ok ps seen) as VD. pose proof (visit_complete ok ps seen) as VC.
    fold ps. destruct (visit ok ps seen) as [seen' new]. cbn [fst snd] in *.
    assert (EQ : forall y, In y ((emitted ++ [x]) ++ rest ++ new) <-> In y (emitted ++ x :: rest) \/ In y new).
    { intros y. rewrite !in_app_iff. cbn. tauto. }
    constructor.
    - (* nodup *)
      assert (R : (emitted ++ [x]) ++ rest ++ new = (emitted ++ x :: rest) ++ new).
      { rewrite <- !app_assoc. cbn. reflexivity. }
      rewrite R. apply NoDup_app_intro; auto.
      intros y Hy Hn. destruct (VN _ Hn) as [_ [NS _]]. apply NS. apply B. exact Hy.
    - intros y H. apply EQ in H. apply VS. destruct H as [H|H]; [left; auto | right; apply VN; auto].
    - intros y H. apply EQ in H. destruct H as [H|H]; [auto|].
      destruct (VN _ H) as [P [_ O]]. eapply reach_step; [apply C; rewrite in_app_iff; cbn; auto | exact P | exact O].
    - intros y H. apply EQ in H. destruct H as [H|H].
      + destruct (D _ H) as [L|[z [Z1 Z2]]]; [left; auto|]. right. exists z. rewrite in_app_iff. tauto.
      + destruct (VN _ H) as [P [_ O]]. right. exists x. rewrite in_app_iff. cbn. auto.
    - intros y H O. apply EQ. apply VS in H. destruct (in_dec N.eq_dec y seen) as [I|NI].
      + left. auto.
      + destruct H as [H|H]; [contradiction|]. right. apply VC; auto.
    - intros y H p P. apply VS. apply in_app_iff in H. destruct H as [H|[H|[]]].
      + left. eapply F; eauto.
      + subst y. right. exact P.
    - intros t T. apply VS. left. auto.
  Qed.
End Walk.
