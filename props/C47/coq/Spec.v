(* C47 — specification side.
   (1) declarative: the commits reachable from the tips along (first) parents through accepted commits;
   (2) executable transcriptions of what git rev-list prints (compared with real git 2.39.5 by the check):
       - default order (revision.c get_revision_1 / commit_list_insert_by_date),
       - --topo-order / --date-order (revision.c init_topo_walk/next_topo_commit, commit.c
         sort_in_topological_order): Kahn's algorithm on the interesting sub-graph, priority queue with
         first-in-first-out ties for --date-order, a stack for --topo-order. *)
From GixV.Base Require Import Bytes Outcome.
From GixV.C47 Require Import Model.
Local Open Scope N_scope.

(* the parents a walk follows *)
Definition succs (o : odb) (first : bool) (i : id) : list id :=
  match find o i with
  | None => []
  | Some c => if first then firstn 1 (c_parents c) else c_parents c
  end.

Inductive reach (o : odb) (first : bool) (ok : id -> bool) (tips : list id) : id -> Prop :=
| reach_tip t : In t tips -> ok t = true -> reach o first ok tips t
| reach_step x p : reach o first ok tips x -> In p (succs o first x) -> ok p = true -> reach o first ok tips p.

(* ---- executable git ---- *)
Definition time_of (o : odb) (i : id) : Z := match find o i with Some c => c_time c | None => 0%Z end.

Fixpoint closure (o : odb) (first : bool) (skip : id -> bool) (fuel : nat) (todo seen : list id) : list id :=
  match fuel with
  | O => seen
  | S f =>
      match todo with
      | [] => seen
      | x :: r =>
          if mem x seen || skip x then closure o first skip f r seen
          else closure o first skip f (succs o first x ++ r) (x :: seen)
      end
  end.

(* commit_list_insert_by_date: before the first strictly older entry *)
Fixpoint insert_by_date (o : odb) (x : id) (l : list id) : list id :=
  match l with
  | [] => [x]
  | y :: r => if Z.ltb (time_of o y) (time_of o x) then x :: l else y :: insert_by_date o x r
  end.
Fixpoint dedup (l : list id) (seen : list id) : list id :=
  match l with
  | [] => []
  | x :: r => if mem x seen then dedup r seen else x :: dedup r (x :: seen)
  end.
Definition sort_by_date (o : odb) (l : list id) : list id :=
  fold_left (fun acc x => insert_by_date o x acc) l [].

Fixpoint default_parents (o : odb) (ps : list id) (seen : list id) (l : list id) : list id * list id :=
  match ps with
  | [] => (seen, l)
  | p :: r => if mem p seen then default_parents o r seen l
              else default_parents o r (p :: seen) (insert_by_date o p l)
  end.
Fixpoint default_loop (o : odb) (fuel : nat) (l seen : list id) : list id :=
  match fuel with
  | O => []
  | S f =>
      match l with
      | [] => []
      | c :: r =>
          let '(seen', l') := default_parents o (succs o false c) seen r in
          c :: default_loop o f l' seen'
      end
  end.
Definition git_default_order (o : odb) (tips : list id) (fuel : nat) : list id :=
  let t := dedup tips [] in
  default_loop o fuel (sort_by_date o t) t.

Definition count_children (o : odb) (first : bool) (w : list id) (i : id) : N :=
  N.of_nat (length (filter (fun d => mem i (succs o first d)) w)).

(* index of the newest element, the earliest one among equals *)
Fixpoint pick_newest (o : odb) (l : list id) (best : id) : id :=
  match l with
  | [] => best
  | x :: r => pick_newest o r (if Z.ltb (time_of o best) (time_of o x) then x else best)
  end.
Fixpoint remove_first (x : id) (l : list id) : list id :=
  match l with
  | [] => []
  | y :: r => if N.eqb x y then r else y :: remove_first x r
  end.

Fixpoint kahn_parents (date : bool) (w : list id) (ps : list id) (deg : list (id * N)) (q : list id)
  : list (id * N) * list id :=
  match ps with
  | [] => (deg, q)
  | p :: r =>
      if mem p w then
        match m_get deg p with
        | Some d =>
            let d' := d - 1 in
            let deg' := m_set deg p d' in
            if N.eqb d' 0 then kahn_parents date w r deg' (if date then q ++ [p] else p :: q)
            else kahn_parents date w r deg' q
        | None => kahn_parents date w r deg q
        end
      else kahn_parents date w r deg q
  end.
Fixpoint kahn (o : odb) (first date : bool) (w : list id) (fuel : nat) (deg : list (id * N)) (q : list id)
  : list id :=
  match fuel with
  | O => []
  | S f =>
      match q with
      | [] => []
      | x :: r =>
          let c := if date then pick_newest o r x else x in
          let q' := remove_first c q in
          let '(deg', q'') := kahn_parents date w (succs o first c) deg q' in
          c :: kahn o first date w f deg' q''
      end
  end.

Definition git_topo_order (o : odb) (first date : bool) (tips ends : list id) (fuel : nat) : list id :=
  let unint := closure o false (fun _ => false) (2 * fuel) ends [] in
  let t := sort_by_date o (dedup tips []) in
  let w := closure o first (fun i => mem i unint) (2 * fuel) t [] in
  let deg := map (fun i => (i, count_children o first w i)) w in
  let init := filter (fun i => mem i w && N.eqb (count_children o first w i) 0) t in
  kahn o first date w fuel deg init.
