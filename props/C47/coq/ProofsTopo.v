(* C47 — Topo: no commit is returned twice, and every returned commit is reachable from a tip
   (for object databases without commit-graph data: the eager walk). *)
From Coq Require Import List Permutation Lia Arith NArith ZArith Bool.
From GixV.Base Require Import Bytes Outcome.
From GixV.C47 Require Import Model Spec ProofsHeap ProofsWalk.
Import ListNotations.
Local Open Scope N_scope.

(* ---- finite maps ---- *)
Lemma m_get_set {V} (m : list (id * V)) i v j :
  m_get (m_set m i v) j = if N.eqb j i then Some v else m_get m j.
Proof.
  induction m as [|[k w] m IH]; cbn [m_set m_get].
  - destruct (N.eqb j i); reflexivity.
  - destruct (N.eqb i k) eqn:E.
    + apply N.eqb_eq in E. subst k. cbn [m_get]. destruct (N.eqb j i); reflexivity.
    + cbn [m_get]. destruct (N.eqb j k) eqn:E2.
      * apply N.eqb_eq in E2. subst k. rewrite N.eqb_sym, E. reflexivity.
      * exact IH.
Qed.

Lemma NoDup_app_l {A} (a b : list A) : NoDup (a ++ b) -> NoDup a.
Proof.
  induction a as [|x a IH]; cbn; intros H; [constructor|].
  inversion H; subst. constructor; auto. intros I. apply H2. apply in_or_app. auto.
Qed.

(* ---- the ids in the topo queue ---- *)
Definition tq_ids (q : tqueue) : list id :=
  match q with TQDate h _ => map snd h | TQTopo s => map snd s end.

Lemma tq_push_ids q t i : Permutation (tq_ids (tq_push q t i)) (i :: tq_ids q).
Proof.
  destruct q as [h c|s]; cbn [tq_push tq_ids]; [|reflexivity].
  change (i :: map snd h) with (map snd (((t, c), i) :: h)). apply Permutation_map, heap_push_perm.
Qed.

Lemma tq_pop_ids q i q' : tq_pop q = Some (i, q') -> Permutation (tq_ids q) (i :: tq_ids q').
Proof.
  destruct q as [h c|s]; cbn [tq_pop tq_ids].
  - destruct (heap_pop dkey_le h) as [[[k j] h']|] eqn:P; [|discriminate].
    intros X; inversion X; subst. apply heap_pop_perm in P. apply (Permutation_map snd) in P. exact P.
  - destruct s as [|[t j] s]; [discriminate|]. intros X; inversion X; subst. reflexivity.
Qed.

Lemma ins_asc_perm x l : Permutation (ins_asc x l) (x :: l).
Proof.
  induction l as [|y r IH]; cbn [ins_asc]; [reflexivity|].
  destruct (Z.ltb (fst x) (fst y)); [reflexivity|].
  eapply perm_trans; [apply perm_skip, IH|]. apply perm_swap.
Qed.
Lemma sort_asc_perm l : Permutation (sort_asc l) l.
Proof.
  unfold sort_asc. assert (G : forall l acc, Permutation (fold_left (fun acc x => ins_asc x acc) l acc) (l ++ acc)).
  { clear l. induction l as [|x l IH]; intros acc; cbn [fold_left app]; [reflexivity|].
    eapply perm_trans; [apply IH|]. eapply perm_trans; [apply Permutation_app_head, ins_asc_perm|].
    symmetry. apply Permutation_middle. }
  specialize (G l []). rewrite app_nil_r in G. exact G.
Qed.
Lemma tq_initial_sort_ids q : Permutation (tq_ids (tq_initial_sort q)) (tq_ids q).
Proof.
  destruct q as [h c|s]; cbn [tq_initial_sort tq_ids]; [reflexivity|].
  apply Permutation_map. eapply perm_trans; [symmetry; apply Permutation_rev|]. apply sort_asc_perm.
Qed.

(* ---- the helper walks do not touch the topo queue nor min_gen ---- *)
Definition same_tm (st st' : tst) : Prop := t_topo st' = t_topo st /\ t_min_gen st' = t_min_gen st.
Lemma same_tm_refl st : same_tm st st. Proof. split; reflexivity. Qed.
Lemma same_tm_trans a b c : same_tm a b -> same_tm b c -> same_tm a c.
Proof. intros [A B] [C D]. split; congruence. Qed.

Section TopoFacts.
  Variable o : odb.
  Variable first : bool.
  Variable F : nat.

  Lemma explore_walk_step_tm st st' : explore_walk_step o F st = Ok st' -> same_tm st st'.
  Proof.
    unfold explore_walk_step. destruct (gpop (t_explore st)) as [[[k i] q']|].
    2:{ intros X; inversion X; apply same_tm_refl. }
    destruct (collect_parents o i false) as [ps| | |]; cbn [obind]; try discriminate.
    destruct (process_parents o F i ps (t_states st)) as [sm| | |]; cbn [obind]; try discriminate.
    destruct (explore_push ps sm q') as [[sm' q'']| | |]; cbn [obind]; try discriminate.
    intros X; inversion X; split; reflexivity.
  Qed.

  Lemma explore_to_depth_tm fuel : forall cutoff st st', explore_to_depth o F fuel cutoff st = Ok st' -> same_tm st st'.
  Proof.
    induction fuel as [|fuel IH]; intros cutoff st st'; cbn [explore_to_depth]; [discriminate|].
    destruct (heap_peek (t_explore st)) as [[[g t] i]|].
    2:{ intros X; inversion X; apply same_tm_refl. }
    destruct (N.leb cutoff g).
    2:{ intros X; inversion X; apply same_tm_refl. }
    destruct (explore_walk_step o F st) as [st1| | |] eqn:E; cbn [obind]; try discriminate.
    intros H. eapply same_tm_trans; [apply explore_walk_step_tm; exact E | eapply IH; exact H].
  Qed.

  Lemma indegree_walk_step_tm st st' : indegree_walk_step o first F st = Ok st' -> same_tm st st'.
  Proof.
    unfold indegree_walk_step. destruct (gpop (t_indegq st)) as [[[[g t] i] q']|].
    2:{ intros X; inversion X; apply same_tm_refl. }
    destruct (explore_to_depth o F F g _) as [st1| | |] eqn:E; cbn [obind]; try discriminate.
    apply explore_to_depth_tm in E. destruct E as [E1 E2]. cbn in E1, E2.
    destruct (collect_parents o i first) as [ps| | |]; cbn [obind]; try discriminate.
    destruct (indegree_push ps (t_indeg st1) (t_states st1) (t_indegq st1)) as [[[im sm] q'']| | |]; cbn [obind]; try discriminate.
    intros X; inversion X; split; cbn; congruence.
  Qed.

  Lemma compute_tm fuel : forall cutoff st st',
    compute_indegrees_to_depth o first F fuel cutoff st = Ok st' -> same_tm st st'.
  Proof.
    induction fuel as [|fuel IH]; intros cutoff st st'; cbn [compute_indegrees_to_depth]; [discriminate|].
    destruct (heap_peek (t_indegq st)) as [[[g t] i]|].
    2:{ intros X; inversion X; apply same_tm_refl. }
    destruct (N.leb cutoff g).
    2:{ intros X; inversion X; apply same_tm_refl. }
    destruct (indegree_walk_step o first F st) as [st1| | |] eqn:E; cbn [obind]; try discriminate.
    intros H. eapply same_tm_trans; [apply indegree_walk_step_tm; exact E | eapply IH; exact H].
  Qed.
End TopoFacts.

(* ---- no commit-graph data: every key carries the infinite generation ---- *)
Definition no_graph (o : odb) : Prop := forall i c, find o i = Some c -> c_gen c = 0.

Section TopoInv.
  Variable o : odb.
  Variable first : bool.
  Variable F : nat.
  Variable tips : list id.
  Hypothesis NG : no_graph o.
  Notation reachT := (reach o first (fun _ => true) tips).

  Lemma with_keys_spec l : forall ps, with_keys o l = Ok ps ->
    map fst ps = l /\ forall p g t, In (p, (g, t)) ps -> g = GEN_INF.
  Proof.
    induction l as [|p r IH]; intros ps; cbn [with_keys].
    - intros X; inversion X. split; [reflexivity | intros ? ? ? []].
    - destruct (find o p) as [c|] eqn:Fp; [|discriminate].
      destruct (with_keys o r) as [ps'| | |]; cbn [omap obind]; try discriminate.
      intros X; inversion X; subst ps. destruct (IH ps' eq_refl) as [A B]. split.
      + cbn. rewrite A. reflexivity.
      + intros q g t [H|H]; [|eapply B; eauto]. inversion H; subst. unfold key_of.
        rewrite (NG _ _ Fp). reflexivity.
  Qed.

  Lemma collect_parents_spec i b ps : collect_parents o i b = Ok ps ->
    (forall p k, In (p, k) ps -> In p (succs o b i)) /\ (forall p g t, In (p, (g, t)) ps -> g = GEN_INF).
  Proof.
    unfold collect_parents, succs. destruct (find o i) as [c|]; [|discriminate].
    intros H. apply with_keys_spec in H. destruct H as [A B]. split; auto.
    intros p k I. rewrite <- A. apply (in_map fst) in I. exact I.
  Qed.

  (* E: returned so far; im: the in-degree map; Q: the ids in the topo queue *)
  Definition J (E : list id) (im : list (id * Z)) (Q : list id) : Prop :=
    NoDup (E ++ Q) /\
    (forall x d, In x (E ++ Q) -> m_get im x = Some d -> (d <= 1)%Z) /\
    (forall x, In x (E ++ Q) -> reachT x).

  Lemma J_perm E im Q Q' : Permutation Q Q' -> J E im Q -> J E im Q'.
  Proof.
    intros P [A [B C]]. assert (PP : Permutation (E ++ Q) (E ++ Q')) by (apply Permutation_app_head; auto).
    split; [|split].
    - eapply Permutation_NoDup; eauto.
    - intros x d I. apply B. eapply Permutation_in; [symmetry; exact PP | exact I].
    - intros x I. apply C. eapply Permutation_in; [symmetry; exact PP | exact I].
  Qed.

  Lemma J_dec E im Q p i : J E im Q -> m_get im p = Some i -> J E (m_set im p (i - 1)%Z) Q.
  Proof.
    intros [A [B C]] G. split; [|split]; auto.
    intros x d I. rewrite m_get_set. destruct (N.eqb x p) eqn:Ex.
    - apply N.eqb_eq in Ex. subst x. intros X; inversion X; subst d. specialize (B p i I G). lia.
    - apply B; auto.
  Qed.

  Lemma J_not_in E im Q p : J E im Q -> m_get im p = Some 2%Z -> ~ In p (E ++ Q).
  Proof. intros [A [B C]] G I. specialize (B p 2%Z I G). lia. Qed.

  Lemma J_push E im Q p : J E im Q -> ~ In p (E ++ Q) -> m_get im p = Some 1%Z -> reachT p -> J E im (p :: Q).
  Proof.
    intros [A [B C]] N G R.
    assert (PP : Permutation (E ++ p :: Q) (p :: E ++ Q)) by (symmetry; apply Permutation_middle).
    split; [|split].
    - eapply Permutation_NoDup; [symmetry; exact PP|]. constructor; auto.
    - intros x d I. apply (Permutation_in _ PP) in I. destruct I as [I|I].
      + subst x. rewrite G. intros X; inversion X. lia.
      + apply B; auto.
    - intros x I. apply (Permutation_in _ PP) in I. destruct I as [I|I]; [subst; auto | auto].
  Qed.

  Lemma J_pop E im Q i Q' : J E im Q -> Permutation Q (i :: Q') -> J (E ++ [i]) (m_set im i 0%Z) Q'.
  Proof.
    intros H P. apply (J_perm _ _ _ _ P) in H. destruct H as [A [B C]].
    assert (R : (E ++ [i]) ++ Q' = E ++ i :: Q') by (rewrite <- app_assoc; reflexivity).
    unfold J. rewrite R. split; [|split]; auto.
    intros x d I. rewrite m_get_set. destruct (N.eqb x i).
    - intros X; inversion X. lia.
    - apply B; auto.
  Qed.

  Lemma expand_parents_J E ps : forall st st',
    (forall p k, In (p, k) ps -> reachT p) ->
    (forall p g t, In (p, (g, t)) ps -> g = GEN_INF) ->
    t_min_gen st = GEN_INF ->
    J E (t_indeg st) (tq_ids (t_topo st)) ->
    expand_parents o first F ps st = Ok st' ->
    J E (t_indeg st') (tq_ids (t_topo st')) /\ t_min_gen st' = GEN_INF.
  Proof.
    induction ps as [|[p [pgen ptime]] r IH]; intros st st' HR HG HM HJ; cbn [expand_parents].
    - intros X; inversion X; subst. auto.
    - assert (HR' : forall q k, In (q, k) r -> reachT q) by (intros q k I; eapply HR; right; exact I).
      assert (HG' : forall q g t, In (q, (g, t)) r -> g = GEN_INF) by (intros q g t I; eapply HG; right; exact I).
      assert (Eg : pgen = GEN_INF) by (eapply HG; left; reflexivity). subst pgen.
      destruct (m_get (t_states st) p) as [pf|]; [|discriminate].
      destruct (f_unint pf); [apply IH; auto|].
      rewrite HM. change (N.ltb GEN_INF GEN_INF) with false. cbn [obind andb].
      destruct (m_get (t_indeg st) p) as [i|] eqn:Gi; [|discriminate].
      destruct (negb (Z.eqb (i - 1) 1)) eqn:Ne.
      + apply IH; auto. cbn. apply J_dec; auto.
      + apply negb_false_iff, Z.eqb_eq in Ne. assert (i = 2%Z) by lia. subst i.
        destruct (collect_parents o p false) as [x| | |]; cbn [obind]; try discriminate.
        apply IH; auto. cbn [t_indeg t_topo].
        eapply J_perm; [symmetry; apply tq_push_ids|].
        apply J_push.
        * apply J_dec; auto.
        * eapply J_not_in; eauto.
        * rewrite m_get_set, N.eqb_refl. reflexivity.
        * eapply HR. left. reflexivity.
  Qed.

  Lemma topo_iter_J pred fuel : forall st E items,
    t_min_gen st = GEN_INF ->
    J E (t_indeg st) (tq_ids (t_topo st)) ->
    topo_iter o first F pred fuel st = Ok items ->
    NoDup (E ++ map fst items) /\ forall x, In x (map fst items) -> reachT x.
  Proof.
    induction fuel as [|fuel IH]; intros st E items HM HJ; cbn [topo_iter]; [discriminate|].
    destruct (tq_pop (t_topo st)) as [[i tq']|] eqn:P.
    2:{ intros X; inversion X; subst. cbn. rewrite app_nil_r. destruct HJ as [A _].
        split; [|intros ? []]. eapply NoDup_app_l; eauto. }
    apply tq_pop_ids in P.
    pose proof (J_pop _ _ _ _ _ HJ P) as J1.
    assert (One : NoDup (E ++ [i]) /\ reachT i).
    { destruct J1 as [A [_ C]]. split.
      - eapply NoDup_app_l; eauto.
      - apply C. apply in_or_app. left. apply in_or_app. right. left. reflexivity. }
    destruct (m_get (t_indeg st) i) as [d|].
    2:{ intros X; inversion X; subst. cbn. destruct One as [O1 O2]. split; auto. intros x [H|[]]; subst; auto. }
    destruct (expand_topo_walk o first F i _) as [st'| | |] eqn:X; try discriminate.
    2:{ intros Y; inversion Y; subst. cbn. destruct One as [O1 O2]. split; auto. intros x [H|[]]; subst; auto. }
    unfold expand_topo_walk in X. cbn [t_states t_indeg t_explore t_indegq t_topo t_min_gen] in X.
    destruct (collect_parents o i first) as [ps| | |] eqn:CP; cbn [obind] in X; try discriminate.
    destruct (process_parents o F i ps (t_states st)) as [sm| | |]; cbn [obind] in X; try discriminate.
    apply collect_parents_spec in CP. destruct CP as [CP1 CP2].
    apply expand_parents_J with (E := E ++ [i]) in X; auto.
    2:{ intros p k I. eapply reach_step; [apply One | eapply CP1; exact I | reflexivity]. }
    destruct X as [J2 M2].
    destruct (topo_iter o first F pred fuel st') as [r| | |] eqn:It; cbn [omap obind]; try discriminate.
    intros Y; inversion Y; subst items. clear Y.
    destruct (IH _ _ _ M2 J2 It) as [N R].
    rewrite <- app_assoc in N. cbn [app] in N.
    destruct (pred i); cbn [map fst].
    - split; auto. intros x [H|H]; [subst; apply One | auto].
    - split; auto. eapply NoDup_remove_1. exact N.
  Qed.
End TopoInv.

Section TopoBuild.
  Variable o : odb.
  Variable first : bool.
  Variable F : nat.
  Variable tips : list id.
  Hypothesis NG : no_graph o.

  Lemma build_tips_spec l : forall st uniq st' u',
    NoDup uniq -> (forall x, In x uniq -> m_get (t_states st) x <> None) ->
    build_tips o l st uniq = Ok (st', u') ->
    t_topo st' = t_topo st /\ (t_min_gen st = GEN_INF -> t_min_gen st' = GEN_INF) /\
    NoDup u' /\ (forall x, In x u' -> In x uniq \/ exists fl, In (x, fl) l /\ f_unint fl = false).
  Proof.
    induction l as [|[i fl] r IH]; intros st uniq st' u' ND DOM; cbn [build_tips].
    - intros X; inversion X; subst. split; [reflexivity|]. split; [auto|]. split; [apply NoDup_rev; auto|].
      intros x I. left. apply in_rev. exact I.
    - destruct (m_get (t_states st) i) as [f|] eqn:G.
      + intros H. apply IH in H; auto.
        * destruct H as [A [B [C D]]]. cbn in A, B. split; [auto|]. split; [auto|]. split; [auto|].
          intros x I. destruct (D x I) as [L|[fl' [L1 L2]]]; [left; auto|]. right. exists fl'. split; [right; auto | auto].
        * intros x I. cbn [t_states]. rewrite m_get_set. destruct (N.eqb x i); [discriminate | apply DOM; auto].
      + destruct (find o i) as [c|] eqn:Fi; [|discriminate].
        intros H. apply IH in H.
        * destruct H as [A [B [C D]]]. cbn in A, B. split; [auto|]. split.
          { intros M. apply B. rewrite M. unfold key_of. rewrite (NG _ _ Fi). reflexivity. }
          split; [auto|].
          intros x I. destruct (D x I) as [L|[fl' [L1 L2]]].
          -- destruct (f_unint fl) eqn:U; [left; auto|]. destruct L as [L|L]; [|left; auto].
             subst x. right. exists fl. split; [left; reflexivity | auto].
          -- right. exists fl'. split; [right; auto | auto].
        * destruct (f_unint fl); auto. constructor; auto. intros I. apply (DOM _ I). exact G.
        * intros x I. cbn [t_states]. rewrite m_get_set. destruct (N.eqb x i) eqn:Ex; [discriminate|].
          apply DOM. destruct (f_unint fl); auto. destruct I as [I|I]; auto. subst x. rewrite N.eqb_refl in Ex. discriminate.
  Qed.

  Lemma build_queue_spec l : forall st st',
    NoDup l -> (forall x, In x l -> In x tips) -> (forall x, In x l -> ~ In x (tq_ids (t_topo st))) ->
    J o first tips [] (t_indeg st) (tq_ids (t_topo st)) ->
    build_queue o l st = Ok st' ->
    J o first tips [] (t_indeg st') (tq_ids (t_topo st')) /\ t_min_gen st' = t_min_gen st.
  Proof.
    induction l as [|i r IH]; intros st st' ND HT HQ HJ; cbn [build_queue].
    - intros X; inversion X; subst. auto.
    - inversion ND as [|? ? Ni ND']; subst.
      assert (HT' : forall x, In x r -> In x tips) by (intros; apply HT; right; auto).
      assert (HQ' : forall x, In x r -> ~ In x (tq_ids (t_topo st))) by (intros; apply HQ; right; auto).
      destruct (m_get (t_indeg st) i) as [d|] eqn:G; [|discriminate].
      destruct (negb (Z.eqb d 1)) eqn:Ne; [apply IH; auto|].
      apply negb_false_iff, Z.eqb_eq in Ne. subst d.
      destruct (match m_get (t_states st) i with Some f => f_unint f | None => false end); [apply IH; auto|].
      destruct (find o i) as [c|]; [|discriminate].
      destruct (collect_parents o i false) as [ps| | |]; cbn [obind]; try discriminate.
      intros H. apply IH in H; auto.
      + intros x I. cbn [t_topo]. intros I2. apply (Permutation_in _ (tq_push_ids _ _ _)) in I2.
        destruct I2 as [I2|I2]; [subst; contradiction | eapply HQ'; eauto].
      + cbn [t_indeg t_topo]. eapply J_perm; [symmetry; apply tq_push_ids|].
        apply J_push; auto.
        * cbn [app]. apply HQ. left. reflexivity.
        * apply reach_tip; [apply HT; left; reflexivity | reflexivity].
  Qed.

  Lemma topo_build_J date ends st :
    topo_build o first F date tips ends = Ok st ->
    J o first tips [] (t_indeg st) (tq_ids (t_topo st)) /\ t_min_gen st = GEN_INF.
  Proof.
    unfold topo_build.
    destruct (build_tips o _ _ []) as [[st1 uniq]| | |] eqn:BT; cbn [obind]; try discriminate.
    apply build_tips_spec in BT; [|constructor | intros x []].
    destruct BT as [T1 [M1 [ND U]]]. cbn [t_topo t_min_gen] in T1, M1. specialize (M1 eq_refl).
    destruct (build_ends o ends (t_states st1)) as [sm| | |]; cbn [obind]; try discriminate.
    destruct (compute_indegrees_to_depth o first F F (t_min_gen st1) _) as [st2| | |] eqn:C; cbn [obind]; try discriminate.
    apply compute_tm in C. destruct C as [T2 M2]. cbn [t_topo t_min_gen] in T2, M2.
    destruct (build_queue o uniq st2) as [st3| | |] eqn:BQ; cbn [obind]; try discriminate.
    assert (E2 : tq_ids (t_topo st2) = []) by (rewrite T2, T1; destruct date; reflexivity).
    apply build_queue_spec in BQ; auto.
    - destruct BQ as [J3 M3]. intros X; inversion X; subst st. cbn [t_indeg t_topo t_min_gen]. split; [|congruence].
      eapply J_perm; [symmetry; apply tq_initial_sort_ids | exact J3].
    - intros x I. destruct (U x I) as [[]|[fl [I1 I2]]]. apply in_app_or in I1. destruct I1 as [I1|I1].
      + apply in_map_iff in I1. destruct I1 as [y [Y1 Y2]]. inversion Y1; subst. exact Y2.
      + apply in_map_iff in I1. destruct I1 as [y [Y1 Y2]]. inversion Y1; subst. discriminate.
    - rewrite E2. intros x _ [].
    - rewrite E2. split; [constructor|]. split; [intros x d [] | intros x []].
  Qed.

  Lemma topo_walk_facts pred date ends items :
    topo_walk o first F pred date tips ends = Ok items ->
    NoDup (map fst items) /\ forall x, In x (map fst items) -> reach o first (fun _ => true) tips x.
  Proof.
    unfold topo_walk. destruct (topo_build o first F date tips ends) as [st| | |] eqn:B; cbn [obind]; try discriminate.
    apply topo_build_J in B. destruct B as [HJ HM]. intros It.
    exact (topo_iter_J o first F tips NG pred F st [] items HM HJ It).
  Qed.
End TopoBuild.
