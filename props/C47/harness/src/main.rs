//! C47 — commit walks agree with git rev-list.
//!
//! case:  <op> <opts> <cutoff> <tips> <ends> <rejected> <n> (<time,gen,p1,p2,…>){n}
//!   op       = simple | topo
//!   opts     = comma separated words
//!              simple: bfs|new|old|newcut|oldcut , all|first , sp|ps   (sp: .sorting() then .parents(); ps: the reverse)
//!              topo  : date|topo , all|first
//!   cutoff   = seconds (only used by newcut/oldcut)
//!   tips, ends, rejected = comma separated commit indices (ends: topo only; rejected: ids the predicate refuses)
//!   commit i = time , generation (0 = not in the commit-graph) , parent indices. An index >= n is a missing object.
//! transcript:  err | ok <i>,<i>,E,…   (E = the iterator returned an error item)
use gixv_common::*;
use std::collections::{BTreeSet, HashMap, HashSet};
use std::io::Write as _;
use std::path::{Path, PathBuf};
use std::process::{Command, Stdio};
use std::sync::atomic::{AtomicU64, Ordering};
use std::time::Duration;

use gix_hash::ObjectId;
use gix_odb::Write as _;
use gix_traverse::commit::{simple, topo, Parents, Simple};

#[derive(Clone, Debug)]
struct Cm {
    time: i64,
    gen: u32,
    parents: Vec<usize>,
}
#[derive(Clone, Debug)]
struct Q {
    op: String,
    opts: Vec<String>,
    cutoff: i64,
    tips: Vec<usize>,
    ends: Vec<usize>,
    rej: Vec<usize>,
    d: Vec<Cm>,
}
impl Q {
    fn has(&self, w: &str) -> bool {
        self.opts.iter().any(|o| o == w)
    }
    fn first(&self) -> bool {
        self.has("first")
    }
    fn sorting(&self) -> &str {
        for s in ["bfs", "new", "old", "newcut", "oldcut", "date", "topo"] {
            if self.has(s) {
                return s;
            }
        }
        "?"
    }
}

fn nums(b: &[u8]) -> Option<Vec<i64>> {
    if b.is_empty() {
        return Some(vec![]);
    }
    let s = std::str::from_utf8(b).ok()?;
    s.split(',').map(|x| x.parse::<i64>().ok()).collect()
}
fn list(v: &[usize]) -> Vec<u8> {
    v.iter().map(|x| x.to_string()).collect::<Vec<_>>().join(",").into_bytes()
}

fn parse(c: &Case) -> Option<Q> {
    let op = String::from_utf8_lossy(f_str(c, 0)).into_owned();
    if op != "simple" && op != "topo" {
        return None;
    }
    let opts: Vec<String> = String::from_utf8_lossy(f_str(c, 1)).split(',').map(|s| s.to_string()).collect();
    let cutoff = f_i64(c, 2);
    let us = |i: usize| -> Option<Vec<usize>> { Some(nums(f_str(c, i))?.into_iter().map(|x| x as usize).collect()) };
    let tips = us(3)?;
    let ends = us(4)?;
    let rej = us(5)?;
    let n = f_u64(c, 6) as usize;
    if c.len() != 7 + n {
        return None;
    }
    let mut d = Vec::new();
    for i in 0..n {
        let v = nums(f_str(c, 7 + i))?;
        if v.len() < 2 {
            return None;
        }
        d.push(Cm { time: v[0], gen: v[1] as u32, parents: v[2..].iter().map(|x| *x as usize).collect() });
    }
    Some(Q { op, opts, cutoff, tips, ends, rej, d })
}

fn to_case(q: &Q) -> Case {
    let mut c = vec![
        tag(&q.op),
        q.opts.join(",").into_bytes(),
        num(q.cutoff),
        list(&q.tips),
        list(&q.ends),
        list(&q.rej),
        num(q.d.len()),
    ];
    for cm in &q.d {
        let mut v = vec![cm.time.to_string(), cm.gen.to_string()];
        v.extend(cm.parents.iter().map(|p| p.to_string()));
        c.push(v.join(",").into_bytes());
    }
    c
}

// ---------------------------------------------------------------------------------------------------
// in-memory object database with synthetic ids
const EMPTY_TREE: &str = "4b825dc642cb6eb9a060e54bf8d69288fbee4904";

fn sid(i: usize) -> ObjectId {
    let mut b = [0x5au8; 20];
    b[0] = (i.wrapping_mul(89).wrapping_add(7)) as u8;
    b[1] = (i >> 8) as u8;
    b[2] = i as u8;
    ObjectId::from_bytes_or_panic(&b)
}
fn idx_of(id: &gix_hash::oid) -> usize {
    let b = id.as_bytes();
    ((b[1] as usize) << 8) | b[2] as usize
}

fn commit_bytes(parents: &[ObjectId], time: i64, salt: usize) -> Vec<u8> {
    let mut s = format!("tree {EMPTY_TREE}\n");
    for p in parents {
        s.push_str(&format!("parent {}\n", p.to_hex()));
    }
    s.push_str(&format!("author a <a@b> {time} +0000\ncommitter a <a@b> {time} +0000\n\nc{salt}\n"));
    s.into_bytes()
}

struct MemOdb(HashMap<ObjectId, Vec<u8>>);
impl gix_object::Find for MemOdb {
    fn try_find<'a>(
        &self,
        id: &gix_hash::oid,
        buffer: &'a mut Vec<u8>,
    ) -> Result<Option<gix_object::Data<'a>>, gix_object::find::Error> {
        match self.0.get(id) {
            None => Ok(None),
            Some(b) => {
                buffer.clear();
                buffer.extend_from_slice(b);
                Ok(Some(gix_object::Data { kind: gix_object::Kind::Commit, data: buffer }))
            }
        }
    }
}
fn mem_odb(q: &Q) -> MemOdb {
    let mut m = HashMap::new();
    for (i, cm) in q.d.iter().enumerate() {
        let ps: Vec<ObjectId> = cm.parents.iter().map(|p| sid(*p)).collect();
        m.insert(sid(i), commit_bytes(&ps, cm.time, i));
    }
    MemOdb(m)
}

// ---------------------------------------------------------------------------------------------------
static COUNTER: AtomicU64 = AtomicU64::new(0);
struct Scratch(PathBuf);
impl Scratch {
    fn new() -> Scratch {
        let base = if Path::new("/dev/shm").is_dir() { PathBuf::from("/dev/shm") } else { std::env::temp_dir() };
        let p = base.join(format!("gixv-c47-{}-{}", std::process::id(), COUNTER.fetch_add(1, Ordering::SeqCst)));
        let _ = std::fs::remove_dir_all(&p);
        std::fs::create_dir_all(&p).expect("scratch dir");
        Scratch(p)
    }
}
impl Drop for Scratch {
    fn drop(&mut self) {
        let _ = std::fs::remove_dir_all(&self.0);
    }
}

// commit-graph file written by hand (gitformat-commit-graph), for the commits with gen != 0
fn write_commit_graph(q: &Q) -> Result<Vec<u8>, String> {
    let mut recs: Vec<(ObjectId, usize)> =
        q.d.iter().enumerate().filter(|(_, c)| c.gen != 0).map(|(i, _)| (sid(i), i)).collect();
    recs.sort();
    let pos: HashMap<usize, u32> = recs.iter().enumerate().map(|(k, (_, i))| (*i, k as u32)).collect();
    let mut fan = vec![0u32; 256];
    for (id, _) in &recs {
        fan[id.as_bytes()[0] as usize] += 1;
    }
    for i in 1..256 {
        fan[i] += fan[i - 1];
    }
    let mut cdat = Vec::new();
    let mut edges: Vec<u32> = Vec::new();
    for (_, i) in &recs {
        let r = &q.d[*i];
        let mut ps = Vec::new();
        for p in &r.parents {
            ps.push(*pos.get(p).ok_or("commit-graph commit with a parent outside of the graph")?);
        }
        cdat.extend_from_slice(&[0x11; 20]);
        let p1 = ps.first().copied().unwrap_or(0x7000_0000);
        let p2 = match ps.len() {
            0 | 1 => 0x7000_0000,
            2 => ps[1],
            _ => {
                let at = edges.len() as u32;
                for (k, p) in ps[1..].iter().enumerate() {
                    edges.push(if k == ps.len() - 2 { *p | 0x8000_0000 } else { *p });
                }
                0x8000_0000 | at
            }
        };
        cdat.extend_from_slice(&p1.to_be_bytes());
        cdat.extend_from_slice(&p2.to_be_bytes());
        let w = ((r.gen as u64) << 34) | ((r.time as u64) & ((1 << 34) - 1));
        cdat.extend_from_slice(&w.to_be_bytes());
    }
    let mut chunks: Vec<(&[u8], Vec<u8>)> = vec![
        (b"OIDF", fan.iter().flat_map(|v| v.to_be_bytes()).collect()),
        (b"OIDL", recs.iter().flat_map(|r| r.0.as_bytes().to_vec()).collect()),
        (b"CDAT", cdat),
    ];
    if !edges.is_empty() {
        chunks.push((b"EDGE", edges.iter().flat_map(|v| v.to_be_bytes()).collect()));
    }
    let n = chunks.len();
    let mut out = b"CGPH".to_vec();
    out.extend_from_slice(&[1, 1, n as u8, 0]);
    let mut ofs = (8 + 12 * (n + 1)) as u64;
    for (id, c) in &chunks {
        out.extend_from_slice(id);
        out.extend_from_slice(&ofs.to_be_bytes());
        ofs += c.len() as u64;
    }
    out.extend_from_slice(&[0, 0, 0, 0]);
    out.extend_from_slice(&ofs.to_be_bytes());
    for (_, c) in &chunks {
        out.extend_from_slice(c);
    }
    out.extend_from_slice(&[0xcc; 20]);
    Ok(out)
}

fn open_graph(q: &Q) -> Result<Option<(Scratch, gix_commitgraph::Graph)>, String> {
    if !q.d.iter().any(|c| c.gen != 0) {
        return Ok(None);
    }
    let sc = Scratch::new();
    let p = sc.0.join("commit-graph");
    std::fs::write(&p, write_commit_graph(q).map_err(|e| format!("BADCASE {e}"))?).map_err(|e| e.to_string())?;
    let cg = gix_commitgraph::at(&p).map_err(|e| format!("BADCASE commit-graph does not open: {e}"))?;
    for (i, cm) in q.d.iter().enumerate() {
        let got = cg.commit_by_id(sid(i)).map(|c| c.generation()).unwrap_or(0);
        if got != cm.gen {
            return Err(format!("BADCASE generation of {i}: case {}, commit-graph {got}", cm.gen));
        }
    }
    Ok(Some((sc, cg)))
}

// ---------------------------------------------------------------------------------------------------
// the implementation
fn cap(q: &Q) -> usize {
    4 * (q.d.len() + q.tips.len() + q.ends.len()) + 16
}

fn run_walk(q: &Q, with_graph: bool) -> Result<Vec<Option<usize>>, String> {
    let odb = mem_odb(q);
    let cg = if with_graph { open_graph(q)? } else { None };
    let (_keep, cg) = match cg {
        Some((s, g)) => (Some(s), Some(g)),
        None => (None, None),
    };
    let rej: HashSet<ObjectId> = q.rej.iter().map(|i| sid(*i)).collect();
    let tips: Vec<ObjectId> = q.tips.iter().map(|i| sid(*i)).collect();
    let parents = if q.first() { Parents::First } else { Parents::All };
    let mut out = Vec::new();
    let limit = cap(q);
    match q.op.as_str() {
        "simple" => {
            use simple::{CommitTimeOrder as O, Sorting as S};
            let sorting = match q.sorting() {
                "bfs" => S::BreadthFirst,
                "new" => S::ByCommitTime(O::NewestFirst),
                "old" => S::ByCommitTime(O::OldestFirst),
                "newcut" => S::ByCommitTimeCutoff { order: O::NewestFirst, seconds: q.cutoff },
                "oldcut" => S::ByCommitTimeCutoff { order: O::OldestFirst, seconds: q.cutoff },
                _ => return Err("BADCASE sorting".into()),
            };
            let w = Simple::filtered(tips, &odb, move |id: &gix_hash::oid| !rej.contains(id)).commit_graph(cg);
            let w = if q.has("ps") {
                w.parents(parents).sorting(sorting)
            } else {
                w.sorting(sorting).map(|w| w.parents(parents))
            };
            let w = match w {
                Ok(w) => w,
                Err(_) => return Err("err".into()),
            };
            for item in w {
                out.push(item.ok().map(|info| idx_of(&info.id)));
                if out.len() > limit {
                    return Err("TOO-MANY-ITEMS".into());
                }
            }
        }
        "topo" => {
            let sorting = match q.sorting() {
                "date" => topo::Sorting::DateOrder,
                "topo" => topo::Sorting::TopoOrder,
                _ => return Err("BADCASE sorting".into()),
            };
            let ends: Vec<ObjectId> = q.ends.iter().map(|i| sid(*i)).collect();
            let w = topo::Builder::from_iters(&odb, tips, Some(ends))
                .with_predicate(move |id: &gix_hash::oid| !rej.contains(id))
                .sorting(sorting)
                .parents(parents)
                .with_commit_graph(cg)
                .build();
            let w = match w {
                Ok(w) => w,
                Err(_) => return Err("err".into()),
            };
            for item in w {
                // the walk's state after an error is unspecified: stop at the first error item
                let stop = item.is_err();
                out.push(item.ok().map(|info| idx_of(&info.id)));
                if stop {
                    break;
                }
                if out.len() > limit {
                    return Err("TOO-MANY-ITEMS".into());
                }
            }
        }
        _ => return Err("BADCASE op".into()),
    }
    Ok(out)
}

fn show(r: &Result<Vec<Option<usize>>, String>) -> String {
    match r {
        Err(e) => e.clone(),
        Ok(v) => format!(
            "ok {}",
            v.iter().map(|x| x.map(|i| i.to_string()).unwrap_or("E".into())).collect::<Vec<_>>().join(",")
        ),
    }
}

fn imp(c: &Case) -> String {
    match parse(c) {
        None => "BADCASE parse".into(),
        Some(q) => show(&run_walk(&q, true)),
    }
}

// ---------------------------------------------------------------------------------------------------
// real git
fn git(dir: &Path, args: &[String], stdin: &[u8]) -> Result<Vec<u8>, String> {
    let mut ch = Command::new("git")
        .args(args)
        .env("GIT_DIR", dir)
        .env("GIT_CONFIG_NOSYSTEM", "1")
        .env("GIT_CONFIG_GLOBAL", "/dev/null")
        .env("HOME", dir)
        .env_remove("GIT_WORK_TREE")
        .stdin(Stdio::piped())
        .stdout(Stdio::piped())
        .stderr(Stdio::piped())
        .spawn()
        .map_err(|e| format!("spawn git: {e}"))?;
    ch.stdin.take().unwrap().write_all(stdin).map_err(|e| e.to_string())?;
    let o = ch.wait_with_output().map_err(|e| e.to_string())?;
    if !o.status.success() {
        return Err(format!("git {:?}: {}", args, String::from_utf8_lossy(&o.stderr)));
    }
    Ok(o.stdout)
}

fn all_present_and_ordered(q: &Q) -> bool {
    q.d.iter().enumerate().all(|(i, c)| c.parents.iter().all(|p| *p < i))
        && q.tips.iter().chain(q.ends.iter()).all(|t| *t < q.d.len())
}

/// what `git rev-list` prints for the query (indices), with and without a full commit-graph; None if the two differ
fn git_rev_list(q: &Q) -> Result<Option<Vec<usize>>, String> {
    let sc = Scratch::new();
    let dir = &sc.0;
    std::fs::create_dir_all(dir.join("objects/info")).map_err(|e| e.to_string())?;
    std::fs::create_dir_all(dir.join("refs")).map_err(|e| e.to_string())?;
    std::fs::write(dir.join("HEAD"), "ref: refs/heads/main\n").map_err(|e| e.to_string())?;
    let store = gix_odb::loose::Store::at(dir.join("objects"), gix_hash::Kind::Sha1);
    let mut real: Vec<ObjectId> = Vec::new();
    for (i, cm) in q.d.iter().enumerate() {
        let ps: Vec<ObjectId> = cm.parents.iter().map(|p| real[*p]).collect();
        let id = store.write_buf(gix_object::Kind::Commit, &commit_bytes(&ps, cm.time, i)).map_err(|e| e.to_string())?;
        real.push(id);
    }
    let back: HashMap<ObjectId, usize> = real.iter().enumerate().map(|(i, id)| (*id, i)).collect();
    let mut args: Vec<String> = vec!["rev-list".into()];
    match q.sorting() {
        "date" => args.push("--date-order".into()),
        "topo" => args.push("--topo-order".into()),
        _ => {}
    }
    if q.first() {
        args.push("--first-parent".into());
    }
    for t in &q.tips {
        args.push(real[*t].to_hex().to_string());
    }
    for e in &q.ends {
        args.push(format!("^{}", real[*e].to_hex()));
    }
    let parse_out = |out: Vec<u8>| -> Result<Vec<usize>, String> {
        String::from_utf8_lossy(&out)
            .lines()
            .map(|l| {
                ObjectId::from_hex(l.trim().as_bytes())
                    .ok()
                    .and_then(|id| back.get(&id).copied())
                    .ok_or_else(|| "git printed an unknown id".to_string())
            })
            .collect()
    };
    let plain = parse_out(git(dir, &args, b"")?)?;
    let mut input = String::new();
    for id in &real {
        input.push_str(&id.to_hex().to_string());
        input.push('\n');
    }
    git(dir, &["commit-graph".into(), "write".into(), "--stdin-commits".into()], input.as_bytes())?;
    let with = parse_out(git(dir, &args, b"")?)?;
    Ok(if plain == with { Some(with) } else { None })
}

fn git_applicable(q: &Q) -> bool {
    if !all_present_and_ordered(q) || !q.rej.is_empty() || q.tips.is_empty() {
        return false;
    }
    match q.op.as_str() {
        "topo" => true,
        "simple" => q.sorting() == "new" && !q.first() && q.ends.is_empty(),
        _ => false,
    }
}

fn show_seq(v: &[usize]) -> String {
    format!("ok {}", v.iter().map(|i| i.to_string()).collect::<Vec<_>>().join(","))
}

fn git_fn(c: &Case) -> String {
    match parse(c) {
        Some(q) if git_applicable(&q) => match git_rev_list(&q) {
            Ok(Some(v)) => show_seq(&v),
            Ok(None) => "-".into(),
            Err(e) => format!("git failed: {e}"),
        },
        _ => "-".into(),
    }
}

// ---------------------------------------------------------------------------------------------------
// oracles (plain Rust, independent of the implementation)
fn parents_of(q: &Q, i: usize, first: bool) -> Vec<usize> {
    match q.d.get(i) {
        None => vec![],
        Some(c) => {
            if first {
                c.parents.iter().take(1).copied().collect()
            } else {
                c.parents.clone()
            }
        }
    }
}

/// closure of `from` under `parents_of`, only through/into commits accepted by `ok`
fn closure(q: &Q, from: &[usize], first: bool, ok: &dyn Fn(usize) -> bool) -> BTreeSet<usize> {
    let mut seen = BTreeSet::new();
    let mut todo: Vec<usize> = Vec::new();
    for f in from {
        if ok(*f) && seen.insert(*f) {
            todo.push(*f);
        }
    }
    while let Some(c) = todo.pop() {
        for p in parents_of(q, c, first) {
            if ok(p) && seen.insert(p) {
                todo.push(p);
            }
        }
    }
    seen
}

fn time_of(q: &Q, i: usize) -> i64 {
    q.d.get(i).map(|c| c.time).unwrap_or(0)
}

/// git's sequence for --topo-order/--date-order (generation-number walk = Kahn on the interesting sub-graph)
fn git_topo_oracle(q: &Q) -> Vec<usize> {
    let first = q.first();
    let unint = closure(q, &q.ends, false, &|_| true);
    let mut tips: Vec<usize> = Vec::new();
    for t in &q.tips {
        if !tips.contains(t) {
            tips.push(*t);
        }
    }
    // commit_list_sort_by_date: stable, newest first
    tips.sort_by(|a, b| time_of(q, *b).cmp(&time_of(q, *a)));
    let w = closure(q, &tips, first, &|i| !unint.contains(&i));
    let mut indeg: HashMap<usize, usize> = w.iter().map(|i| (*i, 0)).collect();
    for c in &w {
        for p in parents_of(q, *c, first) {
            if let Some(d) = indeg.get_mut(&p) {
                *d += 1;
            }
        }
    }
    let date = q.sorting() == "date";
    // queue entries: (commit, insertion counter)
    let mut queue: Vec<(usize, usize)> = Vec::new();
    let mut ctr = 0usize;
    let mut init: Vec<usize> = tips.iter().copied().filter(|t| w.contains(t) && indeg[t] == 0).collect();
    if !date {
        init.reverse();
    }
    for t in init {
        queue.push((t, ctr));
        ctr += 1;
    }
    let mut out = Vec::new();
    while !queue.is_empty() {
        let k = if date {
            // newest date, earliest insertion
            let mut best = 0;
            for (j, e) in queue.iter().enumerate() {
                let (tb, te) = (time_of(q, queue[best].0), time_of(q, e.0));
                if te > tb || (te == tb && e.1 < queue[best].1) {
                    best = j;
                }
            }
            best
        } else {
            queue.len() - 1
        };
        let (c, _) = queue.remove(k);
        out.push(c);
        for p in parents_of(q, c, first) {
            if let Some(d) = indeg.get_mut(&p) {
                *d -= 1;
                if *d == 0 {
                    queue.push((p, ctr));
                    ctr += 1;
                }
            }
        }
    }
    out
}

fn has_missing(q: &Q) -> bool {
    let n = q.d.len();
    q.tips.iter().chain(q.ends.iter()).any(|t| *t >= n) || q.d.iter().any(|c| c.parents.iter().any(|p| *p >= n))
}

fn dedup(v: &[usize]) -> Vec<usize> {
    let mut out = Vec::new();
    for x in v {
        if !out.contains(x) {
            out.push(*x);
        }
    }
    out
}

/// Is `seq` a run of "pop an extreme-time element of the frontier, add its unseen acceptable parents"?
fn date_replay(q: &Q, seq: &[usize], newest: bool, cutoff: Option<i64>, accept: &dyn Fn(usize) -> bool) -> Result<bool, String> {
    let mut seen: BTreeSet<usize> = BTreeSet::new();
    let mut frontier: Vec<usize> = Vec::new();
    let mut ties = false;
    for t in &q.tips {
        if seen.insert(*t) && accept(*t) && cutoff.map_or(true, |c| time_of(q, *t) >= c) {
            frontier.push(*t);
        }
    }
    for c in seq {
        let pos = frontier.iter().position(|x| x == c).ok_or(format!("{c} is not in the frontier {frontier:?}"))?;
        let best = if newest {
            frontier.iter().map(|x| time_of(q, *x)).max().unwrap()
        } else {
            frontier.iter().map(|x| time_of(q, *x)).min().unwrap()
        };
        if time_of(q, *c) != best {
            return Err(format!("{c} (time {}) popped while the frontier {frontier:?} holds time {best}", time_of(q, *c)));
        }
        if frontier.iter().filter(|x| time_of(q, **x) == best).count() > 1 {
            ties = true;
        }
        frontier.remove(pos);
        for p in parents_of(q, *c, false) {
            if seen.insert(p) && accept(p) && cutoff.map_or(true, |c| time_of(q, p) >= c) {
                frontier.push(p);
            }
        }
    }
    if !frontier.is_empty() {
        return Err(format!("walk ended with {frontier:?} still queued"));
    }
    Ok(ties)
}

fn bfs_oracle(q: &Q, start: &[usize], first: bool, accept: &dyn Fn(usize) -> bool) -> Vec<usize> {
    let mut seen: BTreeSet<usize> = BTreeSet::new();
    let mut queue: std::collections::VecDeque<usize> = Default::default();
    for t in start {
        if seen.insert(*t) && accept(*t) {
            queue.push_back(*t);
        }
    }
    let mut out = Vec::new();
    while let Some(c) = queue.pop_front() {
        out.push(c);
        for p in parents_of(q, c, first) {
            if seen.insert(p) && accept(p) {
                queue.push_back(p);
            }
        }
    }
    out
}

fn prop(c: &Case) -> Verdict {
    let q = match parse(c) {
        None => return Verdict::ok(false, "unparsed"),
        Some(q) => q,
    };
    let r = run_walk(&q, true);
    let kind = format!("{}/{}{}", q.op, q.sorting(), if q.first() { "/first" } else { "" });
    // results do not depend on the presence of the commit-graph
    if q.d.iter().any(|c| c.gen != 0) {
        let r2 = run_walk(&q, false);
        if r != r2 {
            return Verdict::fail("graph-dependence", format!("with commit-graph {} without {}", show(&r), show(&r2)));
        }
    }
    let items = match &r {
        Err(e) if e == "err" => {
            return if has_missing(&q) {
                Verdict::ok(false, format!("{kind}/err-missing"))
            } else {
                Verdict::fail("unexpected-error", "construction failed although every object exists")
            };
        }
        Err(e) => return Verdict::fail("harness", e.clone()),
        Ok(v) => v.clone(),
    };
    let seq: Vec<usize> = items.iter().flatten().copied().collect();
    let mut sorted = seq.clone();
    sorted.sort();
    if sorted.windows(2).any(|w| w[0] == w[1]) {
        return Verdict::fail("duplicate", format!("a commit is returned twice: {}", show(&r)));
    }
    if has_missing(&q) {
        // lenient: whatever is returned is reachable and not refused
        let reach = closure(&q, &q.tips, false, &|_| true);
        if seq.iter().any(|i| !reach.contains(i) || q.rej.contains(i)) {
            return Verdict::fail("unreachable", show(&r));
        }
        return Verdict::ok(false, format!("{kind}/missing-object"));
    }
    if items.iter().any(|x| x.is_none()) {
        return Verdict::fail("unexpected-error", format!("error item although every object exists: {}", show(&r)));
    }
    let got: BTreeSet<usize> = seq.iter().copied().collect();
    let accept = |i: usize| !q.rej.contains(&i);
    let nontrivial = seq.len() >= 3;
    if q.op == "simple" {
        let s = q.sorting();
        let cutoff = if s.ends_with("cut") { Some(q.cutoff) } else { None };
        let start: Vec<usize> =
            dedup(&q.tips).into_iter().filter(|t| cutoff.map_or(true, |c| time_of(&q, *t) >= c)).collect();
        // a tip below the cut-off still counts as seen
        let expect: BTreeSet<usize> = if q.first() {
            let seen_tips: BTreeSet<usize> = q.tips.iter().copied().collect();
            let st = start.clone();
            closure(&q, &start, true, &|i| accept(i) && (st.contains(&i) || !seen_tips.contains(&i)))
        } else {
            let seen_tips: BTreeSet<usize> = q.tips.iter().copied().collect();
            let st = start.clone();
            closure(&q, &start, false, &|i| {
                accept(i) && cutoff.map_or(true, |c| time_of(&q, i) >= c) && (st.contains(&i) || !seen_tips.contains(&i))
            })
        };
        if got != expect {
            let class = if q.first() && got.is_empty() && s != "bfs" && q.has("ps") { "first-parent-after-sorting-empty" } else { "wrong-set" };
            return Verdict::fail(class, format!("returned {} expected the set {:?}", show(&r), expect));
        }
        if q.first() {
            // first parents only: every returned commit is an accepted tip or the first parent of a returned commit
            for c in &seq {
                let is_tip = start.contains(c);
                let is_fp = seq.iter().any(|d| parents_of(&q, *d, true).first() == Some(c));
                if !is_tip && !is_fp {
                    return Verdict::fail("first-parent", format!("{c} is neither a tip nor a first parent: {}", show(&r)));
                }
            }
            if s == "bfs" && seq != bfs_oracle(&q, &q.tips, true, &accept) {
                return Verdict::fail("bfs-order", show(&r));
            }
            return Verdict::ok(nontrivial, kind);
        }
        if s == "bfs" {
            if seq != bfs_oracle(&q, &q.tips, false, &accept) {
                return Verdict::fail("bfs-order", show(&r));
            }
            return Verdict::ok(nontrivial, kind);
        }
        return match date_replay(&q, &seq, s.starts_with("new"), cutoff, &accept) {
            Err(e) => Verdict::fail("date-order", format!("{e}: {}", show(&r))),
            Ok(ties) => Verdict::ok(nontrivial, format!("{kind}{}", if ties { "/ties" } else { "" })),
        };
    }
    // topo: git's sequence, the predicate only filters the output
    let expect: Vec<usize> = git_topo_oracle(&q).into_iter().filter(|i| accept(*i)).collect();
    let mut with_git = false;
    if git_applicable(&q) && (c.len() * 7 + q.d.iter().map(|c| c.time as usize).sum::<usize>() + q.tips.len()) % 24 == 0 {
        // cross-check the oracle itself against real git on a sample
        match git_rev_list(&q) {
            Ok(Some(g)) => {
                with_git = true;
                if g != expect {
                    return Verdict::fail("oracle-vs-git", format!("oracle {} git {}", show_seq(&expect), show_seq(&g)));
                }
            }
            Ok(None) => {}
            Err(e) => return Verdict::fail("harness", e),
        }
    }
    if seq != expect {
        let eset: BTreeSet<usize> = expect.iter().copied().collect();
        let class = if got != eset {
            let unint = closure(&q, &q.ends, false, &|_| true);
            if got.iter().any(|i| unint.contains(i)) {
                "topo-hidden-commit-returned"
            } else {
                "topo-wrong-set"
            }
        } else if q.sorting() == "date" {
            "date-order-differs-from-git"
        } else {
            "topo-order-differs-from-git"
        };
        return Verdict::fail(class, format!("returned {} git {}", show(&r), show_seq(&expect)));
    }
    Verdict::ok(nontrivial, format!("{kind}{}", if with_git { "+git" } else { "" }))
}

// ---------------------------------------------------------------------------------------------------
// generator
fn gen_dag(rng: &mut Rng) -> Vec<Cm> {
    let n = match rng.below(10) {
        0 => rng.range(1, 3),
        1..=6 => rng.range(3, 9),
        7..=8 => rng.range(8, 14),
        _ => rng.range(12, 26),
    } as usize;
    let time_mode = rng.below(7);
    let mut d: Vec<Cm> = Vec::new();
    for i in 0..n {
        let np = if i == 0 {
            0
        } else {
            match rng.below(12) {
                0 => 0,
                1..=6 => 1,
                7..=10 => 2,
                _ => 3,
            }
        };
        let mut ps: Vec<usize> = Vec::new();
        for _ in 0..np {
            let p = if rng.chance(2, 3) { i - 1 - rng.below((i as u64).min(3)) as usize } else { rng.below(i as u64) as usize };
            if !ps.contains(&p) {
                ps.push(p);
            }
        }
        let time = match time_mode {
            0 => rng.range(0, 3),                                   // heavy collisions
            1 => 10 + i as i64,                                     // strictly monotone
            2 => 10 + (i as i64) / 2,                               // monotone with pairs of equal times
            3 => 10 + i as i64 + rng.range(-3, 3),                  // mild skew
            5 => 60 - i as i64,                                     // upside down: every parent is newer than its children
            6 => 30 - (i as i64) / 2 + rng.range(0, 1),             // upside down with collisions
            _ => rng.range(0, 40),                                  // arbitrary
        };
        d.push(Cm { time: time.max(0), gen: 0, parents: ps });
    }
    d
}

fn assign_gens(rng: &mut Rng, d: &mut [Cm]) {
    let mode = rng.below(10);
    if mode < 4 {
        return;
    }
    let n = d.len();
    // partial: commits reachable from one random commit; full: everything
    let mut covered = vec![mode < 8; n];
    if mode >= 8 {
        let root = rng.below(n as u64) as usize;
        let mut todo = vec![root];
        while let Some(c) = todo.pop() {
            if c < n && !covered[c] {
                covered[c] = true;
                todo.extend(d[c].parents.iter().copied());
            }
        }
    }
    for i in 0..n {
        if !covered[i] {
            continue;
        }
        let mut g = 1;
        let mut ok = true;
        for p in d[i].parents.clone() {
            if p >= i || d[p].gen == 0 {
                ok = false;
                break;
            }
            g = g.max(d[p].gen + 1);
        }
        if ok {
            d[i].gen = g;
        }
    }
}

fn pick_set(rng: &mut Rng, n: usize, max: usize, prefer_high: bool) -> Vec<usize> {
    let k = rng.range(0, max as i64) as usize;
    let mut v = Vec::new();
    for _ in 0..k {
        let x = if prefer_high && rng.chance(1, 2) { n - 1 - rng.below((n as u64).min(3)) as usize } else { rng.below(n as u64) as usize };
        v.push(x);
    }
    v
}

/// a chain with side branches off its lower part; the end sits high on the chain, tips in the middle and on the
/// branches, times upside down or arbitrary: hidden-ness has to travel through commits that were processed before
fn gen_hidden_ladder(rng: &mut Rng) -> Q {
    let k = rng.range(6, 12) as usize;
    let upside_down = rng.chance(2, 3);
    let second_parent_chain = rng.chance(3, 4);
    let mut d: Vec<Cm> = Vec::new();
    // commit 0 is a root every chain commit has as FIRST parent; the chain itself runs along second parents
    for i in 0..k {
        let time = if upside_down { 60 - i as i64 } else { rng.range(0, 40) };
        let parents = match i {
            0 | 1 => vec![],
            _ if second_parent_chain => vec![0, i - 1],
            _ => vec![i - 1],
        };
        d.push(Cm { time, gen: 0, parents });
    }
    let nb = rng.range(1, 3) as usize;
    let mut tips = vec![rng.range(2, k as i64 - 2) as usize];
    for _ in 0..nb {
        let at = 1 + rng.below((k as u64) / 2) as usize;
        let time = if upside_down { 60 - d.len() as i64 } else { rng.range(0, 40) };
        d.push(Cm { time, gen: 0, parents: vec![at] });
        tips.push(d.len() - 1);
    }
    if rng.chance(1, 2) {
        tips.reverse();
    }
    assign_gens(rng, &mut d);
    let sorting = *rng.pick(&["date", "topo"]);
    let parents = if second_parent_chain || rng.chance(1, 4) { "first" } else { "all" };
    let ends = vec![rng.range(k as i64 - 2, k as i64 - 1) as usize];
    Q { op: "topo".into(), opts: vec![sorting.into(), parents.into()], cutoff: 0, tips, ends, rej: vec![], d }
}

/// many tips (more than the 20 elements up to which Rust's unstable sorts are insertion sorts) with few distinct
/// commit times, given in shuffled order: sibling tips on a small base history, some tips deeper (tips on tips)
fn many_tips(rng: &mut Rng, ntips: usize, sorting: &str, first: bool, graph: u64, with_end: bool) -> Q {
    let nbase = rng.range(1, 4) as usize;
    let mut d: Vec<Cm> = Vec::new();
    for i in 0..nbase {
        d.push(Cm { time: rng.range(0, 3), gen: 0, parents: if i == 0 { vec![] } else { vec![rng.below(i as u64) as usize] } });
    }
    let ntimes = rng.range(1, 4);
    let mut tips = Vec::new();
    for _ in 0..ntips {
        let n = d.len();
        // mostly siblings on the base, sometimes on top of an earlier tip (different depths), sometimes a merge
        let mut parents = vec![if rng.chance(1, 6) { rng.below(n as u64) as usize } else { rng.below(nbase as u64) as usize }];
        if rng.chance(1, 10) {
            let p2 = rng.below(n as u64) as usize;
            if !parents.contains(&p2) {
                parents.push(p2);
            }
        }
        d.push(Cm { time: 5 + rng.range(0, ntimes - 1), gen: 0, parents });
        tips.push(n);
    }
    // shuffle
    for i in (1..tips.len()).rev() {
        let j = rng.below(i as u64 + 1) as usize;
        tips.swap(i, j);
    }
    match graph {
        0 => {}
        1 => {
            for i in 0..d.len() {
                d[i].gen = 1 + d[i].parents.iter().map(|p| d[*p].gen).max().unwrap_or(0);
            }
        }
        _ => assign_gens(rng, &mut d),
    }
    let ends = if with_end { vec![rng.below(d.len() as u64) as usize] } else { vec![] };
    Q {
        op: "topo".into(),
        opts: vec![sorting.into(), if first { "first" } else { "all" }.into()],
        cutoff: 0,
        tips,
        ends,
        rej: vec![],
        d,
    }
}

fn gen_many_tips(rng: &mut Rng) -> Q {
    let ntips = match rng.below(4) {
        0 => rng.range(18, 24),
        1 | 2 => rng.range(21, 45),
        _ => rng.range(40, 80),
    } as usize;
    let sorting = if rng.chance(2, 3) { "topo" } else { "date" };
    let first = rng.chance(1, 4);
    let graph = rng.below(3);
    let with_end = rng.chance(1, 4);
    many_tips(rng, ntips, sorting, first, graph, with_end)
}

fn gen_q(rng: &mut Rng) -> Q {
    if rng.chance(1, 12) {
        return gen_hidden_ladder(rng);
    }
    if rng.chance(1, 14) {
        return gen_many_tips(rng);
    }
    let mut d = gen_dag(rng);
    let n = d.len();
    // rare: a missing parent
    if rng.chance(1, 25) {
        let i = rng.below(n as u64) as usize;
        d[i].parents.push(n + rng.below(2) as usize);
    }
    assign_gens(rng, &mut d);
    let mut tips = pick_set(rng, n, 3, true);
    if tips.is_empty() && rng.chance(9, 10) {
        tips.push(n - 1);
    }
    if !rng.chance(1, 6) {
        let mut t2 = Vec::new();
        for t in tips {
            if !t2.contains(&t) {
                t2.push(t);
            }
        }
        tips = t2;
    }
    if rng.chance(1, 40) {
        tips.push(n + 3); // missing tip
    }
    let rej = if rng.chance(1, 5) { pick_set(rng, n, 2, false) } else { vec![] };
    let maxt = d.iter().map(|c| c.time).max().unwrap_or(0);
    let cutoff = rng.range(0, maxt + 1);
    if rng.chance(1, 2) {
        let sorting = *rng.pick(&["bfs", "new", "new", "old", "newcut", "oldcut"]);
        let parents = if rng.chance(1, 3) { "first" } else { "all" };
        let order = if rng.chance(1, 2) { "sp" } else { "ps" };
        Q {
            op: "simple".into(),
            opts: vec![sorting.into(), parents.into(), order.into()],
            cutoff,
            tips,
            ends: vec![],
            rej,
            d,
        }
    } else {
        let sorting = *rng.pick(&["date", "topo"]);
        let parents = if rng.chance(1, 4) { "first" } else { "all" };
        let ends = if rng.chance(1, 2) { pick_set(rng, n, 2, false) } else { vec![] };
        Q { op: "topo".into(), opts: vec![sorting.into(), parents.into()], cutoff: 0, tips, ends, rej, d }
    }
}

/// boundary block: small fixed histories (equal times, a merge, skewed dates) under every mode combination
fn fixed_block() -> Vec<Case> {
    let cm = |time: i64, parents: &[usize]| Cm { time, gen: 0, parents: parents.to_vec() };
    let dags: Vec<(Vec<Cm>, Vec<Vec<usize>>, Vec<Vec<usize>>)> = vec![
        // single commit
        (vec![cm(5, &[])], vec![vec![0], vec![0, 0], vec![]], vec![vec![], vec![0]]),
        // diamond, all times equal
        (
            vec![cm(7, &[]), cm(7, &[0]), cm(7, &[0]), cm(7, &[1, 2])],
            vec![vec![3], vec![1, 2], vec![2, 1, 2], vec![3, 0]],
            vec![vec![], vec![1], vec![3], vec![0]],
        ),
        // two branches with colliding times and a merge, unrelated root
        (
            vec![cm(10, &[]), cm(10, &[0]), cm(11, &[0]), cm(11, &[1, 2]), cm(5, &[3]), cm(11, &[])],
            vec![vec![4], vec![2, 5, 1], vec![5, 2, 3], vec![4, 4, 5]],
            vec![vec![], vec![1], vec![2, 5]],
        ),
        // skewed dates: the parent is newer than its children; the end reaches commit 1 through its second parent
        (
            vec![cm(30, &[]), cm(36, &[0]), cm(3, &[1]), cm(9, &[2]), cm(37, &[0, 3]), cm(1, &[2])],
            vec![vec![5], vec![5, 1], vec![4, 5]],
            vec![vec![], vec![4], vec![3]],
        ),
    ];
    let mut out = Vec::new();
    for (d, tipsets, endsets) in &dags {
        for with_graph in [false, true] {
            let mut d = d.clone();
            if with_graph {
                for i in 0..d.len() {
                    d[i].gen = 1 + d[i].parents.iter().map(|p| d[*p].gen).max().unwrap_or(0);
                }
            }
            for tips in tipsets {
                for sorting in ["bfs", "new", "old", "newcut", "oldcut"] {
                    for parents in ["all", "first"] {
                        for order in ["sp", "ps"] {
                            out.push(to_case(&Q {
                                op: "simple".into(),
                                opts: vec![sorting.into(), parents.into(), order.into()],
                                cutoff: 10,
                                tips: tips.clone(),
                                ends: vec![],
                                rej: vec![],
                                d: d.clone(),
                            }));
                        }
                    }
                }
                for ends in endsets {
                    for sorting in ["date", "topo"] {
                        for parents in ["all", "first"] {
                            out.push(to_case(&Q {
                                op: "topo".into(),
                                opts: vec![sorting.into(), parents.into()],
                                cutoff: 0,
                                tips: tips.clone(),
                                ends: ends.clone(),
                                rej: vec![],
                                d: d.clone(),
                            }));
                        }
                    }
                }
            }
        }
    }
    out
}

fn gen(rng: &mut Rng, n: usize) -> Vec<Case> {
    let mut out = fixed_block();
    // boundary: 20 / 21 / 22 / 40 / 80 tips, both orders, with and without commit-graph (own fixed stream)
    {
        let mut r = Rng::new(4747);
        for ntips in [20usize, 21, 22, 40, 80] {
            for sorting in ["topo", "date"] {
                for graph in [0u64, 1] {
                    out.push(to_case(&many_tips(&mut r, ntips, sorting, false, graph, false)));
                }
            }
        }
    }
    out.truncate(n);
    while out.len() < n {
        out.push(to_case(&gen_q(rng)));
    }
    out
}

fn main() {
    main_with(Harness { gen, imp, prop, git: Some(git_fn), deadline: Duration::from_secs(180) });
}
