(* C20 — the operation list of a transaction (prepare + commit) obeys the discipline of ProofsGeneric. *)
From Coq Require Import List NArith Bool Arith Lia.
From GixV.Base Require Import Bytes BytesFacts Outcome.
From GixV.C20 Require Import Model ProofsGeneric.
Import ListNotations.

Local Ltac split_all := repeat (rewrite forallb_app; apply andb_true_iff; split).

Lemma plain_lock_create n : plain (Create (lockp n)) = true.
Proof. cbn [plain]. rewrite lockp_unprotected. reflexivity. Qed.
Lemma plain_lock_remove n : plain (Remove (lockp n)) = true.
Proof. cbn [plain]. rewrite lockp_unprotected. reflexivity. Qed.
Lemma plain_lock_write n d : plain (Write (lockp n) d) = true.
Proof. cbn [plain]. rewrite lockp_unprotected. reflexivity. Qed.

Lemma mkdir_all_plain fuel : forall cs f, forallb plain (mkdir_all fuel cs f) = true.
Proof.
  induction fuel as [|k IH]; intros cs f; cbn [mkdir_all]; [reflexivity|].
  destruct cs as [|d rest]; [reflexivity|].
  destruct (exists_ d f).
  - destruct (is_dir d f); cbn [forallb plain]; [apply IH|reflexivity].
  - destruct (is_dir (parent d) f); cbn [forallb plain]; apply IH.
Qed.
Lemma rmdir_up_plain fuel : forall b d f, forallb plain (rmdir_up fuel b d f) = true.
Proof.
  induction fuel as [|k IH]; intros b d f; cbn [rmdir_up]; [reflexivity|].
  destruct (is_empty d); [reflexivity|].
  destruct (lookup d f) as [[|c]|]; try reflexivity.
  - destruct (has_children d f); [reflexivity|].
    destruct (bytes_eqb (parent d) b); cbn [forallb plain]; [reflexivity|apply IH].
  - destruct (bytes_eqb (parent d) b); cbn [forallb plain]; [reflexivity|apply IH].
Qed.
Lemma rmdir_upward_plain b d f : forallb plain (rmdir_upward b d f) = true.
Proof.
  unfold rmdir_upward. destruct (bytes_eqb d b); [reflexivity|].
  destruct (exists_ d f); [apply rmdir_up_plain|reflexivity].
Qed.
Lemma acquire_plain n f : forallb plain (acquire n f) = true.
Proof.
  unfold acquire. split_all; [apply mkdir_all_plain|]. cbn [forallb]. rewrite plain_lock_create. reflexivity.
Qed.
Lemma drop_lock_plain n f : forallb plain (drop_lock n f) = true.
Proof.
  unfold drop_lock. cbn [forallb]. rewrite plain_lock_remove. apply rmdir_upward_plain.
Qed.

Lemma lraac_plain f pbuf glob direct e :
  forallb plain (fst (lock_ref_and_apply_change f pbuf glob direct e)) = true.
Proof.
  unfold lock_ref_and_apply_change.
  assert (Hacq : forallb plain (if glob then [] else acquire (e_name e) f) = true)
    by (destruct glob; [reflexivity|apply acquire_plain]).
  assert (Hdrop : forall g, forallb plain (if glob then [] else drop_lock (e_name e) g) = true)
    by (intros g; destruct glob; [reflexivity|apply drop_lock_plain]).
  destruct (e_change e) as [log force expected new|expected log].
  - destruct (check_update expected new (find_in f pbuf (e_name e))); cbn [fst]; try exact Hacq.
    + destruct (find_in f pbuf (e_name e)) as [t|].
      * destruct (new_would_change_existing new t) as [eff sy].
        destruct ((eff && negb direct) || sy); cbn [fst].
        -- split_all; [exact Hacq|destruct glob; [apply acquire_plain|reflexivity]|].
           cbn [forallb]. rewrite plain_lock_write. reflexivity.
        -- split_all; [exact Hacq|apply Hdrop].
      * destruct ((true && negb direct) || is_sym new); cbn [fst].
        -- split_all; [exact Hacq|destruct glob; [apply acquire_plain|reflexivity]|].
           cbn [forallb]. rewrite plain_lock_write. reflexivity.
        -- split_all; [exact Hacq|apply Hdrop].
    + split_all; [exact Hacq|apply Hdrop].
  - destruct (check_delete expected (find_in f pbuf (e_name e))); cbn [fst]; try exact Hacq.
    split_all; [exact Hacq|apply Hdrop].
Qed.

Lemma drop_locks_plain ps : forall f, forallb plain (drop_locks ps f) = true.
Proof.
  induction ps as [|p r IH]; intros f; cbn [drop_locks]; [reflexivity|].
  split_all; [|apply IH]. destruct (pe_lock p); [apply drop_lock_plain|reflexivity].
Qed.

Definition pname (p : pedit) : bytes := e_name (pe p).

(* lock_ref_and_apply_change keeps the name *)
Lemma lraac_name f pbuf glob direct e p :
  snd (lock_ref_and_apply_change f pbuf glob direct e) = Ok p -> pname p = e_name e.
Proof.
  unfold lock_ref_and_apply_change, pname.
  destruct (e_change e) as [log force expected new|expected log].
  - destruct (check_update expected new (find_in f pbuf (e_name e))); cbn [snd]; try discriminate.
    destruct (find_in f pbuf (e_name e)) as [t|].
    + destruct (new_would_change_existing new t) as [eff sy].
      destruct ((eff && negb direct) || sy); cbn [snd]; intros H; apply Ok_inj in H; subst p; reflexivity.
    + destruct ((true && negb direct) || is_sym new); cbn [snd]; intros H; apply Ok_inj in H; subst p; reflexivity.
  - destruct (check_delete expected (find_in f pbuf (e_name e))); cbn [snd]; try discriminate.
    intros H; apply Ok_inj in H; subst p; reflexivity.
Qed.

Lemma apply_all_facts es : forall done f pbuf glob rl,
  forallb plain (fst (apply_all es done f pbuf glob rl)) = true /\
  (forall us, snd (apply_all es done f pbuf glob rl) = Ok us -> map pname us = rev (map pname done) ++ map e_name es).
Proof.
  induction es as [|e r IH]; intros done f pbuf glob rl; cbn [apply_all].
  - split; [reflexivity|]. cbn [snd]. intros us H. apply Ok_inj in H. subst us.
    rewrite map_rev, app_nil_r. reflexivity.
  - pose proof (lraac_plain f pbuf glob (rl && packable (e_name e)) e) as Hp.
    pose proof (lraac_name f pbuf glob (rl && packable (e_name e)) e) as Hn.
    destruct (lock_ref_and_apply_change f pbuf glob (rl && packable (e_name e)) e) as [o res].
    cbn [fst snd] in Hp, Hn. destruct res as [p|x| |].
    + specialize (IH (p :: done) (run_ops o f) pbuf glob rl).
      destruct (apply_all r (p :: done) (run_ops o f) pbuf glob rl) as [o2 res2]. cbn [fst snd] in *.
      destruct IH as [I1 I2]. split; [split_all; assumption|].
      intros us H. rewrite (I2 us H). cbn [map rev]. rewrite <- app_assoc. cbn [app].
      rewrite (Hn p eq_refl). reflexivity.
    + cbn [fst snd]. split; [split_all; [exact Hp|apply drop_locks_plain]|discriminate].
    + cbn [fst snd]. split; [exact Hp|discriminate].
    + cbn [fst snd]. split; [exact Hp|discriminate].
Qed.

Lemma plain_packed_lock_create : plain (Create packed_lock) = true. Proof. reflexivity. Qed.
Lemma plain_packed_lock_remove : plain (Remove packed_lock) = true. Proof. reflexivity. Qed.

Lemma prepare_facts f pmode edits :
  forallb plain (fst (prepare_inner f pmode edits)) = true /\
  (forall p, snd (prepare_inner f pmode edits) = Ok p ->
     map pname (p_updates p) = map e_name edits /\ has_dup (map e_name edits) = false).
Proof.
  unfold prepare_inner. destruct (has_dup (map e_name edits)) eqn:Hd; [split; [reflexivity|discriminate]|].
  set (ptxn := prepare_packed f pmode edits).
  set (glob := match ptxn with Some _ => true | None => false end).
  set (o0 := if glob then [Create packed_lock] else []).
  assert (H0 : forallb plain o0 = true) by (unfold o0; destruct glob; reflexivity).
  destruct (apply_all_facts edits [] (run_ops o0 f) (match ptxn with Some t => pt_buffer t | None => None end)
              glob (is_remove_loose pmode)) as [A1 A2].
  destruct (apply_all edits [] (run_ops o0 f) (match ptxn with Some t => pt_buffer t | None => None end)
              glob (is_remove_loose pmode)) as [o1 res]. cbn [fst snd] in *.
  destruct res as [us|x| |]; cbn [fst snd].
  - split; [split_all; assumption|]. intros p H. apply Ok_inj in H. subst p. cbn [p_updates].
    split; [apply (A2 us eq_refl)|reflexivity].
  - split; [|discriminate]. split_all; try assumption. destruct glob; reflexivity.
  - split; [split_all; assumption|discriminate].
  - split; [split_all; assumption|discriminate].
Qed.

(* ------------------------------------------------------------------ commit *)

Lemma plain_log_ops n cr d :
  plain (OpenAppend (logp n) cr) = true /\ plain (Append (logp n) d) = true /\ plain (Remove (logp n)) = true.
Proof. cbn [plain]. rewrite logp_unprotected. auto. Qed.

Lemma reflog_create_or_append_plain w f n previous new force :
  forallb plain (reflog_create_or_append w f n previous new force) = true.
Proof.
  unfold reflog_create_or_append. destruct w; [reflexivity| |].
  all: split_all; [match goal with |- context [if ?c then _ else _] => destruct c end; [apply mkdir_all_plain|reflexivity]
                  |cbn [forallb]; rewrite (proj1 (plain_log_ops n _ [])); reflexivity
                  |match goal with |- context [match ?c with Some _ => _ | None => _ end] => destruct c end;
                   [cbn [forallb]; rewrite (proj1 (proj2 (plain_log_ops n true _))); reflexivity|reflexivity]].
Qed.
Lemma reflog_ops_plain w f n force expected new : forallb plain (reflog_ops w f n force expected new) = true.
Proof.
  unfold reflog_ops.
  destruct new as [t|c].
  - destruct expected as [| | |t'|[t'|o]]; try reflexivity.
    destruct (negb (beqb zero_id o)); [apply reflog_create_or_append_plain|reflexivity].
  - destruct expected as [| | |[t'|o]|t']; try apply reflog_create_or_append_plain.
    destruct (negb (beqb o c)); [apply reflog_create_or_append_plain|reflexivity].
Qed.

Lemma reflog_deletes_plain ps : forall f, forallb plain (reflog_deletes f ps) = true.
Proof.
  induction ps as [|p r IH]; intros f; cbn [reflog_deletes]; [reflexivity|].
  split_all; [|apply IH]. unfold reflog_delete_one.
  destruct (e_change (pe p)); [reflexivity|].
  destruct (lookup_file (logp (e_name (pe p))) f); cbn [forallb];
    rewrite (proj2 (proj2 (plain_log_ops (e_name (pe p)) true []))); [apply rmdir_upward_plain|reflexivity].
Qed.

Definition name_ok (n : bytes) : bool := negb (bytes_eqb n packed_path).

Lemma plain_a o : plain o = true -> a_op o = true.
Proof. intros H. unfold a_op. rewrite H. reflexivity. Qed.
Lemma plain_c rn o : plain o = true -> c_op rn o = true.
Proof. intros H. unfold c_op. rewrite H. reflexivity. Qed.
Lemma forallb_plain_a l : forallb plain l = true -> forallb a_op l = true.
Proof. rewrite !forallb_forall. intros H x Hx. apply plain_a, H, Hx. Qed.
Lemma forallb_plain_c rn l : forallb plain l = true -> forallb (c_op rn) l = true.
Proof. rewrite !forallb_forall. intros H x Hx. apply plain_c, H, Hx. Qed.
Lemma plain_no_targets l : forallb plain l = true -> targets l = [].
Proof.
  induction l as [|o l IH]; [reflexivity|]. cbn [forallb]. intros H. apply andb_true_iff in H. destruct H as [Ho Hl].
  unfold targets. cbn [flat_map]. fold (targets l). rewrite (IH Hl).
  destruct o; try reflexivity. discriminate.
Qed.

(* first loop, one edit *)
Lemma update_one_facts w rl f p : name_ok (pname p) = true ->
  let '(o, p') := update_one w rl f p in
  forallb a_op o = true /\ pe p' = pe p /\ targets o = (if renames rl p then [pname p] else []).
Proof.
  intros Hn. unfold update_one, renames, pname in *.
  destruct (e_change (pe p)) as [log force expected new|expected log]; [|repeat split; reflexivity].
  pose proof (reflog_ops_plain w f (e_name (pe p)) force expected new) as Hr.
  destruct (keeps_lock_for_packed rl (pe p)); cbn [negb andb].
  - repeat split; [apply forallb_plain_a, Hr|apply plain_no_targets, Hr].
  - destruct (pe_lock p).
    + destruct log; cbn [logmode_eqb andb].
      * repeat split.
        -- rewrite forallb_app. apply andb_true_iff. split; [apply forallb_plain_a, Hr|].
           cbn [forallb a_op plain orb]. rewrite lockp_unprotected. unfold name_ok in Hn. rewrite Hn. reflexivity.
        -- rewrite targets_app, (plain_no_targets _ Hr). reflexivity.
      * repeat split.
        -- apply forallb_plain_a. split_all; [exact Hr|apply drop_lock_plain].
        -- apply plain_no_targets. split_all; [exact Hr|apply drop_lock_plain].
    + rewrite andb_false_r. repeat split; [apply forallb_plain_a, Hr|apply plain_no_targets, Hr].
Qed.

Lemma commit_updates_facts w rl ps : forall f, forallb name_ok (map pname ps) = true ->
  let '(o, us) := commit_updates w rl f ps in
  forallb a_op o = true /\ map pe us = map pe ps /\ targets o = map pname (filter (renames rl) ps).
Proof.
  induction ps as [|p r IH]; intros f Hn; cbn [commit_updates]; [repeat split; reflexivity|].
  cbn [map forallb] in Hn. apply andb_true_iff in Hn. destruct Hn as [Hp Hr].
  pose proof (update_one_facts w rl f p Hp) as U. destruct (update_one w rl f p) as [o p'].
  destruct U as [U1 [U2 U3]].
  specialize (IH (run_ops o f) Hr). destruct (commit_updates w rl (run_ops o f) r) as [o2 r'].
  destruct IH as [I1 [I2 I3]]. repeat split.
  - rewrite forallb_app, U1, I1. reflexivity.
  - cbn [map]. rewrite U2, I2. reflexivity.
  - rewrite targets_app, U3, I3. cbn [filter]. destruct (renames rl p); reflexivity.
Qed.

(* an edit that is renamed into place in the first loop is not removed in the last one *)
Lemma renames_not_removes rl p p' : pe p' = pe p -> renames rl p = true -> removes rl p' = false.
Proof.
  unfold renames, removes, keeps_lock_for_packed. intros ->.
  destruct (e_change (pe p)) as [log force expected new|expected log]; [|discriminate].
  destruct rl; cbn [andb negb]; [|reflexivity].
  destruct log; cbn [logmode_eqb andb]; [|intros; reflexivity].
  destruct (negb (is_sym new) && packable (e_name (pe p))) eqn:E; cbn [negb andb]; [discriminate|].
  intros _. reflexivity.
Qed.

Lemma delete_one_facts rl rn f p :
  (removes rl p = true -> ~ In (pname p) rn /\ name_ok (pname p) = true) ->
  forallb (c_op rn) (fst (delete_one rl f p)) = true.
Proof.
  intros H. unfold delete_one. destruct (removes rl p); [|reflexivity].
  destruct (H eq_refl) as [Hin Hok]. cbn [fst forallb].
  apply andb_true_iff. split.
  - unfold c_op. cbn [plain]. fold (pname p). unfold name_ok in Hok. rewrite Hok.
    destruct (mem (pname p) rn) eqn:M; [apply mem_In in M; contradiction|]. cbn. apply orb_true_r.
  - destruct (pe_lock p); [apply forallb_plain_c, drop_lock_plain|reflexivity].
Qed.
Lemma commit_deletes_facts rl rn ps : forall f,
  (forall p, In p ps -> removes rl p = true -> ~ In (pname p) rn /\ name_ok (pname p) = true) ->
  forallb (c_op rn) (fst (commit_deletes rl f ps)) = true.
Proof.
  induction ps as [|p r IH]; intros f H; cbn [commit_deletes]; [reflexivity|].
  pose proof (delete_one_facts rl rn f p (H p (or_introl eq_refl))) as D.
  destruct (delete_one rl f p) as [o p']. cbn [fst] in D.
  specialize (IH (run_ops o f) (fun x Hx => H x (or_intror Hx))).
  destruct (commit_deletes rl (run_ops o f) r) as [o2 r']. cbn [fst] in *.
  rewrite forallb_app, D, IH. reflexivity.
Qed.

Lemma has_dup_NoDup l : has_dup l = false -> NoDup l.
Proof.
  induction l as [|x r IH]; cbn [has_dup]; intros H; [constructor|].
  apply orb_false_elim in H. destruct H as [Hm Hd]. constructor; [|apply IH, Hd].
  intros X. apply mem_In in X. congruence.
Qed.
Lemma NoDup_filter_map {X} (g : X -> bytes) (h : X -> bool) l : NoDup (map g l) -> NoDup (map g (filter h l)).
Proof.
  induction l as [|x r IH]; cbn [map filter]; intros H; [constructor|].
  inversion H as [|? ? Hx Hr]. subst. destruct (h x); [|apply IH, Hr].
  cbn [map]. constructor; [|apply IH, Hr].
  intros Y. apply Hx. apply in_map_iff in Y. destruct Y as [y [Ey Hy]]. apply filter_In in Hy.
  apply in_map_iff. exists y. tauto.
Qed.
Lemma NoDup_map_eq {X} (g : X -> bytes) l a b : NoDup (map g l) -> In a l -> In b l -> g a = g b -> a = b.
Proof.
  induction l as [|x r IH]; cbn [map]; intros H Ha Hb E; [destruct Ha|].
  inversion H as [|? ? Hx Hr]. subst. destruct Ha as [->|Ha]; destruct Hb as [->|Hb]; auto.
  - exfalso. apply Hx. rewrite E. apply in_map. exact Hb.
  - exfalso. apply Hx. rewrite <- E. apply in_map. exact Ha.
Qed.

Lemma packed_commit_facts f t :
  let '(pa, pp, pc, _) := packed_commit f t in
  forallb plain pa = true /\ p_ok pp /\ forallb plain pc = true.
Proof.
  unfold packed_commit. destruct (pt_edits t) as [|e es]; [repeat split; left; reflexivity|].
  set (chunks := merge_edits _ _).
  assert (Hw : forallb plain (Write packed_lock header_line :: map (fun c => Write packed_lock (fst c)) chunks) = true).
  { cbn [forallb]. apply andb_true_iff. split; [reflexivity|].
    induction chunks as [|c r IH]; [reflexivity|]. cbn [map forallb]. rewrite IH. reflexivity. }
  destruct (existsb snd chunks).
  - repeat split; [exact Hw|right; left; reflexivity].
  - destruct (lookup_file packed_path f); repeat split; try exact Hw; right; right; reflexivity.
Qed.

Theorem commit_discipline w pmode f p :
  NoDup (map pname (p_updates p)) -> forallb name_ok (map pname (p_updates p)) = true ->
  let ph := commit_inner w pmode f p in
  exists A', discipline A' (ph_p ph) (ph_c ph) /\ ph_a ph = A' /\
             targets A' = map pname (filter (renames (is_remove_loose pmode)) (p_updates p)).
Proof.
  intros Hnd Hok. unfold commit_inner.
  set (rl := is_remove_loose pmode).
  pose proof (commit_updates_facts w rl (p_updates p) f Hok) as U.
  destruct (commit_updates w rl f (p_updates p)) as [o1 us1]. destruct U as [U1 [U2 U3]].
  pose proof (reflog_deletes_plain us1 (run_ops o1 f)) as R.
  set (o2 := reflog_deletes (run_ops o1 f) us1) in *.
  (* the last loop only removes names that the first loop did not rename *)
  assert (Hdel : forall x, In x us1 -> removes rl x = true ->
                   ~ In (pname x) (map pname (filter (renames rl) (p_updates p))) /\ name_ok (pname x) = true).
  { intros x Hx Hr.
    assert (Hpe : In (pe x) (map pe (p_updates p))) by (rewrite <- U2; apply in_map; exact Hx).
    apply in_map_iff in Hpe. destruct Hpe as [y [Ey Hy]].
    assert (Hname : pname y = pname x) by (unfold pname; rewrite Ey; reflexivity).
    split.
    - intros Hin. apply in_map_iff in Hin. destruct Hin as [z [Ez Hz]]. apply filter_In in Hz. destruct Hz as [Hz Hzr].
      assert (z = y) by (apply (NoDup_map_eq pname (p_updates p)); auto; congruence). subst z.
      rewrite (renames_not_removes rl y x (eq_sym Ey) Hzr) in Hr. discriminate.
    - rewrite <- Hname. rewrite forallb_forall in Hok. apply Hok. apply in_map. exact Hy. }
  assert (Hnd' : NoDup (map pname (filter (renames rl) (p_updates p)))) by (apply NoDup_filter_map; exact Hnd).
  destruct (p_packed p) as [t|].
  - pose proof (packed_commit_facts (run_ops o2 (run_ops o1 f)) t) as PC.
    destruct (packed_commit (run_ops o2 (run_ops o1 f)) t) as [[[pa pp] pc] perr].
    destruct PC as [P1 [P2 P3]].
    assert (TA : targets (o1 ++ o2 ++ pa) = map pname (filter (renames rl) (p_updates p))).
    { rewrite !targets_app, U3, (plain_no_targets _ R), (plain_no_targets _ P1), !app_nil_r. reflexivity. }
    assert (DA : forallb a_op (o1 ++ o2 ++ pa) = true).
    { rewrite !forallb_app, U1, (forallb_plain_a _ R), (forallb_plain_a _ P1). reflexivity. }
    destruct perr as [e|].
    + cbn [ph_a ph_p ph_c]. eexists. split; [|split; [reflexivity|exact TA]].
      constructor; [exact DA|rewrite TA; exact Hnd'|exact P2|].
      rewrite forallb_app. apply andb_true_iff. split; apply forallb_plain_c; [exact P3|apply drop_locks_plain].
    + pose proof (commit_deletes_facts rl (targets (o1 ++ o2 ++ pa)) us1
                    (run_ops (pa ++ pp ++ pc) (run_ops o2 (run_ops o1 f)))) as D.
      destruct (commit_deletes rl (run_ops (pa ++ pp ++ pc) (run_ops o2 (run_ops o1 f))) us1) as [o4 us4].
      cbn [fst] in D. cbn [ph_a ph_p ph_c]. eexists. split; [|split; [reflexivity|exact TA]].
      constructor; [exact DA|rewrite TA; exact Hnd'|exact P2|].
      rewrite !forallb_app. apply andb_true_iff. split; [apply forallb_plain_c, P3|].
      apply andb_true_iff. split; [|apply forallb_plain_c, drop_locks_plain].
      apply D. rewrite TA. exact Hdel.
  - pose proof (commit_deletes_facts rl (targets (o1 ++ o2)) us1 (run_ops o2 (run_ops o1 f))) as D.
    destruct (commit_deletes rl (run_ops o2 (run_ops o1 f)) us1) as [o4 us4]. cbn [fst] in D.
    assert (TA : targets (o1 ++ o2) = map pname (filter (renames rl) (p_updates p))).
    { rewrite !targets_app, U3, (plain_no_targets _ R), !app_nil_r. reflexivity. }
    cbn [ph_a ph_p ph_c]. eexists. split; [|split; [reflexivity|exact TA]].
    constructor.
    + rewrite !forallb_app, U1, (forallb_plain_a _ R). reflexivity.
    + rewrite TA. exact Hnd'.
    + left. reflexivity.
    + rewrite forallb_app. apply andb_true_iff. split; [|apply forallb_plain_c, drop_locks_plain].
      apply D. rewrite TA. exact Hdel.
Qed.

Definition names_ok (edits : list edit) : bool := forallb name_ok (map e_name edits).

Lemma discipline_prepend X A P C : forallb plain X = true -> discipline A P C -> discipline (X ++ A) P C.
Proof.
  intros HX [Da Dn Dp Dc]. pose proof (plain_no_targets _ HX) as T.
  constructor.
  - rewrite forallb_app, (forallb_plain_a _ HX), Da. reflexivity.
  - rewrite targets_app, T. exact Dn.
  - exact Dp.
  - rewrite targets_app, T. exact Dc.
Qed.

Theorem txn_discipline w pmode f edits : names_ok edits = true ->
  let ph := txn_phases w pmode f edits in discipline (ph_a ph) (ph_p ph) (ph_c ph).
Proof.
  intros Hok. unfold txn_phases.
  destruct (prepare_facts f pmode edits) as [Hplain Hres].
  destruct (prepare_inner f pmode edits) as [o0 res]. cbn [fst snd] in *.
  assert (Hfail : discipline o0 [] []).
  { constructor; [apply forallb_plain_a, Hplain|rewrite (plain_no_targets _ Hplain); constructor|left; reflexivity|reflexivity]. }
  destruct res as [p|x| |]; cbn [ph_a ph_p ph_c]; try exact Hfail.
  destruct (Hres p eq_refl) as [Hnames Hdup].
  assert (Hnd : NoDup (map pname (p_updates p))) by (rewrite Hnames; apply has_dup_NoDup, Hdup).
  assert (Hok' : forallb name_ok (map pname (p_updates p)) = true) by (rewrite Hnames; exact Hok).
  destruct (commit_discipline w pmode (run_ops o0 f) p Hnd Hok') as [A' [D [EA _]]].
  rewrite EA. apply discipline_prepend; assumption.
Qed.
