(* C20 — the generic crash-consistency argument: an operation list that is made of
     A: operations on lock files, reflogs and directories, and renames INTO place (each target at most once),
     P: at most one operation that replaces or removes packed-refs,
     C: operations on lock files, reflogs and directories, and removals of loose files that A did not rename,
   leaves, after EVERY prefix, each protected file in its old or its new state, and makes every reference read
   (loose file first, then packed-refs) as before or as after the whole list. *)
From Coq Require Import List NArith Bool Arith Lia.
From GixV.Base Require Import Bytes BytesFacts Outcome.
From GixV.C20 Require Import Model.
Import ListNotations.

(* ------------------------------------------------------------------ the finite map *)

Lemma beq_refl p : bytes_eqb p p = true.
Proof. apply bytes_eqb_eq. reflexivity. Qed.
Lemma beq_sym p q : bytes_eqb p q = bytes_eqb q p.
Proof.
  destruct (bytes_eqb p q) eqn:E; destruct (bytes_eqb q p) eqn:F; try reflexivity.
  - apply bytes_eqb_eq in E. subst. rewrite beq_refl in F. discriminate.
  - apply bytes_eqb_eq in F. subst. rewrite beq_refl in E. discriminate.
Qed.
Lemma beq_false p q : p <> q -> bytes_eqb p q = false.
Proof. intros H. destruct (bytes_eqb p q) eqn:E; [|reflexivity]. apply bytes_eqb_eq in E. contradiction. Qed.

Lemma lookup_del q p f : lookup q (del p f) = if bytes_eqb q p then None else lookup q f.
Proof.
  induction f as [|[k v] r IH]; cbn [del lookup].
  - destruct (bytes_eqb q p); reflexivity.
  - destruct (bytes_eqb p k) eqn:E.
    + apply bytes_eqb_eq in E. subst k. rewrite IH. destruct (bytes_eqb q p); reflexivity.
    + cbn [lookup]. rewrite IH. destruct (bytes_eqb q k) eqn:F; [|reflexivity].
      apply bytes_eqb_eq in F. subst k. rewrite beq_sym, E. reflexivity.
Qed.
Lemma lookup_set q p v f : lookup q (set p v f) = if bytes_eqb q p then Some v else lookup q f.
Proof.
  unfold set. cbn [lookup]. destruct (bytes_eqb q p) eqn:E; [reflexivity|].
  rewrite lookup_del, E. reflexivity.
Qed.

(* ------------------------------------------------------------------ protected paths *)

Definition ends_with_lock (p : bytes) : bool := starts_with (rev dot_lock) (rev p).
(* neither a lock file nor below logs/: loose references, packed-refs, anything else *)
Definition protected (p : bytes) : bool := negb (ends_with_lock p) && negb (starts_with (bs "logs/") p).

Lemma starts_with_app p s : starts_with p (p ++ s) = true.
Proof.
  induction p as [|a p IH]; cbn [starts_with app]; [reflexivity|].
  rewrite IH. replace (beqb a a) with true by (symmetry; apply beqb_eq; reflexivity). reflexivity.
Qed.
Lemma lockp_unprotected n : protected (lockp n) = false.
Proof.
  unfold protected, ends_with_lock, lockp. rewrite rev_app_distr, starts_with_app. reflexivity.
Qed.
Lemma logp_unprotected n : protected (logp n) = false.
Proof.
  unfold protected, logp. rewrite starts_with_app. apply andb_false_r.
Qed.

(* an operation that changes no protected file and is not a rename *)
Definition plain (o : op) : bool :=
  match o with
  | Mkdir _ | Rmdir _ => true
  | Create p | Write p _ | Remove p | OpenAppend p _ | Append p _ => negb (protected p)
  | Rename _ _ => false
  end.

Lemma neq_of_protected q p : protected q = true -> protected p = false -> bytes_eqb q p = false.
Proof.
  intros Hq Hp. destruct (bytes_eqb q p) eqn:E; [|reflexivity].
  apply bytes_eqb_eq in E. subst. congruence.
Qed.

Lemma plain_keeps q o f : plain o = true -> protected q = true -> lookup_file q (exec o f) = lookup_file q f.
Proof.
  intros Hp Hq. unfold lookup_file.
  destruct o as [p|p|p|p d|a b|p|p cr|p d]; cbn [plain] in Hp; try discriminate; cbn [exec].
  - (* Mkdir *)
    destruct (exists_ p f) eqn:E; [reflexivity|]. destruct (is_dir (parent p) f); [|reflexivity].
    rewrite lookup_set. destruct (bytes_eqb q p) eqn:F; [|reflexivity].
    apply bytes_eqb_eq in F. subst p. unfold exists_ in E. apply orb_false_elim in E. destruct E as [_ E].
    destruct (lookup q f); [discriminate|reflexivity].
  - (* Rmdir *)
    destruct (lookup p f) as [[|c]|] eqn:E; try reflexivity.
    destruct (has_children p f); [reflexivity|]. rewrite lookup_del.
    destruct (bytes_eqb q p) eqn:F; [|reflexivity]. apply bytes_eqb_eq in F. subst p. rewrite E. reflexivity.
  - (* Create *)
    apply negb_true_iff in Hp. destruct (exists_ p f); [reflexivity|].
    rewrite lookup_set, (neq_of_protected q p Hq Hp). reflexivity.
  - (* Write *)
    apply negb_true_iff in Hp. destruct (lookup p f) as [[|c]|]; try reflexivity.
    rewrite lookup_set, (neq_of_protected q p Hq Hp). reflexivity.
  - (* Remove *)
    apply negb_true_iff in Hp. destruct (lookup p f) as [[|c]|]; try reflexivity.
    rewrite lookup_del, (neq_of_protected q p Hq Hp). reflexivity.
  - (* OpenAppend *)
    apply negb_true_iff in Hp. destruct (cr && negb (exists_ p f)); [|reflexivity].
    rewrite lookup_set, (neq_of_protected q p Hq Hp). reflexivity.
  - (* Append *)
    apply negb_true_iff in Hp. destruct (lookup p f) as [[|c]|]; try reflexivity.
    rewrite lookup_set, (neq_of_protected q p Hq Hp). reflexivity.
Qed.

(* ------------------------------------------------------------------ the discipline *)

Definition a_op (o : op) : bool :=
  plain o || match o with
             | Rename a b => negb (protected a) && negb (bytes_eqb b packed_path)
             | _ => false
             end.
Definition c_op (rn : list bytes) (o : op) : bool :=
  plain o || match o with
             | Remove r => negb (mem r rn) && negb (bytes_eqb r packed_path)
             | _ => false
             end.
Definition p_ok (P : list op) : Prop :=
  P = [] \/ P = [Rename packed_lock packed_path] \/ P = [Remove packed_path].
Definition target_of (o : op) : list bytes := match o with Rename _ b => [b] | _ => [] end.
Definition targets (A : list op) : list bytes := flat_map target_of A.

Record discipline (A P C : list op) : Prop := mkDiscipline {
  d_a : forallb a_op A = true;
  d_nodup : NoDup (targets A);
  d_p : p_ok P;
  d_c : forallb (c_op (targets A)) C = true }.

Lemma mem_In k l : mem k l = true <-> In k l.
Proof.
  induction l as [|x r IH]; cbn [mem In]; [split; [discriminate|tauto]|].
  rewrite orb_true_iff, IH, bytes_eqb_eq. split; intros [H|H]; auto.
Qed.

Lemma run_ops_app a b f : run_ops (a ++ b) f = run_ops b (run_ops a f).
Proof. unfold run_ops. apply fold_left_app. Qed.

Section OnePath.
  Variable q : bytes.
  Hypothesis Hq : protected q = true.
  Hypothesis Hqp : q <> packed_path.
  Let L (f : fs) := lookup_file q f.
  Let K (f : fs) := lookup_file packed_path f.

  Lemma packed_protected : protected packed_path = true.
  Proof. reflexivity. Qed.

  (* one A operation: packed-refs untouched; the file is unchanged, or it is the target of the rename and now there
     (or unchanged) *)
  Lemma a_step o f : a_op o = true ->
    K (exec o f) = K f /\ (L (exec o f) = L f \/ ((exists c, L (exec o f) = Some c) /\ In q (target_of o))).
  Proof.
    intros H. unfold a_op in H. apply orb_true_iff in H. destruct H as [H|H].
    - split; [apply plain_keeps; [exact H|reflexivity]|]. left. apply plain_keeps; assumption.
    - destruct o as [p|p|p|p d|a b|p|p cr|p d]; try discriminate.
      apply andb_true_iff in H. destruct H as [Ha Hb]. apply negb_true_iff in Ha, Hb.
      unfold K, L, lookup_file. cbn [exec target_of].
      destruct (lookup a f) as [[|c]|] eqn:Ea; try (split; [reflexivity|left; reflexivity]).
      destruct (lookup b f) as [[|c']|] eqn:Eb; try (split; [reflexivity|left; reflexivity]).
      + rewrite !lookup_set, !lookup_del. rewrite (beq_sym packed_path b), Hb.
        rewrite (neq_of_protected packed_path a packed_protected Ha). split; [reflexivity|].
        destruct (bytes_eqb q b) eqn:F.
        * right. split; [eexists; reflexivity|]. apply bytes_eqb_eq in F. left. auto.
        * left. rewrite (neq_of_protected q a Hq Ha). reflexivity.
      + rewrite !lookup_set, !lookup_del. rewrite (beq_sym packed_path b), Hb.
        rewrite (neq_of_protected packed_path a packed_protected Ha). split; [reflexivity|].
        destruct (bytes_eqb q b) eqn:F.
        * right. split; [eexists; reflexivity|]. apply bytes_eqb_eq in F. left. auto.
        * left. rewrite (neq_of_protected q a Hq Ha). reflexivity.
  Qed.

  Lemma a_steps A : forall f, forallb a_op A = true ->
    K (run_ops A f) = K f /\
    (L (run_ops A f) = L f \/ ((exists c, L (run_ops A f) = Some c) /\ In q (targets A))) /\
    (~ In q (targets A) -> L (run_ops A f) = L f).
  Proof.
    induction A as [|o A IH]; intros f H; cbn [forallb] in H.
    - cbn. repeat split; auto.
    - apply andb_true_iff in H. destruct H as [Ho HA].
      change (run_ops (o :: A) f) with (run_ops A (exec o f)).
      destruct (IH (exec o f) HA) as [IK [IL IN]]. destruct (a_step o f Ho) as [SK SL].
      unfold targets. cbn [flat_map]. fold (targets A).
      split; [congruence|]. split.
      + destruct IL as [IL|[IL Hin]].
        * destruct SL as [SL|[SL Hin]]; [left; congruence|].
          right. split; [rewrite IL; exact SL|]. apply in_or_app. left. exact Hin.
        * right. split; [exact IL|]. apply in_or_app. right. exact Hin.
      + intros Hn. rewrite IN by (intros X; apply Hn; apply in_or_app; right; exact X).
        destruct SL as [SL|[_ Hin]]; [exact SL|]. exfalso. apply Hn. apply in_or_app. left. exact Hin.
  Qed.

  (* the packed-refs operation does not touch the file *)
  Lemma p_steps P f : p_ok P -> L (run_ops P f) = L f.
  Proof.
    intros [->|[->| ->]]; [reflexivity| |]; unfold L, lookup_file, run_ops; cbn [fold_left exec].
    - destruct (lookup packed_lock f) as [[|c]|]; try reflexivity.
      destruct (lookup packed_path f) as [[|c']|]; try reflexivity;
        rewrite lookup_set, lookup_del, (beq_false q packed_path Hqp), (neq_of_protected q packed_lock Hq eq_refl);
        reflexivity.
    - destruct (lookup packed_path f) as [[|c]|]; try reflexivity.
      rewrite lookup_del, (beq_false q packed_path Hqp). reflexivity.
  Qed.

  Lemma c_step rn o f : c_op rn o = true ->
    K (exec o f) = K f /\ (L (exec o f) = L f \/ (L (exec o f) = None /\ ~ In q rn)).
  Proof.
    intros H. unfold c_op in H. apply orb_true_iff in H. destruct H as [H|H].
    - split; [apply plain_keeps; [exact H|reflexivity]|]. left. apply plain_keeps; assumption.
    - destruct o as [p|p|p|p d|a b|p|p cr|p d]; try discriminate.
      apply andb_true_iff in H. destruct H as [Hm Hb]. apply negb_true_iff in Hm, Hb.
      unfold K, L, lookup_file. cbn [exec].
      destruct (lookup p f) as [[|c]|] eqn:Ep; try (split; [reflexivity|left; reflexivity]).
      rewrite !lookup_del. rewrite (beq_sym packed_path p), Hb. split; [reflexivity|].
      destruct (bytes_eqb q p) eqn:F; [|left; reflexivity].
      right. split; [reflexivity|]. apply bytes_eqb_eq in F. subst p. intros X. apply mem_In in X. congruence.
  Qed.

  Lemma c_steps rn C : forall f, forallb (c_op rn) C = true ->
    K (run_ops C f) = K f /\
    (L (run_ops C f) = L f \/ (L (run_ops C f) = None /\ ~ In q rn)) /\
    (L f = None -> L (run_ops C f) = None).
  Proof.
    induction C as [|o C IH]; intros f H; cbn [forallb] in H.
    - cbn. repeat split; auto.
    - apply andb_true_iff in H. destruct H as [Ho HC].
      change (run_ops (o :: C) f) with (run_ops C (exec o f)).
      destruct (IH (exec o f) HC) as [IK [IL IN]]. destruct (c_step rn o f Ho) as [SK SL].
      split; [congruence|]. split.
      + destruct IL as [IL|[IL Hn]]; [|right; split; assumption].
        destruct SL as [SL|[SL Hn]]; [left; congruence|]. right. split; [congruence|exact Hn].
      + intros H0. apply IN. destruct SL as [SL|[SL _]]; congruence.
  Qed.

  (* reading a reference: the loose file wins, otherwise packed-refs is consulted — with ANY way of decoding *)
  Context {V : Type} (ld : bytes -> V) (pk : option bytes -> V).
  Definition read_gen (f : fs) : V :=
    match L f with Some c => ld c | None => pk (K f) end.

  Lemma firstn_app3 {X} n (A P C : list X) :
    (exists A1 A2, A = A1 ++ A2 /\ firstn n (A ++ P ++ C) = A1) \/
    (exists P1 P2, P = P1 ++ P2 /\ firstn n (A ++ P ++ C) = A ++ P1) \/
    (exists C1 C2, C = C1 ++ C2 /\ firstn n (A ++ P ++ C) = A ++ P ++ C1).
  Proof.
    destruct (le_lt_dec n (length A)) as [H|H].
    - left. exists (firstn n A), (skipn n A). split; [symmetry; apply firstn_skipn|].
      rewrite firstn_app. replace (n - length A) with 0 by lia. cbn. apply app_nil_r.
    - right. rewrite firstn_app. rewrite (firstn_all2 A) by lia.
      destruct (le_lt_dec (n - length A) (length P)) as [H2|H2].
      + left. exists (firstn (n - length A) P), (skipn (n - length A) P). split; [symmetry; apply firstn_skipn|].
        rewrite firstn_app. replace (n - length A - length P) with 0 by lia. cbn. rewrite app_nil_r. reflexivity.
      + right. rewrite firstn_app. rewrite (firstn_all2 P) by lia.
        exists (firstn (n - length A - length P) C), (skipn (n - length A - length P) C).
        split; [symmetry; apply firstn_skipn|reflexivity].
  Qed.

  Lemma targets_app a b : targets (a ++ b) = targets a ++ targets b.
  Proof. unfold targets. apply flat_map_app. Qed.
  Lemma forallb_app_l {X} (g : X -> bool) a b : forallb g (a ++ b) = true -> forallb g a = true /\ forallb g b = true.
  Proof. rewrite forallb_app. apply andb_true_iff. Qed.

  Theorem file_old_or_new A P C f n : discipline A P C ->
    let f' := run_ops (firstn n (A ++ P ++ C)) f in
    let fin := run_ops (A ++ P ++ C) f in
    L f' = L f \/ L f' = L fin.
  Proof.
    intros [Da Dn Dp Dc] f' fin. subst f' fin.
    assert (Hfin : L (run_ops (A ++ P ++ C) f) = L (run_ops C (run_ops P (run_ops A f)))).
    { rewrite !run_ops_app. reflexivity. }
    destruct (a_steps A f Da) as [AK [AL AN]].
    destruct (c_steps (targets A) C (run_ops P (run_ops A f)) Dc) as [CK [CL CN]].
    destruct (firstn_app3 n A P C) as [(A1 & A2 & EA & ->)|[(P1 & P2 & EP & ->)|(C1 & C2 & EC & ->)]].
    - (* inside A *)
      subst A. apply forallb_app_l in Da. destruct Da as [Da1 Da2].
      destruct (a_steps A1 f Da1) as [_ [AL1 _]]. destruct AL1 as [AL1|[_ Hin]]; [left; exact AL1|].
      right. rewrite Hfin. rewrite targets_app in Dn.
      assert (Hn2 : ~ In q (targets A2)).
      { intros X. clear -Dn Hin X. induction (targets A1) as [|x r IH]; [destruct Hin|].
        cbn in Dn. inversion Dn as [|? ? Hx Hr]. subst. destruct Hin as [->|Hin].
        - apply Hx. apply in_or_app. right. exact X.
        - apply IH; assumption. }
      rewrite run_ops_app. destruct (a_steps A2 (run_ops A1 f) Da2) as [_ [_ AN2]].
      rewrite <- (AN2 Hn2).
      destruct CL as [CL|[_ Hnot]].
      + rewrite run_ops_app in CL. rewrite CL, (p_steps P _ Dp). reflexivity.
      + exfalso. apply Hnot. rewrite targets_app. apply in_or_app. left. exact Hin.
    - (* at the packed-refs operation *)
      rewrite run_ops_app.
      assert (HP1 : p_ok P1).
      { assert (Hlen : length P <= 1) by (destruct Dp as [->|[->| ->]]; cbn; lia).
        destruct P1 as [|x P1']; [left; reflexivity|].
        assert (P2 = [] /\ P1' = []) as [-> ->].
        { rewrite EP in Hlen. rewrite app_length in Hlen. cbn in Hlen.
          destruct P1'; destruct P2; cbn in Hlen; try lia. auto. }
        rewrite app_nil_r in EP. rewrite <- EP. exact Dp. }
      rewrite (p_steps P1 _ HP1).
      destruct AL as [AL|[_ Hin]]; [left; exact AL|].
      right. rewrite Hfin. destruct CL as [CL|[_ Hnot]]; [|contradiction].
      rewrite CL, (p_steps P _ Dp). reflexivity.
    - (* inside C *)
      subst C. clear Hfin. rewrite !run_ops_app. rewrite run_ops_app in CL.
      apply forallb_app_l in Dc. destruct Dc as [Dc1 Dc2].
      destruct (c_steps (targets A) C1 (run_ops P (run_ops A f)) Dc1) as [_ [CL1 _]].
      destruct (c_steps (targets A) C2 (run_ops C1 (run_ops P (run_ops A f))) Dc2) as [_ [_ CN2]].
      destruct CL1 as [CL1|[CL1 _]].
      + rewrite CL1, (p_steps P _ Dp).
        destruct AL as [AL|[_ Hin]]; [left; exact AL|].
        right. destruct CL as [CL|[_ Hnot]]; [|contradiction].
        rewrite CL, (p_steps P _ Dp). reflexivity.
      + right. rewrite CL1. symmetry. apply CN2. exact CL1.
  Qed.

  Lemma read_of_some f g c : L f = Some c -> L g = Some c -> read_gen f = read_gen g.
  Proof. unfold read_gen. intros -> ->. reflexivity. Qed.
  Lemma read_of_none f g : L f = None -> L g = None -> K f = K g -> read_gen f = read_gen g.
  Proof. unfold read_gen. intros -> -> ->. reflexivity. Qed.
  Lemma read_same f g : L f = L g -> K f = K g -> read_gen f = read_gen g.
  Proof. unfold read_gen. intros -> ->. reflexivity. Qed.

  (* a prefix that ends before the packed-refs operation *)
  Lemma read_early A1 A2 P C f : discipline (A1 ++ A2) P C ->
    read_gen (run_ops A1 f) = read_gen f \/
    read_gen (run_ops A1 f) = read_gen (run_ops C (run_ops P (run_ops A2 (run_ops A1 f)))).
  Proof.
    intros [Da Dn Dp Dc]. apply forallb_app_l in Da. destruct Da as [Da1 Da2].
    destruct (a_steps A1 f Da1) as [AK1 [AL1 _]].
    destruct AL1 as [AL1|[[c Hc] Hin]]; [left; apply read_same; assumption|].
    right. rewrite targets_app in Dn.
    assert (Hn2 : ~ In q (targets A2)).
    { intros X. clear -Dn Hin X. induction (targets A1) as [|x r IH]; [destruct Hin|].
      cbn in Dn. inversion Dn as [|? ? Hx Hr]. subst. destruct Hin as [->|Hin].
      - apply Hx. apply in_or_app. right. exact X.
      - apply IH; assumption. }
    destruct (a_steps A2 (run_ops A1 f) Da2) as [_ [_ AN2]].
    destruct (c_steps _ C (run_ops P (run_ops A2 (run_ops A1 f))) Dc) as [_ [CL _]].
    destruct CL as [CL|[_ Hnot]].
    - apply (read_of_some _ _ c); [exact Hc|]. rewrite CL, (p_steps P _ Dp), (AN2 Hn2). exact Hc.
    - exfalso. apply Hnot. rewrite targets_app. apply in_or_app. left. exact Hin.
  Qed.

  (* a prefix that ends after the packed-refs operation *)
  Lemma read_late A P C1 C2 f : discipline A P (C1 ++ C2) ->
    let g := run_ops P (run_ops A f) in
    read_gen (run_ops C1 g) = read_gen f \/ read_gen (run_ops C1 g) = read_gen (run_ops C2 (run_ops C1 g)).
  Proof.
    intros [Da Dn Dp Dc] g. apply forallb_app_l in Dc. destruct Dc as [Dc1 Dc2].
    destruct (a_steps A f Da) as [AK [AL _]].
    destruct (c_steps _ C1 g Dc1) as [CK1 [CL1 _]].
    destruct (c_steps _ C2 (run_ops C1 g) Dc2) as [CK2 [CL2 CN2]].
    assert (Lg : L g = L (run_ops A f)) by (apply p_steps; exact Dp).
    destruct CL1 as [CL1|[CL1 _]].
    - destruct (L (run_ops C1 g)) as [c|] eqn:E.
      + destruct AL as [AL|[_ Hin]].
        * left. apply (read_of_some _ _ c); [exact E|]. congruence.
        * right. destruct CL2 as [CL2|[_ Hnot]]; [|contradiction].
          apply (read_of_some _ _ c); [exact E|]. congruence.
      + right. apply read_of_none; [exact E|apply CN2; reflexivity|symmetry; exact CK2].
    - right. apply read_of_none; [exact CL1|apply CN2; exact CL1|symmetry; exact CK2].
  Qed.

  Theorem read_old_or_new A P C f n : discipline A P C ->
    let f' := run_ops (firstn n (A ++ P ++ C)) f in
    let fin := run_ops (A ++ P ++ C) f in
    read_gen f' = read_gen f \/ read_gen f' = read_gen fin.
  Proof.
    intros D f' fin. subst f' fin.
    destruct (firstn_app3 n A P C) as [(A1 & A2 & EA & ->)|[(P1 & P2 & EP & ->)|(C1 & C2 & EC & ->)]].
    - subst A. rewrite <- app_assoc, !run_ops_app. apply read_early. exact D.
    - assert (Hlen : length P <= 1) by (destruct (d_p _ _ _ D) as [->|[->| ->]]; cbn; lia).
      destruct P1 as [|x P1'].
      + rewrite app_nil_r. replace (A ++ P ++ C) with (A ++ [] ++ (P ++ C)) by reflexivity.
        rewrite (run_ops_app A), (run_ops_app []). cbn [run_ops fold_left].
        rewrite run_ops_app.
        generalize (read_early A [] P C f). rewrite app_nil_r. cbn [run_ops fold_left]. intros X. apply X. exact D.
      + assert (P2 = [] /\ P1' = []) as [-> ->].
        { rewrite EP in Hlen. rewrite app_length in Hlen. cbn in Hlen.
          destruct P1'; destruct P2; cbn in Hlen; try lia. auto. }
        rewrite app_nil_r in EP. rewrite <- EP. rewrite !run_ops_app.
        generalize (read_late A P [] C f). cbn [app run_ops fold_left]. intros X. apply X. exact D.
    - subst C. rewrite !run_ops_app. apply (read_late A P C1 C2 f). exact D.
  Qed.

  Theorem packed_old_or_new A P C f n : discipline A P C ->
    let f' := run_ops (firstn n (A ++ P ++ C)) f in
    let fin := run_ops (A ++ P ++ C) f in
    K f' = K f \/ K f' = K fin.
  Proof.
    intros [Da Dn Dp Dc] f' fin. subst f' fin.
    destruct (a_steps A f Da) as [AK _].
    destruct (c_steps _ C (run_ops P (run_ops A f)) Dc) as [CK _].
    destruct (firstn_app3 n A P C) as [(A1 & A2 & EA & ->)|[(P1 & P2 & EP & ->)|(C1 & C2 & EC & ->)]].
    - subst A. apply forallb_app_l in Da. destruct Da as [Da1 _]. left. apply (a_steps A1 f Da1).
    - assert (Hlen : length P <= 1) by (destruct Dp as [->|[->| ->]]; cbn; lia).
      destruct P1 as [|x P1'].
      + left. rewrite app_nil_r. exact AK.
      + assert (P2 = [] /\ P1' = []) as [-> ->].
        { rewrite EP in Hlen. rewrite app_length in Hlen. cbn in Hlen.
          destruct P1'; destruct P2; cbn in Hlen; try lia. auto. }
        rewrite app_nil_r in EP. rewrite <- EP. right. rewrite !run_ops_app. symmetry. exact CK.
    - subst C. right. rewrite !run_ops_app. apply forallb_app_l in Dc. destruct Dc as [Dc1 Dc2].
      destruct (c_steps _ C1 (run_ops P (run_ops A f)) Dc1) as [CK1 _].
      destruct (c_steps _ C2 (run_ops C1 (run_ops P (run_ops A f))) Dc2) as [CK2 _].
      congruence.
  Qed.
End OnePath.
