(* C20 — transcript printer: parses a case the way the Rust harness does, runs the model, prints the
   labelled operations and the file-system state after every prefix of them. *)
From Coq Require Import List NArith Bool Arith.
From GixV.Base Require Import Bytes Outcome.
From GixV.C20 Require Import Model.
Import ListNotations.

(* ------------------------------------------------------------------ parsing *)

Fixpoint split_on (sep : byte) (l : bytes) (cur : bytes) : list bytes :=
  match l with
  | [] => [rev cur]
  | b :: r => if beqb b sep then rev cur :: split_on sep r [] else split_on sep r (b :: cur)
  end.
Definition split (sep : byte) (l : bytes) : list bytes :=
  match l with [] => [] | _ => split_on sep l [] end.
Definition split1 (sep : byte) (l : bytes) : list bytes := split_on sep l [].

Definition comma : byte := x2c.
Definition colon : byte := x3a.
Definition at_sign : byte := x40.

Definition parse_target (t : bytes) : option target :=
  match t with
  | b :: r => if beqb b at_sign then Some (Sym r)
              else if is_empty r then Some (Obj b) else None
  | [] => None
  end.
Definition parse_prev (t : bytes) : option prev :=
  match t with
  | [x41] => Some PAny
  | [x45] => Some PMustExist
  | [x4e] => Some PMustNotExist
  | x4d :: r => option_map PMatch (parse_target r)
  | x58 :: r => option_map PExisting (parse_target r)
  | _ => None
  end.
Definition parse_log (t : bytes) : option logmode :=
  match t with [x52] => Some AndRef | [x4c] => Some LogOnly | _ => None end.

Definition parse_edit (e : bytes) : option edit :=
  match split1 colon e with
  | [name; k; expected; new; log; force] =>
      match parse_prev expected, parse_log log with
      | Some ex, Some lg =>
          match k with
          | [x55] => match parse_target new with
                     | Some t => Some (mkEdit name (Update lg (bytes_eqb force (bs "1")) ex t))
                     | None => None
                     end
          | [x44] => Some (mkEdit name (Delete ex lg))
          | _ => None
          end
      | _, _ => None
      end
  | _ => None
  end.
Fixpoint all_some {A} (l : list (option A)) : option (list A) :=
  match l with
  | [] => Some []
  | Some a :: r => option_map (cons a) (all_some r)
  | None :: _ => None
  end.
Definition parse_pair (e : bytes) : option (bytes * bytes) :=
  match split1 colon e with
  | [a; b] => Some (a, b)
  | _ => None
  end.
Definition parse_pairs (l : bytes) : option (list (bytes * bytes)) :=
  all_some (map parse_pair (split comma l)).

(* ------------------------------------------------------------------ the initial file system *)

(* all the directories above a path, outermost first *)
Fixpoint ancestors_fuel (fuel : nat) (p : bytes) (acc : list bytes) : list bytes :=
  match fuel with
  | O => acc
  | S k => let d := parent p in if is_empty d then acc else ancestors_fuel k d (d :: acc)
  end.
Definition ancestors (p : bytes) : list bytes := ancestors_fuel 40 p [].
Definition add_dirs (ds : list bytes) (f : fs) : fs :=
  fold_left (fun s d => if exists_ d s then s else set d Dir s) ds f.
Definition add_file (p c : bytes) (f : fs) : fs := set p (File c) (add_dirs (ancestors p) f).

Definition loose_content (t : target) : bytes :=
  match t with
  | Obj c => [c; nl]
  | Sym n => bs "ref: " ++ n ++ [nl]
  end.

Definition build_fs (loose : list (bytes * target)) (packed : option (list (bytes * byte)))
           (logs : list (bytes * byte)) (dirs : list bytes) : fs :=
  let f0 := add_dirs [bs "refs"] [] in
  let f1 := fold_left (fun s d => add_dirs (ancestors d ++ [d]) s) dirs f0 in
  let f2 := fold_left (fun s kv => add_file (fst kv) (loose_content (snd kv)) s) loose f1 in
  let f3 := match packed with
            | None => f2
            | Some es =>
                add_file packed_path
                  (header_line ++ concat (map (fun kv => pref_line (mkPref (fst kv) (snd kv) (peel (snd kv)))) es)) f2
            end in
  fold_left (fun s kv => add_file (logp (fst kv)) (reflog_line None (snd kv)) s) logs f3.

(* ------------------------------------------------------------------ printing *)

Fixpoint join (sep : bytes) (ls : list bytes) : bytes :=
  match ls with
  | [] => []
  | [x] => x
  | x :: r => x ++ sep ++ join sep r
  end.
Definition show_path (p : bytes) : bytes := match p with [] => bs "." | _ => p end.
Definition label (o : op) : bytes :=
  match o with
  | Mkdir p => bs "mkdir " ++ show_path p
  | Rmdir p => bs "rmdir " ++ show_path p
  | Create p => bs "create " ++ show_path p
  | Write p _ => bs "write " ++ show_path p
  | Rename a b => bs "rename " ++ show_path a ++ bs " " ++ show_path b
  | Remove p => bs "remove " ++ show_path p
  | OpenAppend p _ => bs "open-append " ++ show_path p
  | Append p _ => bs "append " ++ show_path p
  end.

Fixpoint insert_entry (e : bytes * node) (l : fs) : fs :=
  match l with
  | [] => [e]
  | x :: r => match bytes_cmp (fst e) (fst x) with
              | Lt => e :: l
              | _ => x :: insert_entry e r
              end
  end.
Definition sort_fs (f : fs) : fs := fold_left (fun acc e => insert_entry e acc) f [].
Definition show_entry (e : bytes * node) : bytes :=
  match snd e with
  | Dir => fst e ++ bs "/"
  | File c => fst e ++ bs "=" ++ hex_encode c
  end.
Definition show_target (t : target) : bytes :=
  match t with Obj c => [c] | Sym n => at_sign :: n end.
Definition show_view (f : fs) (names : list bytes) : bytes :=
  join (bs ",") (map (fun n => n ++ bs "=" ++ match read_ref f n with
                                               | Some t => show_target t
                                               | None => bs "-"
                                               end) names).
Definition show_state (names : list bytes) (f : fs) : bytes :=
  join (bs ",") (map show_entry (sort_fs f)) ++ bs "#" ++ show_view f names.

(* the states after 0, 1, …, all operations *)
Fixpoint states (ops : list op) (f : fs) : list fs :=
  match ops with
  | [] => [f]
  | o :: r => f :: states r (exec o f)
  end.

Definition err_name (e : err) : bytes :=
  match e with
  | EPreprocessingFailed => bs "PreprocessingFailed"
  | EDeleteReferenceMustExist => bs "DeleteReferenceMustExist"
  | EMustNotExist => bs "MustNotExist"
  | EMustExist => bs "MustExist"
  | EReferenceOutOfDate => bs "ReferenceOutOfDate"
  end.
Definition show_result (r : result) : bytes :=
  match r with
  | ROk => bs "ok"
  | RPrepareErr e => bs "P:err " ++ err_name e
  | RCommitErr CPackedTransactionCommit => bs "C:err PackedTransactionCommit"
  | RPanic => bs "PANIC"
  | RHang => bs "HANG"
  end.

Fixpoint insert_name (n : bytes) (l : list bytes) : list bytes :=
  match l with
  | [] => [n]
  | x :: r => match bytes_cmp n x with
              | Lt => n :: l
              | Eq => l
              | Gt => x :: insert_name n r
              end
  end.

Definition parse_mode (m : bytes) : option packed_mode :=
  match m with
  | [x30] => Some DeletionsOnly
  | [x31] => Some DeletionsAndUpdates
  | [x32] => Some DeletionsAndUpdatesRemoveLoose
  | _ => None
  end.
Definition parse_reflog (m : bytes) : option write_reflog :=
  match m with
  | [x30] => Some RDisable
  | [x31] => Some RNormal
  | [x32] => Some RAlways
  | _ => None
  end.
Definition one_byte (b : bytes) : option byte := match b with [c] => Some c | _ => None end.
Definition parse_named_bytes (l : bytes) : option (list (bytes * byte)) :=
  match parse_pairs l with
  | Some ps => all_some (map (fun kv => option_map (fun c => (fst kv, c)) (one_byte (snd kv))) ps)
  | None => None
  end.

(* txn <mode> <reflog> <loose> <packed> <logs> <dirs> <edits> *)
Definition run_txn (fs_ : list bytes) : bytes :=
  let loose_o := match parse_pairs (nth_field 3 fs_) with
                 | Some ps => all_some (map (fun kv => option_map (fun t => (fst kv, t)) (parse_target (snd kv))) ps)
                 | None => None
                 end in
  let packed_o := match nth_field 4 fs_ with
                  | [] => Some None
                  | _ :: r => option_map Some (parse_named_bytes r)
                  end in
  match parse_mode (nth_field 1 fs_), parse_reflog (nth_field 2 fs_), loose_o, packed_o,
        parse_named_bytes (nth_field 5 fs_), all_some (map parse_edit (split comma (nth_field 7 fs_))) with
  | Some pmode, Some w, Some loose, Some packed, Some logs, Some edits =>
      let dirs := split comma (nth_field 6 fs_) in
      let f := build_fs loose packed logs dirs in
      let names := fold_left (fun acc n => insert_name n acc)
                     (map fst loose ++ match packed with Some p => map fst p | None => [] end
                      ++ map e_name edits) [] in
      let ph := txn_phases w pmode f edits in
      let ops := ops_of ph in
      match ph_result ph with
      | RPanic => bs "PANIC"
      | RHang => bs "HANG"
      | _ =>
      show_result (ph_result ph) ++ bs " | " ++ join (bs ",") (map label ops) ++ bs " | "
      ++ join (bs ";") (map (show_state names) (states ops f))
      end
  | _, _, _, _, _, _ => bs "invalid"
  end.

Definition run (fs_ : list bytes) : bytes :=
  match fs_ with
  | _mode :: rest =>
      if bytes_eqb (nth_field 0 rest) (bs "txn") then run_txn rest else bs "?"
  | [] => bs "?"
  end.
