(* C20 — executable model of a gix-ref file transaction as a GENERATOR OF FILE-SYSTEM OPERATIONS.

   Follows
     gix-ref/src/store/file/transaction/prepare.rs  prepare_inner, lock_ref_and_apply_change
     gix-ref/src/store/file/transaction/commit.rs   commit_inner (the three loops + packed commit)
     gix-ref/src/store/packed/transaction.rs        Transaction::prepare / commit
     gix-ref/src/store/file/loose/reflog.rs         reflog_create_or_append
     gix-lock/src/{acquire,commit}.rs, gix-tempfile/src/{handle,forksafe}.rs
                                                    lock file = create_excl, commit = rename, drop = remove + dir clean-up
     gix-fs/src/dir/{create,remove}.rs              create::Iter (the attempts of `all`), remove::Iter
   The file system is a finite map  path -> Dir | File content  (paths relative to the git directory, [] is the
   git directory itself).  Every operation of the list is one labelled point of the `gix_verif` hook
   (gix_fs::verif::fs_point), i.e. one system call that may mutate the file system; [exec] gives its effect.
   Domain: edits with `deref = false`, names without directory/file conflicts, no foreign lock files.
   No proofs in this file. *)
From Coq Require Import List NArith Bool Arith.
From GixV.Base Require Import Bytes Outcome.
Import ListNotations.
Local Open Scope outcome_scope.

(* ------------------------------------------------------------------ the abstract file system *)

Inductive node := Dir | File (c : bytes).
Definition fs := list (bytes * node).

Fixpoint lookup (p : bytes) (f : fs) : option node :=
  match f with
  | [] => None
  | (q, v) :: r => if bytes_eqb p q then Some v else lookup p r
  end.
Fixpoint del (p : bytes) (f : fs) : fs :=
  match f with
  | [] => []
  | (q, v) :: r => if bytes_eqb p q then del p r else (q, v) :: del p r
  end.
Definition set (p : bytes) (v : node) (f : fs) : fs := (p, v) :: del p f.

Definition lookup_file (p : bytes) (f : fs) : option bytes :=
  match lookup p f with Some (File c) => Some c | _ => None end.
Definition is_empty (l : bytes) : bool := match l with [] => true | _ => false end.
Definition exists_ (p : bytes) (f : fs) : bool :=
  is_empty p || match lookup p f with Some _ => true | None => false end.
Definition is_dir (p : bytes) (f : fs) : bool :=
  is_empty p || match lookup p f with Some Dir => true | _ => false end.

Definition slash : byte := x2f.
Fixpoint after_slash (l : bytes) : bytes :=
  match l with
  | [] => []
  | b :: r => if beqb b slash then r else after_slash r
  end.
(* Path::parent *)
Definition parent (p : bytes) : bytes := rev (after_slash (rev p)).
Definition has_children (d : bytes) (f : fs) : bool :=
  existsb (fun kv => bytes_eqb (parent (fst kv)) d) f.

Inductive op :=
| Mkdir (p : bytes)                       (* std::fs::create_dir, one attempt *)
| Rmdir (p : bytes)                       (* std::fs::remove_dir, one attempt *)
| Create (p : bytes)                      (* tempfile: open(O_CREAT|O_EXCL) *)
| Write (p : bytes) (data : bytes)        (* write to the open lock file *)
| Rename (a b : bytes)                    (* tempfile persist: rename(2) *)
| Remove (p : bytes)                      (* remove_file / tempfile drop *)
| OpenAppend (p : bytes) (create : bool)  (* OpenOptions::append(true).create(create).open *)
| Append (p : bytes) (data : bytes).      (* the reflog line *)

Definition exec (o : op) (f : fs) : fs :=
  match o with
  | Mkdir p => if exists_ p f then f else if is_dir (parent p) f then set p Dir f else f
  | Rmdir p => match lookup p f with
               | Some Dir => if has_children p f then f else del p f
               | _ => f
               end
  | Create p => if exists_ p f then f else set p (File []) f
  | Write p d | Append p d =>
      match lookup p f with
      | Some (File c) => set p (File (c ++ d)) f
      | _ => f
      end
  | Rename a b =>
      match lookup a f with
      | Some (File c) => match lookup b f with
                         | Some Dir => f
                         | _ => set b (File c) (del a f)
                         end
      | _ => f
      end
  | Remove p => match lookup p f with Some (File _) => del p f | _ => f end
  | OpenAppend p create => if create && negb (exists_ p f) then set p (File []) f else f
  end.
Definition run_ops (ops : list op) (f : fs) : fs := fold_left (fun s o => exec o s) ops f.

(* ------------------------------------------------------------------ paths *)

Definition dot_lock : bytes := bs ".lock".
Definition lockp (n : bytes) : bytes := n ++ dot_lock.
Definition packed_path : bytes := bs "packed-refs".
Definition packed_lock : bytes := lockp packed_path.
Definition logs_dir : bytes := bs "logs".
Definition logp (n : bytes) : bytes := bs "logs/" ++ n.

Fixpoint starts_with (p s : bytes) : bool :=
  match p, s with
  | [], _ => true
  | a :: p', b :: s' => beqb a b && starts_with p' s'
  | _ :: _, [] => false
  end.

(* gix_fs::dir::create::Iter driven by `all`: the attempts on the stack of cursors *)
Fixpoint mkdir_all (fuel : nat) (cursors : list bytes) (f : fs) : list op :=
  match fuel with
  | O => []
  | S k =>
      match cursors with
      | [] => []
      | d :: rest =>
          let o := Mkdir d in
          if exists_ d f
          then (if is_dir d f then o :: mkdir_all k rest f else [o])      (* AlreadyExists *)
          else if is_dir (parent d) f
               then o :: mkdir_all k rest (exec o f)                        (* Ok *)
               else o :: mkdir_all k (parent d :: d :: rest) f             (* NotFound: parent first *)
      end
  end.

(* gix_fs::dir::remove::Iter driven by empty_upward_until_boundary *)
Fixpoint rmdir_up (fuel : nat) (boundary d : bytes) (f : fs) : list op :=
  match fuel with
  | O => []
  | S k =>
      let o := Rmdir d in
      let continue_ (f' : fs) :=
        if bytes_eqb (parent d) boundary then [o] else o :: rmdir_up k boundary (parent d) f' in
      if is_empty d then [o]
      else match lookup d f with
           | Some Dir => if has_children d f then [o] else continue_ (exec o f)
           | None => continue_ f
           | Some (File _) => [o]
           end
  end.
Definition rmdir_upward (boundary d : bytes) (f : fs) : list op :=
  if bytes_eqb d boundary then []
  else if exists_ d f then rmdir_up 40 boundary d f else [].

(* gix_lock::{File,Marker}::acquire_… with a boundary directory: create the directories, then the file *)
Definition acquire (n : bytes) (f : fs) : list op :=
  mkdir_all 60 [parent (lockp n)] f ++ [Create (lockp n)].
(* dropping a lock of a reference: remove the file, then empty directories up to the git directory *)
Definition drop_lock (n : bytes) (f : fs) : list op :=
  let o := Remove (lockp n) in
  o :: rmdir_upward [] (parent (lockp n)) (exec o f).

(* ------------------------------------------------------------------ references *)

Inductive target := Sym (n : bytes) | Obj (c : byte).
Definition target_eqb (a b : target) : bool :=
  match a, b with
  | Sym x, Sym y => bytes_eqb x y
  | Obj x, Obj y => beqb x y
  | _, _ => false
  end.
Definition is_sym (t : target) : bool := match t with Sym _ => true | Obj _ => false end.

Inductive prev := PAny | PMustExist | PMustNotExist | PMatch (t : target) | PExisting (t : target).
Inductive logmode := AndRef | LogOnly.
Definition logmode_eqb (a b : logmode) : bool :=
  match a, b with AndRef, AndRef | LogOnly, LogOnly => true | _, _ => false end.
Inductive change :=
| Update (log : logmode) (force_create_reflog : bool) (expected : prev) (new : target)
| Delete (expected : prev) (log : logmode).
Record edit := mkEdit { e_name : bytes; e_change : change }.

Definition nl : byte := x0a.
(* what prepare writes into the lock file *)
Definition content (t : target) : bytes :=
  match t with
  | Obj c => [c]                                     (* write!(file, "{oid}") *)
  | Sym n => bs "ref: " ++ n ++ [nl]                 (* writeln!(file, "ref: {}", name) *)
  end.
Fixpoint strip_nl (l : bytes) : bytes :=
  match l with
  | [] => []
  | b :: r => if beqb b nl then [] else b :: strip_nl r
  end.
(* loose::Reference::try_from_path on the contents of this model *)
Definition parse_loose (c : bytes) : option target :=
  if starts_with (bs "ref: ") c then Some (Sym (strip_nl (skipn 5 c)))
  else match c with
       | b :: _ => Some (Obj b)
       | [] => None
       end.

(* packed-refs: `c name\n`, optionally followed by `^p\n`; header `#\n` *)
Record pref := mkPref { p_name : bytes; p_target : byte; p_peeled : option byte }.
Fixpoint split_lines (l : bytes) (cur : bytes) : list bytes :=
  match l with
  | [] => match cur with [] => [] | _ => [rev cur] end
  | b :: r => if beqb b nl then rev cur :: split_lines r [] else split_lines r (b :: cur)
  end.
Definition hash_sign : byte := x23.
Definition caret : byte := x5e.
Fixpoint parse_lines (ls : list bytes) : list pref :=
  match ls with
  | [] => []
  | l :: r =>
      match l with
      | c :: _sp :: name =>
          if beqb c hash_sign then parse_lines r
          else match r with
               | (k :: p :: _) :: r' =>
                   if beqb k caret then mkPref name c (Some p) :: parse_lines r'
                   else mkPref name c None :: parse_lines r
               | _ => mkPref name c None :: parse_lines r
               end
      | _ => parse_lines r
      end
  end.
Definition parse_packed (c : bytes) : list pref := parse_lines (split_lines c []).
Definition pref_line (p : pref) : bytes :=
  [p_target p; sp] ++ p_name p ++ [nl]
  ++ match p_peeled p with Some o => [caret; o; nl] | None => [] end.
Definition header_line : bytes := [hash_sign; nl].

Fixpoint passoc (n : bytes) (l : list pref) : option pref :=
  match l with
  | [] => None
  | p :: r => if bytes_eqb n (p_name p) then Some p else passoc n r
  end.

Definition is_upper_or_underscore (b : byte) : bool :=
  (N.leb 65 (b2N b) && N.leb (b2N b) 90)%N || N.eqb (b2N b) 95%N.
Definition is_pseudo_ref (n : bytes) : bool := forallb is_upper_or_underscore n.
(* possibly_adjust_name_for_prefixes on the names of this model *)
Definition packable (n : bytes) : bool :=
  if starts_with (bs "refs/tags/") n || starts_with (bs "refs/heads/") n || starts_with (bs "refs/remotes/") n
     || starts_with (bs "refs/notes/") n then true
  else if starts_with (bs "refs/bisect/") n || starts_with (bs "refs/worktree/") n
          || starts_with (bs "refs/rewritten/") n then false
  else negb (is_pseudo_ref n).
(* packed::Buffer::try_find: pseudo refs and refs/worktree/ are never looked up *)
Definition packed_lookup (p : list pref) (n : bytes) : option byte :=
  if is_pseudo_ref n || starts_with (bs "refs/worktree/") n then None
  else option_map p_target (passoc n p).

(* the value of a reference as file::Store::try_find reads it: loose file first, then packed-refs *)
Definition find_in (f : fs) (pbuf : option (list pref)) (n : bytes) : option target :=
  match lookup_file n f with
  | Some c => parse_loose c
  | None => match pbuf with
            | Some b => option_map Obj (packed_lookup b n)
            | None => None
            end
  end.
Definition packed_of (f : fs) : option (list pref) := option_map parse_packed (lookup_file packed_path f).
Definition read_ref (f : fs) (n : bytes) : option target := find_in f (packed_of f) n.

(* tag objects of the harness' object table: c -> 1, d -> 2, e -> c -> 1, f -> 3 *)
Definition peel (c : byte) : option byte :=
  if beqb c x63 then Some x31 else if beqb c x64 then Some x32
  else if beqb c x65 then Some x31 else if beqb c x66 then Some x33 else None.

(* ------------------------------------------------------------------ prepare *)

Inductive err := EPreprocessingFailed | EDeleteReferenceMustExist | EMustNotExist | EMustExist | EReferenceOutOfDate.

Fixpoint mem (k : bytes) (l : list bytes) : bool :=
  match l with [] => false | x :: r => bytes_eqb k x || mem k r end.
Fixpoint has_dup (names : list bytes) : bool :=
  match names with
  | [] => false
  | n :: r => mem n r || has_dup r
  end.

Definition new_would_change_existing (new existing : target) : bool * bool :=
  match new, existing with
  | Obj n, Obj o => (negb (beqb o n), false)
  | Sym n, Sym o => (negb (bytes_eqb o n), true)
  | Obj _, _ => (true, false)
  | Sym _, _ => (true, true)
  end.
Definition check_delete (expected : prev) (existing : option target) : outcome unit err :=
  match expected, existing with
  | PMustNotExist, _ => Panic
  | PExisting _, None | PAny, None => Ok tt
  | PMustExist, Some _ | PAny, Some _ => Ok tt
  | PMustExist, None | PMatch _, None => Err EDeleteReferenceMustExist
  | PMatch previous, Some actual | PExisting previous, Some actual =>
      if target_eqb previous actual then Ok tt else Err EReferenceOutOfDate
  end.
Definition check_update (expected : prev) (new : target) (existing : option target) : outcome unit err :=
  match expected, existing with
  | PAny, _ => Ok tt
  | PMustExist, Some _ => Ok tt
  | PMustNotExist, None | PExisting _, None => Ok tt
  | PMustExist, None => Err EMustExist
  | PMustNotExist, Some actual =>
      if target_eqb actual new then Ok tt else Err EMustNotExist
  | PMatch previous, Some actual | PExisting previous, Some actual =>
      if target_eqb previous actual then Ok tt else Err EReferenceOutOfDate
  | PMatch _, None => Err EMustExist
  end.

(* a prepared edit: the edit with its expectation replaced by what was found, and whether it holds a lock *)
Record pedit := mkP { pe : edit; pe_lock : bool }.

(* lock_ref_and_apply_change: the operations it performs (on error including the drop of the lock it had
   just taken), and its result *)
Definition lock_ref_and_apply_change (f : fs) (pbuf : option (list pref)) (glob direct : bool) (e : edit)
  : list op * outcome pedit err :=
  let n := e_name e in
  let existing := find_in f pbuf n in
  let acq := if glob then [] else acquire n f in
  let dropped := acq ++ (if glob then [] else drop_lock n (run_ops acq f)) in
  match e_change e with
  | Delete expected log =>
      match check_delete expected existing with
      | Err x => (dropped, Err x)
      | Panic => (acq, Panic)
      | OutOfFuel => (acq, OutOfFuel)
      | Ok _ =>
          let expected' := match existing with Some t => PMatch t | None => expected end in
          (acq, Ok (mkP (mkEdit n (Delete expected' log)) (negb glob)))
      end
  | Update log force expected new =>
      match check_update expected new existing with
      | Err x => (dropped, Err x)
      | Panic => (acq, Panic)
      | OutOfFuel => (acq, OutOfFuel)
      | Ok _ =>
          let '(is_effective, is_symbolic, expected') :=
            match existing with
            | Some t => let '(eff, sy) := new_would_change_existing new t in (eff, sy, PMatch t)
            | None => (true, is_sym new, expected)
            end in
          let e' := mkEdit n (Update log force expected' new) in
          if (is_effective && negb direct) || is_symbolic
          then (acq ++ (if glob then acquire n f else []) ++ [Write (lockp n) (content new)], Ok (mkP e' true))
          else (dropped, Ok (mkP e' false))
      end
  end.

(* the locks of a list of edits dropped in order (a Vec<Edit> going out of scope) *)
Fixpoint drop_locks (ps : list pedit) (f : fs) : list op :=
  match ps with
  | [] => []
  | p :: r =>
      let o := if pe_lock p then drop_lock (e_name (pe p)) f else [] in
      o ++ drop_locks r (run_ops o f)
  end.

(* `for cid in 0..updates.len()`; [done] = prepared edits so far, reversed.
   Result: operations, and either the prepared edits or the error. *)
Fixpoint apply_all (es : list edit) (done : list pedit) (f : fs) (pbuf : option (list pref))
         (glob remove_loose : bool) : list op * outcome (list pedit) err :=
  match es with
  | [] => ([], Ok (rev done))
  | e :: r =>
      let direct := remove_loose && packable (e_name e) in
      let '(o, res) := lock_ref_and_apply_change f pbuf glob direct e in
      let f' := run_ops o f in
      match res with
      | Ok p => let '(o2, res2) := apply_all r (p :: done) f' pbuf glob remove_loose in (o ++ o2, res2)
      | Err x => (o ++ drop_locks (rev done) f', Err x)       (* `updates` goes out of scope *)
      | Panic => (o, Panic)
      | OutOfFuel => (o, OutOfFuel)
      end
  end.

Inductive packed_mode := DeletionsOnly | DeletionsAndUpdates | DeletionsAndUpdatesRemoveLoose.
Definition is_remove_loose (m : packed_mode) : bool :=
  match m with DeletionsAndUpdatesRemoveLoose => true | _ => false end.
Definition log_mode_of (c : change) : logmode :=
  match c with Update l _ _ _ => l | Delete _ l => l end.

(* an edit of the packed transaction: Some c = update to object c, None = deletion *)
Definition pkedit := (bytes * option byte)%type.

Fixpoint collect_packed (maybe : option nat) (us : list edit) (acc : list pkedit) (needs : bool)
  : option nat * list pkedit * bool :=
  match us with
  | [] => (maybe, rev acc, needs)
  | u :: r =>
      if logmode_eqb (log_mode_of (e_change u)) LogOnly then collect_packed maybe r acc needs
      else if negb (packable (e_name u)) then collect_packed maybe r acc needs
      else
        match maybe, e_change u with
        | Some num, Update _ _ _ (Obj c) => collect_packed (Some (S num)) r ((e_name u, Some c) :: acc) needs
        | _, Update _ _ _ _ => collect_packed maybe r acc true
        | _, Delete _ _ => collect_packed maybe r ((e_name u, None) :: acc) needs
        end
  end.

Record packed_txn := mkPtxn { pt_buffer : option (list pref); pt_edits : list pkedit }.
Definition packed_prepare (buffer : option (list pref)) (es : list pkedit) : packed_txn :=
  mkPtxn buffer
    (filter (fun e => match snd e with
                      | Some _ => true
                      | None => match buffer with
                                | None => true
                                | Some b => match packed_lookup b (fst e) with Some _ => true | None => false end
                                end
                      end) es).

(* the packed-refs decision of prepare_inner (nobody else holds packed-refs.lock) *)
Definition prepare_packed (f : fs) (pmode : packed_mode) (updates : list edit) : option packed_txn :=
  let maybe0 := match pmode with DeletionsOnly => None | _ => Some O end in
  let buffer := packed_of f in
  let packed_is_file := match buffer with Some _ => true | None => false end in
  if (match maybe0 with Some _ => true | None => false end) || packed_is_file
  then
    let '(maybe, edits_for_packed, needs) := collect_packed maybe0 updates [] false in
    if negb (match edits_for_packed with [] => true | _ => false end) || needs
    then
      if Nat.ltb 0 (match maybe with Some k => k | None => O end)
      then Some (packed_prepare buffer edits_for_packed)
      else match buffer with
           | Some b => Some (packed_prepare (Some b) edits_for_packed)
           | None => None
           end
    else None
  else None.

Record prepared := mkPrepared { p_updates : list pedit; p_packed : option packed_txn }.

Definition prepare_inner (f : fs) (pmode : packed_mode) (edits : list edit)
  : list op * outcome prepared err :=
  if has_dup (map e_name edits) then ([], Err EPreprocessingFailed)
  else
    let ptxn := prepare_packed f pmode edits in
    let glob := match ptxn with Some _ => true | None => false end in
    let o0 := if glob then [Create packed_lock] else [] in
    let pbuf := match ptxn with Some t => pt_buffer t | None => None end in
    let '(o1, res) := apply_all edits [] (run_ops o0 f) pbuf glob (is_remove_loose pmode) in
    match res with
    | Ok us => (o0 ++ o1, Ok (mkPrepared us ptxn))
    | Err x => (o0 ++ o1 ++ (if glob then [Remove packed_lock] else []), Err x)   (* `self` goes out of scope *)
    | Panic => (o0 ++ o1, Panic)
    | OutOfFuel => (o0 ++ o1, OutOfFuel)
    end.

(* ------------------------------------------------------------------ reflog *)

Inductive write_reflog := RDisable | RNormal | RAlways.
Definition zero_id : byte := x5a.                                 (* 'Z': the null object id *)
Definition reflog_tail : bytes := bs " C <c@d> 1 +0000" ++ [x09] ++ bs "m" ++ [nl].
Definition reflog_line (previous : option byte) (new : byte) : bytes :=
  [match previous with Some p => p | None => zero_id end; sp; new] ++ reflog_tail.
Definition should_autocreate (n : bytes) : bool :=
  starts_with (bs "refs/heads/") n || starts_with (bs "refs/remotes/") n || starts_with (bs "refs/notes/") n
  || starts_with (bs "refs/worktree/") n || bytes_eqb n (bs "HEAD").

Definition reflog_create_or_append (w : write_reflog) (f : fs) (n : bytes) (previous : option byte) (new : byte)
           (force : bool) : list op :=
  match w with
  | RDisable => []
  | _ =>
      let force := force || match w with RAlways => true | _ => false end in
      let create := force || should_autocreate n in
      let o1 := if create then mkdir_all 60 [parent (logp n)] f else [] in
      let o2 := [OpenAppend (logp n) create] in
      let f2 := run_ops (o1 ++ o2) f in
      o1 ++ o2 ++ match lookup_file (logp n) f2 with
                  | Some _ => [Append (logp n) (reflog_line previous new)]
                  | None => []
                  end
  end.

(* the reflog part of the first loop of commit_inner for one update *)
Definition reflog_ops (w : write_reflog) (f : fs) (n : bytes) (force : bool) (expected : prev) (new : target)
  : list op :=
  let log_update :=
    match new with
    | Sym _ => match expected with
               | PExisting (Obj oid) => Some (Some zero_id, oid)
               | _ => None
               end
    | Obj new_oid => Some (match expected with PMatch (Obj oid) => Some oid | _ => None end, new_oid)
    end in
  match log_update with
  | Some (previous, new_oid) =>
      let do_update := match previous with Some p => negb (beqb p new_oid) | None => true end in
      if do_update then reflog_create_or_append w f n previous new_oid force else []
  | None => []
  end.

(* ------------------------------------------------------------------ commit *)

(* `continue` of the first loop: the lock is kept until packed-refs is written *)
Definition keeps_lock_for_packed (remove_loose : bool) (e : edit) : bool :=
  match e_change e with
  | Update _ _ _ new => remove_loose && negb (is_sym new) && packable (e_name e)
  | Delete _ _ => false
  end.
(* the edit renames `<name>.lock` to `<name>` in the first loop *)
Definition renames (remove_loose : bool) (p : pedit) : bool :=
  match e_change (pe p) with
  | Update log _ _ _ => negb (keeps_lock_for_packed remove_loose (pe p)) && logmode_eqb log AndRef && pe_lock p
  | Delete _ _ => false
  end.
(* the edit removes `<name>` in the last loop *)
Definition removes (remove_loose : bool) (p : pedit) : bool :=
  match e_change (pe p) with
  | Update log _ _ new => remove_loose && logmode_eqb log AndRef && negb (is_sym new) && packable (e_name (pe p))
  | Delete _ log => logmode_eqb log AndRef
  end.

(* first loop, one edit: operations and the edit as left behind *)
Definition update_one (w : write_reflog) (remove_loose : bool) (f : fs) (p : pedit) : list op * pedit :=
  let n := e_name (pe p) in
  match e_change (pe p) with
  | Update log force expected new =>
      let o1 := reflog_ops w f n force expected new in
      if keeps_lock_for_packed remove_loose (pe p) then (o1, p)
      else if pe_lock p
           then if logmode_eqb log AndRef
                then (o1 ++ [Rename (lockp n) n], mkP (pe p) false)            (* Marker::commit *)
                else (o1 ++ drop_lock n (run_ops o1 f), mkP (pe p) false)          (* the taken lock is dropped *)
           else (o1, p)
  | Delete _ _ => ([], p)
  end.
Fixpoint commit_updates (w : write_reflog) (remove_loose : bool) (f : fs) (ps : list pedit)
  : list op * list pedit :=
  match ps with
  | [] => ([], [])
  | p :: r =>
      let '(o, p') := update_one w remove_loose f p in
      let '(o2, r') := commit_updates w remove_loose (run_ops o f) r in
      (o ++ o2, p' :: r')
  end.

(* second loop: reflogs of deleted references *)
Definition reflog_delete_one (f : fs) (p : pedit) : list op :=
  match e_change (pe p) with
  | Update _ _ _ _ => []
  | Delete _ _ =>
      let path := logp (e_name (pe p)) in
      let o := Remove path in
      match lookup_file path f with
      | Some _ => o :: rmdir_upward logs_dir (parent path) (exec o f)
      | None => [o]
      end
  end.
Fixpoint reflog_deletes (f : fs) (ps : list pedit) : list op :=
  match ps with
  | [] => []
  | p :: r => let o := reflog_delete_one f p in o ++ reflog_deletes (run_ops o f) r
  end.

(* packed::Transaction::commit *)
Fixpoint insert_sorted (e : pkedit) (l : list pkedit) : list pkedit :=
  match l with
  | [] => [e]
  | x :: r => match bytes_cmp (fst e) (fst x) with
              | Lt => e :: l
              | _ => x :: insert_sorted e r
              end
  end.
Definition sort_edits (l : list pkedit) : list pkedit := fold_left (fun acc e => insert_sorted e acc) l [].
(* what one `file.with_mut(|out| write_edit(…))` writes, and whether it counts as a line *)
Definition edit_data (e : pkedit) : bytes * bool :=
  match snd e with
  | Some c => (pref_line (mkPref (fst e) c (peel c)), true)
  | None => ([], false)
  end.
(* the merge `loop`: the data of each with_mut call, and whether it counted as a written line *)
Fixpoint merge_edits (edits : list pkedit) : list pref -> list (bytes * bool) :=
  fix merge_refs (refs : list pref) : list (bytes * bool) :=
    match refs, edits with
    | [], [] => []
    | pref :: refs', [] => (pref_line pref, true) :: merge_refs refs'
    | [], e :: edits' => edit_data e :: merge_edits edits' []
    | pref :: refs', e :: edits' =>
        match bytes_cmp (p_name pref) (fst e) with
        | Lt => (pref_line pref, true) :: merge_refs refs'
        | Gt => edit_data e :: merge_edits edits' refs
        | Eq => edit_data e :: merge_edits edits' refs'
        end
    end.

Inductive commit_err := CPackedTransactionCommit.

(* operations before the commit point, the commit point itself (at most one operation), operations after it *)
Definition packed_commit (f : fs) (t : packed_txn) : list op * list op * list op * option commit_err :=
  match pt_edits t with
  | [] => ([], [], [Remove packed_lock], None)                      (* the closed lock is dropped *)
  | _ :: _ =>
      let refs_sorted := match pt_buffer t with Some b => b | None => [] end in
      let chunks := merge_edits (sort_edits (pt_edits t)) refs_sorted in
      let writes := Write packed_lock header_line :: map (fun c => Write packed_lock (fst c)) chunks in
      if existsb snd chunks
      then (writes, [Rename packed_lock packed_path], [], None)
      else match lookup_file packed_path f with
           | Some _ => (writes, [Remove packed_path], [Remove packed_lock], None)
           | None => (writes, [Remove packed_path], [Remove packed_lock], Some CPackedTransactionCommit)
           end
  end.

(* last loop, one edit *)
Definition delete_one (remove_loose : bool) (f : fs) (p : pedit) : list op * pedit :=
  let n := e_name (pe p) in
  if removes remove_loose p
  then let o := Remove n in
       (o :: (if pe_lock p then drop_lock n (exec o f) else []), mkP (pe p) false)
  else ([], p).
Fixpoint commit_deletes (remove_loose : bool) (f : fs) (ps : list pedit) : list op * list pedit :=
  match ps with
  | [] => ([], [])
  | p :: r =>
      let '(o, p') := delete_one remove_loose f p in
      let '(o2, r') := commit_deletes remove_loose (run_ops o f) r in
      (o ++ o2, p' :: r')
  end.

Inductive result := ROk | RPrepareErr (e : err) | RCommitErr (e : commit_err) | RPanic | RHang.

(* the three parts of a transaction's operation list: everything up to the packed-refs commit point,
   that point, everything after it *)
Record phases := mkPhases { ph_a : list op; ph_p : list op; ph_c : list op; ph_result : result }.

Definition commit_inner (w : write_reflog) (pmode : packed_mode) (f : fs) (p : prepared) : phases :=
  let remove_loose := is_remove_loose pmode in
  let '(o1, us1) := commit_updates w remove_loose f (p_updates p) in
  let f1 := run_ops o1 f in
  let o2 := reflog_deletes f1 us1 in
  let f2 := run_ops o2 f1 in
  match p_packed p with
  | Some t =>
      let '(pa, pp, pc, perr) := packed_commit f2 t in
      let f3 := run_ops (pa ++ pp ++ pc) f2 in
      match perr with
      | Some e => mkPhases (o1 ++ o2 ++ pa) pp (pc ++ drop_locks us1 f3) (RCommitErr e)
      | None =>
          let '(o4, us4) := commit_deletes remove_loose f3 us1 in
          mkPhases (o1 ++ o2 ++ pa) pp (pc ++ o4 ++ drop_locks us4 (run_ops o4 f3)) ROk
      end
  | None =>
      let '(o4, us4) := commit_deletes remove_loose f2 us1 in
      mkPhases (o1 ++ o2) [] (o4 ++ drop_locks us4 (run_ops o4 f2)) ROk
  end.

(* prepare, then commit *)
Definition txn_phases (w : write_reflog) (pmode : packed_mode) (f : fs) (edits : list edit) : phases :=
  let '(o0, res) := prepare_inner f pmode edits in
  match res with
  | Ok p =>
      let ph := commit_inner w pmode (run_ops o0 f) p in
      mkPhases (o0 ++ ph_a ph) (ph_p ph) (ph_c ph) (ph_result ph)
  | Err x => mkPhases o0 [] [] (RPrepareErr x)
  | Panic => mkPhases o0 [] [] RPanic
  | OutOfFuel => mkPhases o0 [] [] RHang
  end.
Definition ops_of (ph : phases) : list op := ph_a ph ++ ph_p ph ++ ph_c ph.
Definition txn_ops (w : write_reflog) (pmode : packed_mode) (f : fs) (edits : list edit) : list op :=
  ops_of (txn_phases w pmode f edits).
