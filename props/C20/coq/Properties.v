(* C20 — reference updates are crash-consistent: theorems about the model's operation list of a transaction
   (Model.txn_ops = prepare + commit, every element one labelled file-system mutation of the real code).
   [crashed ops n f] is the file system a process leaves when it is killed right before its (n+1)-th mutation. *)
From Coq Require Import List NArith Bool Arith.
From GixV.Base Require Import Bytes Outcome.
From GixV.C20 Require Import Model ProofsGeneric ProofsTxn ProofsMain.
Import ListNotations.

(* For every store, every edit list (no edit named `packed-refs`), all three PackedRefs modes, all reflog modes and
   EVERY crash point: each reference — any path that is neither a lock file nor below logs/ — reads (loose file
   first, then packed-refs) exactly as before the transaction or exactly as after the complete transaction. *)
Theorem crash_consistent_reads : forall w pmode f edits n name,
  names_ok edits = true -> protected name = true -> name <> packed_path ->
  let ops := txn_ops w pmode f edits in
  read_ref (crashed ops n f) name = read_ref f name \/
  read_ref (crashed ops n f) name = read_ref (run_ops ops f) name.
Proof. exact refs_read_old_or_new. Qed.

(* … and this does not depend on how loose files and packed-refs are decoded: it holds for every decoder *)
Theorem crash_consistent_reads_any_decoder : forall (q : bytes) (V : Type) (ld : bytes -> V) (pk : option bytes -> V)
  A P C f n, protected q = true -> q <> packed_path -> discipline A P C ->
  read_gen q ld pk (run_ops (firstn n (A ++ P ++ C)) f) = read_gen q ld pk f \/
  read_gen q ld pk (run_ops (firstn n (A ++ P ++ C)) f) = read_gen q ld pk (run_ops (A ++ P ++ C) f).
Proof. intros q V ld pk A P C f n Hq Hn D. exact (read_old_or_new q Hq Hn ld pk A P C f n D). Qed.

(* the operation list of every transaction obeys the discipline: lock/reflog/directory operations and renames into
   place (each name once), then at most one operation on packed-refs, then lock/reflog/directory operations and
   removals of loose files that were not renamed before *)
Theorem transaction_obeys_discipline : forall w pmode f edits, names_ok edits = true ->
  let ph := txn_phases w pmode f edits in discipline (ph_a ph) (ph_p ph) (ph_c ph).
Proof. exact txn_discipline. Qed.

(* packed-refs is the complete old or the complete new file (or absent, if it was / will be) at every crash point *)
Theorem packed_refs_complete_old_or_new : forall w pmode f edits n, names_ok edits = true ->
  let ops := txn_ops w pmode f edits in
  lookup_file packed_path (crashed ops n f) = lookup_file packed_path f \/
  lookup_file packed_path (crashed ops n f) = lookup_file packed_path (run_ops ops f).
Proof. exact packed_refs_old_or_new. Qed.

(* every file that is neither a lock file nor a reflog has its old or its new content (or absence) *)
Theorem files_complete_old_or_new : forall w pmode f edits n q, names_ok edits = true -> protected q = true ->
  let ops := txn_ops w pmode f edits in
  lookup_file q (crashed ops n f) = lookup_file q f \/
  lookup_file q (crashed ops n f) = lookup_file q (run_ops ops f).
Proof. exact files_old_or_new. Qed.

(* the only files in an in-between state are `*.lock` files and reflogs *)
Theorem leftovers_are_lock_files_or_reflogs : forall w pmode f edits n q, names_ok edits = true ->
  let ops := txn_ops w pmode f edits in
  lookup_file q (crashed ops n f) <> lookup_file q f ->
  lookup_file q (crashed ops n f) <> lookup_file q (run_ops ops f) ->
  ends_with_lock q = true \/ starts_with (bs "logs/") q = true.
Proof. exact leftovers_are_locks_or_reflogs. Qed.

(* a transaction whose prepare fails never changes a reference or packed-refs, whenever it is killed *)
Theorem failed_prepare_is_invisible : forall w pmode f edits n q x, names_ok edits = true -> protected q = true ->
  ph_result (txn_phases w pmode f edits) = RPrepareErr x ->
  lookup_file q (crashed (txn_ops w pmode f edits) n f) = lookup_file q f.
Proof. exact failed_prepare_changes_no_file. Qed.

(* known class refs-directory-removed: the directory refs/ itself may disappear (lock clean-up goes up to the git
   directory), after which git does not accept the repository; outside that class refs/ is there at every point *)
Theorem refs_directory_kept_refuted :
  exists w pmode f edits n, names_ok edits = true /\ is_dir refs_dir f = true /\
    ph_result (txn_phases w pmode f edits) = ROk /\
    is_dir refs_dir (crashed (txn_ops w pmode f edits) n f) = false.
Proof. exact refs_directory_kept_refuted_lemma. Qed.
Theorem refs_directory_kept_except_known : forall ops f n,
  known_refs_directory_removed ops f = false -> is_dir refs_dir (crashed ops n f) = true.
Proof. exact refs_directory_kept_except_known_lemma. Qed.

(* ------------------------------------------------------------------ non-vacuity *)

(* an update of a loose+packed branch, a deletion of a packed branch and a new tag, in the mode that removes loose
   sources: 18 operations, committed; hypotheses of the theorems hold *)
Example example_committed :
  names_ok example_edits = true /\
  ph_result (txn_phases RNormal DeletionsAndUpdatesRemoveLoose example_fs example_edits) = ROk /\
  length example_ops = 18 /\
  protected (bs "refs/heads/a") = true /\ protected (bs "refs/heads/a.lock") = false.
Proof. vm_compute. auto 10. Qed.
(* the reference really changes, and there are crash points at which it still reads old / already reads new *)
Example example_old_then_new :
  read_ref example_fs (bs "refs/heads/a") = Some (Obj x31) /\
  read_ref (run_ops example_ops example_fs) (bs "refs/heads/a") = Some (Obj x34) /\
  read_ref (crashed example_ops 15 example_fs) (bs "refs/heads/a") = Some (Obj x31) /\
  read_ref (crashed example_ops 16 example_fs) (bs "refs/heads/a") = Some (Obj x34) /\
  read_ref (run_ops example_ops example_fs) (bs "refs/heads/b") = None.
Proof. vm_compute. auto 10. Qed.
(* the order matters: removing the loose file BEFORE packed-refs is replaced exposes the stale packed value 2,
   which is neither the old value 1 nor the new value 4 *)
Example wrong_order_is_not_crash_consistent :
  let ops := [Create packed_lock; Write packed_lock (header_line ++ bs "4 refs/heads/a" ++ [nl]);
              Remove (bs "refs/heads/a"); Rename packed_lock packed_path] in
  read_ref example_fs (bs "refs/heads/a") = Some (Obj x31) /\
  read_ref (run_ops ops example_fs) (bs "refs/heads/a") = Some (Obj x34) /\
  read_ref (crashed ops 3 example_fs) (bs "refs/heads/a") = Some (Obj x32).
Proof. vm_compute. auto. Qed.
Example known_class_example :
  known_refs_directory_removed (txn_ops RDisable DeletionsOnly witness_fs witness_edits) witness_fs = true /\
  known_refs_directory_removed example_ops example_fs = false.
Proof. vm_compute. auto. Qed.
