(* C20 — the crash-consistency theorems for the operation list of a transaction. *)
From Coq Require Import List NArith Bool Arith Lia.
From GixV.Base Require Import Bytes BytesFacts Outcome.
From GixV.C20 Require Import Model ProofsGeneric ProofsTxn.
Import ListNotations.

(* the state a process leaves behind when it is killed right before its (n+1)-th file-system mutation *)
Definition crashed (ops : list op) (n : nat) (f : fs) : fs := run_ops (firstn n ops) f.

Lemma ops_of_phases ph : ops_of ph = ph_a ph ++ ph_p ph ++ ph_c ph.
Proof. reflexivity. Qed.

Definition pk_of (n : bytes) (pf : option bytes) : option target :=
  match option_map parse_packed pf with
  | Some b => option_map Obj (packed_lookup b n)
  | None => None
  end.
Lemma read_ref_gen f n : read_ref f n = read_gen n parse_loose (pk_of n) f.
Proof. reflexivity. Qed.

Lemma refs_read_old_or_new w pmode f edits n name :
  names_ok edits = true -> protected name = true -> name <> packed_path ->
  let ops := txn_ops w pmode f edits in
  read_ref (crashed ops n f) name = read_ref f name \/
  read_ref (crashed ops n f) name = read_ref (run_ops ops f) name.
Proof.
  intros Hok Hp Hn ops. subst ops. unfold crashed, txn_ops. rewrite ops_of_phases, !read_ref_gen.
  apply read_old_or_new; [assumption|assumption|]. apply txn_discipline. exact Hok.
Qed.

Lemma packed_refs_old_or_new w pmode f edits n : names_ok edits = true ->
  let ops := txn_ops w pmode f edits in
  lookup_file packed_path (crashed ops n f) = lookup_file packed_path f \/
  lookup_file packed_path (crashed ops n f) = lookup_file packed_path (run_ops ops f).
Proof.
  intros Hok ops. subst ops. unfold crashed, txn_ops. rewrite ops_of_phases.
  apply (packed_old_or_new (bs "HEAD")); [reflexivity|]. apply txn_discipline. exact Hok.
Qed.

Lemma files_old_or_new w pmode f edits n q : names_ok edits = true -> protected q = true ->
  let ops := txn_ops w pmode f edits in
  lookup_file q (crashed ops n f) = lookup_file q f \/
  lookup_file q (crashed ops n f) = lookup_file q (run_ops ops f).
Proof.
  intros Hok Hq ops. destruct (bytes_eqb q packed_path) eqn:E.
  - apply bytes_eqb_eq in E. subst q. apply packed_refs_old_or_new. exact Hok.
  - subst ops. unfold crashed, txn_ops. rewrite ops_of_phases.
    apply file_old_or_new; [exact Hq| |apply txn_discipline; exact Hok].
    intros X. subst q. rewrite beq_refl in E. discriminate.
Qed.

Lemma leftovers_are_locks_or_reflogs w pmode f edits n q : names_ok edits = true ->
  let ops := txn_ops w pmode f edits in
  lookup_file q (crashed ops n f) <> lookup_file q f ->
  lookup_file q (crashed ops n f) <> lookup_file q (run_ops ops f) ->
  ends_with_lock q = true \/ starts_with (bs "logs/") q = true.
Proof.
  intros Hok ops H1 H2. destruct (protected q) eqn:Hq.
  - exfalso. destruct (files_old_or_new w pmode f edits n q Hok Hq); contradiction.
  - unfold protected in Hq. apply andb_false_iff in Hq. destruct Hq as [Hq|Hq]; apply negb_false_iff in Hq; auto.
Qed.

(* a failed prepare (expectation not met, duplicate names) touches lock files and directories only *)
Lemma failed_prepare_changes_no_file w pmode f edits n q x : names_ok edits = true -> protected q = true ->
  ph_result (txn_phases w pmode f edits) = RPrepareErr x ->
  lookup_file q (crashed (txn_ops w pmode f edits) n f) = lookup_file q f.
Proof.
  intros Hok Hq Hr. unfold crashed, txn_ops, ops_of.
  pose proof (prepare_facts f pmode edits) as [Hplain _].
  unfold txn_phases in *. destruct (prepare_inner f pmode edits) as [o0 res]. cbn [fst] in Hplain.
  destruct res as [p|y| |]; cbn [ph_a ph_p ph_c ph_result] in *; try discriminate.
  - exfalso. unfold commit_inner in Hr.
    destruct (commit_updates w (is_remove_loose pmode) (run_ops o0 f) (p_updates p)) as [o1 us1].
    destruct (p_packed p) as [t|].
    + destruct (packed_commit _ t) as [[[pa pp] pc] [e|]]; [discriminate|].
      destruct (commit_deletes _ _ us1); discriminate.
    + destruct (commit_deletes _ _ us1); discriminate.
  - rewrite !app_nil_r.
    assert (G : forall l g, forallb plain l = true -> lookup_file q (run_ops l g) = lookup_file q g).
    { induction l as [|o l IH]; intros g Hl; [reflexivity|]. cbn [forallb] in Hl. apply andb_true_iff in Hl.
      destruct Hl as [Ho Hl]. change (run_ops (o :: l) g) with (run_ops l (exec o g)).
      rewrite (IH _ Hl). apply plain_keeps; assumption. }
    apply G. rewrite <- (firstn_skipn n o0) in Hplain. rewrite forallb_app in Hplain.
    apply andb_true_iff in Hplain. tauto.
Qed.

(* ------------------------------------------------------------------ the known class: refs/ itself can be removed *)

Definition refs_dir : bytes := bs "refs".
Definition prefix_states (ops : list op) (f : fs) : list fs :=
  map (fun n => crashed ops n f) (seq 0 (S (length ops))).
Definition known_refs_directory_removed (ops : list op) (f : fs) : bool :=
  existsb (fun s => negb (is_dir refs_dir s)) (prefix_states ops f).

Lemma refs_directory_kept_except_known_lemma ops f n :
  known_refs_directory_removed ops f = false -> is_dir refs_dir (crashed ops n f) = true.
Proof.
  intros H. unfold known_refs_directory_removed in H.
  assert (In (crashed ops (Nat.min n (length ops)) f) (prefix_states ops f)).
  { unfold prefix_states. apply in_map_iff. exists (Nat.min n (length ops)). split; [reflexivity|].
    apply in_seq. lia. }
  assert (E : crashed ops n f = crashed ops (Nat.min n (length ops)) f).
  { unfold crashed. destruct (le_lt_dec n (length ops)).
    - rewrite Nat.min_l by lia. reflexivity.
    - rewrite Nat.min_r by lia. rewrite !firstn_all2 by lia. reflexivity. }
  rewrite E. destruct (is_dir refs_dir (crashed ops (Nat.min n (length ops)) f)) eqn:D; [reflexivity|].
  exfalso. rewrite <- not_true_iff_false in H. apply H. apply existsb_exists. eexists. split; [eassumption|].
  rewrite D. reflexivity.
Qed.

Definition witness_fs : fs :=
  [(bs "refs", Dir); (bs "refs/heads", Dir); (bs "refs/heads/a", File (bs "1" ++ [nl]));
   (bs "HEAD", File (bs "ref: refs/heads/a" ++ [nl]))].
Definition witness_edits : list edit := [mkEdit (bs "refs/heads/a") (Delete PAny AndRef)].

Lemma refs_directory_kept_refuted_lemma :
  exists w pmode f edits n, names_ok edits = true /\ is_dir refs_dir f = true /\
    ph_result (txn_phases w pmode f edits) = ROk /\
    is_dir refs_dir (crashed (txn_ops w pmode f edits) n f) = false.
Proof.
  exists RDisable, DeletionsOnly, witness_fs, witness_edits, 20. vm_compute. auto.
Qed.

(* ------------------------------------------------------------------ non-vacuity *)

Definition example_fs : fs :=
  [(bs "refs", Dir); (bs "refs/heads", Dir); (bs "refs/tags", Dir);
   (bs "refs/heads/a", File (bs "1" ++ [nl]));
   (bs "HEAD", File (bs "ref: refs/heads/a" ++ [nl]));
   (bs "packed-refs", File (header_line ++ bs "2 refs/heads/a" ++ [nl] ++ bs "3 refs/heads/b" ++ [nl]))].
Definition example_edits : list edit :=
  [mkEdit (bs "refs/heads/a") (Update AndRef false (PMatch (Obj x31)) (Obj x34));
   mkEdit (bs "refs/heads/b") (Delete PAny AndRef);
   mkEdit (bs "refs/tags/t") (Update AndRef false PMustNotExist (Obj x63))].
Definition example_ops : list op := txn_ops RNormal DeletionsAndUpdatesRemoveLoose example_fs example_edits.
