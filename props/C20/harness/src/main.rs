//! C20 — reference updates are crash-consistent.
//!
//! Case (fields are hex on the wire, shown decoded):
//!   txn <mode 0|1|2> <reflog 0|1|2> <loose> <packed> <logs> <dirs> <edits>
//!     loose  : `name:target,...`       target = `@fullname` (symbolic) | one hex char c (object number c)
//!     packed : `` (no packed-refs) | `=name:c,...` (file exists, sorted entries)
//!     logs   : `name:c,...`            references that have a reflog with one line (null -> c)
//!     dirs   : `path,...`              extra (empty) directories
//!     edits  : `name:K:expected:new:log:force,...`   K = U|D, expected = A|E|N|M<target>|X<target>,
//!                                      new = target | `-`, log = R|L, force = 0|1 (force_create_reflog)
//!
//! Transcript:  <result> | <label>,<label>,… | <state 0>;<state 1>;…;<state n>
//!   label k   = the k-th labelled file-system mutation point of gix_fs::verif (paths relative to the git dir)
//!   state k   = the directory tree right before point k+1 (what a process killed there leaves behind), the
//!               last one is the tree after the call returned:  `dir/`,`file=<hex of content>`,…#name=value,…
//!               (object ids abbreviated to their number, the null id to `Z`, the packed-refs header to `#`),
//!               value = what a fresh file::Store::try_find reads.
use gix_lock::acquire::Fail;
use gix_ref::{
    file,
    file::transaction::PackedRefs,
    transaction::{Change, LogChange, PreviousValue, RefEdit, RefLog},
    FullName, Target,
};
use gixv_common::{f_str, main_with, tag, Case, Harness, Rng, Verdict};
use std::collections::{BTreeMap, BTreeSet};
use std::path::{Path, PathBuf};
use std::sync::atomic::{AtomicU64, Ordering};
use std::sync::{Mutex, OnceLock};
use std::time::Duration;

// ---------------------------------------------------------------- objects (same table as C16)

fn tag_target(c: u8) -> Option<u8> {
    match c {
        b'c' => Some(b'1'),
        b'd' => Some(b'2'),
        b'e' => Some(b'c'),
        b'f' => Some(b'3'),
        _ => None,
    }
}
fn peel(c: u8) -> u8 {
    let mut c = c;
    while let Some(t) = tag_target(c) {
        c = t;
    }
    c
}
const HEXCHARS: &[u8] = b"0123456789abcdef";
const EMPTY_TREE: &str = "4b825dc642cb6eb9a060e54bf8d69288fbee4904";
const HEADER_LINE: &[u8] = b"# pack-refs with: peeled fully-peeled sorted \n";

struct Obj {
    c: u8,
    id: gix_hash::ObjectId,
    kind: gix_object::Kind,
    data: Vec<u8>,
}
fn objects() -> &'static Vec<Obj> {
    static O: OnceLock<Vec<Obj>> = OnceLock::new();
    O.get_or_init(|| {
        let mut v: Vec<Obj> = Vec::new();
        for &c in HEXCHARS {
            let (kind, data) = match tag_target(c) {
                None => (
                    gix_object::Kind::Commit,
                    format!(
                        "tree {EMPTY_TREE}\nauthor A <a@b.c> 1 +0000\ncommitter A <a@b.c> 1 +0000\n\nc{}\n",
                        c as char
                    )
                    .into_bytes(),
                ),
                Some(t) => {
                    let target = v.iter().find(|o| o.c == t).expect("targets come first");
                    (
                        gix_object::Kind::Tag,
                        format!(
                            "object {}\ntype {}\ntag t{}\ntagger A <a@b.c> 1 +0000\n\nm\n",
                            target.id,
                            if target.kind == gix_object::Kind::Tag { "tag" } else { "commit" },
                            c as char
                        )
                        .into_bytes(),
                    )
                }
            };
            let id = gix_object::compute_hash(gix_hash::Kind::Sha1, kind, &data);
            v.push(Obj { c, id, kind, data });
        }
        // 'e' is a tag of tag 'c', which must come first: the table is built in HEXCHARS order, so c precedes e
        v
    })
}
fn oid_of(c: u8) -> gix_hash::ObjectId {
    objects().iter().find(|o| o.c == c).expect("hex char").id
}
fn digit_of_hex(hex: &[u8]) -> Option<u8> {
    objects().iter().find(|o| o.id.to_hex().to_string().as_bytes() == hex).map(|o| o.c)
}
struct Table;
impl gix_object::Find for Table {
    fn try_find<'a>(
        &self,
        id: &gix_hash::oid,
        buffer: &'a mut Vec<u8>,
    ) -> Result<Option<gix_object::Data<'a>>, gix_object::find::Error> {
        match objects().iter().find(|o| o.id == id) {
            Some(o) => {
                buffer.clear();
                buffer.extend_from_slice(&o.data);
                Ok(Some(gix_object::Data { kind: o.kind, data: &buffer[..] }))
            }
            None => Ok(None),
        }
    }
}
fn base_dir() -> PathBuf {
    let shm = Path::new("/dev/shm");
    if shm.is_dir() {
        shm.to_owned()
    } else {
        std::env::temp_dir()
    }
}
/// A real object directory for git (shared by all cases of all processes; content is fixed).
fn objects_dir() -> &'static PathBuf {
    static D: OnceLock<PathBuf> = OnceLock::new();
    D.get_or_init(|| {
        use gix_odb::Write;
        let dir = base_dir().join("gixv-c20-objects");
        std::fs::create_dir_all(&dir).expect("mkdir objects");
        let store = gix_odb::loose::Store::at(dir.clone(), gix_hash::Kind::Sha1);
        let tree = store.write_buf(gix_object::Kind::Tree, b"").expect("write tree");
        assert_eq!(tree.to_hex().to_string(), EMPTY_TREE);
        for o in objects() {
            let id = store.write_buf(o.kind, &o.data).expect("write object");
            assert_eq!(id, o.id);
        }
        dir
    })
}

// ---------------------------------------------------------------- decoding of case text

fn s(b: &[u8]) -> String {
    String::from_utf8_lossy(b).into_owned()
}
fn split(b: &[u8], sep: u8) -> Vec<Vec<u8>> {
    if b.is_empty() {
        return vec![];
    }
    b.split(|x| *x == sep).map(|x| x.to_vec()).collect()
}
fn is_hex_char(c: u8) -> bool {
    c.is_ascii_digit() || (b'a'..=b'f').contains(&c)
}
/// target text as used in cases and views: `@name` or one hex char
fn target_ok(t: &[u8]) -> bool {
    match t.first() {
        Some(b'@') => FullName::try_from(s(&t[1..]).as_str()).is_ok(),
        Some(c) => t.len() == 1 && is_hex_char(*c),
        None => false,
    }
}
fn target_of(t: &[u8]) -> Target {
    if let Some(name) = t.strip_prefix(b"@") {
        Target::Symbolic(FullName::try_from(s(name).as_str()).expect("checked"))
    } else {
        Target::Object(oid_of(t[0]))
    }
}
fn target_text(t: &Target) -> String {
    match t {
        Target::Symbolic(n) => format!("@{}", s(n.as_bstr())),
        Target::Object(id) => match digit_of_hex(id.to_hex().to_string().as_bytes()) {
            Some(c) => (c as char).to_string(),
            None => format!("?{id}"),
        },
    }
}

#[derive(Clone)]
struct E {
    name: Vec<u8>,
    update: bool,
    expected: Vec<u8>,
    new: Vec<u8>,
    and_ref: bool,
    force: bool,
}
struct Tx {
    mode: u8,
    reflog: u8,
    loose: Vec<(Vec<u8>, Vec<u8>)>,
    packed: Option<Vec<(Vec<u8>, u8)>>,
    logs: Vec<(Vec<u8>, u8)>,
    dirs: Vec<Vec<u8>>,
    edits: Vec<E>,
    names: Vec<Vec<u8>>,
}
fn pairs(b: &[u8]) -> Option<Vec<(Vec<u8>, Vec<u8>)>> {
    let mut out = Vec::new();
    for item in split(b, b',') {
        let p: Vec<&[u8]> = item.split(|x| *x == b':').collect();
        if p.len() != 2 {
            return None;
        }
        out.push((p[0].to_vec(), p[1].to_vec()));
    }
    Some(out)
}
fn named_bytes(b: &[u8]) -> Option<Vec<(Vec<u8>, u8)>> {
    pairs(b)?.into_iter().map(|(n, c)| if c.len() == 1 { Some((n, c[0])) } else { None }).collect()
}
fn expected_ok(t: &[u8]) -> bool {
    match t.first() {
        Some(b'A' | b'E' | b'N') => t.len() == 1,
        Some(b'M' | b'X') => target_ok(&t[1..]),
        _ => false,
    }
}
fn parse_edit(e: &[u8]) -> Option<E> {
    let p: Vec<&[u8]> = e.split(|x| *x == b':').collect();
    if p.len() != 6 {
        return None;
    }
    FullName::try_from(s(p[0]).as_str()).ok()?;
    let update = match p[1] {
        b"U" => true,
        b"D" => false,
        _ => return None,
    };
    if !expected_ok(p[2]) || (update && !target_ok(p[3])) {
        return None;
    }
    let and_ref = match p[4] {
        b"R" => true,
        b"L" => false,
        _ => return None,
    };
    Some(E { name: p[0].to_vec(), update, expected: p[2].to_vec(), new: p[3].to_vec(), and_ref, force: p[5] == b"1" })
}
fn parse(c: &Case) -> Option<Tx> {
    if f_str(c, 0) != b"txn" {
        return None;
    }
    let mode = match f_str(c, 1) {
        b"0" => 0,
        b"1" => 1,
        b"2" => 2,
        _ => return None,
    };
    let reflog = match f_str(c, 2) {
        b"0" => 0,
        b"1" => 1,
        b"2" => 2,
        _ => return None,
    };
    let loose = pairs(f_str(c, 3))?;
    if loose.iter().any(|(_, t)| !target_ok(t)) {
        return None;
    }
    let packed = match f_str(c, 4) {
        b"" => None,
        p => Some(named_bytes(&p[1..])?),
    };
    let logs = named_bytes(f_str(c, 5))?;
    let dirs = split(f_str(c, 6), b',');
    let edits: Vec<E> = split(f_str(c, 7), b',').iter().map(|e| parse_edit(e)).collect::<Option<_>>()?;
    let mut names: BTreeSet<Vec<u8>> = BTreeSet::new();
    names.extend(loose.iter().map(|x| x.0.clone()));
    if let Some(p) = &packed {
        names.extend(p.iter().map(|x| x.0.clone()));
    }
    names.extend(edits.iter().map(|e| e.name.clone()));
    Some(Tx { mode, reflog, loose, packed, logs, dirs, edits, names: names.into_iter().collect() })
}
fn expected_of(t: &[u8]) -> PreviousValue {
    match t[0] {
        b'A' => PreviousValue::Any,
        b'E' => PreviousValue::MustExist,
        b'N' => PreviousValue::MustNotExist,
        b'M' => PreviousValue::MustExistAndMatch(target_of(&t[1..])),
        _ => PreviousValue::ExistingMustMatch(target_of(&t[1..])),
    }
}
fn edit_of(e: &E) -> RefEdit {
    let mode = if e.and_ref { RefLog::AndReference } else { RefLog::Only };
    let change = if e.update {
        Change::Update {
            log: LogChange { mode, force_create_reflog: e.force, message: "m".into() },
            expected: expected_of(&e.expected),
            new: target_of(&e.new),
        }
    } else {
        Change::Delete { expected: expected_of(&e.expected), log: mode }
    };
    RefEdit { change, name: FullName::try_from(s(&e.name).as_str()).expect("checked"), deref: false }
}

// ---------------------------------------------------------------- the store on disk

static COUNTER: AtomicU64 = AtomicU64::new(0);
struct TempDir(PathBuf);
impl TempDir {
    fn new() -> Self {
        let n = COUNTER.fetch_add(1, Ordering::Relaxed);
        let p = base_dir().join(format!("gixv-c20-{}-{}", std::process::id(), n));
        let _ = std::fs::remove_dir_all(&p);
        std::fs::create_dir_all(p.join("refs")).expect("mkdir");
        TempDir(p)
    }
}
impl Drop for TempDir {
    fn drop(&mut self) {
        let _ = std::fs::remove_dir_all(&self.0);
    }
}
fn write_file(root: &Path, rel: &str, content: &[u8]) {
    let p = root.join(rel);
    if let Some(d) = p.parent() {
        std::fs::create_dir_all(d).expect("mkdir -p");
    }
    std::fs::write(p, content).expect("write");
}
fn content_of_target(t: &[u8]) -> Vec<u8> {
    if let Some(name) = t.strip_prefix(b"@") {
        [b"ref: ", name, b"\n"].concat()
    } else {
        format!("{}\n", oid_of(t[0])).into_bytes()
    }
}
fn reflog_line(c: u8) -> Vec<u8> {
    format!("{} {} C <c@d> 1 +0000\tm\n", gix_hash::Kind::Sha1.null(), oid_of(c)).into_bytes()
}
fn build_store(root: &Path, t: &Tx) {
    std::fs::create_dir_all(root.join("refs")).expect("mkdir refs");
    for d in &t.dirs {
        std::fs::create_dir_all(root.join(s(d))).expect("mkdir dir");
    }
    for (name, target) in &t.loose {
        write_file(root, &s(name), &content_of_target(target));
    }
    if let Some(p) = &t.packed {
        let mut out = HEADER_LINE.to_vec();
        for (name, c) in p {
            out.extend_from_slice(format!("{} {}\n", oid_of(*c), s(name)).as_bytes());
            if peel(*c) != *c {
                out.extend_from_slice(format!("^{}\n", oid_of(peel(*c))).as_bytes());
            }
        }
        write_file(root, "packed-refs", &out);
    }
    for (name, c) in &t.logs {
        write_file(root, &format!("logs/{}", s(name)), &reflog_line(*c));
    }
    // what git needs to accept the directory as a bare repository (never part of a dump)
    std::os::unix::fs::symlink(objects_dir(), root.join("objects")).expect("symlink objects");
    write_file(root, "config", b"[core]\n\trepositoryformatversion = 0\n\tbare = true\n\tlogAllRefUpdates = false\n");
}
fn open_store(root: &Path, reflog: u8) -> file::Store {
    file::Store::at(
        root.to_owned(),
        gix_ref::store::init::Options {
            write_reflog: match reflog {
                0 => gix_ref::store::WriteReflog::Disable,
                1 => gix_ref::store::WriteReflog::Normal,
                _ => gix_ref::store::WriteReflog::Always,
            },
            object_hash: gix_hash::Kind::Sha1,
            precompose_unicode: false,
            prohibit_windows_device_names: false,
        },
    )
}
fn prepare_err_text(e: &file::transaction::prepare::Error) -> String {
    use file::transaction::prepare::Error as E;
    match e {
        E::Packed(_) => "Packed",
        E::PackedTransactionAcquire(_) => "PackedTransactionAcquire",
        E::PackedTransactionPrepare(_) => "PackedTransactionPrepare",
        E::PackedFind(_) => "PackedFind",
        E::PreprocessingFailed(_) => "PreprocessingFailed",
        E::LockAcquire { .. } => "LockAcquire",
        E::Io(_) => "Io",
        E::DeleteReferenceMustExist { .. } => "DeleteReferenceMustExist",
        E::MustNotExist { .. } => "MustNotExist",
        E::MustExist { .. } => "MustExist",
        E::ReferenceOutOfDate { .. } => "ReferenceOutOfDate",
        E::ReferenceDecode(_) => "ReferenceDecode",
    }
    .into()
}
fn commit_err_text(e: &file::transaction::commit::Error) -> String {
    use file::transaction::commit::Error as E;
    match e {
        E::PackedTransactionCommit(_) => "PackedTransactionCommit",
        E::PreprocessingFailed { .. } => "PreprocessingFailed",
        E::LockCommit { .. } => "LockCommit",
        E::DeleteReference { .. } => "DeleteReference",
        E::DeleteReflog { .. } => "DeleteReflog",
        E::CreateOrUpdateRefLog(_) => "CreateOrUpdateRefLog",
    }
    .into()
}
/// prepare + commit with the real code; everything the transaction owns is dropped before this returns
fn run_transaction(root: &Path, t: &Tx) -> String {
    let store = open_store(root, t.reflog);
    let edits: Vec<RefEdit> = t.edits.iter().map(edit_of).collect();
    let packed_refs = match t.mode {
        0 => PackedRefs::DeletionsOnly,
        1 => PackedRefs::DeletionsAndNonSymbolicUpdates(Box::new(Table)),
        _ => PackedRefs::DeletionsAndNonSymbolicUpdatesRemoveLooseSourceReference(Box::new(Table)),
    };
    let committer = gix_actor::SignatureRef {
        name: "C".into(),
        email: "c@d".into(),
        time: gix_date::Time { seconds: 1, offset: 0, sign: gix_date::time::Sign::Plus },
    };
    let result = match store.transaction().packed_refs(packed_refs).prepare(edits, Fail::Immediately, Fail::Immediately) {
        Err(e) => format!("P:err {}", prepare_err_text(&e)),
        Ok(txn) => match txn.commit(committer) {
            Ok(_) => "ok".to_string(),
            Err(e) => format!("C:err {}", commit_err_text(&e)),
        },
    };
    result
}

// ---------------------------------------------------------------- observation

/// object ids -> their number, null id -> Z, packed-refs header -> `#`
fn abbrev(content: &[u8]) -> Vec<u8> {
    let mut out = Vec::new();
    let mut i = 0;
    if content.starts_with(HEADER_LINE) {
        out.extend_from_slice(b"#\n");
        i = HEADER_LINE.len();
    }
    while i < content.len() {
        if i + 40 <= content.len() && content[i..i + 40].iter().all(|c| is_hex_char(*c)) {
            let hex = &content[i..i + 40];
            if hex.iter().all(|c| *c == b'0') {
                out.push(b'Z');
                i += 40;
                continue;
            }
            if let Some(c) = digit_of_hex(hex) {
                out.push(c);
                i += 40;
                continue;
            }
        }
        out.push(content[i]);
        i += 1;
    }
    out
}
#[derive(Clone, PartialEq, Eq, Debug)]
enum Node {
    Dir,
    File(Vec<u8>),
}
type Tree = BTreeMap<Vec<u8>, Node>;
fn walk(root: &Path, dir: &Path, out: &mut Tree) {
    if let Ok(rd) = std::fs::read_dir(dir) {
        for e in rd.flatten() {
            let p = e.path();
            let rel = p.strip_prefix(root).expect("prefix").to_string_lossy().into_owned().into_bytes();
            if rel == b"objects" || rel == b"config" {
                continue;
            }
            let ft = match e.file_type() {
                Ok(t) => t,
                Err(_) => continue,
            };
            if ft.is_dir() {
                out.insert(rel, Node::Dir);
                walk(root, &p, out);
            } else {
                out.insert(rel, Node::File(abbrev(&std::fs::read(&p).unwrap_or_default())));
            }
        }
    }
}
fn tree_of(root: &Path) -> Tree {
    let mut t = Tree::new();
    walk(root, root, &mut t);
    t
}
fn tree_text(t: &Tree) -> String {
    t.iter()
        .map(|(p, n)| match n {
            Node::Dir => format!("{}/", s(p)),
            Node::File(c) => format!("{}={}", s(p), gixv_common::hexs(c)),
        })
        .collect::<Vec<_>>()
        .join(",")
}
/// the references as a fresh `file::Store` reads them
fn gix_view(root: &Path, names: &[Vec<u8>]) -> Vec<(Vec<u8>, String)> {
    let store = open_store(root, 0);
    names
        .iter()
        .map(|n| {
            let v = match store.try_find(s(n).as_str()) {
                Ok(Some(r)) => {
                    if r.name.as_bstr() == n.as_slice() {
                        target_text(&r.target)
                    } else {
                        format!(">{}", s(r.name.as_bstr()))
                    }
                }
                Ok(None) => "-".to_string(),
                Err(_) => "!err".to_string(),
            };
            (n.clone(), v)
        })
        .collect()
}
fn view_text(v: &[(Vec<u8>, String)]) -> String {
    v.iter().map(|(n, t)| format!("{}={}", s(n), t)).collect::<Vec<_>>().join(",")
}

#[derive(Clone)]
struct Snap {
    tree: Tree,
    view: Vec<(Vec<u8>, String)>,
    git: Option<GitView>,
}
#[derive(Clone)]
struct GitView {
    refs: Option<BTreeMap<Vec<u8>, String>>, // None: git failed
    head: Option<String>,
    fsck_ok: bool,
    fsck_text: String,
}
struct Recorder {
    thread: std::thread::ThreadId,
    root: PathBuf,
    names: Vec<Vec<u8>>,
    with_git: bool,
    with_head: bool,
    labels: Vec<String>,
    snaps: Vec<Snap>,
}
static RECORDER: Mutex<Option<Recorder>> = Mutex::new(None);

fn relabel(root: &Path, label: &str) -> String {
    let root_s = root.to_string_lossy();
    label
        .split(' ')
        .map(|w| {
            if w == root_s {
                ".".to_string()
            } else if let Some(rest) = w.strip_prefix(&format!("{root_s}/")) {
                rest.to_string()
            } else {
                w.to_string()
            }
        })
        .collect::<Vec<_>>()
        .join(" ")
}
fn snap(root: &Path, names: &[Vec<u8>], with_git: bool, with_head: bool) -> Snap {
    Snap { tree: tree_of(root), view: gix_view(root, names), git: with_git.then(|| git_view(root, with_head)) }
}
fn point_hook(label: &str) {
    let mut g = RECORDER.lock().unwrap_or_else(|e| e.into_inner());
    if let Some(r) = g.as_mut() {
        if r.thread == std::thread::current().id() {
            let sn = snap(&r.root, &r.names, r.with_git, r.with_head);
            r.snaps.push(sn);
            let l = relabel(&r.root, label);
            r.labels.push(l);
        }
    }
}

struct Run {
    result: String,
    labels: Vec<String>,
    /// snaps[k] = state before point k+1; the last one is the state after the call
    snaps: Vec<Snap>,
}
fn run_recorded(t: &Tx, with_git: bool) -> Run {
    gix_fs::verif::set_fs_point_hook(point_hook);
    let tmp = TempDir::new();
    let root = tmp.0.clone();
    build_store(&root, t);
    let with_head = t.edits.iter().any(|e| e.name == b"HEAD");
    {
        let mut g = RECORDER.lock().unwrap_or_else(|e| e.into_inner());
        *g = Some(Recorder {
            thread: std::thread::current().id(),
            root: root.clone(),
            names: t.names.clone(),
            with_git,
            with_head,
            labels: Vec::new(),
            snaps: Vec::new(),
        });
    }
    let result = std::panic::catch_unwind(std::panic::AssertUnwindSafe(|| run_transaction(&root, t)));
    let rec = RECORDER.lock().unwrap_or_else(|e| e.into_inner()).take().expect("recorder");
    let result = match result {
        Ok(r) => r,
        Err(p) => std::panic::resume_unwind(p),
    };
    let mut snaps = rec.snaps;
    snaps.push(snap(&root, &t.names, with_git, with_head));
    Run { result, labels: rec.labels, snaps }
}

fn imp(c: &Case) -> String {
    let t = match parse(c) {
        Some(t) => t,
        None => return "invalid".into(),
    };
    let r = run_recorded(&t, false);
    format!(
        "{} | {} | {}",
        r.result,
        r.labels.join(","),
        r.snaps.iter().map(|sn| format!("{}#{}", tree_text(&sn.tree), view_text(&sn.view))).collect::<Vec<_>>().join(";")
    )
}

// ---------------------------------------------------------------- git

fn git(root: &Path, args: &[&str]) -> (bool, String, String) {
    let out = std::process::Command::new("git")
        .arg("--git-dir")
        .arg(root)
        .args(args)
        .env("GIT_CONFIG_NOSYSTEM", "1")
        .env("GIT_CONFIG_GLOBAL", "/dev/null")
        .env("HOME", "/nonexistent")
        .stdin(std::process::Stdio::null())
        .output()
        .expect("git runs");
    (
        out.status.success(),
        String::from_utf8_lossy(&out.stdout).into_owned(),
        String::from_utf8_lossy(&out.stderr).into_owned(),
    )
}
/// what git reads: the object each reference below refs/ resolves to, HEAD (on request), fsck
fn git_view(root: &Path, with_head: bool) -> GitView {
    let (ok, out, _) = git(root, &["for-each-ref", "--format=%(refname) %(objectname)"]);
    let refs = ok.then(|| {
        let mut m = BTreeMap::new();
        for line in out.lines() {
            let p: Vec<&str> = line.split(' ').collect();
            if p.len() >= 2 {
                let v = digit_of_hex(p[1].as_bytes()).map(|c| (c as char).to_string()).unwrap_or_else(|| format!("?{}", p[1]));
                m.insert(p[0].as_bytes().to_vec(), v);
            }
        }
        m
    });
    let head = if with_head && root.join("HEAD").is_file() {
        let (ok, out, _) = git(root, &["rev-parse", "--verify", "-q", "HEAD"]);
        if ok {
            Some(digit_of_hex(out.trim().as_bytes()).map(|c| (c as char).to_string()).unwrap_or_else(|| format!("?{}", out.trim())))
        } else {
            Some("-".into())
        }
    } else {
        None
    };
    let (fsck_ok, o, e) = git(root, &["fsck", "--no-dangling", "--no-progress"]);
    GitView { refs, head, fsck_ok, fsck_text: format!("{o}{e}") }
}

// ---------------------------------------------------------------- the property

/// plain reading of a reference from a dumped tree: loose file first, then packed-refs. No gix code.
#[derive(Clone, PartialEq, Eq, Debug)]
enum Val {
    Absent,
    Is(String),
    Corrupt(String),
}
fn plain_read(tree: &Tree, name: &[u8]) -> Val {
    if let Some(Node::File(c)) = tree.get(name) {
        if let Some(rest) = c.strip_prefix(b"ref: ") {
            let t = rest.strip_suffix(b"\n").unwrap_or(rest);
            return if t.is_empty() { Val::Corrupt("empty symref".into()) } else { Val::Is(format!("@{}", s(t))) };
        }
        let t = c.strip_suffix(b"\n").unwrap_or(c);
        return if t.len() == 1 && is_hex_char(t[0]) {
            Val::Is(s(t))
        } else {
            Val::Corrupt(format!("loose content {:?}", s(c)))
        };
    }
    if name.iter().all(|b| b.is_ascii_uppercase() || *b == b'_') {
        return Val::Absent;
    }
    if let Some(Node::File(c)) = tree.get(b"packed-refs".as_slice()) {
        for line in c.split(|b| *b == b'\n') {
            if line.len() > 2 && line[1] == b' ' && &line[2..] == name {
                return Val::Is(s(&line[..1]));
            }
        }
    }
    Val::Absent
}
/// the object a reference resolves to in a dumped tree, following symbolic references
fn plain_resolve(tree: &Tree, name: &[u8]) -> Option<String> {
    let mut name = name.to_vec();
    for _ in 0..6 {
        match plain_read(tree, &name) {
            Val::Is(x) => match x.strip_prefix('@') {
                Some(t) => name = t.as_bytes().to_vec(),
                None => return Some(x),
            },
            _ => return None,
        }
    }
    None
}
fn val_of_text(t: &str) -> Val {
    match t {
        "-" => Val::Absent,
        x if x.starts_with('!') || x.starts_with('?') || x.starts_with('>') => Val::Corrupt(x.to_string()),
        x => Val::Is(x.to_string()),
    }
}
/// a complete packed-refs file: header, then `c name` lines in strictly ascending order, `^p` only after a line
fn packed_complete(c: &[u8]) -> bool {
    if !c.starts_with(b"#\n") || !c.ends_with(b"\n") {
        return false;
    }
    if c.len() == 2 {
        return true;
    }
    let mut last: Option<Vec<u8>> = None;
    let mut may_peel = false;
    for line in c[2..c.len() - 1].split(|b| *b == b'\n') {
        if line.first() == Some(&b'^') {
            if !may_peel || line.len() != 2 || !is_hex_char(line[1]) {
                return false;
            }
            may_peel = false;
            continue;
        }
        if line.len() < 3 || !is_hex_char(line[0]) || line[1] != b' ' {
            return false;
        }
        let name = line[2..].to_vec();
        if let Some(l) = &last {
            if *l >= name {
                return false;
            }
        }
        last = Some(name);
        may_peel = true;
    }
    true
}
fn is_lock(p: &[u8]) -> bool {
    p.ends_with(b".lock")
}
fn case_hash(c: &Case) -> u64 {
    let mut h: u64 = 0xcbf29ce484222325;
    for f in c {
        for b in f {
            h = (h ^ *b as u64).wrapping_mul(0x100000001b3);
        }
        h = (h ^ 0xff).wrapping_mul(0x100000001b3);
    }
    h
}

fn prop(c: &Case) -> Verdict {
    let t = match parse(c) {
        Some(t) => t,
        None => return Verdict::ok(false, "invalid"),
    };
    if t.edits.iter().any(|e| !e.update && e.expected == b"N") {
        // Change::Delete with PreviousValue::MustNotExist is documented as invalid and panics
        return Verdict::ok(false, "outside-domain-delete-must-not-exist");
    }
    let h = case_hash(c);
    let flags = f_str(c, 8);
    let with_git = h % 128 == 0 || flags.contains(&b'g');
    let with_abort = h % 128 == 1 || flags.contains(&b'a') || std::env::var_os("GIXV_C20_ABORT_ALL").is_some();
    let r = run_recorded(&t, with_git);
    let n = r.labels.len();
    let old = &r.snaps[0];
    let committed = r.result == "ok";
    // the intended new value of every name: from the edits alone
    let mut intended: BTreeMap<Vec<u8>, Val> = BTreeMap::new();
    for name in &t.names {
        let o = plain_read(&old.tree, name);
        let mut v = o.clone();
        if committed {
            for e in &t.edits {
                if &e.name == name && e.and_ref {
                    v = if e.update { Val::Is(s(&e.new)) } else { Val::Absent };
                }
            }
        }
        intended.insert(name.clone(), v);
    }
    let new = r.snaps.last().expect("final state");
    let old_packed = old.tree.get(b"packed-refs".as_slice()).cloned();
    let new_packed = new.tree.get(b"packed-refs".as_slice()).cloned();
    if let Some(Node::File(c)) = &new_packed {
        if !packed_complete(c) {
            return Verdict::fail("final-packed-refs-incomplete", s(c));
        }
    }
    if committed || r.result.starts_with("P:err") {
        for name in &t.names {
            let v = plain_read(&new.tree, name);
            if v != intended[name] {
                return Verdict::fail("final-value-not-intended", format!("{} reads {:?}, intended {:?}", s(name), v, intended[name]));
            }
        }
        for p in new.tree.keys() {
            if is_lock(p) {
                return Verdict::fail("lock-left-after-return", s(p));
            }
        }
    }
    let mut reflog_created_empty = false;
    for (k, sn) in r.snaps.iter().enumerate() {
        let at = if k < n { format!("crash before point {} ({})", k + 1, r.labels[k]) } else { "after return".to_string() };
        if !sn.tree.contains_key(b"refs".as_slice()) {
            return Verdict::fail("refs-directory-removed", at);
        }
        // 1. every reference reads as old or new: plain reading, gix, and git
        for name in &t.names {
            let o = plain_read(&old.tree, name);
            let nw = &intended[name];
            let v = plain_read(&sn.tree, name);
            if v != o && &v != nw {
                return Verdict::fail("ref-neither-old-nor-new", format!("{at}: {} reads {:?}, old {:?}, new {:?}", s(name), v, o, nw));
            }
            let g = sn.view.iter().find(|x| &x.0 == name).map(|x| val_of_text(&x.1)).expect("name in view");
            if g != o && &g != nw {
                return Verdict::fail("gix-reads-neither-old-nor-new", format!("{at}: {} reads {:?}, old {:?}, new {:?}", s(name), g, o, nw));
            }
            if let Some(gv) = &sn.git {
                if !sn.tree.contains_key(b"refs".as_slice()) || !sn.tree.contains_key(b"HEAD".as_slice()) {
                    // without refs/ or HEAD git does not accept the directory as a repository at all
                    continue;
                }
                // git must read what a plain reading of this very state gives (which is old or new, see above)
                let expect = plain_resolve(&sn.tree, name);
                let read = if name == b"HEAD" {
                    gv.head.clone().map(|x| if x == "-" { None } else { Some(x) })
                } else if name.starts_with(b"refs/") {
                    match &gv.refs {
                        Some(m) => Some(m.get(name).cloned()),
                        None => Some(Some("!for-each-ref failed".into())),
                    }
                } else {
                    None
                };
                if let Some(read) = read {
                    if read != expect {
                        return Verdict::fail("git-reads-differently", format!("{at}: {} resolves to {:?} for git, plain reading gives {:?}", s(name), read, expect));
                    }
                }
            }
        }
        if let (Some(gv), Some(g0), Some(gn)) = (&sn.git, &old.git, &new.git) {
            // fsck may complain about what the case itself contains (a dangling symbolic ref): only a complaint
            // that neither the old nor the new state causes counts
            if sn.tree.contains_key(b"HEAD".as_slice()) && !gv.fsck_ok && g0.fsck_ok && gn.fsck_ok {
                return Verdict::fail("git-fsck-fails", format!("{at}: {}", gv.fsck_text));
            }
        }
        // 2. packed-refs is the complete old or the complete new file
        let p = sn.tree.get(b"packed-refs".as_slice()).cloned();
        if p != old_packed && p != new_packed {
            return Verdict::fail("packed-refs-neither-old-nor-new", at);
        }
        // 3. every other file is in its old or new state, or is a lock file
        for (path, node) in &sn.tree {
            if is_lock(path) || *node == Node::Dir {
                continue;
            }
            let in_old = old.tree.get(path) == Some(node);
            let in_new = new.tree.get(path) == Some(node);
            if path.starts_with(b"logs/") {
                // a reflog is created empty before its line is appended (git does the same): not a reference, tolerated
                let created_empty = !old.tree.contains_key(path) && *node == Node::File(vec![]);
                if !in_old && !in_new && !created_empty {
                    return Verdict::fail("reflog-neither-old-nor-new", format!("{at}: {} = {:?}", s(path), node));
                }
                if created_empty {
                    reflog_created_empty = true;
                }
                continue;
            }
            if !in_old && !in_new {
                return Verdict::fail("leftover-not-a-lock-file", format!("{at}: {} = {:?}", s(path), node));
            }
        }
        for (path, node) in &old.tree {
            if matches!(node, Node::File(_)) && !sn.tree.contains_key(path) && new.tree.contains_key(path) {
                return Verdict::fail("file-missing-in-between", format!("{at}: {}", s(path)));
            }
        }
    }
    // 4. a process that is really killed at point k leaves exactly the state recorded before point k
    if with_abort {
        if let Err(e) = abort_runs(c, &t, &r) {
            return Verdict::fail("killed-process-state-differs", e);
        }
    }
    let class = if reflog_created_empty && !with_abort && !with_git {
        "crash-points-enumerated-note-empty-reflog-in-between"
    } else if !committed {
        "not-committed"
    } else if with_abort {
        "crash-points-enumerated-with-abort"
    } else if with_git {
        "crash-points-enumerated-with-git"
    } else {
        "crash-points-enumerated"
    };
    Verdict::ok(n > 0, class)
}

/// re-run the case in child processes that abort at the k-th point (GIX_VERIF_CRASH_AT=k), for every k
fn abort_runs(c: &Case, t: &Tx, r: &Run) -> Result<(), String> {
    let exe = std::env::current_exe().map_err(|e| e.to_string())?;
    let n = r.labels.len();
    for k in 1..=n + 1 {
        let tmp = TempDir::new();
        build_store(&tmp.0, t);
        let trace = tmp.0.with_extension("trace");
        let _ = std::fs::remove_file(&trace);
        let status = std::process::Command::new(&exe)
            .arg("crashchild")
            .arg(&tmp.0)
            .arg(gixv_common::case_line(c))
            .env("GIX_VERIF_CRASH_AT", k.to_string())
            .env("GIX_VERIF_TRACE", &trace)
            .stdin(std::process::Stdio::null())
            .stdout(std::process::Stdio::null())
            .stderr(std::process::Stdio::null())
            .status()
            .map_err(|e| e.to_string())?;
        let text = std::fs::read_to_string(&trace).unwrap_or_default();
        let _ = std::fs::remove_file(&trace);
        let labels: Vec<String> = text.lines().map(|l| relabel(&tmp.0, l)).collect();
        if k <= n {
            use std::os::unix::process::ExitStatusExt;
            if status.signal() != Some(6) {
                return Err(format!("child for point {k} was not aborted: {status:?}"));
            }
            if labels != r.labels[..k] {
                return Err(format!("trace of the child killed at point {k} is {labels:?}, expected {:?}", &r.labels[..k]));
            }
        } else {
            if !status.success() {
                return Err(format!("child without a reachable crash point failed: {status:?}"));
            }
            if labels != r.labels {
                return Err(format!("trace of the complete child is {labels:?}, expected {:?}", r.labels));
            }
        }
        let tree = tree_of(&tmp.0);
        if tree != r.snaps[k - 1].tree {
            return Err(format!(
                "killed at point {k} ({}): left {} but the state recorded there was {}",
                r.labels.get(k - 1).map(String::as_str).unwrap_or("end"),
                tree_text(&tree),
                tree_text(&r.snaps[k - 1].tree)
            ));
        }
        let view = gix_view(&tmp.0, &t.names);
        if view != r.snaps[k - 1].view {
            return Err(format!("killed at point {k}: gix reads {}", view_text(&view)));
        }
    }
    Ok(())
}
fn crash_child(args: &[String]) -> ! {
    let root = PathBuf::from(&args[2]);
    let c = gixv_common::parse_case(&args[3]);
    let t = parse(&c).expect("valid case");
    let _ = run_transaction(&root, &t);
    std::process::exit(0);
}

// ---------------------------------------------------------------- generator

const NAMES: &[&str] = &[
    "HEAD",
    "ORIG_HEAD",
    "refs/heads/a",
    "refs/heads/b",
    "refs/heads/d/e",
    "refs/heads/d/f",
    "refs/tags/t",
    "refs/tags/v/w",
    "refs/remotes/o/m",
    "refs/bisect/g",
];
const BRANCHES: &[&str] = &["refs/heads/a", "refs/heads/b", "refs/heads/d/e", "refs/heads/d/f"];
const DIRS: &[&str] = &["refs/heads", "refs/tags", "refs/heads/d", "refs/remotes/o", "logs", "logs/refs/heads", "logs/refs/heads/d", "refs/x/y"];
const DIGITS: &[u8] = b"123456cdef";
const COMMITS: &[u8] = b"123456";
fn digits_for(name: &str) -> &'static [u8] {
    if name.starts_with("refs/tags/") {
        DIGITS
    } else {
        COMMITS
    }
}

fn random_target(rng: &mut Rng, name: &str) -> Vec<u8> {
    if rng.chance(1, 6) || (name == "HEAD" && rng.chance(1, 2)) {
        let t = *rng.pick(BRANCHES);
        if t != name {
            return format!("@{t}").into_bytes();
        }
    }
    vec![*rng.pick(digits_for(name))]
}
fn case_of(mode: u8, reflog: u8, loose: &[(String, Vec<u8>)], packed: &Option<Vec<(String, u8)>>, logs: &[(String, u8)], dirs: &[String], edits: &[String]) -> Case {
    let loose_t = loose.iter().map(|(n, t)| format!("{n}:{}", s(t))).collect::<Vec<_>>().join(",");
    let packed_t = match packed {
        None => String::new(),
        Some(p) => format!("={}", p.iter().map(|(n, c)| format!("{n}:{}", *c as char)).collect::<Vec<_>>().join(",")),
    };
    let logs_t = logs.iter().map(|(n, c)| format!("{n}:{}", *c as char)).collect::<Vec<_>>().join(",");
    vec![
        tag("txn"),
        vec![b'0' + mode],
        vec![b'0' + reflog],
        loose_t.into_bytes(),
        packed_t.into_bytes(),
        logs_t.into_bytes(),
        dirs.join(",").into_bytes(),
        edits.join(",").into_bytes(),
    ]
}
fn random_case(rng: &mut Rng) -> Case {
    let mode = rng.below(3) as u8;
    let reflog = if rng.chance(1, 3) { 0 } else if rng.chance(1, 5) { 2 } else { 1 };
    let mut loose: Vec<(String, Vec<u8>)> = Vec::new();
    let mut packed: Vec<(String, u8)> = Vec::new();
    let mut logs: Vec<(String, u8)> = Vec::new();
    let sparse = rng.chance(1, 4);
    for name in NAMES {
        let p_loose = if sparse { 1 } else { 2 };
        let is_head = *name == "HEAD";
        if is_head || rng.chance(p_loose, 4) {
            let t = random_target(rng, name);
            if t[0] != b'@' && rng.chance(1, 2) && !is_head {
                logs.push((name.to_string(), t[0]));
            }
            loose.push((name.to_string(), t));
        }
        if name.starts_with("refs/") && !name.starts_with("refs/bisect") && rng.chance(1, 3) {
            packed.push((name.to_string(), *rng.pick(digits_for(name))));
        }
    }
    if rng.chance(1, 8) {
        logs.push(("refs/heads/d/e".into(), b'1'));
    }
    logs.sort();
    logs.dedup_by(|a, b| a.0 == b.0);
    packed.sort();
    let packed = if packed.is_empty() && rng.chance(1, 2) { None } else if rng.chance(1, 5) { None } else { Some(packed) };
    let mut dirs: Vec<String> = Vec::new();
    for d in DIRS {
        if rng.chance(1, 3) {
            dirs.push(d.to_string());
        }
    }
    let current = |name: &str| -> Option<Vec<u8>> {
        if let Some((_, t)) = loose.iter().find(|x| x.0 == name) {
            return Some(t.clone());
        }
        if let Some(p) = &packed {
            if let Some((_, c)) = p.iter().find(|x| x.0 == name) {
                return Some(vec![*c]);
            }
        }
        None
    };
    let n_edits = 1 + rng.below(4) as usize;
    let mut edits: Vec<String> = Vec::new();
    let mut used: Vec<&str> = Vec::new();
    for _ in 0..n_edits {
        let name = *rng.pick(NAMES);
        if used.contains(&name) && !rng.chance(1, 40) {
            continue;
        }
        used.push(name);
        let cur = current(name);
        let update = name == "HEAD" || rng.chance(3, 5);
        let expected = match rng.below(10) {
            0..=3 => "A".to_string(),
            4 | 5 => match &cur {
                Some(t) => format!("M{}", s(t)),
                None => if update { "N".to_string() } else { "A".to_string() },
            },
            6 => match &cur {
                Some(t) => format!("X{}", s(t)),
                None => format!("X{}", *rng.pick(digits_for(name)) as char),
            },
            7 => if cur.is_some() { "E".to_string() } else { "A".to_string() },
            8 => if update { "N".to_string() } else { "E".to_string() },
            _ => format!("M{}", *rng.pick(digits_for(name)) as char),
        };
        let log = if rng.chance(1, 8) { "L" } else { "R" };
        let force = if rng.chance(1, 4) { "1" } else { "0" };
        if update {
            let new = if rng.chance(1, 8) { cur.clone().unwrap_or_else(|| random_target(rng, name)) } else { random_target(rng, name) };
            edits.push(format!("{name}:U:{expected}:{}:{log}:{force}", s(&new)));
        } else {
            edits.push(format!("{name}:D:{expected}:-:{log}:0"));
        }
    }
    case_of(mode, reflog, &loose, &packed, &logs, &dirs, &edits)
}
fn gen(rng: &mut Rng, n: usize) -> Vec<Case> {
    let mut out = Vec::new();
    // boundary block: one reference in every place (loose, packed, both, nowhere), every mode, update and delete
    for mode in 0..3u8 {
        for reflog in [0u8, 1] {
            for place in 0..4 {
                for op in ["U:A:3:R:0", "D:A:-:R:0", "U:A:@refs/heads/b:R:0", "U:A:3:L:1"] {
                    let mut loose = vec![("HEAD".to_string(), b"@refs/heads/a".to_vec()), ("refs/tags/t".to_string(), b"c".to_vec())];
                    if place & 1 == 1 {
                        loose.push(("refs/heads/a".to_string(), b"1".to_vec()));
                    }
                    let packed = (place & 2 == 2).then(|| vec![("refs/heads/a".to_string(), b'2'), ("refs/tags/s".to_string(), b'd')]);
                    let logs = if reflog == 1 && place & 1 == 1 { vec![("refs/heads/a".to_string(), b'1')] } else { vec![] };
                    out.push(case_of(mode, reflog, &loose, &packed, &logs, &[], &[format!("refs/heads/a:{op}")]));
                }
            }
        }
    }
    while out.len() < n {
        out.push(random_case(rng));
    }
    out.truncate(n.max(1));
    out
}

fn main() {
    let args: Vec<String> = std::env::args().collect();
    if args.get(1).map(String::as_str) == Some("crashchild") {
        crash_child(&args);
    }
    if args.get(1).map(String::as_str) == Some("debugprop") {
        let v = prop(&gixv_common::parse_case(&args[2]));
        println!("{} {} {}", v.ok, v.class, v.detail);
        return;
    }
    main_with(Harness { gen, imp, prop, git: None, deadline: Duration::from_secs(300) });
}
