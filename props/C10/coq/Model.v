(* C10 — model of receiving a pack: gix_pack::Bundle::write_to_directory.
   Sources (pinned tree, with the fix: commits of this property applied):
     gix-pack/src/data/input/bytes_to_entries.rs         BytesToEntriesIter::{new_from_header, next_inner, try_read_trailer}
     gix-pack/src/data/entry/{header,decode}.rs           Header::write_to / size, Entry::from_read (as in props/C07)
     gix-pack/src/data/input/entry.rs                     Entry::{from_data_obj, bytes_in_pack, compute_crc32}
     gix-pack/src/data/input/lookup_ref_delta_objects.rs  LookupRefDeltaObjectsIter (whole file)
     gix-pack/src/data/input/entries_to_bytes.rs          EntriesToBytesIter (bytes written, trailer, peek-ahead)
     gix-pack/src/index/write/mod.rs                      write_data_iter_to_stream (entry loop, error order, sort)
     gix-pack/src/cache/delta/tree.rs                     add_root / add_child / set_pack_entries_end_and_resolve_ref_offsets
     gix-pack/src/cache/delta/traverse/resolve.rs         deltas / deltas_mt: what is computed per node (delta application,
                                                          base-size assert); the schedule is abstracted (Proofs: any schedule)
     gix-pack/src/data/delta.rs                           decode_header_size, apply (as in props/C07)
     gix-pack/src/index/encode.rs                         fanout, write_to (as in props/C09)
     gix-pack/src/bundle/write/mod.rs                     write_to_directory / inner_write: what gets persisted
   External components are oracles of a case: zlib inflate (compressed length and inflated bytes of every entry that
   the stream yields), zlib deflate (compressed bytes of an object injected into a thin pack).  SHA-1 and CRC-32 are
   executable definitions here.  All errors collapse to one [E]; debug-build panics are [Panic]. *)
From Coq Require Import List ZArith Bool.
From GixV.Base Require Import Bytes Outcome.
From GixV.C10 Require Import Sha1.
Import ListNotations.
Local Open Scope N_scope.
Local Open Scope outcome_scope.

Inductive err := E.
Definition len (l : bytes) : N := N.of_nat (length l).
Definition zlen (l : bytes) : Z := Z.of_nat (length l).
Definition U64 : N := 18446744073709551616.

(* ---- CRC-32 (crc32fast: reflected, polynomial edb88320) ---------------------------------------- *)
Fixpoint crc_bits (k : nat) (c : N) : N :=
  match k with
  | O => c
  | S k' => crc_bits k' (if N.testbit c 0 then N.lxor (N.shiftr c 1) 3988292384 else N.shiftr c 1)
  end.
Definition crc_byte (c : N) (b : byte) : N := crc_bits 8 (N.lxor c (b2N b)).
Definition crc32_update (prev : N) (d : bytes) : N :=
  N.lxor (fold_left crc_byte d (N.lxor prev 4294967295)) 4294967295.

(* ---- entry headers (Header::write_to, leb64_encode) ---------------------------------------------- *)
Inductive hdr := HBase (k : N) | HOfs (dist : Z) | HRef (id : bytes).
Definition type_id (h : hdr) : N := match h with HBase k => k | HOfs _ => 6 | HRef _ => 7 end.

Fixpoint size_tail (fuel : nat) (c size : N) : bytes :=
  match fuel with
  | O => [N2b c]
  | S f => if size =? 0 then [N2b c] else N2b (c + 128) :: size_tail f (size mod 128) (size / 128)
  end.
Fixpoint leb_enc_loop (k : nat) (n : N) (acc : bytes) : bytes :=
  match k with
  | O => acc
  | S k' =>
      let n1 := n / 128 in
      if n1 =? 0 then acc
      else let n2 := n1 - 1 in leb_enc_loop k' n2 (N2b (128 + n2 mod 128) :: acc)
  end.
Definition leb64_encode (n : N) : bytes := leb_enc_loop 9 n [N2b (n mod 128)].
Definition hdr_bytes (h : hdr) (size : N) : bytes :=
  size_tail 10 (type_id h * 16 + size mod 16) (size / 16)
  ++ match h with HRef id => id | HOfs d => leb64_encode (Z.to_N d) | HBase _ => [] end.
Definition hdr_size (h : hdr) (size : N) : Z := zlen (hdr_bytes h size).

(* ---- input::Entry ---------------------------------------------------------------------------------- *)
Record entry := {
  e_hdr : hdr; e_off : Z; e_hsize : Z; e_comp : bytes; e_dsize : N; e_crc : N;
  e_data : bytes        (* the inflated body: zlib oracle, carried along for the traversal *)
}.
Definition csize (e : entry) : Z := zlen (e_comp e).
Definition bytes_in_pack (e : entry) : Z := e_hsize e + csize e.
Definition compute_crc (h : hdr) (dsize : N) (comp : bytes) : N :=
  crc32_update (crc32_update 0 (hdr_bytes h dsize)) comp.

(* an object the thin-pack lookup can return; [o_comp] is the deflate oracle *)
Record obj := { o_id : bytes; o_kind : N; o_data : bytes; o_comp : bytes }.
Definition from_data_obj (o : obj) : entry :=
  let h := HBase (o_kind o) in
  {| e_hdr := h; e_off := 0; e_hsize := hdr_size h (len (o_data o)); e_comp := o_comp o;
     e_dsize := len (o_data o); e_crc := compute_crc h (len (o_data o)) (o_comp o); e_data := o_data o |}.
Definition lookup (odb : list obj) (id : bytes) : option obj :=
  find (fun o => bytes_eqb (o_id o) id) odb.

(* ---- LookupRefDeltaObjectsIter ------------------------------------------------------------------------ *)
Record change := { c_off : Z; c_shift : Z; c_delta : Z; c_oid : bytes }.
Record st := { changes : list change; total : Z }.      (* changes in push order *)
Definition null_id : bytes := repeat x00 20.

Local Open Scope Z_scope.
(* `pack_offset as i64 + total` then try_into::<u64>().expect(..) *)
Definition shifted (s : st) (off : Z) : option Z :=
  let n := off + total s in if n <? 0 then None else Some n.
Definition track (s : st) (sh off d : Z) (oid : bytes) : st :=
  if d =? 0 then s
  else {| changes := changes s ++ [{| c_off := off; c_shift := sh; c_delta := d; c_oid := oid |}];
          total := total s + d |}.

(* shift_entry_and_point_to_base_by_offset *)
Definition shift_point (s : st) (e : entry) (dist : Z) : option (entry * st) :=
  match shifted s (e_off e) with
  | None => None
  | Some off' =>
      let h := HOfs dist in
      let hs := hdr_size h (e_dsize e) in
      let e' := {| e_hdr := h; e_off := off'; e_hsize := hs; e_comp := e_comp e; e_dsize := e_dsize e;
                   e_crc := compute_crc h (e_dsize e) (e_comp e); e_data := e_data e |} in
      Some (e', track s off' (e_off e) (hs - e_hsize e) null_id)
  end.

Definition rfind_oid (cs : list change) (id : bytes) : option change :=
  find (fun c => bytes_eqb (c_oid c) id) (rev cs).

(* core::slice::binary_search_by (Rust 1.95), key = c_off *)
Fixpoint bs_loop (fuel : nat) (keys : list Z) (target : Z) (base size : nat) : nat :=
  match fuel with
  | O => base
  | S f =>
      if Nat.leb size 1 then base
      else
        let half := Nat.div size 2 in
        let mid := (base + half)%nat in
        let base' := if nth mid keys 0 >? target then base else mid in
        bs_loop f keys target base' (size - half)
  end.
Definition bsearch (keys : list Z) (target : Z) : nat + nat :=     (* inl = Ok, inr = Err *)
  match keys with
  | [] => inr O
  | _ =>
      let b := bs_loop (length keys) keys target O (length keys) in
      let k := nth b keys 0 in
      if k =? target then inl b else inr (if k <? target then S b else b)
  end.

Definition sum_deltas (cs : list change) : Z := fold_left (fun a c => a + c_delta c) cs 0.
Definition dummy_change : change := {| c_off := 0; c_shift := 0; c_delta := 0; c_oid := [] |}.

Inductive item := IEntry (e : entry) | IErr.
Inductive tail := Done | Fused | Panicked.

Definition set_off (e : entry) (o : Z) : entry :=
  {| e_hdr := e_hdr e; e_off := o; e_hsize := e_hsize e; e_comp := e_comp e; e_dsize := e_dsize e;
     e_crc := e_crc e; e_data := e_data e |}.

(* one call chain of next() for one inner item: the items it makes the iterator yield, the new state,
   or None for a panic.  [stop] = the iterator is fused afterwards. *)
Definition step (odb : list obj) (s : st) (e : entry) : option (list item * st * bool) :=
  match e_hdr e with
  | HRef id =>
      match rfind_oid (changes s) id with
      | None =>
          match lookup odb id with
          | None => Some ([IErr], s, true)
          | Some o =>
              match shifted s (e_off e) with
              | None => None
              | Some boff =>
                  let b := set_off (from_data_obj o) boff in
                  let s1 := track s boff (e_off e) (bytes_in_pack b) id in
                  match shift_point s1 e (bytes_in_pack b) with
                  | None => None
                  | Some (e', s2) => Some ([IEntry b; IEntry e'], s2, false)
                  end
              end
          end
      | Some c =>
          match shifted s (e_off e) with
          | None => None
          | Some sh =>
              let d := sh - c_shift c in
              if d <? 0 then None                         (* u64 subtraction overflow *)
              else match shift_point s e d with
                   | None => None
                   | Some (e', s1) => Some ([IEntry e'], s1, false)
                   end
          end
      end
  | HOfs dist =>
      match changes s with
      | [] => Some ([IEntry e], s, false)
      | _ =>
          let base_off := e_off e - dist in
          if base_off <? 0 then None                      (* checked_sub(..).expect(..) *)
          else
            match bsearch (map c_off (changes s)) base_off with
            | inl index =>
                let index :=
                  match nth_error (changes s) (S index) with
                  | Some c => if c_off c =? base_off then S index else index
                  | None => index
                  end in
                match shifted s (e_off e) with
                | None => None
                | Some sh =>
                    let d := sh - c_shift (nth index (changes s) dummy_change) in
                    if d <? 0 then None
                    else match shift_point s e d with
                         | None => None
                         | Some (e', s1) => Some ([IEntry e'], s1, false)
                         end
                end
            | inr index =>
                let nd := dist + sum_deltas (skipn index (changes s)) in
                if nd <? 0 then None
                else match shift_point s e nd with
                     | None => None
                     | Some (e', s1) => Some ([IEntry e'], s1, false)
                     end
            end
      end
  | HBase _ =>
      match changes s with
      | [] => Some ([IEntry e], s, false)
      | _ => match shifted s (e_off e) with
             | None => None
             | Some o => Some ([IEntry (set_off e o)], s, false)
             end
      end
  end.

Fixpoint run_iter (odb : list obj) (s : st) (items : list item) : list item * tail :=
  match items with
  | [] => ([], Done)
  | IErr :: r => let '(o, t) := run_iter odb s r in (IErr :: o, t)
  | IEntry e :: r =>
      match step odb s e with
      | None => ([], Panicked)
      | Some (out, s', stop) =>
          if stop then (out, Fused)
          else let '(o, t) := run_iter odb s' r in (out ++ o, t)
      end
  end.
Definition st0 : st := {| changes := []; total := 0 |}.
Local Close Scope Z_scope.

(* ---- streaming header parse (Entry::from_read; debug build) ------------------------------------------------ *)
Definition add64 (a b : N) : outcome N err := if a + b <? U64 then Ok (a + b) else Panic.
Definition shl64 (a s : N) : outcome N err := if s <? 64 then Ok ((a * 2 ^ s) mod U64) else Panic.

Fixpoint hdr_loop (r : bytes) (c i size s : N) : outcome (N * N * bytes) err :=
  if c <? 128 then Ok (size, i, r)
  else match r with
       | [] => Err E
       | x :: r' =>
           let c' := b2N x in
           sh <- shl64 (c' mod 128) s ;;
           sz <- add64 size sh ;;
           hdr_loop r' c' (i + 1) sz (s + 7)
       end.
Fixpoint leb_loop (r : bytes) (c i value : N) : outcome (N * N * bytes) err :=
  if c <? 128 then Ok (value, i, r)
  else match r with
       | [] => Err E
       | x :: r' =>
           let c' := b2N x in
           let i' := i + 1 in
           if 10 <? i' then Panic
           else
             v1 <- add64 value 1 ;;
             v2 <- shl64 v1 7 ;;
             v3 <- add64 v2 (c' mod 128) ;;
             leb_loop r' c' i' v3
       end.
(* (header, decompressed size, consumed, rest) *)
Definition entry_from_read (d : bytes) : outcome (hdr * N * N * bytes) err :=
  match d with
  | [] => Err E
  | x :: r =>
      let c := b2N x in
      ' (size, i, r1) <- hdr_loop r c 1 (c mod 16) 4 ;;
      let ty := (c / 16) mod 8 in
      if ty =? 6 then
        match r1 with
        | [] => Err E
        | y :: r2 =>
            let c2 := b2N y in
            ' (dist, n, r3) <- leb_loop r2 c2 1 (c2 mod 128) ;;
            Ok (HOfs (Z.of_N dist), size, i + n, r3)
        end
      else if ty =? 7 then
        if len r1 <? 20 then Err E else Ok (HRef (firstn 20 r1), size, i + 20, skipn 20 r1)
      else if (1 <=? ty) && (ty <=? 4) then Ok (HBase ty, size, i, r1)
      else Err E
  end.

(* ---- BytesToEntriesIter ------------------------------------------------------------------------------------------ *)
Definition be32 (n : N) : bytes := be32_bytes n.
Definition rd32 (b : bytes) : N :=
  match b with a :: b :: c :: d :: _ => be32_of a b c d | _ => 0 end.
Definition pack_header (n : N) : bytes := bs "PACK" ++ be32 2 ++ be32 n.

(* oracle: per entry (compressed length, inflated bytes) as far as zlib gets on this stream *)
Definition oracle := list (N * bytes).

(* entries are produced until the first failure; [hashed] = the bytes consumed so far, reversed chunks are avoided
   by hashing the prefix of the whole stream at the end *)
Fixpoint parse_entries (fuel : nat) (all : bytes) (rest : bytes) (off : N) (left : N) (orc : oracle)
  : list item * tail :=
  match fuel with
  | O => ([], Done)
  | S f =>
      if left =? 0 then ([], Done)
      else
        match entry_from_read rest with
        | Panic | OutOfFuel => ([], Panicked)
        | Err _ => ([IErr], Done)
        | Ok (h, dsize, consumed, r1) =>
            match orc with
            | [] => ([IErr], Done)                                     (* zlib fails on this entry *)
            | (cl, inflated) :: orc' =>
                if negb (len inflated =? dsize) then ([IErr], Done)    (* IncompletePack *)
                else if len r1 <? cl then ([IErr], Done)
                else
                  let comp := firstn (N.to_nat cl) r1 in
                  let r2 := skipn (N.to_nat cl) r1 in
                  let e := {| e_hdr := h; e_off := Z.of_N off; e_hsize := Z.of_N consumed; e_comp := comp;
                              e_dsize := dsize; e_crc := compute_crc h dsize comp; e_data := inflated |} in
                  let off' := off + consumed + cl in
                  if left =? 1 then
                    (* try_read_trailer: read 20 bytes, compare with the hash of everything before *)
                    if len r2 <? 20 then ([IErr], Done)
                    else if bytes_eqb (firstn 20 r2) (sha1 (firstn (N.to_nat off') all)) then ([IEntry e], Done)
                    else ([IErr], Done)
                  else
                    let '(o, t) := parse_entries f all r2 off' (left - 1) orc' in (IEntry e :: o, t)
            end
        end
  end.

(* new_from_header: Err, or (object count, items).  An empty pack is verified right away (fix of this property). *)
Definition bytes_to_entries (p : bytes) (orc : oracle) : outcome (N * (list item * tail)) err :=
  if len p <? 12 then Err E
  else if negb (bytes_eqb (firstn 4 p) (bs "PACK")) then Err E
  else if negb (rd32 (skipn 4 p) =? 2) then Err E                     (* version 3: UnsupportedVersion; others too *)
  else
    let n := rd32 (skipn 8 p) in
    let rest := skipn 12 p in
    if n =? 0 then
      if len rest <? 20 then Err E
      else if bytes_eqb (firstn 20 rest) (sha1 (firstn 12 p)) then Ok (0, ([], Done))
      else Err E
    else Ok (n, parse_entries (S (length p)) p rest 12 n orc).

(* ---- EntriesToBytesIter: the pack that is written for a thin pack ---------------------------------------------------- *)
Fixpoint entries_of (l : list item) : list entry :=
  match l with
  | [] => []
  | IEntry e :: r => e :: entries_of r
  | IErr :: r => entries_of r
  end.
Definition entry_bytes (e : entry) : bytes := hdr_bytes (e_hdr e) (e_dsize e) ++ e_comp e.
Definition rewritten_pack (es : list entry) : bytes :=
  let body := pack_header (N.of_nat (length es)) ++ concat (map entry_bytes es) in
  body ++ sha1 body.

(* ---- index writer: entry loop and tree ---------------------------------------------------------------------------------- *)
Record node := { n_off : Z; n_crc : N; n_kind : hdr; n_data : bytes; n_base : option Z }.

Local Open Scope Z_scope.
(* the loop over the entries of write_data_iter_to_stream; None = an error return *)
Fixpoint tree_add (last : option Z) (l : list item) (acc : list node) : option (list node) :=
  match l with
  | [] => Some (rev acc)
  | IErr :: _ => None
  | IEntry e :: r =>
      let incr := match last with None => true | Some o => o <? e_off e end in
      match e_hdr e with
      | HRef _ => None                                              (* IteratorInvariantNoRefDelta *)
      | HBase k =>
          if incr then tree_add (Some (e_off e)) r
                         ({| n_off := e_off e; n_crc := e_crc e; n_kind := e_hdr e; n_data := e_data e; n_base := None |} :: acc)
          else None
      | HOfs d =>
          if (d =? 0) || (e_off e - d <? 0) then None                (* IteratorInvariantBaseOffset *)
          else if incr then tree_add (Some (e_off e)) r
                         ({| n_off := e_off e; n_crc := e_crc e; n_kind := e_hdr e; n_data := e_data e;
                             n_base := Some (e_off e - d) |} :: acc)
          else None
      end
  end.
Local Close Scope Z_scope.

(* ---- delta application (gix-pack/src/data/delta.rs, debug build) --------------------------------------------------------- *)
Fixpoint dhs_loop (d : bytes) (i size consumed : N) : outcome (N * N) err :=
  match d with
  | [] => Ok (size, consumed)
  | x :: d' =>
      let c := b2N x in
      sh <- shl64 (c mod 128) i ;;
      let size' := N.lor size sh in
      if c <? 128 then Ok (size', consumed + 1)
      else dhs_loop d' (i + 7) size' (consumed + 1)
  end.
Definition decode_header_size (d : bytes) : outcome (N * N) err := dhs_loop d 0 0 0.

Definition opt_byte (flag : bool) (d : bytes) : outcome (N * bytes) err :=
  if flag then match d with [] => Panic | x :: d' => Ok (b2N x, d') end
  else Ok (0, d).
Fixpoint apply_loop (fuel : nat) (base : bytes) (room : nat) (data : bytes) : outcome bytes err :=
  match fuel with
  | O => OutOfFuel
  | S f =>
      match data with
      | [] => if Nat.eqb room 0 then Ok [] else Panic
      | x :: d =>
          let c := b2N x in
          if 128 <=? c then
            ' (o0, d) <- opt_byte (N.testbit c 0) d ;;
            ' (o1, d) <- opt_byte (N.testbit c 1) d ;;
            ' (o2, d) <- opt_byte (N.testbit c 2) d ;;
            ' (o3, d) <- opt_byte (N.testbit c 3) d ;;
            ' (s0, d) <- opt_byte (N.testbit c 4) d ;;
            ' (s1, d) <- opt_byte (N.testbit c 5) d ;;
            ' (s2, d) <- opt_byte (N.testbit c 6) d ;;
            let ofs := o0 + 256 * o1 + 65536 * o2 + 16777216 * o3 in
            let size := s0 + 256 * s1 + 65536 * s2 in
            let size := if size =? 0 then 65536 else size in
            if ofs + size <=? len base then
              let w := firstn room (firstn (N.to_nat size) (skipn (N.to_nat ofs) base)) in
              r <- apply_loop f base (room - length w) d ;; Ok (w ++ r)
            else Panic
          else if c =? 0 then Panic
          else if c <=? len d then
            let w := firstn room (firstn (N.to_nat c) d) in
            r <- apply_loop f base (room - length w) (skipn (N.to_nat c) d) ;; Ok (w ++ r)
          else Panic
      end
  end.

(* one child in resolve::deltas: header sizes, the assert on the base size, apply *)
Definition resolve_child (base delta : bytes) : outcome bytes err :=
  ' (bsz, o1) <- decode_header_size delta ;;
  if negb (len base =? bsz) then Panic                     (* assert_eq!(base_bytes.len(), base_size) *)
  else
    let rest := skipn (N.to_nat o1) delta in
    ' (rsz, o2) <- decode_header_size rest ;;
    apply_loop (S (length rest)) base (N.to_nat rsz) (skipn (N.to_nat o2) rest).

Definition kind_name (k : N) : bytes :=
  if k =? 1 then bs "commit" else if k =? 2 then bs "tree" else if k =? 3 then bs "blob" else bs "tag".
Definition object_id (k : N) (data : bytes) : bytes :=
  sha1 (kind_name k ++ bs " " ++ N_to_dec (len data) ++ [x00] ++ data).

(* resolved objects by pack offset, computed in pack order (one parent-before-child schedule; Proofs: any other gives
   the same).  None: a base offset that is not an entry (OutOfPackRefDelta). *)
Record resolved := { r_off : Z; r_kind : N; r_data : bytes; r_crc : N; r_root : bool }.
Definition find_resolved (rs : list resolved) (off : Z) : option resolved :=
  find (fun r => Z.eqb (r_off r) off) rs.

Fixpoint resolve_all (ns : list node) (done : list resolved) : outcome (list resolved) err :=
  match ns with
  | [] => Ok (rev done)
  | n :: r =>
      match n_base n with
      | None =>
          let k := match n_kind n with HBase k => k | _ => 0 end in
          resolve_all r ({| r_off := n_off n; r_kind := k; r_data := n_data n; r_crc := n_crc n; r_root := true |} :: done)
      | Some b =>
          match find_resolved done b with
          | None => Err E
          | Some p =>
              d <- resolve_child (r_data p) (n_data n) ;;
              resolve_all r ({| r_off := n_off n; r_kind := r_kind p; r_data := d; r_crc := n_crc n; r_root := false |} :: done)
          end
      end
  end.

(* all bases exist (set_pack_entries_end_and_resolve_ref_offsets): checked before any object is resolved *)
Fixpoint bases_exist (ns : list node) (seen : list Z) : bool :=
  match ns with
  | [] => true
  | n :: r =>
      match n_base n with
      | None => bases_exist r (n_off n :: seen)
      | Some b => existsb (Z.eqb b) seen && bases_exist r (n_off n :: seen)
      end
  end.

(* ---- index encoding (index/encode.rs, version 2) ------------------------------------------------------------------------------ *)
Record ientry := { i_id : bytes; i_off : Z; i_crc : N }.

Fixpoint insert_by_id (x : ientry) (l : list ientry) : list ientry :=
  match l with
  | [] => [x]
  | y :: r => match bytes_cmp (i_id x) (i_id y) with
              | Gt => y :: insert_by_id x r
              | _ => x :: l
              end
  end.
(* stable sort by id: fold from the right so that equal ids keep their order *)
Definition sort_by_id (l : list ientry) : list ientry := fold_right insert_by_id [] l.

Definition first_byte (e : ientry) : N := match i_id e with b :: _ => b2N b | [] => 0 end.
Definition fanout (es : list ientry) : bytes :=
  concat (map (fun b => be32 (N.of_nat (length (filter (fun e => first_byte e <=? N.of_nat b) es)))) (seq 0 256)).
Definition be64 (n : N) : bytes := be64_bytes n.
Definition ofs32 (large_before : N) (o : Z) : bytes :=
  if (2147483647 <? o)%Z then be32 (large_before + 2147483648) else be32 (Z.to_N o).
Fixpoint ofs_table (es : list ientry) (large : N) : bytes :=
  match es with
  | [] => []
  | e :: r => ofs32 large (i_off e) ++ ofs_table r (if (2147483647 <? i_off e)%Z then large + 1 else large)
  end.
Definition ofs64_table (es : list ientry) : bytes :=
  concat (map (fun e => if (2147483647 <? i_off e)%Z then be64 (Z.to_N (i_off e)) else []) es).

Definition index_bytes (sorted : list ientry) (pack_hash : bytes) : bytes :=
  let body :=
    [xff; x74; x4f; x63] ++ be32 2 ++ fanout sorted
    ++ concat (map i_id sorted) ++ concat (map (fun e => be32 (i_crc e)) sorted)
    ++ ofs_table sorted 0 ++ ofs64_table sorted ++ pack_hash in
  body ++ sha1 body.

(* ---- the whole operation ------------------------------------------------------------------------------------------------------ *)
Inductive result :=
| Rejected                                   (* Err: tempfiles dropped, nothing persisted *)
| Empty (pack_hash : bytes)                  (* Ok with zero objects: nothing persisted *)
| Written (n : N) (pack_hash : bytes) (pack_file : bytes) (idx : bytes).

Definition delivered (thin : bool) (its : list item * tail) : list item :=
  match its with
  | (l, Panicked) => if thin then removelast l else l      (* the byte writer peeks one item ahead *)
  | (l, _) => l
  end.

Definition to_ientry (r : resolved) : ientry :=
  {| i_id := object_id (r_kind r) (r_data r); i_off := r_off r; i_crc := r_crc r |}.

Definition write_to_directory (thin : bool) (odb : list obj) (p : bytes) (orc : oracle) : outcome result err :=
  match bytes_to_entries p orc with
  | Err _ => Ok Rejected
  | Panic => Panic
  | OutOfFuel => OutOfFuel
  | Ok (n, parsed) =>
      let its :=
        if thin then
          match parsed with
          | (l, Panicked) =>
              match run_iter odb st0 l with
              | (o, Done) => (o, Panicked)                 (* the inner iterator panics when polled again *)
              | r => r
              end
          | (l, _) => run_iter odb st0 l
          end
        else parsed in
      match tree_add None (delivered thin its) [] with
      | None => Ok Rejected
      | Some nodes =>
          match snd its with
          | Panicked => Panic
          | _ =>
              let es := entries_of (fst its) in
              let pack_file := if thin then rewritten_pack es else p in
              let pack_hash :=
                if thin then skipn (length pack_file - 20) pack_file
                else match rev es with
                     | e :: _ => firstn 20 (skipn (Z.to_nat (e_off e + bytes_in_pack e)) p)
                     | [] => sha1 (firstn 12 p)
                     end in
              if negb (bases_exist nodes []) then Ok Rejected
              else
                match resolve_all nodes [] with
                | Err _ => Ok Rejected
                | Panic => Panic
                | OutOfFuel => OutOfFuel
                | Ok rs =>
                    (* roots first, then children, each in pack order; then the stable sort by id *)
                    let ordered := map to_ientry (filter r_root rs ++ filter (fun r => negb (r_root r)) rs) in
                    match ordered with
                    | [] => Ok (Empty pack_hash)
                    | _ => Ok (Written (N.of_nat (length ordered)) pack_hash pack_file
                                       (index_bytes (sort_by_id ordered) pack_hash))
                    end
                end
          end
      end
  end.

(* ---- Bundle::inner_write: what is left in the directory ------------------------------------------------------------------------
   Both outputs are gix-tempfile handles (removed when dropped).  After the index writer succeeded with at least one
   object: if pack-<hash>.pack is not there yet, write the .keep file, then persist (rename) the pack; then, if
   pack-<hash>.idx is not there yet, persist the index.  Every `?` returns early and drops what is not yet persisted.
   [faults] says which file-system step fails; [pre_*] which files existed before. *)
Record faults := { f_keep : bool; f_pack : bool; f_idx : bool }.
Record disk := { new_pack : bool; new_idx : bool; new_keep : bool }.     (* files created by this call *)
Definition nothing : disk := {| new_pack := false; new_idx := false; new_keep := false |}.

Definition inner_write_persist (r : result) (pre_pack pre_idx : bool) (f : faults) : bool * disk :=
  match r with
  | Rejected => (false, nothing)
  | Empty _ => (true, nothing)
  | Written _ _ _ _ =>
      if pre_pack then
        (* the data tempfile is dropped; only the index may be new *)
        if pre_idx then (true, nothing)
        else if f_idx f then (false, nothing)
        else (true, {| new_pack := false; new_idx := true; new_keep := false |})
      else if f_keep f then (false, nothing)
      else if f_pack f then (false, {| new_pack := false; new_idx := false; new_keep := true |})
      else if pre_idx then (true, {| new_pack := true; new_idx := false; new_keep := true |})
      else if f_idx f then (false, {| new_pack := true; new_idx := false; new_keep := true |})
      else (true, {| new_pack := true; new_idx := true; new_keep := true |})
  end.
Definition no_faults : faults := {| f_keep := false; f_pack := false; f_idx := false |}.
