(* C10 — layout of the entries LookupRefDeltaObjectsIter emits: whatever the lookup returns and whatever the
   deltas point at, every emitted entry claims exactly the offset at which EntriesToBytesIter writes it. *)
From Coq Require Import List ZArith Lia Bool.
From GixV.Base Require Import Bytes Outcome.
From GixV.C10 Require Import Sha1 Model.
Import ListNotations.
Local Open Scope Z_scope.

Fixpoint contiguous (start : Z) (l : list item) : Prop :=
  match l with
  | [] => True
  | IErr :: r => contiguous start r
  | IEntry e :: r => e_off e = start /\ contiguous (start + bytes_in_pack e) r
  end.
Fixpoint span (l : list item) : Z :=
  match l with
  | [] => 0
  | IErr :: r => span r
  | IEntry e :: r => bytes_in_pack e + span r
  end.
(* the header size an entry claims is the size of the header that will be written for it *)
Definition canon (e : entry) : Prop := e_hsize e = hdr_size (e_hdr e) (e_dsize e).
Fixpoint all_canon (l : list item) : Prop :=
  match l with
  | [] => True
  | IErr :: r => all_canon r
  | IEntry e :: r => canon e /\ all_canon r
  end.

Lemma contiguous_app a l1 l2 :
  contiguous a (l1 ++ l2) <-> contiguous a l1 /\ contiguous (a + span l1) l2.
Proof.
  revert a; induction l1 as [|[e|] r IH]; intros a; cbn [app contiguous span].
  - replace (a + 0) with a by lia. tauto.
  - rewrite IH. replace (a + (bytes_in_pack e + span r)) with (a + bytes_in_pack e + span r) by lia. tauto.
  - apply IH.
Qed.
Lemma all_canon_app l1 l2 : all_canon (l1 ++ l2) <-> all_canon l1 /\ all_canon l2.
Proof. induction l1 as [|[e|] r IH]; cbn [app all_canon]; tauto. Qed.

(* the running sum is zero while nothing was recorded *)
Definition inv (s : st) : Prop := changes s = [] -> total s = 0.

Lemma track_total s sh off d oid : total (track s sh off d oid) = total s + d.
Proof. unfold track. destruct (d =? 0) eqn:H; cbn [total]; [apply Z.eqb_eq in H|]; lia. Qed.
Lemma track_inv s sh off d oid : inv s -> inv (track s sh off d oid).
Proof.
  unfold track, inv. destruct (d =? 0); cbn [changes total]; auto.
  intros _ H. destruct (changes s); discriminate H.
Qed.

Lemma shifted_some s off n : shifted s off = Some n -> n = off + total s.
Proof. unfold shifted. destruct (off + total s <? 0); [discriminate|]. intros H; injection H as <-; reflexivity. Qed.

Lemma shift_point_spec s e d e' s' :
  shift_point s e d = Some (e', s') ->
  e_off e' = e_off e + total s /\ canon e' /\ csize e' = csize e /\
  total s' = total s + (e_hsize e' - e_hsize e) /\ (inv s -> inv s').
Proof.
  unfold shift_point. destruct (shifted s (e_off e)) as [n|] eqn:Hs; [|discriminate].
  apply shifted_some in Hs. intros H; injection H as <- <-.
  unfold canon, csize; cbn [e_off e_hsize e_hdr e_dsize e_comp].
  rewrite track_total. repeat split; auto. apply track_inv.
Qed.

Lemma from_data_obj_canon o z : canon (set_off (from_data_obj o) z).
Proof. reflexivity. Qed.

Lemma step_layout odb s e out s' stop :
  inv s -> canon e ->
  step odb s e = Some (out, s', stop) ->
  contiguous (e_off e + total s) out /\ all_canon out /\ inv s' /\
  (stop = false -> span out + total s = bytes_in_pack e + total s').
Proof.
  intros Hinv Hc. unfold step.
  destruct (e_hdr e) as [k|dist|id] eqn:Hh.
  - (* base object *)
    destruct (changes s) as [|c cs] eqn:Hcs.
    + intros H; injection H as <- <- <-. cbn [contiguous all_canon span].
      rewrite (Hinv Hcs). repeat split; auto; lia.
    + destruct (shifted s (e_off e)) as [n|] eqn:Hs; [|discriminate].
      apply shifted_some in Hs. intros H; injection H as <- <- <-.
      cbn [contiguous all_canon span]. unfold bytes_in_pack, csize, canon in *; cbn [set_off e_off e_hsize e_comp e_hdr e_dsize].
      repeat split; auto; lia.
  - (* ofs-delta *)
    destruct (changes s) as [|c cs] eqn:Hcs.
    + intros H; injection H as <- <- <-. cbn [contiguous all_canon span].
      rewrite (Hinv Hcs). repeat split; auto; lia.
    + destruct (e_off e - dist <? 0); [discriminate|].
      assert (Hfin : forall d r, match shift_point s e d with
                                 | Some (e', s1) => Some ([IEntry e'], s1, false)
                                 | None => None end = Some r ->
                                 r = (out, s', stop) ->
              contiguous (e_off e + total s) out /\ all_canon out /\ inv s' /\
              (stop = false -> span out + total s = bytes_in_pack e + total s')).
      { intros d r H Hr. destruct (shift_point s e d) as [[e' s1]|] eqn:Hsp; [|discriminate].
        apply shift_point_spec in Hsp. destruct Hsp as (Ho & Hca & Hcz & Ht & Hi).
        injection H as <-. injection Hr as <- <- <-.
        cbn [contiguous all_canon span]. unfold bytes_in_pack. rewrite Hcz.
        repeat split; auto; lia. }
      destruct (bsearch (map c_off (c :: cs)) (e_off e - dist)) as [index|index].
      * destruct (shifted s (e_off e)) as [sh|]; [|discriminate].
        match goal with |- context [if ?d <? 0 then None else _] => destruct (d <? 0); [discriminate|] end.
        intros H. eapply Hfin; [exact H|reflexivity].
      * match goal with |- context [if ?d <? 0 then None else _] => destruct (d <? 0); [discriminate|] end.
        intros H. eapply Hfin; [exact H|reflexivity].
  - (* ref-delta *)
    destruct (rfind_oid (changes s) id) as [c|].
    + destruct (shifted s (e_off e)) as [sh|]; [|discriminate].
      destruct (sh - c_shift c <? 0); [discriminate|].
      destruct (shift_point s e (sh - c_shift c)) as [[e' s1]|] eqn:Hsp; [|discriminate].
      apply shift_point_spec in Hsp. destruct Hsp as (Ho & Hca & Hcz & Ht & Hi).
      intros H; injection H as <- <- <-.
      cbn [contiguous all_canon span]. unfold bytes_in_pack. rewrite Hcz.
      repeat split; auto; lia.
    + destruct (lookup odb id) as [o|].
      * destruct (shifted s (e_off e)) as [boff|] eqn:Hs; [|discriminate].
        apply shifted_some in Hs.
        set (b := set_off (from_data_obj o) boff).
        set (s1 := track s boff (e_off e) (bytes_in_pack b) id).
        destruct (shift_point s1 e (bytes_in_pack b)) as [[e' s2]|] eqn:Hsp; [|discriminate].
        apply shift_point_spec in Hsp. destruct Hsp as (Ho & Hca & Hcz & Ht & Hi).
        intros H; injection H as <- <- <-.
        assert (Ht1 : total s1 = total s + bytes_in_pack b) by apply track_total.
        assert (Hi1 : inv s1) by (apply track_inv; exact Hinv).
        cbn [contiguous all_canon span].
        assert (Hb : e_off b = boff) by reflexivity.
        assert (He' : bytes_in_pack e' = e_hsize e' + csize e) by (unfold bytes_in_pack; rewrite Hcz; reflexivity).
        assert (Hbe : bytes_in_pack e = e_hsize e + csize e) by reflexivity.
        repeat split; auto; try lia.
      * intros H; injection H as <- <- <-. cbn [contiguous all_canon]. repeat split; auto. discriminate.
Qed.

Lemma run_iter_layout odb : forall items s a out t,
  inv s -> contiguous a items -> all_canon items ->
  run_iter odb s items = (out, t) ->
  contiguous (a + total s) out /\ all_canon out.
Proof.
  induction items as [|[e|] r IH]; intros s a out t Hinv Hc Hca; cbn [run_iter].
  - intros H; injection H as <- <-. cbn; auto.
  - cbn [contiguous all_canon] in Hc, Hca. destruct Hc as [Hoff Hc]. destruct Hca as [Hce Hca].
    destruct (step odb s e) as [[[o s'] stop]|] eqn:Hst.
    + apply step_layout in Hst; auto. destruct Hst as (Ho & Hoc & Hi' & Hsp).
      destruct stop.
      * intros H; injection H as <- <-. rewrite <- Hoff. auto.
      * destruct (run_iter odb s' r) as [o2 t2] eqn:Hr. intros H; injection H as <- <-.
        specialize (IH s' (a + bytes_in_pack e) o2 t2 Hi' Hc Hca Hr). destruct IH as [IH1 IH2].
        rewrite contiguous_app, all_canon_app. rewrite <- Hoff at 1. repeat split; auto.
        specialize (Hsp eq_refl).
        replace (a + total s + span o) with (a + bytes_in_pack e + total s') by lia. exact IH1.
    + intros H; injection H as <- <-. cbn; auto.
  - cbn [contiguous all_canon] in Hc, Hca.
    destruct (run_iter odb s r) as [o2 t2] eqn:Hr. intros H; injection H as <- <-.
    cbn [contiguous all_canon]. eapply IH; eauto.
Qed.

Theorem thin_layout odb items out t :
  contiguous 12 items -> all_canon items ->
  run_iter odb st0 items = (out, t) ->
  contiguous 12 out /\ all_canon out.
Proof.
  intros Hc Hca H.
  assert (Hi : inv st0) by (intros _; reflexivity).
  pose proof (run_iter_layout odb items st0 12 out t Hi Hc Hca H) as R.
  cbn [total st0] in R. replace (12 + 0) with 12 in R by lia. exact R.
Qed.

(* the bytes EntriesToBytesIter writes: each entry starts where it says *)
Lemma pack_header_len n : zlen (pack_header n) = 12.
Proof. reflexivity. Qed.

Lemma entry_bytes_len e : canon e -> zlen (entry_bytes e) = bytes_in_pack e.
Proof.
  unfold canon, entry_bytes, bytes_in_pack, csize, hdr_size, zlen. intros ->.
  rewrite app_length. lia.
Qed.

Fixpoint items_of (es : list entry) : list item :=
  match es with [] => [] | e :: r => IEntry e :: items_of r end.

Lemma written_prefix_len : forall pre a rest,
  contiguous a (items_of (pre ++ rest)) -> all_canon (items_of (pre ++ rest)) ->
  zlen (concat (map entry_bytes pre)) = span (items_of pre) /\
  contiguous (a + span (items_of pre)) (items_of rest).
Proof.
  induction pre as [|p pre IH]; intros a rest Hc Hca; cbn [app items_of map concat span] in *.
  - split; [reflexivity|]. replace (a + 0) with a by lia. exact Hc.
  - cbn [contiguous all_canon] in Hc, Hca. destruct Hc as [Ho Hc]. destruct Hca as [Hcp Hca].
    destruct (IH _ _ Hc Hca) as [IH1 IH2]. split.
    + unfold zlen in *. rewrite app_length, Nat2Z.inj_add. fold (zlen (entry_bytes p)).
      rewrite entry_bytes_len by exact Hcp. lia.
    + replace (a + (bytes_in_pack p + span (items_of pre))) with (a + bytes_in_pack p + span (items_of pre)) by lia.
      exact IH2.
Qed.

Theorem written_where_claimed pre e post n :
  contiguous 12 (items_of (pre ++ e :: post)) -> all_canon (items_of (pre ++ e :: post)) ->
  zlen (pack_header n ++ concat (map entry_bytes pre)) = e_off e.
Proof.
  intros Hc Hca. destruct (written_prefix_len pre 12 (e :: post) Hc Hca) as [H1 H2].
  cbn [items_of contiguous] in H2. destruct H2 as [H2 _].
  unfold zlen in *. rewrite app_length, Nat2Z.inj_add. fold (zlen (pack_header n)).
  rewrite pack_header_len. lia.
Qed.

(* a ref-delta whose base has not been injected yet: the looked-up object is emitted right in front of it and the
   rewritten delta points exactly at that entry *)
Theorem ref_delta_gets_its_base odb s e id o out s' stop :
  e_hdr e = HRef id -> rfind_oid (changes s) id = None -> lookup odb id = Some o ->
  step odb s e = Some (out, s', stop) ->
  exists b e', out = [IEntry b; IEntry e'] /\ stop = false /\
    e_hdr b = HBase (o_kind o) /\ e_data b = o_data o /\ e_comp b = o_comp o /\
    e_hdr e' = HOfs (e_off e' - e_off b) /\ e_comp e' = e_comp e /\ e_dsize e' = e_dsize e /\ e_data e' = e_data e.
Proof.
  intros Hh Hr Hl. unfold step. rewrite Hh, Hr, Hl.
  destruct (shifted s (e_off e)) as [boff|] eqn:Hs; [|discriminate].
  apply shifted_some in Hs.
  set (b := set_off (from_data_obj o) boff).
  set (s1 := track s boff (e_off e) (bytes_in_pack b) id).
  assert (Ht1 : total s1 = total s + bytes_in_pack b) by apply track_total.
  unfold shift_point. destruct (shifted s1 (e_off e)) as [off'|] eqn:Hs1; [|discriminate].
  apply shifted_some in Hs1.
  intros H; injection H as <- <- <-.
  eexists b, _. split; [reflexivity|]. cbn [e_hdr e_off e_comp e_dsize e_data].
  repeat split. f_equal. cbn [b set_off e_off]. lia.
Qed.
