(* C10 — Indexing a received pack matches git index-pack: what is proved about the model (see NOTES.md). *)
From Coq Require Import List ZArith Bool.
From GixV.Base Require Import Bytes Outcome.
From GixV.C10 Require Import Sha1 Model ProofsThin ProofsSched ProofsPersist ProofsIndex.
Import ListNotations.
Local Open Scope Z_scope.

(* Thin-pack completion (LookupRefDeltaObjectsIter), for EVERY lookup, every entry sequence laid out contiguously
   from offset 12 with canonical header sizes (what BytesToEntriesIter yields for a pack git wrote) — including
   ofs-deltas pointing anywhere, unknown or repeated base ids, inner errors, and runs ending in a panic: the emitted
   entries are again contiguous from 12 and canonical, i.e. bases injected in front of their first user and header
   size changes shift every later entry by exactly the bytes they add or remove. *)
Theorem thin_output_is_contiguous : forall odb items out t,
  contiguous 12 items -> all_canon items ->
  run_iter odb st0 items = (out, t) ->
  contiguous 12 out /\ all_canon out.
Proof. exact thin_layout. Qed.

(* ...hence in the pack EntriesToBytesIter writes, every entry starts at the offset it claims (the one the index
   records and ofs-delta distances are relative to). *)
Theorem thin_entries_written_where_claimed : forall pre e post n,
  contiguous 12 (items_of (pre ++ e :: post)) -> all_canon (items_of (pre ++ e :: post)) ->
  zlen (pack_header n ++ concat (map entry_bytes pre)) = e_off e.
Proof. exact written_where_claimed. Qed.

(* A ref-delta whose base was not injected before: the object the lookup returns is emitted directly in front of it
   (kind, data, compressed bytes as looked up) and the delta is rewritten into an ofs-delta whose distance is exactly
   the distance to that injected entry; its own compressed bytes and sizes are untouched. *)
Theorem thin_ref_delta_gets_its_base : forall odb s e id o out s' stop,
  e_hdr e = HRef id -> rfind_oid (changes s) id = None -> lookup odb id = Some o ->
  step odb s e = Some (out, s', stop) ->
  exists b e', out = [IEntry b; IEntry e'] /\ stop = false /\
    e_hdr b = HBase (o_kind o) /\ e_data b = o_data o /\ e_comp b = o_comp o /\
    e_hdr e' = HOfs (e_off e' - e_off b) /\ e_comp e' = e_comp e /\ e_dsize e' = e_dsize e /\ e_data e' = e_data e.
Proof. exact ref_delta_gets_its_base. Qed.

(* Delta-tree traversal: two arbitrary schedules (any interleaving of "inflate a root" / "resolve a child whose base is
   resolved", nodes possibly handled more than once) agree on the object, CRC and root flag at every pack offset. *)
Theorem traversal_any_two_schedules_agree : forall ns d1 d2 r1 r2,
  NoDup (map n_off ns) -> reach ns d1 -> reach ns d2 ->
  In r1 d1 -> In r2 d2 -> r_off r1 = r_off r2 -> r1 = r2.
Proof. exact any_two_schedules_agree. Qed.

(* ...and on the tree the index writer builds from any item sequence, every schedule computes what the model's
   pack-order pass computes: the (id, offset, crc) set does not depend on threads. *)
Theorem traversal_schedule_independent : forall l ns rs d r1 r2,
  tree_add None l [] = Some ns -> resolve_all ns [] = Ok rs ->
  reach ns d -> In r1 d -> In r2 rs -> r_off r1 = r_off r2 -> r1 = r2.
Proof. exact ProofsSched.traversal_schedule_independent. Qed.

Theorem model_order_is_a_schedule : forall l ns rs,
  tree_add None l [] = Some ns -> resolve_all ns [] = Ok rs ->
  NoDup (map n_off ns) /\ reach ns (rev rs).
Proof. exact ProofsSched.model_order_is_a_schedule. Qed.

(* The index bytes depend only on the SET of (id, offset, crc) entries and the pack checksum, not on the order in which
   roots/children come out of the traversal (ids distinct). *)
Theorem index_bytes_deterministic : forall l1 l2 ph,
  Permutation.Permutation l1 l2 -> NoDup (map i_id l1) ->
  index_bytes (sort_by_id l1) ph = index_bytes (sort_by_id l2) ph.
Proof. exact ProofsIndex.index_bytes_deterministic. Qed.

(* Persisting (Bundle::inner_write), for every combination of file-system faults and pre-existing files: *)
Theorem rejected_stream_leaves_nothing : forall pre_pack pre_idx f,
  inner_write_persist Rejected pre_pack pre_idx f = (false, nothing).
Proof. exact rejected_leaves_nothing. Qed.

Theorem failure_never_leaves_a_pair : forall r pre_pack pre_idx f ok d,
  inner_write_persist r pre_pack pre_idx f = (ok, d) ->
  (ok = false -> new_idx d = false) /\
  (new_idx d = true -> new_pack d = true \/ pre_pack = true).
Proof. exact ProofsPersist.failure_never_leaves_a_pair. Qed.

Theorem success_has_pack_and_index : forall r pre_pack pre_idx f d n ph pf idx,
  r = Written n ph pf idx ->
  inner_write_persist r pre_pack pre_idx f = (true, d) ->
  (new_pack d = true \/ pre_pack = true) /\ (new_idx d = true \/ pre_idx = true).
Proof. exact success_has_both. Qed.

(* ---- non-vacuity -------------------------------------------------------------------------------------------- *)
(* the zero-sum layout that the unfixed code got wrong: a 19-byte thin base in front of a ref-delta whose header
   shrinks by 19, then an ofs-delta onto the converted entry.  The distance of the last entry is re-computed
   (12, not the stale 31). *)
Definition ex_base : obj :=
  {| o_id := repeat x01 20; o_kind := 3; o_data := repeat x61 10; o_comp := repeat x00 18 |}.
Definition ex_items : list item :=
  [ IEntry {| e_hdr := HRef (repeat x01 20); e_off := 12; e_hsize := 21; e_comp := repeat x00 10; e_dsize := 9;
              e_crc := 0; e_data := [] |};
    IEntry {| e_hdr := HOfs 31; e_off := 43; e_hsize := 2; e_comp := repeat x00 4; e_dsize := 5;
              e_crc := 0; e_data := [] |} ].
Example ex_items_wellformed : contiguous 12 ex_items /\ all_canon ex_items.
Proof. vm_compute. repeat split. Qed.
Example ex_zero_sum_adjusted :
  map (fun i => match i with IEntry e => (e_off e, e_hdr e) | IErr => (0, HBase 0) end)
      (fst (run_iter [ex_base] st0 ex_items))
  = [(12, HBase 3); (31, HOfs 19); (43, HOfs 12)].
Proof. vm_compute. reflexivity. Qed.

(* a schedule exists for a two-node tree, and handles the child after the root *)
Definition ex_n0 : node := {| n_off := 12; n_crc := 1; n_kind := HBase 3; n_data := [x61; x62]; n_base := None |}.
Definition ex_n1 : node :=
  {| n_off := 20; n_crc := 2; n_kind := HOfs 8; n_data := [x02; x03; x91; x00; x02; x01; x63]; n_base := Some 12 |}.
Definition ex_nodes : list node := [ex_n0; ex_n1].
Example ex_schedule : exists d, reach ex_nodes d /\ length d = 2%nat /\
  map r_data d = [[x61; x62; x63]; [x61; x62]].
Proof.
  eexists. split; [|split].
  - eapply reachS; [eapply reachS; [apply reach0|]|].
    + apply (s_root ex_nodes ex_n0 3); [left; reflexivity|reflexivity|reflexivity].
    + eapply (s_child ex_nodes ex_n1 12); [right; left; reflexivity|reflexivity|left; reflexivity|reflexivity|vm_compute; reflexivity].
  - reflexivity.
  - reflexivity.
Qed.
Example ex_resolve_all : exists rs, resolve_all ex_nodes [] = Ok rs /\ map r_data rs = [[x61; x62]; [x61; x62; x63]].
Proof. eexists. split; vm_compute; reflexivity. Qed.
