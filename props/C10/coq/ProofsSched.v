(* C10 — the delta-tree traversal as a scheduler-independent computation: whatever order the work-stealing threads
   process nodes in (any order in which a node is handled after its base), the object computed for a pack offset is the
   same, and it is the one the model computes in pack order. *)
From Coq Require Import List ZArith Lia Bool.
From GixV.Base Require Import Bytes Outcome.
From GixV.C10 Require Import Sha1 Model.
Import ListNotations.

Definition mk_root (n : node) (k : N) : resolved :=
  {| r_off := n_off n; r_kind := k; r_data := n_data n; r_crc := n_crc n; r_root := true |}.
Definition mk_child (n : node) (p : resolved) (d : bytes) : resolved :=
  {| r_off := n_off n; r_kind := r_kind p; r_data := d; r_crc := n_crc n; r_root := false |}.

(* one unit of work of some thread: a root is inflated, or a child is resolved against its already resolved base *)
Inductive sstep (ns : list node) : list resolved -> list resolved -> Prop :=
| s_root n k done :
    In n ns -> n_base n = None -> n_kind n = HBase k -> sstep ns done (mk_root n k :: done)
| s_child n b p d done :
    In n ns -> n_base n = Some b -> In p done -> r_off p = b ->
    resolve_child (r_data p) (n_data n) = Ok d -> sstep ns done (mk_child n p d :: done).
Inductive reach (ns : list node) : list resolved -> Prop :=
| reach0 : reach ns []
| reachS d d' : reach ns d -> sstep ns d d' -> reach ns d'.

(* the denotation of a node, independent of any order *)
Inductive den (ns : list node) : resolved -> Prop :=
| den_root n k : In n ns -> n_base n = None -> n_kind n = HBase k -> den ns (mk_root n k)
| den_child n b p d :
    In n ns -> n_base n = Some b -> den ns p -> r_off p = b ->
    resolve_child (r_data p) (n_data n) = Ok d -> den ns (mk_child n p d).

Lemma reach_den ns d : reach ns d -> Forall (den ns) d.
Proof.
  induction 1 as [|d d' _ IH Hs]; [constructor|].
  destruct Hs as [n k done Hin Hb Hk | n b p dd done Hin Hb Hp Ho Hr]; constructor; auto.
  - econstructor; eauto.
  - econstructor; eauto. rewrite Forall_forall in IH. auto.
Qed.

Lemma same_offset_same_node (ns : list node) :
  NoDup (map n_off ns) -> forall n n', In n ns -> In n' ns -> n_off n = n_off n' -> n = n'.
Proof.
  induction ns as [|x r IH]; intros Hnd n n' Hn Hn' He; [destruct Hn|].
  cbn [map] in Hnd. inversion Hnd as [|? ? Hni Hnd']; subst.
  destruct Hn as [<-|Hn], Hn' as [<-|Hn']; auto.
  - exfalso. apply Hni. rewrite He. apply in_map. exact Hn'.
  - exfalso. apply Hni. rewrite <- He. apply in_map. exact Hn.
Qed.

Lemma den_functional ns : NoDup (map n_off ns) ->
  forall r1, den ns r1 -> forall r2, den ns r2 -> r_off r1 = r_off r2 -> r1 = r2.
Proof.
  intros Hnd r1 H1. induction H1 as [n k Hin Hb Hk | n b p d Hin Hb Hp IH Ho Hr]; intros r2 H2 He.
  - destruct H2 as [n' k' Hin' Hb' Hk' | n' b' p' d' Hin' Hb' Hp' Ho' Hr']; cbn [mk_root mk_child r_off] in He.
    + assert (n = n') by (eapply same_offset_same_node; eauto). subst n'.
      rewrite Hk in Hk'. injection Hk' as <-. reflexivity.
    + assert (n = n') by (eapply same_offset_same_node; eauto). subst n'. congruence.
  - destruct H2 as [n' k' Hin' Hb' Hk' | n' b' p' d' Hin' Hb' Hp' Ho' Hr']; cbn [mk_root mk_child r_off] in He.
    + assert (n = n') by (eapply same_offset_same_node; eauto). subst n'. congruence.
    + assert (n = n') by (eapply same_offset_same_node; eauto). subst n'.
      assert (b = b') by congruence. subst b'.
      assert (p = p') by (apply IH; auto; congruence). subst p'.
      rewrite Hr in Hr'. apply Ok_inj in Hr'. subst d'. reflexivity.
Qed.

Theorem any_two_schedules_agree ns d1 d2 r1 r2 :
  NoDup (map n_off ns) -> reach ns d1 -> reach ns d2 ->
  In r1 d1 -> In r2 d2 -> r_off r1 = r_off r2 -> r1 = r2.
Proof.
  intros Hnd H1 H2 I1 I2 He.
  apply reach_den in H1. apply reach_den in H2. rewrite Forall_forall in H1, H2.
  eapply den_functional; eauto.
Qed.

(* the model's pack-order pass is one schedule *)
Definition roots_are_bases (ns : list node) : Prop :=
  forall n, In n ns -> n_base n = None -> exists k, n_kind n = HBase k.

Lemma resolve_all_reach ns : forall ns' done rs,
  (forall n, In n ns' -> In n ns) -> roots_are_bases ns -> reach ns done ->
  resolve_all ns' done = Ok rs -> reach ns (rev rs).
Proof.
  induction ns' as [|n r IH]; intros done rs Hincl Hrb Hre; cbn [resolve_all].
  - intros H. apply Ok_inj in H. subst rs. rewrite rev_involutive. exact Hre.
  - assert (Hn : In n ns) by (apply Hincl; left; reflexivity).
    assert (Hincl' : forall m, In m r -> In m ns) by (intros m Hm; apply Hincl; right; exact Hm).
    destruct (n_base n) as [b|] eqn:Hb.
    + destruct (find_resolved done b) as [p|] eqn:Hf; [|discriminate].
      apply find_some in Hf. destruct Hf as [Hin Hoff]. apply Z.eqb_eq in Hoff.
      destruct (resolve_child (r_data p) (n_data n)) as [d| | |] eqn:Hr; cbn [obind]; try discriminate.
      intros H. eapply IH; [exact Hincl'|exact Hrb| |exact H].
      eapply reachS; [exact Hre|]. eapply (s_child ns n b p d); eauto.
    + destruct (Hrb n Hn Hb) as [k Hk]. rewrite Hk.
      intros H. eapply IH; [exact Hincl'|exact Hrb| |exact H].
      eapply reachS; [exact Hre|]. apply (s_root ns n k); auto.
Qed.

(* what tree_add builds: strictly increasing offsets, roots are base objects *)
Definition acc_inv (last : option Z) (acc : list node) : Prop :=
  NoDup (map n_off acc) /\ roots_are_bases acc /\
  (forall n, In n acc -> match last with Some o => (n_off n <= o)%Z | None => False end).

Lemma tree_add_inv : forall l last acc ns,
  acc_inv last acc -> tree_add last l acc = Some ns ->
  NoDup (map n_off ns) /\ roots_are_bases ns.
Proof.
  induction l as [|[e|] r IH]; intros last acc ns (Hnd & Hrb & Hle); cbn [tree_add].
  - intros H; injection H as <-. split.
    + rewrite map_rev. apply NoDup_rev. exact Hnd.
    + intros n Hn. apply Hrb. apply in_rev. exact Hn.
  - set (incr := match last with None => true | Some o => (o <? e_off e)%Z end).
    assert (Hstep : forall nd, n_off nd = e_off e -> (n_base nd = None -> exists k, n_kind nd = HBase k) ->
                     incr = true -> acc_inv (Some (e_off e)) (nd :: acc)).
    { intros nd Ho Hk Hi. repeat split.
      - cbn [map]. constructor; [|exact Hnd]. intros Hin. apply in_map_iff in Hin.
        destruct Hin as (m & Hm & Hmin). specialize (Hle m Hmin). unfold incr in Hi.
        destruct last as [o|]; [|contradiction]. apply Z.ltb_lt in Hi. lia.
      - intros m [<-|Hm] Hb; auto.
      - intros m [<-|Hm]; [lia|]. specialize (Hle m Hm). unfold incr in Hi.
        destruct last as [o|]; [|contradiction]. apply Z.ltb_lt in Hi. lia. }
    destruct (e_hdr e) as [k|d|id] eqn:Hh.
    + destruct incr eqn:Hi; [|discriminate]. intros H. eapply IH; [|exact H].
      apply Hstep; auto. intros _. exists k. reflexivity.
    + destruct ((d =? 0)%Z || (e_off e - d <? 0)%Z); [discriminate|].
      destruct incr eqn:Hi; [|discriminate]. intros H. eapply IH; [|exact H].
      apply Hstep; auto. cbn. discriminate.
    + discriminate.
  - discriminate.
Qed.

Theorem model_order_is_a_schedule l ns rs :
  tree_add None l [] = Some ns -> resolve_all ns [] = Ok rs ->
  NoDup (map n_off ns) /\ reach ns (rev rs).
Proof.
  intros Ht Hr.
  assert (Hi : acc_inv None []).
  { repeat split; [constructor| |]; intros n []. }
  destruct (tree_add_inv l None [] ns Hi Ht) as [Hnd Hrb]. split; [exact Hnd|].
  exact (resolve_all_reach ns ns [] rs (fun n H => H) Hrb (reach0 ns) Hr).
Qed.

(* every schedule computes, for every pack offset it handles, the object the model computes *)
Theorem traversal_schedule_independent l ns rs d r1 r2 :
  tree_add None l [] = Some ns -> resolve_all ns [] = Ok rs ->
  reach ns d -> In r1 d -> In r2 rs -> r_off r1 = r_off r2 -> r1 = r2.
Proof.
  intros Ht Hr Hd I1 I2 He.
  destruct (model_order_is_a_schedule l ns rs Ht Hr) as [Hnd Hm].
  eapply (any_two_schedules_agree ns d (rev rs)); eauto. apply -> in_rev. exact I2.
Qed.
