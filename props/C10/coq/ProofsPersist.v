(* C10 — what a failed call leaves behind (Bundle::inner_write, every combination of file-system faults). *)
From Coq Require Import List ZArith Bool.
From GixV.Base Require Import Bytes Outcome.
From GixV.C10 Require Import Sha1 Model.

(* a rejected stream (any error of the entry iterator, the thin-pack completion, the tree or the traversal) leaves
   nothing at all, whatever the file system does *)
Lemma rejected_leaves_nothing pre_pack pre_idx f :
  inner_write_persist Rejected pre_pack pre_idx f = (false, nothing).
Proof. reflexivity. Qed.

(* an error return never leaves a new pack/index pair; the index is only ever created after the pack is in place *)
Lemma failure_never_leaves_a_pair r pre_pack pre_idx f ok d :
  inner_write_persist r pre_pack pre_idx f = (ok, d) ->
  (ok = false -> new_idx d = false) /\
  (new_idx d = true -> new_pack d = true \/ pre_pack = true).
Proof.
  destruct r, pre_pack, pre_idx, f as [[] [] []]; cbn; intros H; injection H as <- <-; cbn; intuition congruence.
Qed.

(* success with objects: both files are there afterwards *)
Lemma success_has_both r pre_pack pre_idx f d n ph pf idx :
  r = Written n ph pf idx ->
  inner_write_persist r pre_pack pre_idx f = (true, d) ->
  (new_pack d = true \/ pre_pack = true) /\ (new_idx d = true \/ pre_idx = true).
Proof.
  intros ->. destruct pre_pack, pre_idx, f as [[] [] []]; cbn; intros H; injection H as <-; cbn; intuition congruence.
Qed.
