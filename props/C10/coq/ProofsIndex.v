(* C10 — the index depends on the set of entries only: the stable sort by id of two permutations of a list with distinct
   ids is the same list. *)
From Coq Require Import List ZArith Lia Bool Permutation Sorted.
From GixV.Base Require Import Bytes BytesFacts Outcome.
From GixV.C10 Require Import Sha1 Model.
Import ListNotations.

Definition le (x y : ientry) : Prop := bytes_cmp (i_id x) (i_id y) <> Gt.

Lemma bytes_cmp_le_trans : forall a b c,
  bytes_cmp a b <> Gt -> bytes_cmp b c <> Gt -> bytes_cmp a c <> Gt.
Proof.
  induction a as [|x a IH]; intros [|y b] [|z c]; cbn [bytes_cmp]; try congruence.
  destruct (N.compare_spec (b2N x) (b2N y)), (N.compare_spec (b2N y) (b2N z)), (N.compare_spec (b2N x) (b2N z));
    try congruence; try lia; try (intros; eapply IH; eassumption).
Qed.
Lemma le_trans x y z : le x y -> le y z -> le x z.
Proof. apply bytes_cmp_le_trans. Qed.
Lemma le_total x y : le x y \/ le y x.
Proof.
  unfold le. rewrite (bytes_cmp_antisym (i_id x) (i_id y)).
  destruct (bytes_cmp (i_id x) (i_id y)); cbn; [left|left|right]; congruence.
Qed.
Lemma le_antisym_id x y : le x y -> le y x -> i_id x = i_id y.
Proof.
  unfold le. rewrite (bytes_cmp_antisym (i_id x) (i_id y)).
  destruct (bytes_cmp (i_id x) (i_id y)) eqn:H; cbn; try congruence.
  intros _ _. apply bytes_cmp_eq_iff. exact H.
Qed.

Lemma insert_perm x l : Permutation (insert_by_id x l) (x :: l).
Proof.
  induction l as [|y r IH]; cbn [insert_by_id]; [reflexivity|].
  destruct (bytes_cmp (i_id x) (i_id y)); try reflexivity.
  rewrite IH. apply perm_swap.
Qed.
Lemma sort_perm l : Permutation (sort_by_id l) l.
Proof.
  unfold sort_by_id. induction l as [|x r IH]; cbn [fold_right]; [reflexivity|].
  rewrite insert_perm. constructor. exact IH.
Qed.

Lemma insert_sorted x l : StronglySorted le l -> StronglySorted le (insert_by_id x l).
Proof.
  induction 1 as [|y r Hs IH Hall]; cbn [insert_by_id].
  - constructor; constructor.
  - destruct (bytes_cmp (i_id x) (i_id y)) eqn:Hc.
    + constructor; [constructor; assumption|]. constructor; [unfold le; congruence|].
      rewrite Forall_forall in *. intros z Hz. eapply le_trans; [|apply Hall; exact Hz]. unfold le; congruence.
    + constructor; [constructor; assumption|]. constructor; [unfold le; congruence|].
      rewrite Forall_forall in *. intros z Hz. eapply le_trans; [|apply Hall; exact Hz]. unfold le; congruence.
    + constructor; [exact IH|].
      rewrite Forall_forall in *. intros z Hz.
      apply (Permutation_in _ (insert_perm x r)) in Hz. destruct Hz as [<-|Hz]; [|apply Hall; exact Hz].
      unfold le. rewrite (bytes_cmp_antisym (i_id x) (i_id y)), Hc. cbn. congruence.
Qed.
Lemma sort_sorted l : StronglySorted le (sort_by_id l).
Proof.
  unfold sort_by_id. induction l as [|x r IH]; cbn [fold_right]; [constructor|].
  apply insert_sorted. exact IH.
Qed.

Lemma same_id_same_entry (l : list ientry) : NoDup (map i_id l) ->
  forall x y, In x l -> In y l -> i_id x = i_id y -> x = y.
Proof.
  induction l as [|a r IH]; intros Hnd x y Hx Hy He; [destruct Hx|].
  cbn [map] in Hnd. inversion Hnd as [|? ? Hni Hnd']; subst.
  destruct Hx as [<-|Hx], Hy as [<-|Hy]; auto.
  - exfalso. apply Hni. rewrite He. apply in_map. exact Hy.
  - exfalso. apply Hni. rewrite <- He. apply in_map. exact Hx.
Qed.

Lemma sorted_perm_unique : forall l1 l2,
  StronglySorted le l1 -> StronglySorted le l2 -> Permutation l1 l2 ->
  (forall x y, In x l1 -> In y l1 -> i_id x = i_id y -> x = y) -> l1 = l2.
Proof.
  induction l1 as [|x r1 IH]; intros l2 H1 H2 Hp Hu.
  - apply Permutation_nil in Hp. subst; reflexivity.
  - destruct l2 as [|y r2]; [apply Permutation_sym, Permutation_nil in Hp; discriminate|].
    inversion H1 as [|? ? Hs1 Ha1]; subst. inversion H2 as [|? ? Hs2 Ha2]; subst.
    rewrite Forall_forall in Ha1, Ha2.
    assert (Hyin : In y (x :: r1)) by (eapply Permutation_in; [apply Permutation_sym; exact Hp|left; reflexivity]).
    assert (Hxin : In x (y :: r2)) by (eapply Permutation_in; [exact Hp|left; reflexivity]).
    assert (x = y).
    { destruct Hyin as [->|Hy]; [reflexivity|]. destruct Hxin as [->|Hx]; [reflexivity|].
      apply Hu; [left; reflexivity|right; exact Hy|].
      apply le_antisym_id; [apply Ha1; exact Hy|apply Ha2; exact Hx]. }
    subst y. f_equal. apply IH; auto.
    + eapply Permutation_cons_inv; exact Hp.
    + intros a b Ha Hb. apply Hu; right; assumption.
Qed.

Theorem sort_by_id_of_permutation l1 l2 :
  Permutation l1 l2 -> NoDup (map i_id l1) -> sort_by_id l1 = sort_by_id l2.
Proof.
  intros Hp Hnd. apply sorted_perm_unique; try apply sort_sorted.
  - rewrite sort_perm, Hp. symmetry. apply sort_perm.
  - intros x y Hx Hy. apply (same_id_same_entry l1 Hnd);
      eapply Permutation_in; try apply sort_perm; assumption.
Qed.

Theorem index_bytes_deterministic l1 l2 ph :
  Permutation l1 l2 -> NoDup (map i_id l1) ->
  index_bytes (sort_by_id l1) ph = index_bytes (sort_by_id l2) ph.
Proof. intros Hp Hnd. rewrite (sort_by_id_of_permutation l1 l2 Hp Hnd). reflexivity. Qed.
