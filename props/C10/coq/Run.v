(* C10 — transcript printer: the same observable line the Rust harness prints for a case. *)
From Coq Require Import List ZArith Bool.
From GixV.Base Require Import Bytes Outcome.
From GixV.C10 Require Import Sha1 Model.
Import ListNotations.
Local Open Scope N_scope.

Definition fN (i : nat) (fs : list bytes) : N := field_N i fs.
Definition kind_of (f : bytes) : N :=
  match f with b :: _ => let n := b2N b in if (49 <=? n) && (n <=? 55) then n - 48 else 0 | [] => 0 end.
Definition clamp14 (k : N) : N := if k <? 1 then 1 else if 4 <? k then 4 else k.
Definition pad20 (b : bytes) : bytes := firstn 20 (b ++ repeat x00 20).

(* ---- op thin ---- *)
Fixpoint thin_entries (n : nat) (fs : list bytes) (off : Z) : list item :=
  match n with
  | O => []
  | S n' =>
      match fs with
      | k :: arg :: ds :: comp :: r =>
          let kind := kind_of k in
          if kind =? 0 then IErr :: thin_entries n' r off
          else
            let dsize := match dec_to_N ds with Some v => v | None => 0 end in
            let h := if kind =? 6 then HOfs (Z.of_N (match dec_to_N arg with Some v => v | None => 0 end))
                     else if kind =? 7 then HRef (pad20 arg) else HBase kind in
            let hs := hdr_size h dsize in
            let e := {| e_hdr := h; e_off := off; e_hsize := hs; e_comp := comp; e_dsize := dsize;
                        e_crc := compute_crc h dsize comp; e_data := [] |} in
            IEntry e :: thin_entries n' r (off + hs + zlen comp)%Z
      | _ => []
      end
  end.
Fixpoint thin_objs (m : nat) (fs : list bytes) : list obj :=
  match m with
  | O => []
  | S m' =>
      match fs with
      | id :: k :: data :: comp :: r =>
          {| o_id := pad20 id; o_kind := clamp14 (kind_of k); o_data := data; o_comp := comp |} :: thin_objs m' r
      | _ => []
      end
  end.

Definition show_entry (e : entry) : bytes :=
  Z_to_dec (e_off e) ++ bs "/" ++ N_to_dec (type_id (e_hdr e)) ++ bs "/"
  ++ match e_hdr e with HBase _ => bs "-" | HOfs d => Z_to_dec d | HRef id => hex_encode id end
  ++ bs "/" ++ Z_to_dec (e_hsize e) ++ bs "/" ++ Z_to_dec (csize e) ++ bs "/" ++ N_to_dec (e_dsize e)
  ++ bs "/" ++ N_to_dec (e_crc e).
Fixpoint join_comma (l : list bytes) : bytes :=
  match l with
  | [] => []
  | [x] => x
  | x :: r => x ++ bs "," ++ join_comma r
  end.
Definition show_item (i : item) : bytes := match i with IEntry e => show_entry e | IErr => bs "err" end.

Definition run_thin (fs : list bytes) : bytes :=
  let n := N.to_nat (fN 1 fs) in
  let es := thin_entries n (skipn 2 fs) 12 in
  let rest := skipn (2 + 4 * n) fs in
  let m := N.to_nat (fN 0 rest) in
  let os := thin_objs m (skipn 1 rest) in
  match run_iter os st0 es with
  | (_, Panicked) => bs "PANIC"
  | (o, _) => bs "thin " ++ join_comma (map show_item o)
  end.

(* ---- ops pack / bad ---- *)
Fixpoint pack_objs (m : nat) (fs : list bytes) : list obj :=
  match m with
  | O => []
  | S m' =>
      match fs with
      | k :: data :: comp :: r =>
          let kind := clamp14 (kind_of k) in
          {| o_id := object_id kind data; o_kind := kind; o_data := data; o_comp := comp |} :: pack_objs m' r
      | _ => []
      end
  end.
Fixpoint pack_oracle (k : nat) (fs : list bytes) : oracle :=
  match k with
  | O => []
  | S k' =>
      match fs with
      | cl :: inflated :: r => (match dec_to_N cl with Some v => v | None => 0 end, inflated) :: pack_oracle k' r
      | _ => []
      end
  end.

Definition run_pack (fs : list bytes) : bytes :=
  let thin := bytes_eqb (nth_field 1 fs) (bs "thin") in
  let p := nth_field 3 fs in
  let m := N.to_nat (fN 4 fs) in
  let odb := pack_objs m (skipn 5 fs) in
  let rest := skipn (5 + 3 * m) fs in
  let k := N.to_nat (fN 0 rest) in
  let orc := pack_oracle k (skipn 1 rest) in
  match write_to_directory thin odb p orc with
  | Panic => bs "PANIC"
  | OutOfFuel => bs "HANG"
  | Err _ => bs "?"
  | Ok r =>
      let '(ok, d) := inner_write_persist r false false no_faults in
      let files (ph : bytes) :=
        let name := bs "pack-" ++ hex_encode ph in
        (if new_idx d then name ++ bs ".idx" else [])
        ++ (if new_keep d then bs "+" ++ name ++ bs ".keep" else [])
        ++ (if new_pack d then bs "+" ++ name ++ bs ".pack" else []) in
      match r with
      | Rejected => bs "err files="
      | Empty ph => bs "ok n=0 pack=" ++ hex_encode ph ++ bs " files=" ++ files ph
      | Written n ph pf idx =>
          (if ok then bs "ok" else bs "err") ++ bs " n=" ++ N_to_dec n ++ bs " pack=" ++ hex_encode ph
          ++ bs " file=" ++ hex_encode (sha1 pf)
          ++ bs " idx=" ++ hex_encode idx ++ bs " retr=" ++ N_to_dec n ++ bs " files=" ++ files ph
      end
  end.

Definition run_model (fs : list bytes) : bytes :=
  let op := nth_field 0 fs in
  if bytes_eqb op (bs "thin") then run_thin fs
  else if bytes_eqb op (bs "pack") || bytes_eqb op (bs "bad") then run_pack fs
  else bs "?".

Definition run (fs : list bytes) : bytes :=
  match fs with
  | _mode :: rest => run_model rest
  | [] => bs "?"
  end.
