(* C10 (text copied from props/C24/coq/Sha1.v) — SHA-1 (FIPS 180-4) over [N], executable.  Used only to RUN
   the model (pack trailer, object ids, rewritten-pack trailer, index trailer); the theorems treat the hash as an
   arbitrary function.  Checked against the Rust implementation by every `pack` correspondence case. *)
From GixV.Base Require Import Bytes.
Local Open Scope N_scope.

Definition w32 (x : N) : N := N.land x 4294967295.
Definition rotl (n x : N) : N := w32 (N.lor (N.shiftl x n) (N.shiftr x (32 - n))).
Definition not32 (x : N) : N := N.lxor x 4294967295.

Definition be32_of (a b c d : byte) : N :=
  b2N a * 16777216 + b2N b * 65536 + b2N c * 256 + b2N d.
Definition be32_bytes (n : N) : bytes :=
  [N2b (N.shiftr n 24); N2b (N.shiftr n 16); N2b (N.shiftr n 8); N2b n].
Definition be64_bytes (n : N) : bytes := be32_bytes (N.shiftr n 32) ++ be32_bytes (w32 n).

Fixpoint words_of (d : bytes) : list N :=
  match d with
  | a :: b :: c :: e :: r => be32_of a b c e :: words_of r
  | _ => []
  end.

Fixpoint sched (n : nat) (rev_w : list N) : list N :=
  match n with
  | O => rev_w
  | S n' =>
      let x := rotl 1 (N.lxor (N.lxor (nth 2 rev_w 0) (nth 7 rev_w 0))
                               (N.lxor (nth 13 rev_w 0) (nth 15 rev_w 0))) in
      sched n' (x :: rev_w)
  end.

Definition sha_round (st : N * (N * N * N * N * N)) (w : N) : N * (N * N * N * N * N) :=
  let '(t, (a, b, c, d, e)) := st in
  let '(f, k) :=
    if t <? 20 then (N.lor (N.land b c) (N.land (not32 b) d), 1518500249)
    else if t <? 40 then (N.lxor (N.lxor b c) d, 1859775393)
    else if t <? 60 then (N.lor (N.lor (N.land b c) (N.land b d)) (N.land c d), 2400959708)
    else (N.lxor (N.lxor b c) d, 3395469782) in
  let tmp := w32 (rotl 5 a + f + e + k + w) in
  (t + 1, (tmp, a, rotl 30 b, c, d)).

Definition sha_block (h : N * N * N * N * N) (blk : bytes) : N * N * N * N * N :=
  let ws := rev (sched 64 (rev (words_of blk))) in
  let '(h0, h1, h2, h3, h4) := h in
  let '(_, (a, b, c, d, e)) := fold_left sha_round ws (0, h) in
  (w32 (h0 + a), w32 (h1 + b), w32 (h2 + c), w32 (h3 + d), w32 (h4 + e)).

Fixpoint sha_blocks (fuel : nat) (h : N * N * N * N * N) (d : bytes) : N * N * N * N * N :=
  match fuel with
  | O => h
  | S f => match d with
           | [] => h
           | _ => sha_blocks f (sha_block h (firstn 64 d)) (skipn 64 d)
           end
  end.

Definition sha_pad (len : N) : bytes :=
  let k := (119 - N.modulo len 64) mod 64 in    (* zero bytes so that len + 1 + k = 56 mod 64 *)
  x80 :: repeat x00 (N.to_nat k) ++ be64_bytes (8 * len).

Definition sha1 (m : bytes) : bytes :=
  let len := N.of_nat (length m) in
  let d := m ++ sha_pad len in
  let '(a, b, c, e, f) :=
    sha_blocks (S (length d / 64)) (1732584193, 4023233417, 2562383102, 271733878, 3285377520) d in
  be32_bytes a ++ be32_bytes b ++ be32_bytes c ++ be32_bytes e ++ be32_bytes f.
