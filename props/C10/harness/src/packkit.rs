//! Harness-side pack tool kit, independent of gix-pack: a tiny pack writer (own header / varint / delta encoders), a pack
//! walker that uses zlib only, loose-object writing, git process helpers. Used by the generator (to build inputs and the
//! zlib oracle fields of a case) and by `prop` (independent reference).
use std::io::Write;
use std::path::{Path, PathBuf};

pub fn sha1(parts: &[&[u8]]) -> [u8; 20] {
    let mut h = gix_features::hash::hasher(gix_hash::Kind::Sha1);
    for p in parts {
        h.update(p);
    }
    h.digest()
}

pub fn kind_name(k: u8) -> &'static str {
    match k {
        1 => "commit",
        2 => "tree",
        3 => "blob",
        _ => "tag",
    }
}

pub fn object_id(kind: u8, data: &[u8]) -> [u8; 20] {
    let hdr = format!("{} {}\0", kind_name(kind), data.len());
    sha1(&[hdr.as_bytes(), data])
}

/// zlib-compress the way `input::Entry::from_data_obj` does (gix-features deflate writer, flushed once at the end).
/// The compressor state (a few hundred KiB) is kept per thread and reset between streams.
pub fn deflate(data: &[u8]) -> Vec<u8> {
    use std::cell::RefCell;
    use std::rc::Rc;
    #[derive(Clone, Default)]
    struct Sink(Rc<RefCell<Vec<u8>>>);
    impl Write for Sink {
        fn write(&mut self, b: &[u8]) -> std::io::Result<usize> {
            self.0.borrow_mut().extend_from_slice(b);
            Ok(b.len())
        }
        fn flush(&mut self) -> std::io::Result<()> {
            Ok(())
        }
    }
    thread_local! {
        static Z: RefCell<(gix_features::zlib::stream::deflate::Write<Sink>, Sink)> = {
            let s = Sink::default();
            RefCell::new((gix_features::zlib::stream::deflate::Write::new(s.clone()), s))
        };
    }
    Z.with(|z| {
        let mut z = z.borrow_mut();
        z.1 .0.borrow_mut().clear();
        z.0.reset();
        z.0.write_all(data).expect("mem");
        z.0.flush().expect("flush");
        let out = z.1 .0.borrow().clone();
        out
    })
}

/// inflate one zlib stream at the start of `input`: (inflated, consumed input bytes)
pub fn inflate_prefix(input: &[u8], size_hint: usize) -> Option<(Vec<u8>, usize)> {
    thread_local! {
        static INF: std::cell::RefCell<gix_features::zlib::Inflate> = std::cell::RefCell::new(Default::default());
    }
    INF.with(|i| inflate_prefix_with(&mut i.borrow_mut(), input, size_hint))
}
fn inflate_prefix_with(inf: &mut gix_features::zlib::Inflate, input: &[u8], size_hint: usize) -> Option<(Vec<u8>, usize)> {
    inf.reset();
    let mut out = vec![0u8; size_hint + 64];
    let (mut tin, mut tout) = (0usize, 0usize);
    loop {
        let (status, cin, cout) = inf.once(&input[tin..], &mut out[tout..]).ok()?;
        tin += cin;
        tout += cout;
        match status {
            gix_features::zlib::Status::StreamEnd => {
                out.truncate(tout);
                return Some((out, tin));
            }
            _ => {
                if cin == 0 && cout == 0 {
                    if tout == out.len() {
                        let n = out.len();
                        out.resize(n * 2 + 64, 0);
                    } else {
                        return None; // input exhausted
                    }
                } else if tout == out.len() {
                    let n = out.len();
                    out.resize(n * 2 + 64, 0);
                }
            }
        }
    }
}

// ---- encoders (written from the pack format documentation, not from gix-pack)
pub fn enc_type_size(type_id: u8, mut size: u64, out: &mut Vec<u8>) {
    let mut c = (type_id << 4) | (size & 15) as u8;
    size >>= 4;
    while size != 0 {
        out.push(c | 0x80);
        c = (size & 0x7f) as u8;
        size >>= 7;
    }
    out.push(c);
}
pub fn enc_ofs(mut n: u64, out: &mut Vec<u8>) {
    let mut tmp = vec![(n & 0x7f) as u8];
    loop {
        n >>= 7;
        if n == 0 {
            break;
        }
        n -= 1;
        tmp.push(0x80 | (n & 0x7f) as u8);
    }
    tmp.reverse();
    out.extend_from_slice(&tmp);
}
pub fn enc_delta_size(mut n: u64, out: &mut Vec<u8>) {
    loop {
        let b = (n & 0x7f) as u8;
        n >>= 7;
        if n == 0 {
            out.push(b);
            break;
        }
        out.push(b | 0x80);
    }
}
/// a delta turning `base` into `target`: copy of the common prefix, inserts for the middle, copy of the common suffix
pub fn make_delta(base: &[u8], target: &[u8]) -> Vec<u8> {
    let mut d = Vec::new();
    enc_delta_size(base.len() as u64, &mut d);
    enc_delta_size(target.len() as u64, &mut d);
    let mut p = 0;
    while p < base.len() && p < target.len() && base[p] == target[p] {
        p += 1;
    }
    let mut s = 0;
    while s < base.len() - p && s < target.len() - p && base[base.len() - 1 - s] == target[target.len() - 1 - s] {
        s += 1;
    }
    let copy = |ofs: usize, len: usize, d: &mut Vec<u8>| {
        if len == 0 {
            return;
        }
        let mut rest = len;
        let mut o = ofs;
        while rest > 0 {
            let l = rest.min(0xffff);
            let mut cmd = 0x80u8;
            let mut args = Vec::new();
            for i in 0..4 {
                let b = ((o >> (8 * i)) & 0xff) as u8;
                if b != 0 {
                    cmd |= 1 << i;
                    args.push(b);
                }
            }
            for i in 0..2 {
                let b = ((l >> (8 * i)) & 0xff) as u8;
                if b != 0 {
                    cmd |= 0x10 << i;
                    args.push(b);
                }
            }
            d.push(cmd);
            d.extend_from_slice(&args);
            rest -= l;
            o += l;
        }
    };
    copy(0, p, &mut d);
    for chunk in target[p..target.len() - s].chunks(127) {
        d.push(chunk.len() as u8);
        d.extend_from_slice(chunk);
    }
    copy(base.len() - s, s, &mut d);
    d
}

/// reference delta application (from the format documentation)
pub fn apply_delta(base: &[u8], delta: &[u8]) -> Option<Vec<u8>> {
    let mut i = 0;
    let rd = |i: &mut usize| -> Option<u64> {
        let (mut v, mut sh) = (0u64, 0);
        loop {
            let b = *delta.get(*i)?;
            *i += 1;
            v |= ((b & 0x7f) as u64) << sh;
            sh += 7;
            if b & 0x80 == 0 {
                return Some(v);
            }
        }
    };
    let bs = rd(&mut i)?;
    let ts = rd(&mut i)?;
    if bs as usize != base.len() {
        return None;
    }
    let mut out = Vec::new();
    while i < delta.len() {
        let cmd = delta[i];
        i += 1;
        if cmd & 0x80 != 0 {
            let (mut ofs, mut len) = (0usize, 0usize);
            for k in 0..4 {
                if cmd & (1 << k) != 0 {
                    ofs |= (*delta.get(i)? as usize) << (8 * k);
                    i += 1;
                }
            }
            for k in 0..3 {
                if cmd & (0x10 << k) != 0 {
                    len |= (*delta.get(i)? as usize) << (8 * k);
                    i += 1;
                }
            }
            if len == 0 {
                len = 0x10000;
            }
            out.extend_from_slice(base.get(ofs..ofs + len)?);
        } else if cmd != 0 {
            out.extend_from_slice(delta.get(i..i + cmd as usize)?);
            i += cmd as usize;
        } else {
            return None;
        }
    }
    (out.len() as u64 == ts).then_some(out)
}

/// What an entry of a hand-made pack is
#[derive(Clone)]
pub enum Spec {
    Base { kind: u8, data: Vec<u8> },
    /// delta against the entry with the given index in the same pack, written as OFS_DELTA
    Ofs { base: usize, target: Vec<u8> },
    /// delta against an object named by id (in or out of the pack), written as REF_DELTA
    Ref { base_kind: u8, base_data: Vec<u8>, target: Vec<u8> },
}

/// Build a version 2 pack from `specs`; returns the bytes.
pub fn build_pack(specs: &[Spec]) -> Vec<u8> {
    let mut out = Vec::new();
    out.extend_from_slice(b"PACK");
    out.extend_from_slice(&2u32.to_be_bytes());
    out.extend_from_slice(&(specs.len() as u32).to_be_bytes());
    let mut offsets = Vec::new();
    let mut resolved: Vec<Vec<u8>> = Vec::new();
    for s in specs {
        let off = out.len() as u64;
        offsets.push(off);
        match s {
            Spec::Base { kind, data } => {
                enc_type_size(*kind, data.len() as u64, &mut out);
                out.extend_from_slice(&deflate(data));
                resolved.push(data.clone());
            }
            Spec::Ofs { base, target } => {
                let d = make_delta(&resolved[*base], target);
                enc_type_size(6, d.len() as u64, &mut out);
                enc_ofs(off - offsets[*base], &mut out);
                out.extend_from_slice(&deflate(&d));
                resolved.push(target.clone());
            }
            Spec::Ref { base_kind, base_data, target } => {
                let d = make_delta(base_data, target);
                enc_type_size(7, d.len() as u64, &mut out);
                out.extend_from_slice(&object_id(*base_kind, base_data));
                out.extend_from_slice(&deflate(&d));
                resolved.push(target.clone());
            }
        }
    }
    let t = sha1(&[&out]);
    out.extend_from_slice(&t);
    out
}

/// One entry as seen by the independent walker
#[derive(Clone, Debug)]
pub struct Walked {
    pub offset: u64,
    pub type_id: u8,
    pub size: u64,
    pub header_len: usize,
    pub ofs_distance: u64,
    pub ref_id: [u8; 20],
    pub inflated: Vec<u8>,
    pub compressed_len: usize,
}

/// Walk a pack with zlib only: the entries that can be read (a prefix when the stream is damaged) and, when all
/// announced entries were read, the position after the last one.  The trailer is not looked at.
pub fn walk_pack_prefix(p: &[u8]) -> (Vec<Walked>, Option<usize>) {
    let mut out = Vec::new();
    if p.len() < 12 || &p[..4] != b"PACK" {
        return (out, None);
    }
    let n = u32::from_be_bytes(p[8..12].try_into().unwrap()) as usize;
    let mut pos = 12usize;
    for _ in 0..n {
        match walk_one(p, pos) {
            Some(w) => {
                pos = w.offset as usize + w.header_len + w.compressed_len;
                out.push(w);
            }
            None => return (out, None),
        }
    }
    (out, Some(pos))
}
pub fn walk_pack(p: &[u8]) -> Option<(Vec<Walked>, usize)> {
    let (w, end) = walk_pack_prefix(p);
    end.map(|e| (w, e))
}
fn walk_one(p: &[u8], start: usize) -> Option<Walked> {
    let mut pos = start;
    let mut c = *p.get(pos)?;
    pos += 1;
    let type_id = (c >> 4) & 7;
    let mut size = (c & 15) as u64;
    let mut sh = 4;
    while c & 0x80 != 0 {
        c = *p.get(pos)?;
        pos += 1;
        size |= ((c & 0x7f) as u64).checked_shl(sh)?;
        sh += 7;
    }
    let mut ofs_distance = 0u64;
    let mut ref_id = [0u8; 20];
    match type_id {
        6 => {
            let mut c = *p.get(pos)?;
            pos += 1;
            let mut v = (c & 0x7f) as u64;
            while c & 0x80 != 0 {
                c = *p.get(pos)?;
                pos += 1;
                v = (v.checked_add(1)?.checked_mul(128)?) | (c & 0x7f) as u64;
            }
            ofs_distance = v;
        }
        7 => {
            ref_id.copy_from_slice(p.get(pos..pos + 20)?);
            pos += 20;
        }
        1..=4 => {}
        _ => return None,
    }
    let header_len = pos - start;
    if size > (1 << 28) {
        return None; // not produced by the generator except through damage; the implementation would allocate it
    }
    let (inflated, used) = inflate_prefix(&p[pos..], size as usize)?;
    Some(Walked { offset: start as u64, type_id, size, header_len, ofs_distance, ref_id, inflated, compressed_len: used })
}

// ---- scratch directories and git
pub struct TmpDir(pub PathBuf);
impl TmpDir {
    pub fn new(label: &str) -> TmpDir {
        use std::sync::atomic::{AtomicU64, Ordering};
        static N: AtomicU64 = AtomicU64::new(0);
        let root = if Path::new("/dev/shm").is_dir() { PathBuf::from("/dev/shm") } else { std::env::temp_dir() };
        let p = root.join(format!(
            "gixv-c10-{}-{}-{}",
            std::process::id(),
            label,
            N.fetch_add(1, Ordering::SeqCst)
        ));
        let _ = std::fs::remove_dir_all(&p);
        std::fs::create_dir_all(&p).expect("mkdir");
        TmpDir(p)
    }
    pub fn bare_repo(&self) -> PathBuf {
        let gd = self.0.join("r.git");
        std::fs::create_dir_all(gd.join("objects/pack")).expect("mkdir");
        std::fs::create_dir_all(gd.join("refs/heads")).expect("mkdir");
        std::fs::write(gd.join("HEAD"), "ref: refs/heads/main\n").expect("HEAD");
        std::fs::write(
            gd.join("config"),
            "[core]\n\trepositoryformatversion = 0\n\tbare = true\n[pack]\n\tthreads = 1\n[gc]\n\tauto = 0\n",
        )
        .expect("config");
        gd
    }
}
impl Drop for TmpDir {
    fn drop(&mut self) {
        let _ = std::fs::remove_dir_all(&self.0);
    }
}

pub fn git(gd: &Path, args: &[&str], stdin: &[u8]) -> Result<Vec<u8>, String> {
    use std::process::{Command, Stdio};
    let mut ch = Command::new("git")
        .args(args)
        .current_dir(gd)
        .env("GIT_CONFIG_NOSYSTEM", "1")
        .env("GIT_CONFIG_GLOBAL", "/dev/null")
        .env("HOME", gd)
        .env("GIT_DIR", gd)
        .env_remove("GIT_WORK_TREE")
        .stdin(Stdio::piped())
        .stdout(Stdio::piped())
        .stderr(Stdio::null())
        .spawn()
        .map_err(|e| format!("spawn {e}"))?;
    let mut si = ch.stdin.take().unwrap();
    let data = stdin.to_vec();
    let w = std::thread::spawn(move || {
        let _ = si.write_all(&data);
    });
    let o = ch.wait_with_output().map_err(|e| format!("wait {e}"))?;
    let _ = w.join();
    if !o.status.success() {
        return Err(format!("git {:?} failed", args));
    }
    Ok(o.stdout)
}

/// store a loose object (zlib of "kind len\0data") without spawning git
pub fn write_loose(gd: &Path, kind: u8, data: &[u8]) -> [u8; 20] {
    let id = object_id(kind, data);
    let hex = gixv_common::hexs(&id);
    let dir = gd.join("objects").join(&hex[..2]);
    std::fs::create_dir_all(&dir).expect("mkdir");
    let mut raw = format!("{} {}\0", kind_name(kind), data.len()).into_bytes();
    raw.extend_from_slice(data);
    std::fs::write(dir.join(&hex[2..]), deflate(&raw)).expect("write loose");
    id
}

/// parse a version 2 pack index into (id, offset, crc) in file order, plus the pack checksum it names
pub fn parse_idx(b: &[u8]) -> Option<(Vec<([u8; 20], u64, u32)>, [u8; 20])> {
    if b.len() < 8 + 1024 + 40 || b[..4] != [0xff, b't', b'O', b'c'] || b[4..8] != [0, 0, 0, 2] {
        return None;
    }
    let n = u32::from_be_bytes(b[8 + 255 * 4..8 + 256 * 4].try_into().unwrap()) as usize;
    let ids = 8 + 1024;
    let crcs = ids + 20 * n;
    let ofs = crcs + 4 * n;
    let ofs64 = ofs + 4 * n;
    if b.len() < ofs64 + 40 {
        return None;
    }
    let mut v = Vec::new();
    for i in 0..n {
        let mut id = [0u8; 20];
        id.copy_from_slice(&b[ids + 20 * i..ids + 20 * i + 20]);
        let crc = u32::from_be_bytes(b[crcs + 4 * i..crcs + 4 * i + 4].try_into().unwrap());
        let o = u32::from_be_bytes(b[ofs + 4 * i..ofs + 4 * i + 4].try_into().unwrap());
        let off = if o & 0x8000_0000 != 0 {
            let k = (o & 0x7fff_ffff) as usize;
            u64::from_be_bytes(b.get(ofs64 + 8 * k..ofs64 + 8 * k + 8)?.try_into().unwrap())
        } else {
            o as u64
        };
        v.push((id, off, crc));
    }
    let mut ph = [0u8; 20];
    ph.copy_from_slice(&b[b.len() - 40..b.len() - 20]);
    Some((v, ph))
}
