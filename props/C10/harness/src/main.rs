//! C10 — indexing a received pack (gix_pack::Bundle::write_to_directory) vs git index-pack.
//!
//! Cases (field 0 = op):
//!   thin n (kind arg dsize comp)*n m (id kind data comp)*m
//!        drives `data::input::LookupRefDeltaObjectsIter` with hand-made entries (offsets are laid out
//!        contiguously from 12 like `BytesToEntriesIter` does) and an in-memory object lookup.
//!        kind: 1..4 base types, 6 ofs-delta (arg = distance), 7 ref-delta (arg = 20-byte id), e = an Err item.
//!        `comp` of a lookup object is the zlib oracle (what the deflate writer produces for `data`).
//!   pack mode threads packbytes m (kind data comp)*m k (inflated)*k
//!        a well-formed pack (git pack-objects or the harness' own writer); mode = full | thin;
//!        the k inflated entry bodies are the zlib oracle for the model.
//!   bad  mode threads bytes m (kind data comp)*m
//!        a damaged stream (flip / truncation of a pack).
mod gen;
mod packkit;

use gixv_common::*;
use packkit::*;
use std::sync::atomic::AtomicBool;

use gix_pack::data::{entry::Header, input};

// ------------------------------------------------------------------------------------------------
// in-memory object lookup
// ------------------------------------------------------------------------------------------------
pub struct MemOdb(pub Vec<(gix_hash::ObjectId, gix_object::Kind, Vec<u8>)>);
impl gix_object::Find for MemOdb {
    fn try_find<'a>(
        &self,
        id: &gix_hash::oid,
        buffer: &'a mut Vec<u8>,
    ) -> Result<Option<gix_object::Data<'a>>, gix_object::find::Error> {
        for (i, k, d) in &self.0 {
            if i.as_ref() == id {
                buffer.clear();
                buffer.extend_from_slice(d);
                return Ok(Some(gix_object::Data { kind: *k, data: buffer }));
            }
        }
        Ok(None)
    }
}
fn okind(k: u8) -> gix_object::Kind {
    match k {
        1 => gix_object::Kind::Commit,
        2 => gix_object::Kind::Tree,
        3 => gix_object::Kind::Blob,
        _ => gix_object::Kind::Tag,
    }
}
fn kind_digit(f: &[u8]) -> u8 {
    match f.first() {
        Some(b) if (b'1'..=b'7').contains(b) => b - b'0',
        _ => 0,
    }
}

// ------------------------------------------------------------------------------------------------
// op thin
// ------------------------------------------------------------------------------------------------
pub struct ThinEntry {
    pub kind: u8, // 1..4, 6, 7, 0 = error item
    pub dist: u64,
    pub id: [u8; 20],
    pub dsize: u64,
    pub comp: Vec<u8>,
}
pub struct ThinObj {
    pub id: [u8; 20],
    pub kind: u8,
    pub data: Vec<u8>,
    pub comp: Vec<u8>,
}
pub fn parse_thin(c: &Case) -> (Vec<ThinEntry>, Vec<ThinObj>) {
    let n = f_u64(c, 1) as usize;
    let mut es = Vec::new();
    for i in 0..n {
        let b = 2 + 4 * i;
        let kind = kind_digit(f_str(c, b));
        let mut id = [0u8; 20];
        let mut dist = 0;
        if kind == 7 {
            let a = f_str(c, b + 1);
            for (k, x) in a.iter().take(20).enumerate() {
                id[k] = *x;
            }
        } else if kind == 6 {
            dist = f_u64(c, b + 1);
        }
        es.push(ThinEntry { kind, dist, id, dsize: f_u64(c, b + 2), comp: f_str(c, b + 3).to_vec() });
    }
    let mb = 2 + 4 * n;
    let m = f_u64(c, mb) as usize;
    let mut os = Vec::new();
    for i in 0..m {
        let b = mb + 1 + 4 * i;
        let mut id = [0u8; 20];
        for (k, x) in f_str(c, b).iter().take(20).enumerate() {
            id[k] = *x;
        }
        let kind = kind_digit(f_str(c, b + 1)).clamp(1, 4);
        os.push(ThinObj { id, kind, data: f_str(c, b + 2).to_vec(), comp: f_str(c, b + 3).to_vec() });
    }
    (es, os)
}
fn header_of(e: &ThinEntry) -> Header {
    match e.kind {
        1 => Header::Commit,
        2 => Header::Tree,
        3 => Header::Blob,
        4 => Header::Tag,
        6 => Header::OfsDelta { base_distance: e.dist },
        _ => Header::RefDelta { base_id: gix_hash::ObjectId::from_bytes_or_panic(&e.id) },
    }
}
fn show_entry(e: &input::Entry) -> String {
    let (k, arg) = match e.header {
        Header::Commit => (1, "-".to_string()),
        Header::Tree => (2, "-".to_string()),
        Header::Blob => (3, "-".to_string()),
        Header::Tag => (4, "-".to_string()),
        Header::OfsDelta { base_distance } => (6, base_distance.to_string()),
        Header::RefDelta { base_id } => (7, hexs(base_id.as_slice())),
    };
    format!(
        "{}/{}/{}/{}/{}/{}/{}",
        e.pack_offset,
        k,
        arg,
        e.header_size,
        e.compressed_size,
        e.decompressed_size,
        e.crc32.map(|c| c.to_string()).unwrap_or_else(|| "none".into())
    )
}
fn thin_impl(c: &Case) -> String {
    let (es, os) = parse_thin(c);
    let mut items: Vec<Result<input::Entry, input::Error>> = Vec::new();
    let mut off = 12u64;
    for e in &es {
        if e.kind == 0 {
            items.push(Err(input::Error::IncompletePack { actual: 0, expected: 1 }));
            continue;
        }
        let header = header_of(e);
        let mut entry = input::Entry {
            header,
            header_size: header.size(e.dsize) as u16,
            pack_offset: off,
            compressed: Some(e.comp.clone()),
            compressed_size: e.comp.len() as u64,
            crc32: None,
            decompressed_size: e.dsize,
            trailer: None,
        };
        entry.crc32 = Some(entry.compute_crc32());
        off += entry.bytes_in_pack();
        items.push(Ok(entry));
    }
    let odb = MemOdb(
        os.iter()
            .map(|o| (gix_hash::ObjectId::from_bytes_or_panic(&o.id), okind(o.kind), o.data.clone()))
            .collect(),
    );
    let limit = 2 * items.len() + 4;
    let it = input::LookupRefDeltaObjectsIter::new(items.into_iter(), odb);
    let mut out = Vec::new();
    for r in it.take(limit) {
        match r {
            Ok(e) => out.push(show_entry(&e)),
            Err(_) => out.push("err".into()),
        }
    }
    format!("thin {}", out.join(","))
}

/// naive reference for the thin op: (lines of the expected transcript) or None when the input is not a
/// well-formed entry sequence (an ofs-delta that does not name the start of an earlier entry)
fn thin_reference(es: &[ThinEntry], os: &[ThinObj]) -> Option<Vec<String>> {
    use std::collections::HashMap;
    let hsize = |kind: u8, size: u64, dist: u64| -> u64 {
        let mut v = Vec::new();
        enc_type_size(kind, size, &mut v);
        match kind {
            6 => enc_ofs(dist, &mut v),
            7 => v.extend_from_slice(&[0; 20]),
            _ => {}
        }
        v.len() as u64
    };
    let crc = |kind: u8, size: u64, dist: u64, comp: &[u8]| -> u32 {
        let mut v = Vec::new();
        enc_type_size(kind, size, &mut v);
        if kind == 6 {
            enc_ofs(dist, &mut v);
        }
        let s = gix_features::hash::crc32_update(0, &v);
        gix_features::hash::crc32_update(s, comp)
    };
    let mut out = Vec::new();
    let mut old = 12u64;
    let mut new = 12u64;
    let mut image: HashMap<u64, u64> = HashMap::new();
    let mut injected: HashMap<[u8; 20], u64> = HashMap::new();
    for e in es {
        match e.kind {
            0 => {
                out.push("err".to_string());
                continue;
            }
            1..=4 => {
                let h = hsize(e.kind, e.dsize, 0);
                out.push(format!(
                    "{}/{}/-/{}/{}/{}/{}",
                    new,
                    e.kind,
                    h,
                    e.comp.len(),
                    e.dsize,
                    crc(e.kind, e.dsize, 0, &e.comp)
                ));
                image.insert(old, new);
                old += h + e.comp.len() as u64;
                new += h + e.comp.len() as u64;
            }
            6 => {
                if e.dist == 0 || e.dist > old {
                    return None;
                }
                let base_new = *image.get(&(old - e.dist))?;
                let d = new - base_new;
                let h_old = hsize(6, e.dsize, e.dist);
                let h = hsize(6, e.dsize, d);
                out.push(format!(
                    "{}/6/{}/{}/{}/{}/{}",
                    new,
                    d,
                    h,
                    e.comp.len(),
                    e.dsize,
                    crc(6, e.dsize, d, &e.comp)
                ));
                image.insert(old, new);
                old += h_old + e.comp.len() as u64;
                new += h + e.comp.len() as u64;
            }
            _ => {
                let base_new = match injected.get(&e.id) {
                    Some(o) => *o,
                    None => match os.iter().find(|o| o.id == e.id) {
                        Some(o) => {
                            let h = hsize(o.kind, o.data.len() as u64, 0);
                            out.push(format!(
                                "{}/{}/-/{}/{}/{}/{}",
                                new,
                                o.kind,
                                h,
                                o.comp.len(),
                                o.data.len(),
                                crc(o.kind, o.data.len() as u64, 0, &o.comp)
                            ));
                            injected.insert(e.id, new);
                            let at = new;
                            new += h + o.comp.len() as u64;
                            at
                        }
                        None => {
                            out.push("err".to_string());
                            return Some(out);
                        }
                    },
                };
                let d = new - base_new;
                let h_old = hsize(7, e.dsize, 0);
                let h = hsize(6, e.dsize, d);
                out.push(format!(
                    "{}/6/{}/{}/{}/{}/{}",
                    new,
                    d,
                    h,
                    e.comp.len(),
                    e.dsize,
                    crc(6, e.dsize, d, &e.comp)
                ));
                image.insert(old, new);
                old += h_old + e.comp.len() as u64;
                new += h + e.comp.len() as u64;
            }
        }
    }
    Some(out)
}

fn thin_prop(c: &Case) -> Verdict {
    let (es, os) = parse_thin(c);
    // the lookup's compressed oracle must be what the deflate writer produces, or the case is not meaningful
    for o in &os {
        if deflate(&o.data) != o.comp {
            return Verdict::ok(false, "thin-oracle-mismatch");
        }
    }
    // the all-zero id is the iterator's sentinel for "no object"; no object has it
    if es.iter().any(|e| e.kind == 7 && e.id == [0u8; 20]) || os.iter().any(|o| o.id == [0u8; 20]) {
        return Verdict::ok(false, "thin-null-id");
    }
    let exp = match thin_reference(&es, &os) {
        Some(e) => e,
        None => return Verdict::ok(false, "thin-invalid-ofs"),
    };
    let got = match std::panic::catch_unwind(|| thin_impl(c)) {
        Ok(g) => g,
        Err(_) => return Verdict::fail("thin-panic", "LookupRefDeltaObjectsIter panicked on a well-formed entry sequence"),
    };
    let exp_line = format!("thin {}", exp.join(","));
    let has_ref = es.iter().any(|e| e.kind == 7);
    let has_ofs = es.iter().any(|e| e.kind == 6);
    if got == exp_line {
        Verdict::ok(
            has_ref,
            if has_ref && has_ofs {
                "thin-ref+ofs"
            } else if has_ref {
                "thin-ref"
            } else {
                "thin-plain"
            },
        )
    } else {
        Verdict::fail("thin-wrong-layout", format!("expected {exp_line} got {got}"))
    }
}

// ------------------------------------------------------------------------------------------------
// ops pack / bad
// ------------------------------------------------------------------------------------------------
pub struct PackCase {
    pub thin: bool,
    pub threads: usize,
    pub bytes: Vec<u8>,
    pub odb: Vec<(u8, Vec<u8>, Vec<u8>)>,
}
pub fn parse_pack(c: &Case) -> PackCase {
    let thin = f_str(c, 1) == b"thin";
    let threads = f_u64(c, 2) as usize;
    let bytes = f_str(c, 3).to_vec();
    let m = f_u64(c, 4) as usize;
    let mut odb = Vec::new();
    for i in 0..m {
        let b = 5 + 3 * i;
        odb.push((kind_digit(f_str(c, b)).clamp(1, 4), f_str(c, b + 1).to_vec(), f_str(c, b + 2).to_vec()));
    }
    PackCase { thin, threads, bytes, odb }
}

pub struct Written {
    pub num_objects: u32,
    pub pack_hash: Vec<u8>,
    pub idx: Vec<u8>,
    pub pack_file: Vec<u8>,
    pub retrievable: u32,
}
pub struct RunResult {
    pub written: Option<Written>,
    pub files: Vec<String>,
}

fn list_files(dir: &std::path::Path) -> Vec<String> {
    let mut v: Vec<String> = std::fs::read_dir(dir)
        .map(|rd| rd.filter_map(|e| e.ok()).map(|e| e.file_name().to_string_lossy().into_owned()).collect())
        .unwrap_or_default();
    v.sort();
    v
}

pub fn run_bundle(pc: &PackCase, threads: usize) -> RunResult {
    let tmp = TmpDir::new("w");
    let dir = tmp.0.join("pack");
    std::fs::create_dir_all(&dir).expect("mkdir");
    let interrupt = AtomicBool::new(false);
    let odb = pc.thin.then(|| {
        MemOdb(
            pc.odb
                .iter()
                .map(|(k, d, _)| (gix_hash::ObjectId::from_bytes_or_panic(&object_id(*k, d)), okind(*k), d.clone()))
                .collect(),
        )
    });
    let opts = gix_pack::bundle::write::Options {
        thread_limit: (threads > 0).then_some(threads),
        iteration_mode: input::Mode::Verify,
        index_version: gix_pack::index::Version::V2,
        object_hash: gix_hash::Kind::Sha1,
    };
    let mut rd: &[u8] = &pc.bytes;
    let res = std::panic::catch_unwind(std::panic::AssertUnwindSafe(|| {
        gix_pack::Bundle::write_to_directory(
            &mut rd,
            Some(&dir),
            &mut gix_features::progress::Discard,
            &interrupt,
            odb,
            opts,
        )
    }));
    let res = match res {
        Ok(r) => r,
        Err(p) => {
            // leave the evidence of what a panic leaves behind to the caller: re-raise after listing is impossible,
            // so remember the listing in a thread local
            LAST_PANIC_FILES.with(|f| *f.borrow_mut() = list_files(&dir));
            std::panic::resume_unwind(p);
        }
    };
    let files = list_files(&dir);
    match res {
        Err(_) => RunResult { written: None, files },
        Ok(out) => {
            let n = out.index.num_objects;
            let pack_hash = out.index.data_hash.as_slice().to_vec();
            let (idx, pack_file, retrievable) = match (&out.index_path, &out.data_path) {
                (Some(ip), Some(dp)) => {
                    let idx = std::fs::read(ip).unwrap_or_default();
                    let pf = std::fs::read(dp).unwrap_or_default();
                    let mut ok = 0u32;
                    if let Ok(b) = gix_pack::Bundle::at(ip, gix_hash::Kind::Sha1) {
                        let mut buf = Vec::new();
                        let mut inflate = gix_features::zlib::Inflate::default();
                        for i in 0..b.index.num_objects() {
                            let id = b.index.oid_at_index(i).to_owned();
                            if let Ok(Some((data, _))) = b.find(&id, &mut buf, &mut inflate, &mut gix_pack::cache::Never) {
                                if gix_object::compute_hash(gix_hash::Kind::Sha1, data.kind, data.data) == id {
                                    ok += 1;
                                }
                            }
                        }
                    }
                    (idx, pf, ok)
                }
                _ => (Vec::new(), Vec::new(), 0),
            };
            RunResult {
                written: Some(Written { num_objects: n, pack_hash, idx, pack_file, retrievable }),
                files,
            }
        }
    }
}
thread_local! {
    pub static LAST_PANIC_FILES: std::cell::RefCell<Vec<String>> = std::cell::RefCell::new(Vec::new());
}

fn pack_impl(c: &Case) -> String {
    let pc = parse_pack(c);
    let r = run_bundle(&pc, pc.threads);
    match r.written {
        None => format!("err files={}", r.files.join("+")),
        Some(w) => {
            if w.num_objects == 0 {
                format!("ok n=0 pack={} files={}", hexs(&w.pack_hash), r.files.join("+"))
            } else {
                format!(
                    "ok n={} pack={} file={} idx={} retr={} files={}",
                    w.num_objects,
                    hexs(&w.pack_hash),
                    hexs(&sha1(&[&w.pack_file])),
                    hexs(&w.idx),
                    w.retrievable,
                    r.files.join("+")
                )
            }
        }
    }
}

fn run_catching(pc: &PackCase, threads: usize) -> Result<RunResult, Vec<String>> {
    std::panic::catch_unwind(std::panic::AssertUnwindSafe(|| run_bundle(pc, threads)))
        .map_err(|_| LAST_PANIC_FILES.with(|f| f.borrow().clone()))
}

/// what git makes of the stream: Some((sorted ids, idx bytes of git's result)) or None when git refuses it
fn git_index_pack(pc: &PackCase) -> Option<(Vec<[u8; 20]>, Vec<u8>)> {
    let tmp = TmpDir::new("g");
    let gd = tmp.bare_repo();
    if pc.thin {
        for (k, d, _) in &pc.odb {
            write_loose(&gd, *k, d);
        }
        let o = git(&gd, &["index-pack", "--stdin", "--fix-thin", "--index-version=2"], &pc.bytes).ok()?;
        let s = String::from_utf8_lossy(&o);
        let name = s.split_whitespace().last()?.to_string();
        let idx = std::fs::read(gd.join(format!("objects/pack/pack-{name}.idx"))).ok()?;
        let (es, _) = parse_idx(&idx)?;
        Some((es.iter().map(|e| e.0).collect(), idx))
    } else {
        let p = tmp.0.join("in.pack");
        std::fs::write(&p, &pc.bytes).ok()?;
        let idxp = tmp.0.join("in.idx");
        git(&gd, &["index-pack", "--index-version=2", "-o", idxp.to_str()?, p.to_str()?], b"").ok()?;
        let idx = std::fs::read(&idxp).ok()?;
        let (es, _) = parse_idx(&idx)?;
        Some((es.iter().map(|e| e.0).collect(), idx))
    }
}

/// git's verdict on a pack/index pair written by gitoxide: index-pack recomputes the index, verify-pack checks the pair
fn git_check_pair(pack: &[u8], idx: &[u8]) -> Result<(), String> {
    let tmp = TmpDir::new("v");
    let gd = tmp.bare_repo();
    let p = tmp.0.join("pack-x.pack");
    std::fs::write(&p, pack).map_err(|e| e.to_string())?;
    let again = tmp.0.join("again.idx");
    git(&gd, &["index-pack", "--index-version=2", "-o", again.to_str().unwrap(), p.to_str().unwrap()], b"")
        .map_err(|_| "git index-pack refuses the pack gitoxide wrote".to_string())?;
    let a = std::fs::read(&again).map_err(|e| e.to_string())?;
    if a != idx {
        return Err("git index-pack derives a different index for the pack gitoxide wrote".into());
    }
    std::fs::write(tmp.0.join("pack-x.idx"), idx).map_err(|e| e.to_string())?;
    git(&gd, &["verify-pack", "-v", tmp.0.join("pack-x.idx").to_str().unwrap()], b"")
        .map_err(|_| "git verify-pack fails on the pair gitoxide wrote".to_string())?;
    Ok(())
}

fn pack_prop(c: &Case) -> Verdict {
    let pc = parse_pack(c);
    let bad = f_str(c, 0) == b"bad";
    let r = match run_catching(&pc, pc.threads) {
        Ok(r) => r,
        Err(files) => {
            return Verdict::fail(
                if bad { "panic-on-damaged-stream" } else { "panic-on-valid-pack" },
                format!("write_to_directory panicked; files left: {}", files.join("+")),
            )
        }
    };
    let gitres = git_index_pack(&pc);
    let has_ref = walk_pack(&pc.bytes).map(|(w, _)| w.iter().any(|e| e.type_id == 7)).unwrap_or(false);
    match (&r.written, &gitres) {
        (None, None) => {
            if !r.files.is_empty() {
                return Verdict::fail("rejected-but-files-left", r.files.join("+"));
            }
            Verdict::ok(true, if bad { "bad-both-reject" } else { "pack-both-reject" })
        }
        (None, Some(_)) => {
            if !r.files.is_empty() {
                return Verdict::fail("rejected-but-files-left", r.files.join("+"));
            }
            if has_ref && !pc.thin {
                return Verdict::fail("ref-delta-without-lookup", "git indexes the pack, gitoxide refuses ref-deltas without an object lookup");
            }
            if has_ref {
                return Verdict::fail("in-pack-ref-delta", "git indexes the pack, gitoxide cannot find the in-pack base of a ref-delta");
            }
            if pc.bytes.len() >= 8 && pc.bytes[4..8] == [0, 0, 0, 3] {
                return Verdict::fail("pack-version-3-unsupported", "git index-pack accepts pack version 3, gitoxide only version 2");
            }
            Verdict::fail("git-accepts-gix-rejects", "git index-pack accepts the stream")
        }
        (Some(w), None) => {
            if w.num_objects == 0 && r.files.is_empty() {
                return Verdict::fail("damaged-accepted-as-empty", "git rejects the stream; gitoxide reports an empty pack (nothing persisted)");
            }
            Verdict::fail("gix-accepts-git-rejects", format!("n={} files={}", w.num_objects, r.files.join("+")))
        }
        (Some(w), Some((git_ids, git_idx))) => {
            if w.num_objects == 0 {
                if !r.files.is_empty() {
                    return Verdict::fail("empty-pack-files-left", r.files.join("+"));
                }
                return if git_ids.is_empty() {
                    Verdict::ok(false, "empty-pack")
                } else {
                    Verdict::fail("objects-dropped", "gitoxide sees no objects")
                };
            }
            let name = hexs(&w.pack_hash);
            let expect_files = vec![format!("pack-{name}.idx"), format!("pack-{name}.keep"), format!("pack-{name}.pack")];
            if r.files != expect_files {
                return Verdict::fail("unexpected-files", r.files.join("+"));
            }
            let (entries, idx_pack_hash) = match parse_idx(&w.idx) {
                Some(x) => x,
                None => return Verdict::fail("idx-unparsable", ""),
            };
            if idx_pack_hash[..] != w.pack_hash[..] || w.pack_file.len() < 20 || w.pack_file[w.pack_file.len() - 20..] != w.pack_hash[..] {
                return Verdict::fail("pack-hash-mismatch", "");
            }
            let mut ids: Vec<[u8; 20]> = entries.iter().map(|e| e.0).collect();
            ids.sort();
            let mut gids = git_ids.clone();
            gids.sort();
            if ids != gids {
                // the known deviation: the very same objects, some of them twice
                let mut dedup = ids.clone();
                dedup.dedup();
                let dup = dedup == gids && ids.len() > gids.len();
                return Verdict::fail(
                    if dup { "duplicate-object-injected" } else { "object-set-differs" },
                    format!("gix {} objects, git {}", ids.len(), gids.len()),
                );
            }
            if w.retrievable != w.num_objects {
                return Verdict::fail("object-not-retrievable", format!("{} of {}", w.retrievable, w.num_objects));
            }
            if !pc.thin || !has_ref {
                if &w.idx != git_idx {
                    return Verdict::fail("idx-differs-from-git", "non-thin pack: index is not byte-identical to git index-pack's");
                }
                if w.pack_file != pc.bytes {
                    return Verdict::fail("pack-bytes-changed", "");
                }
            }
            if let Err(e) = git_check_pair(&w.pack_file, &w.idx) {
                return Verdict::fail("git-rejects-written-pair", e);
            }
            // thread-count independence
            for t in [1usize, 3, 16] {
                if t == pc.threads {
                    continue;
                }
                match run_catching(&pc, t) {
                    Ok(RunResult { written: Some(w2), .. }) => {
                        if w2.idx != w.idx || w2.pack_file != w.pack_file {
                            return Verdict::fail("thread-count-dependent", format!("threads {} vs {}", pc.threads, t));
                        }
                    }
                    _ => return Verdict::fail("thread-count-dependent", format!("fails with {t} threads")),
                }
            }
            if bad {
                return Verdict::ok(false, "bad-but-valid");
            }
            Verdict::ok(
                true,
                if pc.thin && has_ref {
                    "thin-pack"
                } else if walk_pack(&pc.bytes).map(|(w, _)| w.iter().any(|e| e.type_id == 6)).unwrap_or(false) {
                    "full-pack-deltas"
                } else {
                    "full-pack-plain"
                },
            )
        }
    }
}

fn imp(c: &Case) -> String {
    match f_str(c, 0) {
        b"thin" => thin_impl(c),
        b"pack" | b"bad" => pack_impl(c),
        _ => "?".into(),
    }
}
fn prop(c: &Case) -> Verdict {
    match f_str(c, 0) {
        b"thin" => thin_prop(c),
        b"pack" | b"bad" => pack_prop(c),
        _ => Verdict::ok(false, "unknown-op"),
    }
}

fn main() {
    main_with(Harness {
        gen: gen::gen,
        imp,
        prop,
        git: None,
        deadline: std::time::Duration::from_secs(240),
    });
}
