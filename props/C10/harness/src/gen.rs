//! Case generator: abstract thin-pack entry sequences, hand-made packs, git-made packs (fast-import +
//! pack-objects [--thin]), and damaged variants of the packs.
use crate::packkit::*;
use gixv_common::*;

fn enc_hsize(kind: u8, size: u64, dist: u64) -> u64 {
    let mut v = Vec::new();
    enc_type_size(kind, size, &mut v);
    match kind {
        6 => enc_ofs(dist, &mut v),
        7 => v.extend_from_slice(&[0; 20]),
        _ => {}
    }
    v.len() as u64
}

const DSIZES: &[u64] = &[0, 1, 15, 16, 17, 100, 2047, 2048, 2049, 262143, 262144, 40_000_000];

struct TE {
    kind: u8,
    dist: u64,
    id: Vec<u8>,
    dsize: u64,
    comp: Vec<u8>,
}
struct TO {
    id: Vec<u8>,
    kind: u8,
    data: Vec<u8>,
}
fn thin_case_of(es: &[TE], os: &[TO]) -> Case {
    let mut c = vec![tag("thin"), num(es.len())];
    for e in es {
        c.push(if e.kind == 0 { tag("e") } else { num(e.kind) });
        c.push(match e.kind {
            6 => num(e.dist),
            7 => e.id.clone(),
            _ => vec![],
        });
        c.push(num(e.dsize));
        c.push(e.comp.clone());
    }
    c.push(num(os.len()));
    for o in os {
        c.push(o.id.clone());
        c.push(num(o.kind));
        c.push(o.data.clone());
        c.push(deflate(&o.data));
    }
    c
}

/// data whose zlib stream has exactly `want` bytes (searching lengths), for zero-sum change lists
fn data_with_deflated_len(rng: &mut Rng, want: usize) -> Option<Vec<u8>> {
    for _ in 0..200 {
        let n = rng.range(0, 40) as usize;
        let d = if rng.chance(1, 2) { rng.bytes(n) } else { rng.word(b"ab", n, n) };
        if deflate(&d).len() == want {
            return Some(d);
        }
    }
    None
}

fn thin_random(rng: &mut Rng) -> Case {
    let m = rng.range(0, 3) as usize;
    let mut os = Vec::new();
    for i in 0..m {
        let n = *rng.pick(&[0usize, 1, 5, 9, 10, 11, 12, 13, 20, 40, 200]);
        let data = if rng.chance(1, 2) { rng.bytes(n) } else { rng.word(b"ab\n", n, n) };
        let kind = rng.range(1, 4) as u8;
        let id = if rng.chance(1, 20) { vec![0u8; 20] } else { object_id(kind, &data).to_vec() };
        let _ = i;
        os.push(TO { id, kind, data });
    }
    let n = rng.range(0, 9) as usize;
    let mut es: Vec<TE> = Vec::new();
    let mut offs: Vec<u64> = Vec::new();
    let mut off = 12u64;
    for _ in 0..n {
        let comp_len = *rng.pick(&[0usize, 1, 2, 8, 17, 18, 19, 30, 100, 127, 128, 129]);
        let comp = rng.bytes(comp_len);
        let dsize = *rng.pick(DSIZES);
        let roll = rng.below(100);
        let e = if roll < 35 || (offs.is_empty() && roll < 60 && os.is_empty()) {
            TE { kind: rng.range(1, 4) as u8, dist: 0, id: vec![], dsize, comp }
        } else if roll < 65 && !offs.is_empty() {
            let b = *rng.pick(&offs);
            TE { kind: 6, dist: off - b, id: vec![], dsize, comp }
        } else if roll < 93 {
            let id = if !os.is_empty() && !rng.chance(1, 12) {
                rng.pick(&os).id.clone()
            } else if rng.chance(1, 3) {
                vec![0u8; 20]
            } else {
                rng.bytes(20)
            };
            TE { kind: 7, dist: 0, id, dsize, comp }
        } else if roll < 96 {
            TE { kind: 0, dist: 0, id: vec![], dsize: 0, comp: vec![] }
        } else {
            // an ofs-delta that does not name an entry start (or lies before the pack)
            let d = *rng.pick(&[0u64, 1, 5, 12, 13, off, off + 1, off.saturating_sub(12), 1 << 40]);
            TE { kind: 6, dist: d, id: vec![], dsize, comp }
        };
        if e.kind != 0 {
            offs.push(off);
            off += enc_hsize(e.kind, e.dsize, e.dist) + e.comp.len() as u64;
        }
        es.push(e);
    }
    thin_case_of(&es, &os)
}

/// change lists whose sum returns to zero before a later ofs-delta: a ref-delta (header shrinks by 19/18) whose injected
/// base occupies exactly that many bytes, followed by ofs-deltas onto the converted entry / onto earlier entries
fn thin_zero_sum(rng: &mut Rng, variant: u64) -> Option<Case> {
    let kind = 3u8;
    let mut es = Vec::new();
    let lead = variant % 2 == 1;
    let c0len = rng.range(1, 20) as usize;
    let c0 = rng.bytes(c0len);
    if lead {
        es.push(TE { kind: 3, dist: 0, id: vec![], dsize: 7, comp: rng.bytes(9) });
    }
    // header of a ref-delta with dsize < 16: 21 bytes; as ofs-delta with distance < 128: 2 bytes => -19
    let data = data_with_deflated_len(rng, 18)?; // 1 header byte + 18 = 19
    let id = object_id(kind, &data).to_vec();
    es.push(TE { kind: 7, dist: 0, id: id.clone(), dsize: 9, comp: c0.clone() });
    let first = if lead { 12 + 1 + 9 } else { 12 };
    let second = first + 21 + c0.len() as u64;
    match variant / 2 {
        0 => es.push(TE { kind: 6, dist: second - first, id: vec![], dsize: 5, comp: rng.bytes(4) }),
        1 => {
            es.push(TE { kind: 2, dist: 0, id: vec![], dsize: 3, comp: rng.bytes(6) });
            let third = second + 1 + 6;
            es.push(TE { kind: 6, dist: third - first, id: vec![], dsize: 5, comp: rng.bytes(4) });
            es.push(TE { kind: 6, dist: (third + 2 + 4) - second, id: vec![], dsize: 5, comp: rng.bytes(4) });
        }
        _ => {
            if lead {
                es.push(TE { kind: 6, dist: second - 12, id: vec![], dsize: 5, comp: rng.bytes(4) });
            } else {
                es.push(TE { kind: 7, dist: 0, id, dsize: 300, comp: rng.bytes(3) });
            }
        }
    }
    Some(thin_case_of(&es, &[TO { id: object_id(kind, &data).to_vec(), kind, data }]))
}

// ------------------------------------------------------------------------------------------------
// packs
// ------------------------------------------------------------------------------------------------
pub fn pack_case(op: &str, thin: bool, threads: usize, bytes: &[u8], odb: &[(u8, Vec<u8>)], with_oracle: bool) -> Case {
    let mut c = vec![tag(op), tag(if thin { "thin" } else { "full" }), num(threads), bytes.to_vec(), num(odb.len())];
    for (k, d) in odb {
        c.push(num(*k));
        c.push(d.clone());
        c.push(deflate(d));
    }
    let _ = with_oracle;
    // zlib oracle: (compressed length, inflated bytes) of every entry zlib can read on this stream
    let (w, _) = walk_pack_prefix(bytes);
    c.push(num(w.len()));
    for e in w {
        c.push(num(e.compressed_len));
        c.push(e.inflated);
    }
    c
}

const LINES: &[&str] = &[
    "alpha beta gamma delta epsilon zeta eta theta\n",
    "the quick brown fox jumps over the lazy dog\n",
    "0123456789 0123456789 0123456789 0123456789\n",
    "lorem ipsum dolor sit amet consectetur\n",
    "fn main() { println!(\"hello\"); }\n",
    "a\n",
    "\n",
    "zzzzzzzzzzzzzzzzzzzzzzzzzzzzzzzzzzzzzzzzzzzzzzzzzzzzzzzzzzzzzzzz\n",
];
fn text(rng: &mut Rng, lines: usize) -> Vec<u8> {
    let mut v = Vec::new();
    for _ in 0..lines {
        if rng.chance(1, 6) {
            v.extend_from_slice(&rng.word(b"abcdefgh 0123", 5, 60));
            v.push(b'\n');
        } else {
            v.extend_from_slice(rng.pick(LINES).as_bytes());
        }
    }
    v
}
fn mutate_text(rng: &mut Rng, t: &[u8]) -> Vec<u8> {
    let mut lines: Vec<Vec<u8>> = t.split_inclusive(|b| *b == b'\n').map(|l| l.to_vec()).collect();
    for _ in 0..rng.range(1, 3) {
        let roll = rng.below(3);
        if roll == 0 || lines.is_empty() {
            let at = rng.below(lines.len() as u64 + 1) as usize;
            lines.insert(at, text(rng, 1));
        } else if roll == 1 {
            let at = rng.below(lines.len() as u64) as usize;
            lines.remove(at);
        } else {
            let at = rng.below(lines.len() as u64) as usize;
            lines[at] = text(rng, 1);
        }
    }
    let out = lines.concat();
    if out.is_empty() {
        b"x\n".to_vec() // git refuses deltas shorter than four bytes, which a delta to nothing would be
    } else {
        out
    }
}

/// hand-made packs: random delta forests, thin bases, the zero-sum layouts, in-pack ref-deltas
fn handmade(rng: &mut Rng, scenario: u64) -> Vec<Case> {
    let threads = if scenario == 4 { *rng.pick(&[2usize, 3, 4, 8, 16]) } else { *rng.pick(&[0usize, 1, 2, 3, 4, 8, 16]) };
    let mut specs: Vec<Spec> = Vec::new();
    let mut odb: Vec<(u8, Vec<u8>)> = Vec::new();
    let mut thin = false;
    match scenario {
        0 => {} // empty pack
        1 => {
            // zero-sum change list, end to end: tiny thin base, a ref-delta onto it, then an ofs-delta onto the ref-delta
            thin = true;
            let base = match data_with_deflated_len(rng, 18) {
                Some(d) => d,
                None => return vec![],
            };
            let mut t1 = base.clone();
            t1.extend_from_slice(b"x");
            let mut t2 = t1.clone();
            t2.extend_from_slice(b"yz");
            if rng.chance(1, 2) {
                specs.push(Spec::Base { kind: 3, data: text(rng, 2) });
            }
            let at = specs.len();
            specs.push(Spec::Ref { base_kind: 3, base_data: base.clone(), target: t1 });
            if rng.chance(1, 2) {
                specs.push(Spec::Base { kind: 3, data: text(rng, 1) });
            }
            specs.push(Spec::Ofs { base: at, target: t2 });
            odb.push((3, base));
        }
        2 => {
            // ref-delta whose base is in the pack (valid for git)
            thin = rng.chance(1, 2);
            let b = text(rng, 3);
            specs.push(Spec::Base { kind: 3, data: b.clone() });
            specs.push(Spec::Ref { base_kind: 3, base_data: b.clone(), target: mutate_text(rng, &b) });
            if thin && rng.chance(1, 2) {
                odb.push((3, b));
            }
        }
        4 => {
            // a wide and deep delta tree under one root: the traversal switches to its multi-threaded mode once more than
            // one node with children is pending
            let root = text(rng, 6);
            specs.push(Spec::Base { kind: 3, data: root.clone() });
            let mut level: Vec<(usize, Vec<u8>)> = vec![(0, root)];
            let mut ctr = 0;
            for _depth in 0..3 {
                let mut next = Vec::new();
                for (bi, bd) in &level {
                    for _ in 0..rng.range(2, 3) {
                        ctr += 1;
                        let mut t = mutate_text(rng, bd);
                        t.extend_from_slice(format!("w{ctr}\n").as_bytes());
                        specs.push(Spec::Ofs { base: *bi, target: t.clone() });
                        next.push((specs.len() - 1, t));
                    }
                }
                level = next;
                if specs.len() > 24 {
                    break;
                }
            }
        }
        _ => {
            let n = rng.range(1, 8) as usize;
            thin = rng.chance(1, 2);
            let mut resolved: Vec<(u8, Vec<u8>)> = Vec::new();
            let mut thin_bases: Vec<(u8, Vec<u8>)> = Vec::new();
            // all objects distinct by content (git verify-pack refuses a pack that holds an object twice)
            let mut seen: std::collections::HashSet<Vec<u8>> = Default::default();
            let mut ctr = 0u32;
            let mut uniq = |mut d: Vec<u8>, kind: u8| -> Vec<u8> {
                while !seen.insert(d.clone()) {
                    ctr += 1;
                    let _ = kind;
                    d.extend_from_slice(format!("u{ctr}\n").as_bytes());
                }
                d
            };
            for _ in 0..n {
                let roll = rng.below(10);
                if roll < 4 || (resolved.is_empty() && !thin) {
                    let kind = *rng.pick(&[3u8, 3, 3, 2, 1, 4]);
                    let data = match kind {
                        3 => {
                            let l = rng.range(0, 6) as usize;
                            text(rng, l)
                        }
                        2 => {
                            let mut d = b"100644 a\0".to_vec();
                            d.extend_from_slice(&rng.bytes(20));
                            d
                        }
                        1 => format!(
                            "tree 4b825dc642cb6eb9a060e54bf8d69288fbee4904\nauthor A <a@b> {} +0000\ncommitter A <a@b> 1 +0000\n\nm\n",
                            rng.below(100)
                        )
                        .into_bytes(),
                        _ => format!(
                            "object 4b825dc642cb6eb9a060e54bf8d69288fbee4904\ntype tree\ntag t{}\ntagger A <a@b> 1 +0000\n\nm\n",
                            rng.below(100)
                        )
                        .into_bytes(),
                    };
                    let data = uniq(data, kind);
                    resolved.push((kind, data.clone()));
                    specs.push(Spec::Base { kind, data });
                } else if roll < 8 && !resolved.is_empty() {
                    let b = rng.below(resolved.len() as u64) as usize;
                    let (k, d) = resolved[b].clone();
                    let t = if k == 3 { mutate_text(rng, &d) } else { let mut t = d.clone(); t.extend_from_slice(b"more\n"); t };
                    let t = uniq(t, if k == 2 { 3 } else { k });
                    resolved.push((k, t.clone()));
                    specs.push(Spec::Ofs { base: b, target: t });
                } else if thin {
                    let (k, d) = if !thin_bases.is_empty() && rng.chance(1, 2) {
                        rng.pick(&thin_bases).clone()
                    } else {
                        let l = rng.range(0, 4) as usize;
                        let d = (3u8, uniq(text(rng, l), 3));
                        thin_bases.push(d.clone());
                        d
                    };
                    let t = uniq(mutate_text(rng, &d), 3);
                    resolved.push((k, t.clone()));
                    specs.push(Spec::Ref { base_kind: k, base_data: d, target: t });
                } else {
                    let data = uniq(text(rng, 1), 3);
                    resolved.push((3, data.clone()));
                    specs.push(Spec::Base { kind: 3, data });
                }
            }
            odb = thin_bases;
            if thin && !odb.is_empty() && rng.chance(1, 10) {
                odb.pop(); // a missing base: both sides must refuse
            }
            if thin && rng.chance(1, 3) {
                let mut d = text(rng, 1);
                d.extend_from_slice(b"unrelated\n");
                odb.push((3, d)); // an unrelated object
            }
        }
    }
    let bytes = build_pack(&specs);
    let mut out = vec![pack_case("pack", thin, threads, &bytes, &odb, true)];
    out.extend(damaged(rng, thin, threads, &bytes, &odb, 2));
    out
}

/// damaged variants of a pack
fn damaged(rng: &mut Rng, thin: bool, threads: usize, bytes: &[u8], odb: &[(u8, Vec<u8>)], k: usize) -> Vec<Case> {
    let mut out = Vec::new();
    for _ in 0..k {
        let mut b = bytes.to_vec();
        let roll = rng.below(10);
        if roll < 4 {
            let len = match rng.below(6) {
                0 => rng.below(13) as usize,
                1 => b.len() - 1,
                2 => b.len().saturating_sub(20),
                3 => b.len().saturating_sub(21),
                _ => rng.below(b.len() as u64) as usize,
            };
            b.truncate(len.min(b.len().saturating_sub(1)));
        } else {
            let pos = match rng.below(6) {
                0 => rng.below(12.min(b.len() as u64)) as usize,
                1 => b.len() - 1 - rng.below(20.min(b.len() as u64)) as usize,
                2 if b.len() > 13 => 12 + rng.below(3.min(b.len() as u64 - 12)) as usize,
                _ => rng.below(b.len() as u64) as usize,
            };
            let mask = if rng.chance(1, 2) { 1u8 << rng.below(8) } else { (rng.below(255) + 1) as u8 };
            b[pos] ^= mask;
            if roll == 9 && b.len() > 12 {
                // the object count becomes zero
                b[..bytes.len().min(12)].copy_from_slice(&bytes[..bytes.len().min(12)]);
                b[8..12].copy_from_slice(&[0, 0, 0, 0]);
            }
        }
        if b != bytes {
            out.push(pack_case("bad", thin, threads, &b, odb, false));
        }
    }
    out
}

/// a random history made by git fast-import, packed by git pack-objects
fn git_made(rng: &mut Rng) -> Vec<Case> {
    let tmp = TmpDir::new("gen");
    let gd = tmp.bare_repo();
    let names = ["a", "b", "d/c", "d/e", "f"];
    let nfiles = rng.range(1, 4) as usize;
    let ncommits = rng.range(1, 6) as usize;
    let mut files: Vec<Vec<u8>> = (0..nfiles)
        .map(|_| {
            let l = rng.range(1, 12) as usize;
            text(rng, l)
        })
        .collect();
    let mut s = Vec::new();
    let thin = rng.chance(1, 2) && ncommits > 1;
    let base_commit = if thin { rng.range(1, ncommits as i64 - 1) as usize } else { 0 };
    for ci in 1..=ncommits {
        s.extend_from_slice(
            format!(
                "commit refs/heads/main\nmark :{ci}\nauthor A U Thor <a@example.com> {t} +0000\ncommitter C <c@example.com> {t} +0000\ndata 4\nmsg\n",
                t = 1_000_000_000 + ci
            )
            .as_bytes(),
        );
        if ci > 1 {
            s.extend_from_slice(format!("from :{}\n", ci - 1).as_bytes());
        }
        for (fi, f) in files.iter_mut().enumerate() {
            if ci == 1 || rng.chance(1, 2) {
                if ci > 1 {
                    *f = mutate_text(rng, f);
                }
                s.extend_from_slice(format!("M 100644 inline {}\ndata {}\n", names[fi], f.len()).as_bytes());
                s.extend_from_slice(f);
                s.push(b'\n');
            }
        }
        s.push(b'\n');
        if ci == base_commit {
            s.extend_from_slice(format!("reset refs/heads/base\nfrom :{ci}\n\n").as_bytes());
        }
    }
    if rng.chance(1, 4) {
        s.extend_from_slice(
            format!("tag v1\nfrom :{ncommits}\ntagger T <t@example.com> 1000000100 +0000\ndata 4\ntag\n\n").as_bytes(),
        );
    }
    if git(&gd, &["fast-import", "--quiet"], &s).is_err() {
        return vec![];
    }
    let ofs = !rng.chance(1, 12);
    let mut args = vec!["pack-objects", "--stdout", "--revs", "-q"];
    if ofs {
        args.push("--delta-base-offset");
    }
    if thin {
        args.push("--thin");
    }
    let revs: &[u8] = if thin { b"--all\n^refs/heads/base\n" } else { b"--all\n" };
    let bytes = match git(&gd, &args, revs) {
        Ok(b) => b,
        Err(_) => return vec![],
    };
    // thin bases: what the ref-deltas name and the pack does not contain
    let mut odb: Vec<(u8, Vec<u8>)> = Vec::new();
    if thin {
        if let Some((w, _)) = walk_pack(&bytes) {
            let mut want: Vec<[u8; 20]> = w.iter().filter(|e| e.type_id == 7).map(|e| e.ref_id).collect();
            want.sort();
            want.dedup();
            for id in want {
                let h = hexs(&id);
                let t = git(&gd, &["cat-file", "-t", &h], b"").unwrap_or_default();
                let d = git(&gd, &["cat-file", String::from_utf8_lossy(&t).trim(), &h], b"").unwrap_or_default();
                let k = match String::from_utf8_lossy(&t).trim() {
                    "commit" => 1,
                    "tree" => 2,
                    "blob" => 3,
                    _ => 4,
                };
                if object_id(k, &d) == id {
                    odb.push((k, d));
                }
            }
        }
        if !odb.is_empty() && rng.chance(1, 12) {
            odb.pop();
        }
    }
    let threads = *rng.pick(&[0usize, 1, 2, 3, 5, 8, 16]);
    let mut out = vec![pack_case("pack", thin, threads, &bytes, &odb, true)];
    out.extend(damaged(rng, thin, threads, &bytes, &odb, 3));
    out
}

pub fn gen(rng: &mut Rng, n: usize) -> Vec<Case> {
    let mut out: Vec<Case> = Vec::new();
    // boundary block
    for v in 0..6 {
        if let Some(c) = thin_zero_sum(rng, v) {
            out.push(c);
        }
    }
    for s in 0..5 {
        out.extend(handmade(rng, s));
    }
    out.push(thin_case_of(&[], &[]));
    while out.len() < n {
        let roll = rng.below(100);
        if roll < 62 {
            out.push(thin_random(rng));
        } else if roll < 64 {
            let v = rng.below(6);
            if let Some(c) = thin_zero_sum(rng, v) {
                out.push(c);
            }
        } else if roll < 84 {
            let s = if rng.chance(1, 8) { rng.below(3) } else if rng.chance(1, 6) { 4 } else { 3 };
            out.extend(handmade(rng, s));
        } else {
            out.extend(git_made(rng));
        }
    }
    out.truncate(n.max(1));
    out
}
