(* C02 — TagRefIter against TagRef::from_bytes, for every byte string *)
From Coq Require Import ZArith NArith Lia ZifyBool ZifyNat ZifyN List.
From GixV.Base Require Import Bytes BytesFacts Outcome.
From GixV.C02 Require Import Model Spec ProofsIter.
Local Open Scope N_scope.

Definition T_target := header_field (bs "object") hex_hash.
Definition T_kind := header_field (bs "type") (take_while_m 1 is_alpha).
Definition T_name := header_field (bs "tag") (take_while_m 1 not_nl).
Definition T_tagger := header_field (bs "tagger") sig_decode.
Definition T_msg := terminated tag_message peof.

Definition no_body (l : list (item ttoken)) : Prop := forall m p, ~ In (IOk (TBody m p)) l.
Lemma no_body_nil : no_body []. Proof. intros m p H. destruct H. Qed.
Lemma no_body_single_err : no_body [IErr]. Proof. intros m p [H|[]]. discriminate. Qed.
Lemma no_body_cons t l : (forall m p, t <> TBody m p) -> no_body l -> no_body (IOk t :: l).
Proof. intros Ht Hl m p [H|H]; [injection H as H; exact (Ht m p H)|exact (Hl m p H)]. Qed.

(* what the iterator reports after the name: everything, or — when the input is used up — nothing
   for an absent body, and nothing at all for an absent tagger and body *)
Definition tail_ok (tg : option sig) (m : bytes) (p : option bytes) (l : list (item ttoken)) : Prop :=
  l = map IOk [TTagger tg; TBody m p]
  \/ (m = [] /\ p = None /\ l = [IOk (TTagger tg)])
  \/ (m = [] /\ p = None /\ tg = None /\ l = []).

Lemma T_msg_rest i mp r : T_msg i = POk mp r -> r = [].
Proof.
  unfold T_msg, terminated. destruct (tag_message i) as [v r1| | | |]; cbn [pbind]; try discriminate.
  unfold peof. destruct r1; cbn [pbind]; [|discriminate]. intros H. injection H as _ <-. reflexivity.
Qed.

Lemma titer_nil fuel st : tag_iter_fuel fuel [] st = [].
Proof. destruct fuel; reflexivity. Qed.

Lemma stage_tmessage fuel i : (length i < fuel)%nat -> i <> [] ->
  match T_msg i with
  | POk (m, p) _ => tag_iter_fuel fuel i TsMessage = [IOk (TBody m p)]
  | PBack | PCut => no_body (tag_iter_fuel fuel i TsMessage)
  | _ => True
  end.
Proof.
  intros Hf Hne. destruct fuel as [|fuel]; [lia|]. destruct i as [|b i]; [congruence|].
  cbn [tag_iter_fuel tag_next_inner]. unfold pmap. fold T_msg.
  destruct (T_msg (b :: i)) as [[m p] r| | | |] eqn:E; cbn [pbind fst snd]; try exact I; try apply no_body_single_err.
  rewrite (T_msg_rest _ _ _ E), titer_nil. reflexivity.
Qed.

Definition rest_tagger : parser (option sig * (bytes * option bytes)) :=
  fun i => pbind (popt T_tagger i) (fun tg r => pbind (T_msg r) (fun mp r' => POk (tg, mp) r')).

Lemma T_tagger_shrinks i a r : T_tagger i = POk a r -> (length r < length i)%nat.
Proof. apply header_field_shrinks; [discriminate|apply sig_decode_nonincr]. Qed.

Lemma stage_tagger fuel i : (length i + 1 < fuel)%nat ->
  match rest_tagger i with
  | POk (tg, (m, p)) _ => tail_ok tg m p (tag_iter_fuel fuel i TsTagger)
  | PBack | PCut => no_body (tag_iter_fuel fuel i TsTagger)
  | _ => True
  end.
Proof.
  intros Hf. destruct fuel as [|fuel]; [lia|].
  destruct i as [|b i].
  { assert (rest_tagger [] = POk (None, ([], None)) []) as -> by (vm_compute; reflexivity).
    right. right. repeat split. }
  unfold rest_tagger, popt. cbn [tag_iter_fuel tag_next_inner]. unfold pmap, popt. fold T_tagger.
  destruct (T_tagger (b :: i)) as [s r| | | |] eqn:E; cbn [pbind]; try exact I; try apply no_body_single_err.
  - apply T_tagger_shrinks in E.
    destruct r as [|c r].
    { assert (T_msg [] = POk ([], None) []) as -> by (vm_compute; reflexivity). cbn [pbind].
      rewrite titer_nil. right. left. repeat split. }
    pose proof (stage_tmessage fuel (c :: r) ltac:(cbn [length] in *; lia) ltac:(discriminate)) as X.
    destruct (T_msg (c :: r)) as [[m p] r'| | | |]; cbn [pbind] in *; try exact I;
      try (apply no_body_cons; [discriminate|exact X]).
    left. rewrite X. reflexivity.
  - pose proof (stage_tmessage fuel (b :: i) ltac:(cbn [length] in *; lia) ltac:(discriminate)) as X.
    destruct (T_msg (b :: i)) as [[m p] r'| | | |]; cbn [pbind] in *; try exact I;
      try (apply no_body_cons; [discriminate|exact X]).
    left. rewrite X. reflexivity.
Qed.

Lemma T_name_shrinks i a r : T_name i = POk a r -> (length r < length i)%nat.
Proof. apply header_field_shrinks; [discriminate|apply take_while_m_nonincr]. Qed.
Lemma T_kind_shrinks i a r : T_kind i = POk a r -> (length r < length i)%nat.
Proof. apply header_field_shrinks; [discriminate|apply take_while_m_nonincr]. Qed.
Lemma T_target_shrinks i a r : T_target i = POk a r -> (length r < length i)%nat.
Proof. apply header_field_shrinks; [discriminate|apply hex_hash_nonincr]. Qed.

Lemma T_target_spec i h r : T_target i = POk h r -> exists id, oid_from_hex h = Some id.
Proof.
  unfold T_target, header_field, terminated, preceded.
  destruct (lit (bs "object") i) as [u r1| | | |]; cbn [pbind]; try discriminate.
  destruct (lit SPACE r1) as [u2 r2| | | |]; cbn [pbind]; try discriminate.
  destruct (hex_hash r2) as [v r3| | | |] eqn:E3; cbn [pbind]; try discriminate.
  destruct (lit NL r3) as [u4 r4| | | |]; cbn [pbind]; try discriminate.
  intros H. injection H as <- _. destruct (hex_hash_spec _ _ _ E3) as (_ & _ & Hid). exact Hid.
Qed.

Lemma tag_parser_stages i :
  tag_parser i =
  pbind (T_target i) (fun t r1 => pbind (verify_map T_kind kind_from_bytes r1) (fun k r2 =>
  pbind (T_name r2) (fun n r3 => pbind (rest_tagger r3) (fun v r' =>
    POk (mkTag t k n (fst v) (fst (snd v)) (snd (snd v))) r')))).
Proof.
  unfold tag_parser, rest_tagger. fold T_target T_kind T_name T_tagger T_msg.
  destruct (T_target i) as [t r1| | | |]; cbn [pbind]; try reflexivity.
  destruct (verify_map T_kind kind_from_bytes r1) as [k r2| | | |]; cbn [pbind]; try reflexivity.
  destruct (T_name r2) as [n r3| | | |]; cbn [pbind]; try reflexivity.
  destruct (popt T_tagger r3) as [tg r4| | | |]; cbn [pbind]; try reflexivity.
  destruct (T_msg r4) as [mp r5| | | |]; cbn [pbind fst snd]; reflexivity.
Qed.

Lemma tag_stage_all i :
  match tag_parser i with
  | POk g _ => exists id l, oid_from_hex (g_target g) = Some id
                 /\ tag_iter i = IOk (TTarget id) :: IOk (TKind (g_kind g)) :: IOk (TName (g_name g)) :: l
                 /\ tail_ok (g_tagger g) (g_message g) (g_pgp g) l
  | PBack | PCut => no_body (tag_iter i)
  | _ => True
  end.
Proof.
  destruct i as [|b i].
  { assert (tag_parser [] = PBack) as -> by (vm_compute; reflexivity). cbn. apply no_body_nil. }
  rewrite tag_parser_stages. unfold tag_iter.
  replace (length (b :: i) + 8)%nat with (S (length (b :: i) + 7))%nat by lia.
  cbn [tag_iter_fuel tag_next_inner]. fold T_target.
  destruct (T_target (b :: i)) as [t r1| | | |] eqn:E1; cbn [pbind]; try exact I; try apply no_body_single_err.
  destruct (T_target_spec _ _ _ E1) as [id Hid]. unfold with_id. rewrite Hid. apply T_target_shrinks in E1.
  (* kind *)
  destruct r1 as [|c1 r1].
  { assert (verify_map T_kind kind_from_bytes [] = PBack) as -> by (vm_compute; reflexivity). cbn [pbind].
    rewrite titer_nil. apply no_body_cons; [discriminate|apply no_body_nil]. }
  replace (length (b :: i) + 7)%nat with (S (length (b :: i) + 6))%nat by lia.
  cbn [tag_iter_fuel tag_next_inner]. fold T_kind. unfold verify_map.
  destruct (T_kind (c1 :: r1)) as [kb r2| | | |] eqn:E2; cbn [pbind]; try exact I;
    try (apply no_body_cons; [discriminate|apply no_body_single_err]).
  destruct (kind_from_bytes kb) as [k|]; cbn [pbind];
    [|apply no_body_cons; [discriminate|apply no_body_single_err]].
  apply T_kind_shrinks in E2.
  (* name *)
  destruct r2 as [|c2 r2].
  { assert (T_name [] = PBack) as -> by (vm_compute; reflexivity). cbn [pbind].
    rewrite titer_nil. repeat (apply no_body_cons; [discriminate|]). apply no_body_nil. }
  replace (length (b :: i) + 6)%nat with (S (length (b :: i) + 5))%nat by lia.
  cbn [tag_iter_fuel tag_next_inner]. unfold pmap. fold T_name.
  destruct (T_name (c2 :: r2)) as [n r3| | | |] eqn:E3; cbn [pbind]; try exact I;
    try (repeat (apply no_body_cons; [discriminate|]); apply no_body_single_err).
  apply T_name_shrinks in E3.
  pose proof (stage_tagger (length (b :: i) + 5) r3 ltac:(cbn [length] in *; lia)) as X.
  destruct (rest_tagger r3) as [[tg [m p]] r'| | | |]; cbn [pbind fst snd] in *; try exact I;
    try (repeat (apply no_body_cons; [discriminate|]); exact X).
  exists id, (tag_iter_fuel (length (b :: i) + 5) r3 TsTagger). cbn [g_target g_kind g_name g_tagger g_message g_pgp].
  repeat split; assumption.
Qed.

Lemma L_tag_iter_agrees data g : tag_decode data = Ok g ->
  exists id l, oid_from_hex (g_target g) = Some id
    /\ tag_iter data = IOk (TTarget id) :: IOk (TKind (g_kind g)) :: IOk (TName (g_name g)) :: l
    /\ tail_ok (g_tagger g) (g_message g) (g_pgp g) l.
Proof.
  unfold tag_decode, finish. pose proof (tag_stage_all data) as S.
  destruct (tag_parser data) as [g' r| | | |]; try discriminate.
  intros H. apply Ok_inj in H. subst g'. exact S.
Qed.

Lemma L_tag_iter_on_failure data e : tag_decode data = Err e -> no_body (tag_iter data).
Proof.
  unfold tag_decode, finish. pose proof (tag_stage_all data) as S.
  destruct (tag_parser data) as [g' r| | | |]; try discriminate; intros _; exact S.
Qed.
