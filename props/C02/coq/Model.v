(* C02 — executable model of gitoxide's object DECODERS (full and streaming) and of the writers used
   to re-encode a decoded object.  NO proofs here.

   Sources (pinned tree in /repo):
     winnow 0.6.18 combinators, only those used (sequencing, opt, alt, repeat(0..)/(1..),
       terminated/preceded/delimited, take_till, take_until, take_while, take, rest, eof, literal,
       verify_map, take()/recognize) with their Backtrack/Cut distinction and the debug-build
       "parsers must always consume" assertion of `repeat`
     gix-utils/src/btoi.rs                 to_signed::<i64>, to_signed::<i32>
     gix-actor/src/signature/decode.rs     identity, decode
     gix-object/src/parse.rs               header_field, any_header_field, any_header_field_multi_line, hex_hash
     gix-object/src/commit/decode.rs       message, commit           (CommitRef::from_bytes)
     gix-object/src/commit/ref_iter.rs     CommitRefIter::{next_inner_, next}
     gix-object/src/tag/decode.rs          git_tag, message          (TagRef::from_bytes)
     gix-object/src/tag/ref_iter.rs        TagRefIter::{next_inner_, next}
     gix-object/src/tree/ref_iter.rs       mode_from_decimal, TryFrom<u32>, fast_entry, decode::tree, TreeRefIter::next
     gix-date/src/time/write.rs, gix-actor/src/signature/mod.rs, gix-object/src/encode.rs,
     gix-object/src/{commit,tag,tree}/write.rs, gix-validate/src/tag.rs   (write side, as in C01; own copy)

   Errors are collapsed: the decoders' error value (`decode::Error`, a unit-like struct without the
   verbose feature) carries nothing observable.  Inside the grammar Backtrack and Cut are kept apart
   because `opt`, `alt` and `repeat` treat them differently. *)
From GixV.Base Require Import Bytes Outcome.
Local Open Scope N_scope.

(* ---- winnow ------------------------------------------------------------------------------------ *)

Inductive pres (A : Type) : Type :=
| POk (a : A) (rest : bytes)
| PBack                          (* ErrMode::Backtrack *)
| PCut                           (* ErrMode::Cut *)
| PPanic                         (* expect()/index/assert in a debug build *)
| PHang.                         (* model fuel exhausted *)
Arguments POk {A} a rest.
Arguments PBack {A}.
Arguments PCut {A}.
Arguments PPanic {A}.
Arguments PHang {A}.

Definition parser (A : Type) := bytes -> pres A.

Definition pbind {A B} (r : pres A) (f : A -> bytes -> pres B) : pres B :=
  match r with
  | POk a rest => f a rest
  | PBack => PBack | PCut => PCut | PPanic => PPanic | PHang => PHang
  end.
Definition pmap {A B} (f : A -> B) (r : pres A) : pres B :=
  pbind r (fun a rest => POk (f a) rest).

Fixpoint strip_prefix (t i : bytes) : option bytes :=
  match t, i with
  | [], _ => Some i
  | x :: t', y :: i' => if beqb x y then strip_prefix t' i' else None
  | _ :: _, [] => None
  end.

(* a literal (`b"tree"`, NL, SPACE) *)
Definition lit (t : bytes) : parser unit :=
  fun i => match strip_prefix t i with Some r => POk tt r | None => PBack end.

(* longest prefix whose bytes satisfy [p] *)
Fixpoint span (p : byte -> bool) (i : bytes) : bytes * bytes :=
  match i with
  | [] => ([], [])
  | b :: r => if p b then let '(a, t) := span p r in (b :: a, t) else ([], i)
  end.

(* take_till(0.., set) / take_till(1.., set) *)
Definition take_till0 (stop : byte -> bool) : parser bytes :=
  fun i => let '(a, t) := span (fun b => negb (stop b)) i in POk a t.
Definition take_till1 (stop : byte -> bool) : parser bytes :=
  fun i => let '(a, t) := span (fun b => negb (stop b)) i in
           match a with [] => PBack | _ => POk a t end.

(* at most [n] leading bytes satisfying [p] *)
Fixpoint span_upto (n : nat) (p : byte -> bool) (i : bytes) : bytes * bytes :=
  match n with
  | O => ([], i)
  | S n' =>
      match i with
      | [] => ([], [])
      | b :: r => if p b then let '(a, t) := span_upto n' p r in (b :: a, t) else ([], i)
      end
  end.

(* take_while(m..=n, p) and take_while(m.., p) *)
Definition take_while_mn (m n : nat) (p : byte -> bool) : parser bytes :=
  fun i => let '(a, t) := span_upto n p i in
           if Nat.ltb (length a) m then PBack else POk a t.
Definition take_while_m (m : nat) (p : byte -> bool) : parser bytes :=
  fun i => let '(a, t) := span p i in
           if Nat.ltb (length a) m then PBack else POk a t.

(* take_until(0.., literal): everything before the first occurrence, which must exist *)
Fixpoint find_sub (pat i : bytes) : option (bytes * bytes) :=
  match strip_prefix pat i with
  | Some _ => Some ([], i)
  | None =>
      match i with
      | [] => None
      | b :: r => match find_sub pat r with Some (a, t) => Some (b :: a, t) | None => None end
      end
  end.
Definition take_until0 (pat : bytes) : parser bytes :=
  fun i => match find_sub pat i with Some (a, t) => POk a t | None => PBack end.

Definition take1 : parser byte :=
  fun i => match i with b :: r => POk b r | [] => PBack end.
Definition prest : parser bytes := fun i => POk i [].
Definition peof : parser unit := fun i => match i with [] => POk tt [] | _ => PBack end.

Definition popt {A} (p : parser A) : parser (option A) :=
  fun i => match p i with
           | POk a r => POk (Some a) r
           | PBack => POk None i
           | PCut => PCut | PPanic => PPanic | PHang => PHang
           end.
Definition palt {A} (p q : parser A) : parser A :=
  fun i => match p i with PBack => q i | r => r end.
Definition terminated {A B} (p : parser A) (q : parser B) : parser A :=
  fun i => pbind (p i) (fun a r => pbind (q r) (fun _ r' => POk a r')).
Definition preceded {A B} (p : parser A) (q : parser B) : parser B :=
  fun i => pbind (p i) (fun _ r => q r).
Definition verify_map {A B} (p : parser A) (f : A -> option B) : parser B :=
  fun i => pbind (p i) (fun a r => match f a with Some b => POk b r | None => PBack end).
(* `.take()`: the consumed slice *)
Definition recognize {A} (p : parser A) : parser bytes :=
  fun i => pbind (p i) (fun _ r => POk (firstn (length i - length r) i) r).

(* repeat(0.., p): stop at the first Backtrack; a success that consumed nothing trips winnow's
   assertion (a panic in debug builds).  The lengths decrease, so [fuel] = S (length i) suffices. *)
Fixpoint repeat0_fuel {A} (fuel : nat) (p : parser A) (i : bytes) : pres (list A) :=
  match fuel with
  | O => PHang
  | S f =>
      match p i with
      | PBack => POk [] i
      | PCut => PCut | PPanic => PPanic | PHang => PHang
      | POk a r =>
          if Nat.leb (length i) (length r) then PPanic
          else pbind (repeat0_fuel f p r) (fun l r' => POk (a :: l) r')
      end
  end.
Definition repeat0 {A} (p : parser A) : parser (list A) :=
  fun i => repeat0_fuel (S (length i)) p i.
(* repeat(1.., p): the first failure is returned as it is *)
Definition repeat1 {A} (p : parser A) : parser (list A) :=
  fun i => pbind (p i) (fun a r =>
             if Nat.leb (length i) (length r) then PPanic
             else pbind (repeat0 p r) (fun l r' => POk (a :: l) r')).

(* ---- bytes helpers ------------------------------------------------------------------------------ *)

Definition NL : bytes := [x0a].
Definition SPACE : bytes := [x20].
Definition is_nl (b : byte) : bool := beqb b x0a.
Definition is_sp (b : byte) : bool := beqb b x20.
Definition is_sp_or_nl (b : byte) : bool := is_sp b || is_nl b.
Definition is_lt (b : byte) : bool := beqb b "<"%byte.
Definition is_gt (b : byte) : bool := beqb b ">"%byte.
Definition is_dec_digit (b : byte) : bool := (48 <=? b2N b) && (b2N b <=? 57).
Definition is_alpha (b : byte) : bool :=
  ((65 <=? b2N b) && (b2N b <=? 90)) || ((97 <=? b2N b) && (b2N b <=? 122)).
Definition is_hex_digit_lc (b : byte) : bool :=
  ((48 <=? b2N b) && (b2N b <=? 57)) || ((97 <=? b2N b) && (b2N b <=? 102)).
(* u8::is_ascii_whitespace: space, \t, \n, \x0C, \r *)
Definition is_ascii_ws (b : byte) : bool :=
  beqb b x20 || beqb b x09 || beqb b x0a || beqb b x0c || beqb b x0d.

(* bstr find_byte / rfind_byte *)
Fixpoint find_byte (p : byte -> bool) (i : bytes) : option nat :=
  match i with
  | [] => None
  | b :: r => if p b then Some O else option_map S (find_byte p r)
  end.
Fixpoint rfind_byte (p : byte -> bool) (i : bytes) : option nat :=
  match i with
  | [] => None
  | b :: r => match rfind_byte p r with
              | Some k => Some (S k)
              | None => if p b then Some O else None
              end
  end.
Fixpoint count_while (p : byte -> bool) (i : bytes) : nat :=
  match i with
  | b :: r => if p b then S (count_while p r) else O
  | [] => O
  end.
(* slice.get(a..b) *)
Definition get_range (i : bytes) (a b : nat) : option bytes :=
  if Nat.ltb b a then None else if Nat.ltb (length i) b then None
  else Some (firstn (b - a) (skipn a i)).
Definition strip_suffix_sp (n : bytes) : bytes :=
  match rev n with
  | b :: r => if is_sp b then rev r else n
  | [] => n
  end.

(* bstr lines_with_terminator *)
Fixpoint lines_wt_aux (cur : bytes) (v : bytes) : list bytes :=
  match v with
  | [] => match cur with [] => [] | _ => [rev cur] end
  | b :: r => if is_nl b then rev (b :: cur) :: lines_wt_aux [] r else lines_wt_aux (b :: cur) r
  end.
Definition lines_wt (v : bytes) : list bytes := lines_wt_aux [] v.

(* ---- gix_utils::btoi::to_signed ----------------------------------------------------------------- *)

Definition digit_val (b : byte) : Z := Z.of_N (b2N b - 48).

Fixpoint to_unsigned_acc (max : Z) (l : bytes) (acc : Z) : option Z :=
  match l with
  | [] => Some acc
  | b :: r =>
      if is_dec_digit b then
        let m := (acc * 10)%Z in
        if (max <? m)%Z then None
        else let s := (m + digit_val b)%Z in
             if (max <? s)%Z then None else to_unsigned_acc max r s
      else None
  end.
Fixpoint to_negative_acc (min : Z) (l : bytes) (acc : Z) : option Z :=
  match l with
  | [] => Some acc
  | b :: r =>
      if is_dec_digit b then
        let m := (acc * 10)%Z in
        if (m <? min)%Z then None
        else let s := (m - digit_val b)%Z in
             if (s <? min)%Z then None else to_negative_acc min r s
      else None
  end.
Definition to_unsigned (max : Z) (l : bytes) : option Z :=
  match l with [] => None | _ => to_unsigned_acc max l 0%Z end.
(* I = i64: min/max = -2^63 / 2^63-1;  I = i32: -2^31 / 2^31-1 *)
Definition to_signed (min max : Z) (l : bytes) : option Z :=
  match l with
  | [] => None
  | b :: r =>
      if beqb b "+"%byte then to_unsigned max r
      else if beqb b "-"%byte then
        match r with [] => None | _ => to_negative_acc min r 0%Z end
      else to_unsigned max l
  end.
Definition i64_min : Z := (-9223372036854775808)%Z.
Definition i64_max : Z := 9223372036854775807%Z.
Definition i32_min : Z := (-2147483648)%Z.
Definition i32_max : Z := 2147483647%Z.

(* ---- gix_actor::signature::decode ---------------------------------------------------------------- *)

Record time := mkTime { t_seconds : Z; t_offset : Z; t_minus : bool }.
Record sig := mkSig { s_name : bytes; s_email : bytes; s_time : time }.

Definition ws_or (p : byte -> bool) (b : byte) : bool := is_ascii_ws b || p b.

Definition identity : parser (bytes * bytes) :=
  fun i =>
    let eol_idx := match find_byte is_nl i with Some k => k | None => length i end in
    match rfind_byte is_gt (firstn eol_idx i) with
    | None => PCut
    | Some right_delim =>
        let i_name_and_email := firstn right_delim i in
        let skip_from_right := count_while (ws_or is_gt) (rev i_name_and_email) in
        match find_byte is_lt i_name_and_email with
        | None => PCut
        | Some left_delim =>
            let skip_from_left := count_while (ws_or is_lt) (skipn left_delim i) in
            let name := strip_suffix_sp (firstn left_delim i) in
            match get_range i (left_delim + skip_from_left) (right_delim - skip_from_right) with
            | None => PCut
            | Some email => POk (name, email) (skipn (right_delim + 1) i)
            end
        end
    end.

Definition is_minus (b : byte) : bool := beqb b "-"%byte.
Definition is_plus (b : byte) : bool := beqb b "+"%byte.

(* the five-part tuple inside opt(...) *)
Definition time_parts : parser time :=
  fun i =>
    pbind (verify_map (terminated (take_until0 SPACE) take1) (to_signed i64_min i64_max) i) (fun secs r1 =>
    pbind (palt (fun j => pmap (fun _ => true) (take_while_m 1 is_minus j))
                (fun j => pmap (fun _ => false) (take_while_m 1 is_plus j)) r1) (fun minus r2 =>
    pbind (verify_map (take_while_mn 2 2 is_dec_digit) (to_signed i32_min i32_max) r2) (fun hours r3 =>
    pbind (verify_map (take_while_mn 1 2 is_dec_digit) (to_signed i32_min i32_max) r3) (fun minutes r4 =>
    pbind (take_while_m 0 is_dec_digit r4) (fun trailing r5 =>
      let offset := match trailing with
                    | [] => ((hours * 3600 + minutes * 60) * (if minus then -1 else 1))%Z
                    | _ => 0%Z
                    end in
      POk (mkTime secs offset minus) r5))))).

Definition sig_decode : parser sig :=
  fun i =>
    pbind (identity i) (fun ne r1 =>
    pbind (popt (lit SPACE) r1) (fun _ r2 =>
    pbind (popt time_parts r2) (fun ot r3 =>
      let t := match ot with Some t => t | None => mkTime 0 0 false end in
      POk (mkSig (fst ne) (snd ne) t) r3))).

(* ---- gix_object::parse -------------------------------------------------------------------------- *)

Definition header_field {A} (name : bytes) (pv : parser A) : parser A :=
  terminated (preceded (terminated (lit name) (lit SPACE)) pv) (lit NL).

Definition any_header_field {A} (pv : parser A) : parser (bytes * A) :=
  terminated (fun i => pbind (terminated (take_till1 is_sp_or_nl) (lit SPACE) i) (fun k r =>
                       pbind (pv r) (fun v r' => POk (k, v) r')))
             (lit NL).

(* out = first line ++ every further line without its leading space *)
Fixpoint unfold_lines (ls : list bytes) : option bytes :=
  match ls with
  | [] => Some []
  | l :: r => match l with
              | [] => None                         (* &line[1..] on an empty line *)
              | _ :: t => option_map (app t) (unfold_lines r)
              end
  end.
Definition unfold_value (o : bytes) : pres bytes :=
  match lines_wt o with
  | [] => PPanic                                   (* expect("first line") *)
  | first :: rest =>
      match unfold_lines rest with
      | Some t => POk (first ++ t) []
      | None => PPanic
      end
  end.

Definition multi_line_value : parser bytes :=
  fun i =>
    pbind (recognize (fun j =>
             pbind (take_till1 is_nl j) (fun _ r1 =>
             pbind (lit NL r1) (fun _ r2 =>
             repeat1 (terminated (fun k => pbind (lit SPACE k) (fun _ r => take_until0 NL r)) (lit NL)) r2))) i)
          (fun o r => pbind (unfold_value o) (fun v _ => POk v r)).

Definition any_header_field_multi_line : parser (bytes * bytes) :=
  fun i => pbind (terminated (take_till1 is_sp_or_nl) (lit SPACE) i) (fun k r =>
           pbind (multi_line_value r) (fun v r' => POk (k, v) r')).

(* take_while(40..=40, is_hex_digit_lc) *)
Definition hex_hash : parser bytes := take_while_mn 40 40 is_hex_digit_lc.

(* ObjectId::from_hex *)
Definition oid_from_hex (buf : bytes) : option bytes :=
  if Nat.eqb (length buf) 40 then hex_decode buf else None.

(* ---- commit: full decoder ----------------------------------------------------------------------- *)

Record commitref := mkCommit {
  c_tree : bytes;                 (* hex text *)
  c_parents : list bytes;         (* hex text *)
  c_author : sig;
  c_committer : sig;
  c_encoding : option bytes;
  c_extra : list (bytes * bytes);
  c_message : bytes }.

Definition commit_message : parser bytes :=
  fun i => match i with
           | [] => PBack
           | _ => preceded (lit NL) prest i
           end.

Definition extra_header : parser (bytes * bytes) :=
  palt any_header_field_multi_line (any_header_field (take_till1 is_nl)).

Definition commit_parser : parser commitref :=
  fun i =>
    pbind (header_field (bs "tree") hex_hash i) (fun tree r1 =>
    pbind (repeat0 (header_field (bs "parent") hex_hash) r1) (fun parents r2 =>
    pbind (header_field (bs "author") sig_decode r2) (fun author r3 =>
    pbind (header_field (bs "committer") sig_decode r3) (fun committer r4 =>
    pbind (popt (header_field (bs "encoding") (take_till1 is_nl)) r4) (fun encoding r5 =>
    pbind (repeat0 extra_header r5) (fun extra r6 =>
    pbind (terminated commit_message peof r6) (fun message r7 =>
      POk (mkCommit tree parents author committer encoding extra message) r7))))))).

Inductive err := EDecode | EWrite.

Definition finish {A} (r : pres A) : outcome A err :=
  match r with
  | POk a _ => Ok a
  | PBack | PCut => Err EDecode
  | PPanic => Panic
  | PHang => OutOfFuel
  end.

(* CommitRef::from_bytes *)
Definition commit_decode (data : bytes) : outcome commitref err := finish (commit_parser data).

(* ---- commit: CommitRefIter ---------------------------------------------------------------------- *)

Inductive ctoken :=
| CTree (id : bytes)              (* 20 raw bytes *)
| CParent (id : bytes)
| CAuthor (s : sig)
| CCommitter (s : sig)
| CEncoding (e : bytes)
| CExtra (k v : bytes)
| CMessage (m : bytes).

Inductive cstate := StTree | StParents | StAuthor | StCommitter | StEncoding | StExtra | StMessage.

(* next_inner_: one definition per state, the later states first because the earlier ones fall
   through to them ("Self::next_inner_(input, state)?").  The result carries the new state. *)
Definition ni_message : parser (ctoken * cstate) :=
  fun i => pmap (fun m => (CMessage m, StMessage)) (terminated commit_message peof i).
Definition ni_extra : parser (ctoken * cstate) :=
  fun i => pbind (popt extra_header i) (fun o r =>
             match o with
             | Some (k, v) => POk (CExtra k v, StExtra) r
             | None => ni_message r
             end).
Definition ni_encoding : parser (ctoken * cstate) :=
  fun i => pbind (popt (header_field (bs "encoding") (take_till1 is_nl)) i) (fun o r =>
             match o with
             | Some e => POk (CEncoding e, StExtra) r
             | None => ni_extra r
             end).
Definition ni_committer : parser (ctoken * cstate) :=
  fun i => pmap (fun s => (CCommitter s, StEncoding)) (header_field (bs "committer") sig_decode i).
Definition ni_author : parser (ctoken * cstate) :=
  fun i => pmap (fun s => (CAuthor s, StCommitter)) (header_field (bs "author") sig_decode i).
Definition with_id {A} (hex : bytes) (f : bytes -> A) (r : bytes) : pres A :=
  match oid_from_hex hex with
  | Some id => POk (f id) r
  | None => PPanic                                 (* expect("parsing validation") *)
  end.
Definition ni_parents : parser (ctoken * cstate) :=
  fun i => pbind (popt (header_field (bs "parent") hex_hash) i) (fun o r =>
             match o with
             | Some p => with_id p (fun id => (CParent id, StParents)) r
             | None => ni_author r
             end).
Definition ni_tree : parser (ctoken * cstate) :=
  fun i => pbind (header_field (bs "tree") hex_hash i) (fun t r =>
             with_id t (fun id => (CTree id, StParents)) r).

Definition commit_next_inner (st : cstate) : parser (ctoken * cstate) :=
  match st with
  | StTree => ni_tree | StParents => ni_parents | StAuthor => ni_author
  | StCommitter => ni_committer | StEncoding => ni_encoding | StExtra => ni_extra
  | StMessage => ni_message
  end.

(* what the consumer of an iterator sees *)
Inductive item (T : Type) := IOk (t : T) | IErr | IPanic | IHang.
Arguments IOk {T} t.
Arguments IErr {T}.
Arguments IPanic {T}.
Arguments IHang {T}.

(* Iterator::next + collecting until None.  Every Ok step either consumes input or (tag only) moves
   to a later state; fuel = length + 8 is proved sufficient. *)
Fixpoint commit_iter_fuel (fuel : nat) (data : bytes) (st : cstate) : list (item ctoken) :=
  match data with
  | [] => []
  | _ =>
      match fuel with
      | O => [IHang]
      | S f =>
          match commit_next_inner st data with
          | POk (tok, st') r => IOk tok :: commit_iter_fuel f r st'
          | PBack | PCut => [IErr]                 (* self.data = &[] *)
          | PPanic => [IPanic]
          | PHang => [IHang]
          end
      end
  end.
Definition commit_iter (data : bytes) : list (item ctoken) :=
  commit_iter_fuel (length data + 8) data StTree.

(* ---- tag ------------------------------------------------------------------------------------------ *)

Inductive kind := KTree | KBlob | KCommit | KTag.
Definition kind_bytes (k : kind) : bytes :=
  match k with
  | KTree => bs "tree" | KBlob => bs "blob" | KCommit => bs "commit" | KTag => bs "tag"
  end.
Definition kind_from_bytes (s : bytes) : option kind :=
  if bytes_eqb s (bs "tree") then Some KTree
  else if bytes_eqb s (bs "blob") then Some KBlob
  else if bytes_eqb s (bs "commit") then Some KCommit
  else if bytes_eqb s (bs "tag") then Some KTag
  else None.

Record tagref := mkTag {
  g_target : bytes;               (* hex text *)
  g_kind : kind;
  g_name : bytes;
  g_tagger : option sig;
  g_message : bytes;
  g_pgp : option bytes }.

Definition PGP_BEGIN_NL : bytes := x0a :: bs "-----BEGIN PGP SIGNATURE-----".
Definition PGP_BEGIN : bytes := bs "-----BEGIN PGP SIGNATURE-----".
Definition PGP_END : bytes := bs "-----END PGP SIGNATURE-----".

Definition tag_message : parser (bytes * option bytes) :=
  fun i =>
    match i with
    | [] => POk ([], None) []
    | _ =>
        pbind (lit NL i) (fun _ r0 =>
        pbind (palt
                 (fun j =>
                    pbind (take_until0 PGP_BEGIN_NL j) (fun m r1 =>
                    pbind (lit NL r1) (fun _ r2 =>
                    pbind (recognize (fun k =>
                             pbind (lit PGP_BEGIN k) (fun _ a =>
                             pbind (take_until0 PGP_END a) (fun _ b =>
                             pbind (lit PGP_END b) (fun _ c => prest c)))) r2) (fun s r3 =>
                      POk (m, match s with [] => None | _ => Some s end) r3))))
                 (fun j => pmap (fun m => (m, None)) (prest j))
                 r0) (fun ms r4 =>
        pbind (popt (lit NL) r4) (fun _ r5 => POk ms r5)))
    end.

Definition not_nl (b : byte) : bool := negb (is_nl b).

Definition tag_parser : parser tagref :=
  fun i =>
    pbind (header_field (bs "object") hex_hash i) (fun target r1 =>
    pbind (verify_map (header_field (bs "type") (take_while_m 1 is_alpha)) kind_from_bytes r1) (fun kind r2 =>
    pbind (header_field (bs "tag") (take_while_m 1 not_nl) r2) (fun name r3 =>
    pbind (popt (header_field (bs "tagger") sig_decode) r3) (fun tagger r4 =>
    pbind (terminated tag_message peof r4) (fun mp r5 =>
      POk (mkTag target kind name tagger (fst mp) (snd mp)) r5))))).

(* TagRef::from_bytes *)
Definition tag_decode (data : bytes) : outcome tagref err := finish (tag_parser data).

Inductive ttoken :=
| TTarget (id : bytes)
| TKind (k : kind)
| TName (n : bytes)
| TTagger (s : option sig)
| TBody (m : bytes) (pgp : option bytes).

Inductive tstate := TsTarget | TsKind | TsName | TsTagger | TsMessage.

Definition tag_next_inner (st : tstate) : parser (ttoken * tstate) :=
  fun i =>
    match st with
    | TsTarget =>
        pbind (header_field (bs "object") hex_hash i) (fun t r =>
          with_id t (fun id => (TTarget id, TsKind)) r)
    | TsKind =>
        pbind (header_field (bs "type") (take_while_m 1 is_alpha) i) (fun k r =>
          match kind_from_bytes k with
          | Some kd => POk (TKind kd, TsName) r
          | None => PBack
          end)
    | TsName =>
        pmap (fun n => (TName n, TsTagger)) (header_field (bs "tag") (take_while_m 1 not_nl) i)
    | TsTagger =>
        pmap (fun s => (TTagger s, TsMessage)) (popt (header_field (bs "tagger") sig_decode) i)
    | TsMessage =>
        pmap (fun mp => (TBody (fst mp) (snd mp), TsMessage)) (terminated tag_message peof i)
    end.

Fixpoint tag_iter_fuel (fuel : nat) (data : bytes) (st : tstate) : list (item ttoken) :=
  match data with
  | [] => []
  | _ =>
      match fuel with
      | O => [IHang]
      | S f =>
          match tag_next_inner st data with
          | POk (tok, st') r => IOk tok :: tag_iter_fuel f r st'
          | PBack | PCut => [IErr]
          | PPanic => [IPanic]
          | PHang => [IHang]
          end
      end
  end.
Definition tag_iter (data : bytes) : list (item ttoken) :=
  tag_iter_fuel (length data + 8) data TsTarget.

(* ---- tree ------------------------------------------------------------------------------------------ *)

Record entry := mkEntry { e_mode : N; e_name : bytes; e_oid : bytes }.

(* mode_from_decimal: octal digits up to the first space; `(mode << 3) + digit` on a u32 silently
   drops the bits shifted out (the addition cannot overflow: the low three bits are free) *)
Fixpoint mode_from_decimal (i : bytes) (mode : N) : option (N * bytes) :=
  match i with
  | [] => None                                   (* i.len() < spacer_pos *)
  | b :: r =>
      if beqb b x20 then Some (mode, r)
      else if (b2N b <? 48) || (55 <? b2N b) then None
      else mode_from_decimal r ((mode * 8) mod 4294967296 + (b2N b - 48))
  end.

(* TryFrom<u32> for EntryMode *)
Definition mode_try_from (m : N) : option N :=
  if (m =? 16384) || (m =? 40960) || (m =? 57344) then Some (m mod 65536)
  else if N.land m 32768 =? 32768 then Some (m mod 65536)
  else None.

Definition is_nul (b : byte) : bool := beqb b x00.

Fixpoint split_nul (i : bytes) : option (bytes * bytes) :=
  match i with
  | [] => None
  | b :: r => if is_nul b then Some ([], r)
              else match split_nul r with Some (a, t) => Some (b :: a, t) | None => None end
  end.

Definition fast_entry (i : bytes) : option (bytes * entry) :=
  match mode_from_decimal i 0 with
  | None => None
  | Some (m, i1) =>
      match mode_try_from m with
      | None => None
      | Some mode =>
          match split_nul i1 with
          | None => None
          | Some (filename, i2) =>
              if Nat.ltb (length i2) 20 then None
              else Some (skipn 20 i2, mkEntry mode filename (firstn 20 i2))
          end
      end
  end.

(* decode::tree: `while !i.is_empty()`; every entry consumes at least 22 bytes, fuel = length *)
Fixpoint tree_decode_fuel (fuel : nat) (i : bytes) : outcome (list entry) err :=
  match i with
  | [] => Ok []
  | _ =>
      match fuel with
      | O => OutOfFuel
      | S f =>
          match fast_entry i with
          | None => Err EDecode
          | Some (rest, e) => (es <- tree_decode_fuel f rest ;; Ok (e :: es))%outcome
          end
      end
  end.
(* TreeRef::from_bytes *)
Definition tree_decode (i : bytes) : outcome (list entry) err := tree_decode_fuel (length i) i.

(* TreeRefIter: next() until None *)
Fixpoint tree_iter_fuel (fuel : nat) (data : bytes) : list (item entry) :=
  match data with
  | [] => []
  | _ =>
      match fuel with
      | O => [IHang]
      | S f =>
          match fast_entry data with
          | Some (rest, e) => IOk e :: tree_iter_fuel f rest
          | None => [IErr]
          end
      end
  end.
Definition tree_iter (data : bytes) : list (item entry) := tree_iter_fuel (length data) data.

(* ---- writers (re-encoding) ------------------------------------------------------------------------ *)

(* Time::write_to: offset.unsigned_abs(), hours > 99 is an error *)
Definition pad2 (n : N) : bytes := (if n <? 10 then bs "0" else []) ++ N_to_dec n.
Definition time_write (t : time) : outcome bytes err :=
  let offset := Z.abs_N (t_offset t) in
  let hours := offset / 3600 in
  let minutes := (offset - hours * 3600) / 60 in
  if 99 <? hours then Err EWrite
  else Ok (Z_to_dec (t_seconds t) ++ bs " " ++ (if t_minus t then bs "-" else bs "+")
           ++ pad2 hours ++ pad2 minutes).

Definition illegal_in_token (b : byte) : bool := is_lt b || is_gt b || is_nl b.
Definition validated_token (n : bytes) : outcome bytes err :=
  if existsb illegal_in_token n then Err EWrite else Ok n.

Definition sig_write (s : sig) : outcome bytes err :=
  (n <- validated_token (s_name s) ;;
   e <- validated_token (s_email s) ;;
   t <- time_write (s_time s) ;;
   Ok (n ++ bs " " ++ bs "<" ++ e ++ bs "> " ++ t))%outcome.

Definition trusted_header_field (name value : bytes) : bytes := name ++ SPACE ++ value ++ NL.
Definition trusted_header_id (name id : bytes) : bytes := name ++ SPACE ++ hex_encode id ++ NL.
Definition trusted_header_signature (name : bytes) (s : sig) : outcome bytes err :=
  (w <- sig_write s ;; Ok (name ++ SPACE ++ w ++ NL))%outcome.

Definition w_header_field (name value : bytes) : outcome bytes err :=
  match value with
  | [] => Err EWrite
  | _ => if existsb is_nl value then Err EWrite else Ok (trusted_header_field name value)
  end.

Definition ends_with_nl (v : bytes) : bool :=
  match rev v with b :: _ => is_nl b | [] => false end.

Definition w_header_field_multi_line (name value : bytes) : outcome bytes err :=
  match lines_wt value with
  | [] => Err EWrite
  | first :: rest =>
      Ok (name ++ SPACE ++ first ++ concat (map (fun l => SPACE ++ l) rest)
          ++ (if ends_with_nl value then [] else NL))
  end.

Fixpoint extra_headers_write (l : list (bytes * bytes)) : outcome bytes err :=
  match l with
  | [] => Ok []
  | (n, v) :: r =>
      (h <- w_header_field_multi_line n v ;; rest <- extra_headers_write r ;; Ok (h ++ rest))%outcome
  end.

Fixpoint parse_all (l : list bytes) : option (list bytes) :=
  match l with
  | [] => Some []
  | h :: r => match oid_from_hex h, parse_all r with
              | Some id, Some ids => Some (id :: ids)
              | _, _ => None
              end
  end.

(* impl WriteTo for CommitRef: tree()/parents() re-parse the hex text and `expect` *)
Definition commit_write (c : commitref) : outcome bytes err :=
  match oid_from_hex (c_tree c) with
  | None => Panic
  | Some t =>
      match parse_all (c_parents c) with
      | None => Panic
      | Some ps =>
          (a <- trusted_header_signature (bs "author") (c_author c) ;;
           cm <- trusted_header_signature (bs "committer") (c_committer c) ;;
           en <- match c_encoding c with
                 | Some e => w_header_field (bs "encoding") e
                 | None => Ok []
                 end ;;
           ex <- extra_headers_write (c_extra c) ;;
           Ok (trusted_header_id (bs "tree") t
               ++ concat (map (trusted_header_id (bs "parent")) ps)
               ++ a ++ cm ++ en ++ ex ++ NL ++ c_message c))%outcome
      end
  end.

(* gix_validate::tag::name_inner(input, Mode::Validate); every error is the same [false] *)
Definition invalid_ref_byte (b : byte) : bool :=
  let n := b2N b in
  (n <=? 31) || (n =? 127)
  || beqb b "\"%byte || beqb b "^"%byte || beqb b ":"%byte || beqb b "["%byte
  || beqb b "?"%byte || beqb b " "%byte || beqb b "~"%byte.

Definition ends_with (s suffix : bytes) : bool :=
  Nat.leb (length suffix) (length s)
  && bytes_eqb (skipn (length s - length suffix) s) suffix.

Definition slice (s : bytes) (from to : nat) : bytes := firstn (to - from) (skipn from s).

Definition dot_lock : bytes := bs ".lock".

Fixpoint name_loop (input : bytes) (last : nat) (rest : bytes)
         (byte_pos : nat) (previous : byte) (component_end : nat) : bool :=
  match rest with
  | [] => true
  | b :: r =>
      if invalid_ref_byte b then false
      else if beqb b "*"%byte then false
      else if beqb b "."%byte && beqb previous "."%byte then false
      else if beqb b "."%byte && beqb previous "/"%byte then false
      else if beqb b "{"%byte && beqb previous "@"%byte then false
      else if beqb b "/"%byte && beqb previous "/"%byte then false
      else
        let component_start := component_end in
        let component_end' := if beqb b "/"%byte then byte_pos else component_end in
        if beqb b "/"%byte && ends_with (slice input component_start component_end') dot_lock then false
        else if Nat.eqb byte_pos last && ends_with (skipn (component_end' + 1) input) dot_lock then false
        else name_loop input last r (S byte_pos) b component_end'
  end.

Definition tag_name_valid (input : bytes) : bool :=
  match input with
  | [] => false
  | first :: _ =>
      let lastb := last input x00 in
      if beqb lastb "/"%byte then false
      else if beqb first "/"%byte then false
      else if negb (name_loop input (length input - 1) input 0 x00 0) then false
      else if beqb first "."%byte then false
      else if beqb lastb "."%byte then false
      else true
  end.

(* tag::write::validated_name *)
Definition validated_name (name : bytes) : outcome bytes err :=
  if tag_name_valid name then
    match name with
    | b :: _ => if beqb b "-"%byte then Err EWrite else Ok name
    | [] => Panic
    end
  else Err EWrite.

(* impl WriteTo for TagRef: `target` is written verbatim *)
Definition tag_write (g : tagref) : outcome bytes err :=
  (n <- validated_name (g_name g) ;;
   hf <- w_header_field (bs "tag") n ;;
   tg <- match g_tagger g with
         | Some s => trusted_header_signature (bs "tagger") s
         | None => Ok []
         end ;;
   Ok (trusted_header_field (bs "object") (g_target g)
       ++ trusted_header_field (bs "type") (kind_bytes (g_kind g)) ++ hf ++ tg ++ NL
       ++ g_message g
       ++ match g_pgp g with Some m => NL ++ m | None => [] end))%outcome.

(* EntryMode::as_bytes: octal digits of a u16, "0" for 0 *)
Fixpoint oct_digits (fuel : nat) (n : N) (acc : bytes) : bytes :=
  match fuel with
  | O => acc
  | S f => if n =? 0 then acc else oct_digits f (n / 8) (N2b (48 + n mod 8) :: acc)
  end.
Definition mode_bytes (m : N) : bytes :=
  if m =? 0 then bs "0" else oct_digits 6 m [].

(* TreeRef::write_to without the debug sortedness assertion (C01/C03 treat ordering): the harness
   compares only trees whose decoded entry list passes the assertion. *)
Fixpoint tree_write (l : list entry) : outcome bytes err :=
  match l with
  | [] => Ok []
  | e :: r =>
      if existsb is_nul (e_name e) then Err EWrite
      else (rest <- tree_write r ;;
            Ok (mode_bytes (e_mode e) ++ SPACE ++ e_name e ++ [x00] ++ e_oid e ++ rest))%outcome
  end.

(* impl Ord for EntryRef, and the debug assertion of TreeRef::write_to "entries == sorted clone"
   (exact for names without '/', where the comparison is a total preorder; the harness does not
   re-encode trees with a '/' in a name) *)
Definition is_tree_mode (m : N) : bool := N.land m 61440 =? 16384.
Definition cmp_then (c1 c2 : comparison) : comparison := match c1 with Eq => c2 | _ => c1 end.
Definition opt_byte_cmp (a b : option byte) : comparison :=
  match a, b with
  | None, None => Eq
  | None, Some _ => Lt
  | Some _, None => Gt
  | Some x, Some y => N.compare (b2N x) (b2N y)
  end.
Definition byte_after (e : entry) (common : nat) : option byte :=
  match nth_error (e_name e) common with
  | Some b => Some b
  | None => if is_tree_mode (e_mode e) then Some "/"%byte else None
  end.
Definition entry_cmp (a b : entry) : comparison :=
  let common := Nat.min (length (e_name a)) (length (e_name b)) in
  cmp_then (bytes_cmp (firstn common (e_name a)) (firstn common (e_name b)))
           (opt_byte_cmp (byte_after a common) (byte_after b common)).
Fixpoint sorted_adjacent (l : list entry) : bool :=
  match l with
  | a :: (b :: _) as r => match entry_cmp a b with Gt => false | _ => sorted_adjacent r end
  | _ => true
  end.
Definition tree_write_dbg (l : list entry) : outcome bytes err :=
  if sorted_adjacent l then tree_write l else Panic.
