(* C02 — transcript printer: the same observable string the Rust harness prints for a case.

   cases (fields are hex on the wire):
     craw <bytes>                       decode a commit from raw bytes
     graw <bytes>                       decode a tag from raw bytes
     tagx <hint> <bytes>                as graw (prop() asks `git mktag` whether git creates the object)
     rraw <bytes>                       decode a tree from raw bytes
     cval tree parents a(6) c(6) enc x1 x2 x3 x4 msg      commit from field values (Spec writer)
     gval target kind name has_tagger t(6) msg pgp        tag from field values
     rval n (mode name oid)*n                                tree from field values
   a signature is six fields: name email seconds sign(+|-) hh mm; an extra header field is
   name LF line1 LF line2 …, empty = absent; enc/pgp empty = absent. *)
From GixV.Base Require Import Bytes Outcome.
From GixV.C02 Require Import Model Spec.
Local Open Scope N_scope.

Definition hx (b : bytes) : bytes := hex_encode b.

Fixpoint join_with (sep : bytes) (ls : list bytes) : bytes :=
  match ls with
  | [] => []
  | [x] => x
  | x :: r => x ++ sep ++ join_with sep r
  end.

Definition show_sig (s : sig) : bytes :=
  hx (s_name s) ++ bs "/" ++ hx (s_email s) ++ bs "/" ++ Z_to_dec (t_seconds (s_time s))
  ++ bs "/" ++ Z_to_dec (t_offset (s_time s)) ++ bs "/" ++ (if t_minus (s_time s) then bs "-" else bs "+").

Definition show_opt (o : option bytes) : bytes :=
  match o with Some b => hx b | None => bs "~" end.

Definition show_out {A} (f : A -> bytes) (o : outcome A err) : bytes :=
  match o with
  | Ok a => bs "ok " ++ f a
  | Err _ => bs "err"
  | Panic => bs "PANIC"
  | OutOfFuel => bs "HANG"
  end.

Definition show_item {T} (f : T -> bytes) (i : item T) : bytes :=
  match i with
  | IOk t => f t
  | IErr => bs "ERR"
  | IPanic => bs "PANIC"
  | IHang => bs "HANG"
  end.

Definition show_write (w : outcome bytes err) (data : bytes) : bytes :=
  match w with
  | Ok b => if bytes_eqb b data then bs "same" else bs "ok " ++ hx b
  | Err _ => bs "err"
  | Panic => bs "PANIC"
  | OutOfFuel => bs "HANG"
  end.

(* ---- commit ---- *)
Definition show_commit (c : commitref) : bytes :=
  bs "t=" ++ hx (c_tree c)
  ++ bs " p=" ++ join_with (bs ",") (map hx (c_parents c))
  ++ bs " a=" ++ show_sig (c_author c)
  ++ bs " c=" ++ show_sig (c_committer c)
  ++ bs " e=" ++ show_opt (c_encoding c)
  ++ bs " x=" ++ join_with (bs ",") (map (fun kv => hx (fst kv) ++ bs ":" ++ hx (snd kv)) (c_extra c))
  ++ bs " m=" ++ hx (c_message c).

Definition show_ctoken (t : ctoken) : bytes :=
  match t with
  | CTree id => bs "T" ++ hx id
  | CParent id => bs "P" ++ hx id
  | CAuthor s => bs "A" ++ show_sig s
  | CCommitter s => bs "C" ++ show_sig s
  | CEncoding e => bs "E" ++ hx e
  | CExtra k v => bs "X" ++ hx k ++ bs ":" ++ hx v
  | CMessage m => bs "M" ++ hx m
  end.

Definition run_commit (data : bytes) : bytes :=
  let d := commit_decode data in
  bs "F " ++ show_out show_commit d
  ++ bs " I " ++ join_with (bs " ") (map (show_item show_ctoken) (commit_iter data))
  ++ bs " W " ++ match d with
                 | Ok c => show_write (commit_write c) data
                 | _ => bs "none"
                 end.

(* ---- tag ---- *)
Definition show_tag (g : tagref) : bytes :=
  bs "o=" ++ hx (g_target g)
  ++ bs " k=" ++ kind_bytes (g_kind g)
  ++ bs " n=" ++ hx (g_name g)
  ++ bs " g=" ++ match g_tagger g with Some s => show_sig s | None => bs "~" end
  ++ bs " m=" ++ hx (g_message g)
  ++ bs " s=" ++ show_opt (g_pgp g).

Definition show_ttoken (t : ttoken) : bytes :=
  match t with
  | TTarget id => bs "O" ++ hx id
  | TKind k => bs "K" ++ kind_bytes k
  | TName n => bs "N" ++ hx n
  | TTagger s => bs "G" ++ match s with Some s => show_sig s | None => bs "~" end
  | TBody m p => bs "B" ++ hx m ++ bs ":" ++ show_opt p
  end.

Definition run_tag (data : bytes) : bytes :=
  let d := tag_decode data in
  bs "F " ++ show_out show_tag d
  ++ bs " I " ++ join_with (bs " ") (map (show_item show_ttoken) (tag_iter data))
  ++ bs " W " ++ match d with
                 | Ok g => show_write (tag_write g) data
                 | _ => bs "none"
                 end.

(* ---- tree ---- *)
Definition show_entry (e : entry) : bytes :=
  N_to_dec (e_mode e) ++ bs ":" ++ hx (e_name e) ++ bs ":" ++ hx (e_oid e).

Definition has_slash (e : entry) : bool := existsb (fun b => beqb b "/"%byte) (e_name e).

Definition run_tree (data : bytes) : bytes :=
  let d := tree_decode data in
  bs "F " ++ show_out (fun es => join_with (bs ",") (map show_entry es)) d
  ++ bs " I " ++ join_with (bs " ") (map (show_item show_entry) (tree_iter data))
  ++ bs " W " ++ match d with
                 | Ok es => if existsb has_slash es then bs "skip"
                            else show_write (tree_write_dbg es) data
                 | _ => bs "none"
                 end.

(* ---- field values ---- *)
Definition opt_field (b : bytes) : option bytes := match b with [] => None | _ => Some b end.

Definition sig_at (k : nat) (fs : list bytes) : gsig :=
  mkGSig (nth_field k fs) (nth_field (k + 1) fs)
         (mkGTime (field_Z (k + 2) fs) (bytes_eqb (nth_field (k + 3) fs) (bs "-"))
                  (field_N (k + 4) fs) (field_N (k + 5) fs)).

(* split at LF *)
Fixpoint split_nl_aux (cur : bytes) (v : bytes) : list bytes :=
  match v with
  | [] => [rev cur]
  | b :: r => if is_nl b then rev cur :: split_nl_aux [] r else split_nl_aux (b :: cur) r
  end.
Definition extra_of_field (f : bytes) : list gextra :=
  match f with
  | [] => []
  | _ => match split_nl_aux [] f with
         | name :: first :: conts => [mkGExtra name first conts]
         | [name] => [mkGExtra name [] []]
         | [] => []
         end
  end.

Fixpoint chunks20 (fuel : nat) (b : bytes) : list bytes :=
  match fuel with
  | O => []
  | S f => match b with [] => [] | _ => firstn 20 b :: chunks20 f (skipn 20 b) end
  end.

Definition commit_of_fields (fs : list bytes) : gcommit :=
  mkGCommit (nth_field 1 fs) (chunks20 (length (nth_field 2 fs)) (nth_field 2 fs))
            (sig_at 3 fs) (sig_at 9 fs) (opt_field (nth_field 15 fs))
            (extra_of_field (nth_field 16 fs) ++ extra_of_field (nth_field 17 fs)
             ++ extra_of_field (nth_field 18 fs) ++ extra_of_field (nth_field 19 fs))
            (nth_field 20 fs).

Definition kind_of_field (b : bytes) : kind :=
  match kind_from_bytes b with Some k => k | None => KCommit end.

Definition tag_of_fields (fs : list bytes) : gtag :=
  mkGTag (nth_field 1 fs) (kind_of_field (nth_field 2 fs)) (nth_field 3 fs)
         (if bytes_eqb (nth_field 4 fs) (bs "1") then Some (sig_at 5 fs) else None)
         (nth_field 11 fs) (opt_field (nth_field 12 fs)).

Fixpoint entries_of_fields (n : nat) (fs : list bytes) : list entry :=
  match n with
  | O => []
  | S n' =>
      match fs with
      | m :: nm :: oid :: r =>
          mkEntry (match dec_to_N m with Some v => v | None => 0 end) nm oid :: entries_of_fields n' r
      | _ => []
      end
  end.
Definition tree_of_fields (fs : list bytes) : list entry :=
  entries_of_fields (N.to_nat (field_N 1 fs)) (skipn 2 fs).

Definition spec_bytes (fs : list bytes) : option bytes :=
  let op := nth_field 0 fs in
  if bytes_eqb op (bs "cval") then Some (git_write_commit (commit_of_fields fs))
  else if bytes_eqb op (bs "gval") then Some (git_write_tag (tag_of_fields fs))
  else if bytes_eqb op (bs "rval") then Some (git_write_tree (tree_of_fields fs))
  else None.

Definition run_model (fs : list bytes) : bytes :=
  let op := nth_field 0 fs in
  if bytes_eqb op (bs "craw") then run_commit (nth_field 1 fs)
  else if bytes_eqb op (bs "graw") then run_tag (nth_field 1 fs)
  else if bytes_eqb op (bs "tagx") then run_tag (nth_field 2 fs)
  else if bytes_eqb op (bs "rraw") then run_tree (nth_field 1 fs)
  else if bytes_eqb op (bs "cval") then
    let d := git_write_commit (commit_of_fields fs) in bs "D " ++ hx d ++ bs " " ++ run_commit d
  else if bytes_eqb op (bs "gval") then
    let d := git_write_tag (tag_of_fields fs) in bs "D " ++ hx d ++ bs " " ++ run_tag d
  else if bytes_eqb op (bs "rval") then
    let d := git_write_tree (tree_of_fields fs) in bs "D " ++ hx d ++ bs " " ++ run_tree d
  else bs "?".

Definition run_spec (fs : list bytes) : bytes :=
  match spec_bytes fs with
  | Some d => match d with [] => bs "empty" | _ => hx d end
  | None => bs "-"
  end.

Definition run (fs : list bytes) : bytes :=
  match fs with
  | mode :: rest => if bytes_eqb mode (bs "spec") then run_spec rest else run_model rest
  | [] => bs "?"
  end.
