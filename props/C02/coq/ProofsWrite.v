(* C02 — the writers reproduce git's layout for the decoded form of git's field values (signatures) *)
From Coq Require Import ZArith NArith Lia ZifyBool ZifyNat ZifyN List.
From GixV.Base Require Import Bytes BytesFacts Outcome.
From GixV.C02 Require Import Model Spec.
Ltac Zify.zify_post_hook ::= Z.div_mod_to_equations.
Local Open Scope N_scope.

Definition small : list N := map N.of_nat (seq 0 100).

Lemma pad2_sweep : forallb (fun n => bytes_eqb (pad2 n) (two_digits n)) small = true.
Proof. vm_compute. reflexivity. Qed.

Lemma pad2_two_digits n : n <= 99 -> pad2 n = two_digits n.
Proof.
  intros H. pose proof pad2_sweep as S. rewrite forallb_forall in S.
  apply bytes_eqb_eq. apply S. unfold small.
  replace n with (N.of_nat (N.to_nat n)) by apply N2Nat.id. apply in_map. apply in_seq. lia.
Qed.

Lemma L_time_write_of t : time_wf t = true -> time_write (time_of t) = Ok (git_write_time t).
Proof.
  unfold time_wf. intros H.
  apply Bool.andb_true_iff in H. destruct H as [H Hm].
  apply Bool.andb_true_iff in H. destruct H as [_ Hh].
  apply N.leb_le in Hm, Hh.
  unfold time_write, time_of, git_write_time. cbn [t_offset t_seconds t_minus].
  set (hh := gt_hh t) in *. set (mm := gt_mm t) in *.
  assert (Z.abs_N ((Z.of_N hh * 3600 + Z.of_N mm * 60) * (if gt_minus t then -1 else 1)) = hh * 3600 + mm * 60) as ->.
  { destruct (gt_minus t); lia. }
  assert ((hh * 3600 + mm * 60) / 3600 = hh) as -> by lia.
  assert ((hh * 3600 + mm * 60 - hh * 3600) / 60 = mm) as -> by lia.
  assert (99 <? hh = false) as -> by lia.
  rewrite (pad2_two_digits hh) by lia. rewrite (pad2_two_digits mm) by lia. reflexivity.
Qed.

Lemma no_byte_false p l : no_byte p l = true -> existsb p l = false.
Proof. unfold no_byte. destruct (existsb p l); [discriminate|reflexivity]. Qed.

Lemma L_sig_write_of s : sig_wf s = true -> sig_write (sig_of s) = Ok (git_write_sig s).
Proof.
  unfold sig_wf. intros H.
  apply Bool.andb_true_iff in H. destruct H as [H Ht].
  apply Bool.andb_true_iff in H. destruct H as [H _].
  apply Bool.andb_true_iff in H. destruct H as [H _].
  apply Bool.andb_true_iff in H. destruct H as [Hn He].
  unfold sig_write, sig_of, validated_token. cbn [s_name s_email s_time].
  rewrite (no_byte_false _ _ Hn), (no_byte_false _ _ He). cbn [obind].
  rewrite (L_time_write_of _ Ht). cbn [obind]. unfold git_write_sig.
  f_equal.
Qed.
