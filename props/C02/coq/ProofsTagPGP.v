(* C02 — signed tags: message, line break, PGP block to the end of the object *)
From Coq Require Import List Arith ZArith NArith Lia ZifyBool ZifyNat ZifyN Bool.
From GixV.Base Require Import Bytes BytesFacts Outcome.
From GixV.C02 Require Import Model Spec ProofsIter ProofsTagIter ProofsTime ProofsWrite ProofsSig ProofsCommitRT ProofsTagRT.
Import ListNotations.

Definition notin (c : byte) (l : bytes) : Prop := existsb (fun b => beqb b c) l = false.

Lemma strip_cross c t' pat : forall a, notin c pat -> strip_prefix pat a = None ->
  strip_prefix pat (a ++ c :: t') = None.
Proof.
  induction pat as [|x pat IH]; intros a Hn H; [discriminate|].
  unfold notin in Hn. cbn [existsb] in Hn. apply orb_false_iff in Hn. destruct Hn as [Hx Hn].
  destruct a as [|y a]; cbn [app strip_prefix] in *.
  - rewrite Hx. reflexivity.
  - destruct (beqb x y); [|reflexivity]. apply IH; assumption.
Qed.

Lemma find_sub_first c pat' t' r0 m :
  notin c pat' -> strip_prefix (c :: pat') (c :: t') = Some r0 ->
  has_sub (c :: pat') m = false ->
  find_sub (c :: pat') (m ++ c :: t') = Some (m, c :: t').
Proof.
  intros Hn Ht. induction m as [|b m IH]; intros Hs.
  - cbn [app find_sub]. rewrite Ht. reflexivity.
  - unfold has_sub in Hs. cbn [find_sub] in Hs.
    destruct (strip_prefix (c :: pat') (b :: m)) eqn:E1; [discriminate|].
    destruct (find_sub (c :: pat') m) as [[a t]|] eqn:E2; [discriminate|].
    assert (Hs' : has_sub (c :: pat') m = false) by (unfold has_sub; rewrite E2; reflexivity).
    cbn [app find_sub].
    assert (strip_prefix (c :: pat') (b :: m ++ c :: t') = None) as ->.
    { cbn [strip_prefix] in *. destruct (beqb c b); [|reflexivity]. apply strip_cross; assumption. }
    rewrite (IH Hs'). reflexivity.
Qed.

Lemma find_sub_hit pat : forall i a t, find_sub pat i = Some (a, t) -> exists t', strip_prefix pat t = Some t'.
Proof.
  induction i as [|b i IH]; intros a t H; cbn [find_sub] in H.
  - destruct (strip_prefix pat []) eqn:E; [|discriminate]. injection H as _ <-. eauto.
  - destruct (strip_prefix pat (b :: i)) eqn:E; [injection H as _ <-; eauto|].
    destruct (find_sub pat i) as [[a' t']|] eqn:E2; [|discriminate]. injection H as _ <-. eapply IH. reflexivity.
Qed.

Lemma pgp_recognized p : pgp_wf p = true ->
  recognize (fun k => pbind (lit PGP_BEGIN k) (fun _ a => pbind (take_until0 PGP_END a) (fun _ b =>
               pbind (lit PGP_END b) (fun _ c => prest c)))) p = POk p [] /\ p <> [].
Proof.
  unfold pgp_wf. destruct (strip_prefix PGP_BEGIN p) as [q|] eqn:E; [|discriminate]. intros H.
  unfold has_sub in H. destruct (find_sub PGP_END q) as [[a t]|] eqn:F; [|discriminate].
  destruct (find_sub_hit _ _ _ _ F) as [t' Ht'].
  split.
  - unfold recognize, lit, take_until0. rewrite E. cbn [pbind]. rewrite F. cbn [pbind]. rewrite Ht'. cbn [pbind].
    unfold prest. cbn [pbind length]. rewrite Nat.sub_0_r, firstn_all. reflexivity.
  - intros ->. discriminate.
Qed.

Definition pgp_part (p : option bytes) : bytes := match p with Some p => x0a :: p | None => [] end.

Lemma begin_notin : notin x0a PGP_BEGIN.
Proof. vm_compute. reflexivity. Qed.

Lemma T_msg_general m p :
  has_sub PGP_BEGIN_NL m = false -> match p with Some p => pgp_wf p | None => true end = true ->
  T_msg (x0a :: m ++ pgp_part p) = POk (m, p) [].
Proof.
  intros Hm Hp. destruct p as [p|]; [|cbn [pgp_part]; rewrite app_nil_r; apply T_msg_plain; exact Hm].
  destruct (pgp_recognized p Hp) as [Hr Hne].
  unfold T_msg, terminated, tag_message. cbn [pgp_part].
  change (x0a :: m ++ x0a :: p) with (NL ++ m ++ x0a :: p). rewrite lit_app. cbn [pbind].
  unfold palt. unfold take_until0 at 1.
  assert (Hb : exists q, strip_prefix PGP_BEGIN p = Some q).
  { unfold pgp_wf in Hp. destruct (strip_prefix PGP_BEGIN p) as [q|]; [eauto|discriminate]. }
  destruct Hb as [q Hq].
  assert (Hf : find_sub PGP_BEGIN_NL (m ++ x0a :: p) = Some (m, x0a :: p)).
  { unfold PGP_BEGIN_NL. fold PGP_BEGIN. apply (find_sub_first x0a PGP_BEGIN p q m begin_notin); [|exact Hm].
    cbn [strip_prefix]. change (beqb x0a x0a) with true. cbv iota. exact Hq. }
  rewrite Hf. cbn [pbind]. change (x0a :: p) with (NL ++ p). rewrite lit_app. cbn [pbind].
  rewrite Hr. cbn [pbind]. destruct p as [|b p]; [congruence|]. cbn [pbind]. reflexivity.
Qed.

Lemma git_write_tag_shape_gen g :
  git_write_tag g =
  bs "object" ++ x20 :: hex_encode (gg_target g) ++ x0a ::
  (bs "type" ++ x20 :: kind_bytes (gg_kind g) ++ x0a ::
   (bs "tag" ++ x20 :: gg_name g ++ x0a ::
    (tagger_line (gg_tagger g) ++ x0a :: gg_message g ++ pgp_part (gg_pgp g)))).
Proof.
  unfold git_write_tag, tagger_line, pgp_part.
  change (bs "object ") with (bs "object" ++ [x20]).
  change (bs "type ") with (bs "type" ++ [x20]).
  change (bs "tag ") with (bs "tag" ++ [x20]).
  change (bs "tagger ") with (bs "tagger" ++ [x20]).
  unfold NL. destruct (gg_tagger g); destruct (gg_pgp g);
    repeat (rewrite <- app_assoc; cbn [app]); rewrite ?app_nil_r; reflexivity.
Qed.

Lemma tag_wf_pgp g : tag_wf g = true -> match gg_pgp g with Some p => pgp_wf p | None => true end = true.
Proof. unfold tag_wf. intros H. apply andb_true_iff in H. tauto. Qed.

Lemma L_tag_decodes g : tag_wf g = true -> tag_decode (git_write_tag g) = Ok (tagref_of g).
Proof.
  intros H. destruct (tag_wf_parts g H) as (Ht & Hn & _ & Hs & Hm). pose proof (tag_wf_pgp g H) as Hp.
  destruct (tag_name_no_nl _ Hn) as [Nne Nnl].
  rewrite (git_write_tag_shape_gen g). unfold tag_decode. rewrite tag_parser_stages.
  unfold T_target. rewrite (hf_hit _ _ _ _ _ (hex_hash_hit (gg_target g) _ Ht)). cbn [pbind].
  unfold verify_map. rewrite kind_hit. cbn [pbind]. rewrite kind_back. cbv beta iota. cbn [pbind].
  unfold T_name. rewrite (hf_hit _ _ _ _ _ (take_while_line _ _ Nne Nnl)). cbn [pbind].
  unfold rest_tagger, popt.
  destruct (gg_tagger g) as [s|] eqn:Eg.
  - unfold tagger_line, T_tagger. repeat (rewrite <- app_assoc; cbn [app]).
    rewrite (sig_header_hit _ _ _ Hs). cbn [pbind]. rewrite (T_msg_general _ _ Hm Hp). cbn [pbind fst snd finish].
    unfold tagref_of. rewrite Eg. reflexivity.
  - cbn [tagger_line app]. assert (T_tagger (x0a :: gg_message g ++ pgp_part (gg_pgp g)) = PBack) as -> by reflexivity.
    cbn [pbind]. rewrite (T_msg_general _ _ Hm Hp). cbn [pbind fst snd finish].
    unfold tagref_of. rewrite Eg. reflexivity.
Qed.

Lemma L_tag_writes g : tag_wf g = true -> tag_write (tagref_of g) = Ok (git_write_tag g).
Proof.
  intros H. destruct (tag_wf_parts g H) as (Ht & Hn & Hd & Hs & Hm).
  destruct (tag_name_no_nl _ Hn) as [Nne Nnl].
  unfold tag_write, tagref_of. cbn [g_target g_kind g_name g_tagger g_message g_pgp].
  unfold validated_name. rewrite Hn. destruct (gg_name g) as [|b n] eqn:En; [congruence|].
  apply negb_true_iff in Hd. rewrite Hd. cbn [obind].
  rewrite (w_header_field_line _ (b :: n) Nne Nnl). cbn [obind].
  unfold git_write_tag. rewrite En.
  destruct (gg_tagger g) as [s|]; cbn [option_map].
  - unfold trusted_header_signature. rewrite (L_sig_write_of _ Hs). cbn [obind]. f_equal.
    unfold trusted_header_field, SPACE, NL.
    change (bs "object ") with (bs "object" ++ [x20]).
    change (bs "type ") with (bs "type" ++ [x20]).
    change (bs "tag ") with (bs "tag" ++ [x20]).
    change (bs "tagger ") with (bs "tagger" ++ [x20]).
    destruct (gg_pgp g); repeat (rewrite <- app_assoc; cbn [app]); rewrite ?app_nil_r; reflexivity.
  - cbn [obind]. f_equal. unfold trusted_header_field, SPACE, NL.
    change (bs "object ") with (bs "object" ++ [x20]).
    change (bs "type ") with (bs "type" ++ [x20]).
    change (bs "tag ") with (bs "tag" ++ [x20]).
    destruct (gg_pgp g); repeat (rewrite <- app_assoc; cbn [app]); rewrite ?app_nil_r; reflexivity.
Qed.
