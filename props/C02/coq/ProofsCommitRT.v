(* C02 — commits as git writes them: decode (git_write_commit c) = the field values, and the writer
   gives the bytes back.  Stage lemmas for every header kind. *)
From Coq Require Import List Arith ZArith NArith Lia ZifyBool ZifyNat ZifyN Bool.
From GixV.Base Require Import Bytes BytesFacts Outcome.
From GixV.C02 Require Import Model Spec ProofsIter ProofsTime ProofsWrite ProofsSig.
Import ListNotations.

Lemma strip_prefix_app t r : strip_prefix t (t ++ r) = Some r.
Proof.
  induction t as [|x t IH]; [reflexivity|]. cbn [app strip_prefix].
  assert (beqb x x = true) as -> by (apply beqb_eq; reflexivity). exact IH.
Qed.
Lemma lit_app t r : lit t (t ++ r) = POk tt r.
Proof. unfold lit. rewrite strip_prefix_app. reflexivity. Qed.

Lemma hf_hit {A} name (pv : parser A) V v rest :
  pv (V ++ x0a :: rest) = POk v (x0a :: rest) ->
  header_field name pv (name ++ x20 :: V ++ x0a :: rest) = POk v rest.
Proof.
  intros H. unfold header_field, terminated, preceded. rewrite lit_app. cbn [pbind].
  change (x20 :: V ++ x0a :: rest) with (SPACE ++ V ++ x0a :: rest). rewrite lit_app. cbn [pbind].
  rewrite H. cbn [pbind]. change (x0a :: rest) with (NL ++ rest). rewrite lit_app. reflexivity.
Qed.

(* ---- ids ---- *)
Lemma hexlc_byte : forall b, is_hex_digit_lc (hex_digit (hi_nibble b)) && is_hex_digit_lc (hex_digit (lo_nibble b)) = true.
Proof. apply forall_bytes. vm_compute. reflexivity. Qed.
Lemma hex_encode_lc l : forallb is_hex_digit_lc (hex_encode l) = true.
Proof.
  induction l as [|b l IH]; [reflexivity|]. cbn [hex_encode forallb].
  pose proof (hexlc_byte b) as H. apply andb_true_iff in H. destruct H as [H1 H2]. rewrite H1, H2, IH. reflexivity.
Qed.
Lemma span_upto_exact p a : forall r, forallb p a = true -> span_upto (length a) p (a ++ r) = (a, r).
Proof.
  induction a as [|b a IH]; intros r H; [reflexivity|]. cbn [forallb] in H. apply andb_true_iff in H.
  destruct H as [Hb Ha]. cbn [length app span_upto]. rewrite Hb, (IH r Ha). reflexivity.
Qed.
Lemma hex_hash_hit id tail : length id = 20%nat -> hex_hash (hex_encode id ++ tail) = POk (hex_encode id) tail.
Proof.
  intros L. unfold hex_hash, take_while_mn.
  assert (L40 : length (hex_encode id) = 40%nat) by (rewrite hex_encode_length; lia).
  rewrite <- L40 at 1. rewrite (span_upto_exact _ _ tail (hex_encode_lc id)). rewrite L40. reflexivity.
Qed.
Lemma oid_from_hex_encode id : length id = 20%nat -> oid_from_hex (hex_encode id) = Some id.
Proof.
  intros L. unfold oid_from_hex. rewrite hex_encode_length, L. cbn [Nat.mul Nat.add Nat.eqb]. apply hex_decode_encode.
Qed.
Lemma parse_all_encode ps : forallb len20 ps = true -> parse_all (map hex_encode ps) = Some ps.
Proof.
  induction ps as [|p ps IH]; [reflexivity|]. cbn [forallb map parse_all]. intros H.
  apply andb_true_iff in H. destruct H as [Hp Hps]. apply Nat.eqb_eq in Hp.
  rewrite (oid_from_hex_encode p Hp), (IH Hps). reflexivity.
Qed.

(* ---- parents ---- *)
Definition parent_line (p : bytes) : bytes := bs "parent " ++ hex_encode p ++ NL.

Lemma P_parent_hit p tail : length p = 20%nat -> P_parent (parent_line p ++ tail) = POk (hex_encode p) tail.
Proof.
  intros L. unfold P_parent, parent_line.
  replace ((bs "parent " ++ hex_encode p ++ NL) ++ tail) with (bs "parent" ++ x20 :: hex_encode p ++ x0a :: tail)
    by (cbn [bs byte_of_ascii NL]; rewrite <- !app_assoc; reflexivity).
  apply hf_hit. apply hex_hash_hit. exact L.
Qed.

Lemma repeat0_parents ps : forall tail, forallb len20 ps = true -> P_parent tail = PBack ->
  repeat0 P_parent (concat (map parent_line ps) ++ tail) = POk (map hex_encode ps) tail.
Proof.
  induction ps as [|p ps IH]; intros tail H Ht.
  - cbn [map concat app]. rewrite repeat0_unfold, Ht. reflexivity.
  - cbn [forallb] in H. apply andb_true_iff in H. destruct H as [Hp Hps]. apply Nat.eqb_eq in Hp.
    cbn [map concat]. rewrite <- app_assoc. rewrite repeat0_unfold.
    rewrite (P_parent_hit p _ Hp).
    assert (Nat.leb (length (parent_line p ++ concat (map parent_line ps) ++ tail))
                    (length (concat (map parent_line ps) ++ tail)) = false) as ->.
    { apply Nat.leb_gt. rewrite (app_length (parent_line p)).
      assert (0 < length (parent_line p))%nat by (unfold parent_line; cbn [bs byte_of_ascii app length]; lia). lia. }
    rewrite (IH tail Hps Ht). reflexivity.
Qed.

(* ---- single-line values ---- *)
Lemma span_line (e : bytes) r : existsb is_nl e = false ->
  span (fun b => negb (is_nl b)) (e ++ x0a :: r) = (e, x0a :: r).
Proof.
  induction e as [|b e IH]; cbn [existsb app span]; intros H; [reflexivity|].
  apply orb_false_iff in H. destruct H as [Hb He]. rewrite Hb. cbn [negb]. rewrite (IH He). reflexivity.
Qed.
Lemma take_till1_line e r : e <> [] -> existsb is_nl e = false ->
  take_till1 is_nl (e ++ x0a :: r) = POk e (x0a :: r).
Proof. intros Hne H. unfold take_till1. rewrite (span_line e r H). destruct e; [congruence|reflexivity]. Qed.

(* ---- signatures as header values ---- *)
Lemma sig_header_hit name s rest : sig_wf s = true ->
  header_field name sig_decode (name ++ x20 :: git_write_sig s ++ x0a :: rest) = POk (sig_of s) rest.
Proof. intros H. apply hf_hit. apply L_sig_decode_git. exact H. Qed.

(* ---- the message ---- *)
Lemma extra_header_at_nl m : extra_header (x0a :: m) = PBack.
Proof. reflexivity. Qed.
Lemma P_msg_hit m : P_msg (x0a :: m) = POk m [].
Proof. reflexivity. Qed.
Lemma P_enc_at_nl m : P_enc (x0a :: m) = PBack.
Proof. reflexivity. Qed.
Lemma P_parent_at_author r : P_parent (bs "author" ++ r) = PBack.
Proof. reflexivity. Qed.

(* ---- commits without extra headers ---- *)
Definition enc_line (e : option bytes) : bytes :=
  match e with Some e => bs "encoding " ++ e ++ NL | None => [] end.

Lemma popt_enc_hit e m :
  match e with Some e => e <> [] /\ existsb is_nl e = false | None => True end ->
  popt P_enc (enc_line e ++ x0a :: m) = POk e (x0a :: m).
Proof.
  destruct e as [e|]; intros H; unfold popt.
  - destruct H as [Hne Hnl]. unfold enc_line, P_enc.
    replace ((bs "encoding " ++ e ++ NL) ++ x0a :: m) with (bs "encoding" ++ x20 :: e ++ x0a :: x0a :: m)
      by (cbn [bs byte_of_ascii NL]; rewrite <- !app_assoc; reflexivity).
    rewrite (hf_hit _ _ e e (x0a :: m) (take_till1_line e _ Hne Hnl)). reflexivity.
  - cbn [enc_line app]. rewrite P_enc_at_nl. reflexivity.
Qed.

Lemma git_write_commit_plain c : gc_extra c = [] ->
  git_write_commit c =
  bs "tree" ++ x20 :: hex_encode (gc_tree c) ++ x0a ::
  (concat (map parent_line (gc_parents c)) ++
   (bs "author" ++ x20 :: git_write_sig (gc_author c) ++ x0a ::
    (bs "committer" ++ x20 :: git_write_sig (gc_committer c) ++ x0a ::
     (enc_line (gc_encoding c) ++ x0a :: gc_message c)))).
Proof.
  intros Hx. unfold git_write_commit. rewrite Hx.
  change (fun p : bytes => bs "parent " ++ hex_encode p ++ NL) with parent_line.
  change (bs "tree ") with (bs "tree" ++ [x20]).
  change (bs "author ") with (bs "author" ++ [x20]).
  change (bs "committer ") with (bs "committer" ++ [x20]).
  unfold enc_line, NL. destruct (gc_encoding c); cbn [map concat];
    rewrite <- ?app_assoc; cbn [app]; reflexivity.
Qed.

Lemma L_commit_plain_decodes c : commit_wf c = true -> gc_extra c = [] ->
  commit_decode (git_write_commit c) = Ok (commitref_of c).
Proof.
  unfold commit_wf. intros H Hx.
  apply andb_true_iff in H. destruct H as [H _].
  apply andb_true_iff in H. destruct H as [H _].
  apply andb_true_iff in H. destruct H as [H He].
  apply andb_true_iff in H. destruct H as [H Hc].
  apply andb_true_iff in H. destruct H as [H Ha].
  apply andb_true_iff in H. destruct H as [Ht Hp].
  apply Nat.eqb_eq in Ht.
  rewrite (git_write_commit_plain c Hx).
  unfold commit_decode. rewrite commit_parser_stages.
  unfold P_tree. rewrite (hf_hit _ _ _ _ _ (hex_hash_hit (gc_tree c) _ Ht)). cbn [pbind].
  unfold rest_parents. rewrite (repeat0_parents _ _ Hp (P_parent_at_author _)). cbn [pbind].
  unfold rest_author, P_author. rewrite (sig_header_hit _ _ _ Ha). cbn [pbind].
  unfold rest_committer, P_committer. rewrite (sig_header_hit _ _ _ Hc). cbn [pbind].
  unfold rest_enc. rewrite popt_enc_hit.
  2:{ destruct (gc_encoding c) as [e|]; [|exact I]. destruct e; [discriminate|]. split; [discriminate|].
      unfold line_ok, no_byte in He. destruct (existsb is_nl (b :: e)); [discriminate|reflexivity]. }
  cbn [pbind]. unfold rest_extra. rewrite repeat0_unfold, extra_header_at_nl. cbn [pbind].
  rewrite P_msg_hit. cbn [pbind fst snd finish].
  unfold commitref_of. rewrite Hx. reflexivity.
Qed.

(* ---- writing back ---- *)
Lemma w_header_field_line name e : e <> [] -> existsb is_nl e = false ->
  w_header_field name e = Ok (name ++ SPACE ++ e ++ NL).
Proof. intros Hne Hnl. unfold w_header_field. rewrite Hnl. destruct e; [congruence|reflexivity]. Qed.

Lemma enc_wf_parts (e : option bytes) :
  match e with Some e => match e with [] => false | _ => line_ok e end | None => true end = true ->
  match e with Some e => e <> [] /\ existsb is_nl e = false | None => True end.
Proof.
  destruct e as [e|]; [|intros _; exact I]. destruct e; [discriminate|]. intros H. split; [discriminate|].
  unfold line_ok, no_byte in H. destruct (existsb is_nl (b :: e)); [discriminate|reflexivity].
Qed.

Lemma L_commit_plain_writes c : commit_wf c = true -> gc_extra c = [] ->
  commit_write (commitref_of c) = Ok (git_write_commit c).
Proof.
  unfold commit_wf. intros H Hx.
  apply andb_true_iff in H. destruct H as [H _].
  apply andb_true_iff in H. destruct H as [H _].
  apply andb_true_iff in H. destruct H as [H He].
  apply andb_true_iff in H. destruct H as [H Hc].
  apply andb_true_iff in H. destruct H as [H Ha].
  apply andb_true_iff in H. destruct H as [Ht Hp].
  apply Nat.eqb_eq in Ht. apply enc_wf_parts in He.
  unfold commit_write, commitref_of. cbn [c_tree c_parents c_author c_committer c_encoding c_extra c_message].
  rewrite (oid_from_hex_encode _ Ht), (parse_all_encode _ Hp).
  unfold trusted_header_signature. rewrite (L_sig_write_of _ Ha), (L_sig_write_of _ Hc). cbn [obind].
  rewrite Hx. cbn [map extra_headers_write].
  unfold git_write_commit. rewrite Hx. cbn [map concat].
  destruct (gc_encoding c) as [e|].
  - destruct He as [Hne Hnl]. rewrite (w_header_field_line _ e Hne Hnl). cbn [obind].
    f_equal. unfold trusted_header_id, SPACE, NL.
    change (bs "tree ") with (bs "tree" ++ [x20]).
    change (bs "author ") with (bs "author" ++ [x20]).
    change (bs "committer ") with (bs "committer" ++ [x20]).
    change (bs "encoding ") with (bs "encoding" ++ [x20]).
    change (fun p : bytes => bs "parent " ++ hex_encode p ++ [x0a]) with (fun p : bytes => bs "parent" ++ [x20] ++ hex_encode p ++ [x0a]).
    rewrite <- ?app_assoc. cbn [app]. reflexivity.
  - cbn [obind]. f_equal. unfold trusted_header_id, SPACE, NL.
    change (bs "tree ") with (bs "tree" ++ [x20]).
    change (bs "author ") with (bs "author" ++ [x20]).
    change (bs "committer ") with (bs "committer" ++ [x20]).
    change (fun p : bytes => bs "parent " ++ hex_encode p ++ [x0a]) with (fun p : bytes => bs "parent" ++ [x20] ++ hex_encode p ++ [x0a]).
    rewrite <- ?app_assoc. cbn [app]. reflexivity.
Qed.

(* ---- the token list of the decoded form is the token list of the values ---- *)
Lemma L_tokens_of c : commit_tokens (commitref_of c) (gc_tree c) (gc_parents c) = commit_tokens_of c.
Proof.
  unfold commit_tokens, commit_tokens_of, tail_toks, commitref_of, enc_toks.
  cbn [c_author c_committer c_encoding c_extra c_message]. rewrite map_map. unfold xtok. cbn [fst snd].
  reflexivity.
Qed.

Lemma L_iter_of_decoded c : commit_wf c = true ->
  commit_decode (git_write_commit c) = Ok (commitref_of c) ->
  commit_iter (git_write_commit c) = map IOk (commit_tokens_of c).
Proof.
  intros Hwf Hd. destruct (L_commit_iter_agrees _ _ Hd) as (t & ps & Ht & Hp & Hi).
  unfold commit_wf in Hwf.
  apply andb_true_iff in Hwf. destruct Hwf as [H _].
  apply andb_true_iff in H. destruct H as [H _].
  apply andb_true_iff in H. destruct H as [H _].
  apply andb_true_iff in H. destruct H as [H _].
  apply andb_true_iff in H. destruct H as [H _].
  apply andb_true_iff in H. destruct H as [H20 Hp20]. apply Nat.eqb_eq in H20.
  cbn [commitref_of c_tree c_parents] in Ht, Hp.
  rewrite (oid_from_hex_encode _ H20) in Ht. rewrite (parse_all_encode _ Hp20) in Hp.
  injection Ht as <-. injection Hp as <-. rewrite Hi, L_tokens_of. reflexivity.
Qed.
