(* C02 — a signature as git writes it ("name <email> seconds ±HHMM", then LF) is decoded by
   gix_actor::signature::decode to exactly those values, leaving the LF. *)
From Coq Require Import List Arith ZArith NArith Lia ZifyBool ZifyNat ZifyN Bool.
From GixV.Base Require Import Bytes BytesFacts Outcome.
From GixV.C02 Require Import Model Spec ProofsDec ProofsTime ProofsWrite.
Import ListNotations.

Lemma find_byte_hit p a c r : existsb p a = false -> p c = true -> find_byte p (a ++ c :: r) = Some (length a).
Proof.
  induction a as [|b a IH]; cbn [existsb app find_byte length]; intros Ha Hc.
  - rewrite Hc. reflexivity.
  - apply orb_false_iff in Ha. destruct Ha as [Hb Ha]. rewrite Hb, (IH Ha Hc). reflexivity.
Qed.
Lemma rfind_byte_none p r : existsb p r = false -> rfind_byte p r = None.
Proof.
  induction r as [|b r IH]; cbn [existsb rfind_byte]; intros H; [reflexivity|].
  apply orb_false_iff in H. destruct H as [Hb Hr]. rewrite (IH Hr), Hb. reflexivity.
Qed.
Lemma rfind_byte_hit p a c r : p c = true -> existsb p r = false -> rfind_byte p (a ++ c :: r) = Some (length a).
Proof.
  intros Hc Hr. induction a as [|b a IH]; cbn [app rfind_byte length].
  - rewrite (rfind_byte_none p r Hr), Hc. reflexivity.
  - rewrite IH. reflexivity.
Qed.
Lemma firstn_app_exact {A} (a b : list A) : firstn (length a) (a ++ b) = a.
Proof. rewrite firstn_app, Nat.sub_diag, firstn_all. cbn. apply app_nil_r. Qed.
Lemma skipn_app_exact {A} (a b : list A) : skipn (length a) (a ++ b) = b.
Proof. rewrite skipn_app, Nat.sub_diag, skipn_all. reflexivity. Qed.
Lemma existsb_app_false p (a b : bytes) : existsb p (a ++ b) = false <-> existsb p a = false /\ existsb p b = false.
Proof. rewrite existsb_app. apply orb_false_iff. Qed.

Lemma existsb_rev p (l : bytes) : existsb p (rev l) = existsb p l.
Proof.
  induction l as [|b l IH]; [reflexivity|]. cbn [rev existsb]. rewrite existsb_app, IH. cbn [existsb].
  rewrite orb_false_r. apply orb_comm.
Qed.

Lemma illegal_split l : existsb illegal_in_token l = false ->
  existsb is_lt l = false /\ existsb is_gt l = false /\ existsb is_nl l = false.
Proof.
  induction l as [|b l IH]; cbn [existsb]; intros H; [repeat split|].
  apply orb_false_iff in H. destruct H as [Hb Hl]. destruct (IH Hl) as (A & B & C).
  unfold illegal_in_token in Hb. apply orb_false_iff in Hb. destruct Hb as [Hb Hb3].
  apply orb_false_iff in Hb. destruct Hb as [Hb1 Hb2]. rewrite Hb1, Hb2, Hb3, A, B, C. repeat split.
Qed.

(* the time text has neither '>' nor LF *)
Definition tchar (b : byte) : bool := negb (is_gt b) && negb (is_nl b).
Lemma dchar_tchar : forall b, dchar b = true -> tchar b = true.
Proof.
  assert (H : forall b, (negb (dchar b) || tchar b) = true) by (apply forall_bytes; vm_compute; reflexivity).
  intros b Hb. specialize (H b). rewrite Hb in H. exact H.
Qed.
Lemma digit_tchar b : is_dec_digit b = true -> tchar b = true.
Proof. intros H. apply dchar_tchar. unfold dchar. rewrite <- is_dec_digit_is_digit, H. reflexivity. Qed.
Lemma tchar_none l : forallb tchar l = true -> existsb is_gt l = false /\ existsb is_nl l = false.
Proof.
  induction l as [|b l IH]; cbn [forallb existsb]; intros H; [split; reflexivity|].
  apply andb_true_iff in H. destruct H as [Hb Hl]. destruct (IH Hl) as [A B].
  unfold tchar in Hb. apply andb_true_iff in Hb. destruct Hb as [H1 H2].
  apply negb_true_iff in H1, H2. rewrite H1, H2, A, B. split; reflexivity.
Qed.
Lemma time_text_tchar t : time_wf t = true -> forallb tchar (git_write_time t) = true.
Proof.
  unfold time_wf. intros H.
  apply andb_true_iff in H. destruct H as [H Hm]. apply andb_true_iff in H. destruct H as [_ Hh].
  apply N.leb_le in Hm, Hh.
  destruct (two_digits_spec (gt_hh t) ltac:(lia)) as (a & b & Eh & Da & Db & _).
  destruct (two_digits_spec (gt_mm t) ltac:(lia)) as (c & d & Em & Dc & Dd & _).
  unfold git_write_time. rewrite Eh, Em. rewrite !forallb_app.
  rewrite (forallb_impl dchar tchar _ dchar_tchar (Z_to_dec_dchar (gt_secs t))).
  cbn [forallb]. rewrite (digit_tchar a Da), (digit_tchar b Db), (digit_tchar c Dc), (digit_tchar d Dd).
  destruct (gt_minus t); reflexivity.
Qed.

Lemma count_while_head_false p (l : bytes) :
  match l with b :: _ => p b = false | [] => True end -> count_while p l = 0%nat.
Proof. destruct l as [|b l]; [reflexivity|]. intros H. cbn [count_while]. rewrite H. reflexivity. Qed.

Lemma first_not_ws_spec e (c : byte) (tl : bytes) (q : byte -> bool) :
  first_not_ws e = true -> existsb q e = false -> is_ascii_ws c = false -> q c = false ->
  match e ++ c :: tl with b :: _ => ws_or q b = false | [] => True end.
Proof.
  intros Hf Hq Hc1 Hc2. destruct e as [|b e]; cbn [app].
  - unfold ws_or. rewrite Hc1, Hc2. reflexivity.
  - cbn [first_not_ws] in Hf. apply negb_true_iff in Hf. cbn [existsb] in Hq.
    apply orb_false_iff in Hq. destruct Hq as [Hq _]. unfold ws_or. rewrite Hf, Hq. reflexivity.
Qed.

Lemma strip_suffix_sp_snoc n : strip_suffix_sp (n ++ [x20]) = n.
Proof. unfold strip_suffix_sp. rewrite rev_app_distr. cbn [rev app]. change (is_sp x20) with true. cbv iota. apply rev_involutive. Qed.

Lemma L_identity_git name email T rest :
  existsb illegal_in_token name = false -> existsb illegal_in_token email = false ->
  first_not_ws email = true -> first_not_ws (rev email) = true ->
  forallb tchar T = true ->
  identity (name ++ bs " <" ++ email ++ bs "> " ++ T ++ x0a :: rest)
  = POk (name, email) (x20 :: T ++ x0a :: rest).
Proof.
  intros Hn He Hf Hl HT.
  destruct (illegal_split _ Hn) as (Nlt & Ngt & Nnl). destruct (illegal_split _ He) as (Elt & Egt & Enl).
  destruct (tchar_none _ HT) as (Tgt & Tnl).
  set (A := name ++ [x20]). set (ne := A ++ "<"%byte :: email).
  set (R := x20 :: T ++ x0a :: rest).
  assert (Ei : name ++ bs " <" ++ email ++ bs "> " ++ T ++ x0a :: rest = ne ++ ">"%byte :: R).
  { unfold ne, A, R. cbn [bs byte_of_ascii]. rewrite <- !app_assoc. reflexivity. }
  assert (Ei2 : ne ++ ">"%byte :: R = (ne ++ ">"%byte :: x20 :: T) ++ x0a :: rest).
  { unfold R. rewrite <- !app_assoc. reflexivity. }
  assert (Ei3 : ne ++ ">"%byte :: R = A ++ "<"%byte :: (email ++ ">"%byte :: R)).
  { unfold ne. rewrite <- !app_assoc. reflexivity. }
  rewrite Ei. unfold identity.
  (* end of line *)
  assert (Hnl : existsb is_nl (ne ++ ">"%byte :: x20 :: T) = false).
  { unfold ne, A. rewrite !existsb_app. cbn [existsb]. rewrite Nnl, Enl, Tnl. reflexivity. }
  rewrite Ei2 at 1. rewrite (find_byte_hit is_nl _ x0a rest Hnl eq_refl).
  rewrite Ei2 at 1. rewrite firstn_app_exact.
  (* closing bracket *)
  assert (Hgt : existsb is_gt (x20 :: T) = false) by (cbn [existsb]; rewrite Tgt; reflexivity).
  rewrite (rfind_byte_hit is_gt ne ">"%byte (x20 :: T) eq_refl Hgt).
  rewrite firstn_app_exact.
  (* nothing to skip from the right *)
  assert (Sr : count_while (ws_or is_gt) (rev ne) = 0%nat).
  { apply count_while_head_false. unfold ne. rewrite rev_app_distr. cbn [rev]. rewrite <- app_assoc. cbn [app].
    apply first_not_ws_spec; try assumption; try reflexivity.
    rewrite existsb_rev. exact Egt. }
  rewrite Sr.
  (* opening bracket *)
  assert (Hlt : existsb is_lt A = false) by (unfold A; rewrite existsb_app; cbn [existsb]; rewrite Nlt; reflexivity).
  unfold ne at 1. rewrite (find_byte_hit is_lt A "<"%byte email Hlt eq_refl).
  rewrite Ei3. rewrite skipn_app_exact.
  assert (Sl : count_while (ws_or is_lt) ("<"%byte :: email ++ ">"%byte :: R) = 1%nat).
  { cbn [count_while]. change (ws_or is_lt "<"%byte) with true. cbv iota. f_equal.
    apply count_while_head_false. apply first_not_ws_spec; try assumption; reflexivity. }
  rewrite Sl. rewrite firstn_app_exact. change (strip_suffix_sp A) with (strip_suffix_sp (name ++ [x20])). rewrite strip_suffix_sp_snoc.
  (* the e-mail *)
  unfold get_range.
  assert (Ln : length ne = (length A + 1 + length email)%nat) by (unfold ne; rewrite app_length; cbn [length]; lia).
  rewrite Ln.
  assert (Nat.ltb (length A + 1 + length email - 0) (length A + 1) = false) as -> by (apply Nat.ltb_ge; lia).
  assert (Nat.ltb (length (A ++ "<"%byte :: email ++ ">"%byte :: R)) (length A + 1 + length email - 0) = false) as ->.
  { apply Nat.ltb_ge. rewrite !app_length. cbn [length]. rewrite app_length. cbn [length]. lia. }
  replace (A ++ "<"%byte :: email ++ ">"%byte :: R) with ((A ++ ["<"%byte]) ++ email ++ ">"%byte :: R)
    by (rewrite <- app_assoc; reflexivity).
  replace (length A + 1)%nat with (length (A ++ ["<"%byte])) by (rewrite app_length; reflexivity).
  rewrite skipn_app_exact.
  replace (length (A ++ ["<"%byte]) + length email - 0 - length (A ++ ["<"%byte]))%nat with (length email) by lia.
  rewrite firstn_app_exact.
  replace ((A ++ ["<"%byte]) ++ email ++ ">"%byte :: R) with ((A ++ "<"%byte :: email ++ [">"%byte]) ++ R)
    by (rewrite <- !app_assoc; cbn [app]; rewrite <- app_assoc; reflexivity).
  replace (length (A ++ ["<"%byte]) + length email + 1)%nat with (length (A ++ "<"%byte :: email ++ [">"%byte]))
    by (rewrite !app_length; cbn [length]; rewrite app_length; cbn [length]; lia).
  rewrite skipn_app_exact. reflexivity.
Qed.

Lemma L_sig_decode_git s rest : sig_wf s = true ->
  sig_decode (git_write_sig s ++ x0a :: rest) = POk (sig_of s) (x0a :: rest).
Proof.
  unfold sig_wf. intros H.
  apply andb_true_iff in H. destruct H as [H Ht].
  apply andb_true_iff in H. destruct H as [H Hl].
  apply andb_true_iff in H. destruct H as [H Hf].
  apply andb_true_iff in H. destruct H as [Hn He].
  apply no_byte_false in Hn, He.
  unfold sig_decode, git_write_sig.
  replace ((gs_name s ++ bs " <" ++ gs_email s ++ bs "> " ++ git_write_time (gs_time s)) ++ x0a :: rest)
    with (gs_name s ++ bs " <" ++ gs_email s ++ bs "> " ++ git_write_time (gs_time s) ++ x0a :: rest)
    by (rewrite <- !app_assoc; reflexivity).
  rewrite (L_identity_git _ _ _ rest Hn He Hf Hl (time_text_tchar _ Ht)). cbn [pbind].
  unfold popt at 1. unfold lit, SPACE. cbn [strip_prefix]. change (beqb x20 x20) with true. cbv iota. cbn [pbind].
  unfold popt. rewrite (L_time_parts_git _ rest Ht). cbn [pbind fst snd]. reflexivity.
Qed.
