(* C02 — the known classes, as facts about the model: tags `git mktag` creates (confirmed with git
   2.39.5, see findings.txt) that do not decode / do not re-encode verbatim; and concrete git-written
   objects that do (non-vacuity of the round-trip statements). *)
From Coq Require Import List.
From GixV.Base Require Import Bytes Outcome.
From GixV.C02 Require Import Model Spec.

Definition tag_head : bytes :=
  bs "object e7cf084dec63bfa824069d8be5d617b9ac200496" ++ NL ++ bs "type commit" ++ NL.
Definition mk_tagx (name tagger body : bytes) : bytes :=
  tag_head ++ bs "tag " ++ name ++ NL ++ bs "tagger " ++ tagger ++ NL ++ body.

Definition reencodes_verbatim (data : bytes) : bool :=
  match tag_decode data with
  | Ok g => match tag_write g with Ok b => bytes_eqb b data | _ => false end
  | _ => false
  end.

Definition x_email_ws := mk_tagx (bs "t") (bs "T < e > 1 +0000") (NL ++ bs "msg" ++ NL).
Definition x_tz_minutes := mk_tagx (bs "t") (bs "T <e> 1 +0099") (NL ++ bs "msg" ++ NL).
Definition x_tz_over := mk_tagx (bs "t") (bs "T <e> 1 +9999") (NL ++ bs "msg" ++ NL).
Definition x_ts_plus := mk_tagx (bs "t") (bs "T <e> +12 +0000") (NL ++ bs "msg" ++ NL).
Definition x_ts_space := mk_tagx (bs "t") (bs "T <e>  12 +0000") (NL ++ bs "msg" ++ NL).
Definition x_no_sep := mk_tagx (bs "t") (bs "T <e> 1 +0000") [].
Definition x_name_dash := mk_tagx (bs "-a") (bs "T <e> 1 +0000") (NL ++ bs "msg" ++ NL).
Definition x_plain := mk_tagx (bs "t") (bs "T <e> 1 +0000") (NL ++ bs "msg" ++ NL).

Lemma L_known_email_ws : is_ok (tag_decode x_email_ws) = true /\ reencodes_verbatim x_email_ws = false.
Proof. vm_compute. split; reflexivity. Qed.
Lemma L_known_tz_minutes : is_ok (tag_decode x_tz_minutes) = true /\ reencodes_verbatim x_tz_minutes = false.
Proof. vm_compute. split; reflexivity. Qed.
Lemma L_known_tz_over :
  exists g, tag_decode x_tz_over = Ok g /\ tag_write g = Err EWrite.
Proof. eexists. split; vm_compute; reflexivity. Qed.
Lemma L_known_ts_plus : is_ok (tag_decode x_ts_plus) = true /\ reencodes_verbatim x_ts_plus = false.
Proof. vm_compute. split; reflexivity. Qed.
Lemma L_known_ts_space : tag_decode x_ts_space = Err EDecode.
Proof. vm_compute. reflexivity. Qed.
Lemma L_known_no_sep :
  exists g, tag_decode x_no_sep = Ok g /\ tag_write g = Ok (x_no_sep ++ NL) /\ length (tag_iter x_no_sep) = 4%nat.
Proof. eexists. repeat split; vm_compute; reflexivity. Qed.
Lemma L_known_name_dash :
  exists g, tag_decode x_name_dash = Ok g /\ tag_write g = Err EWrite.
Proof. eexists. split; vm_compute; reflexivity. Qed.
Lemma L_plain_ok : reencodes_verbatim x_plain = true /\ length (tag_iter x_plain) = 5%nat.
Proof. vm_compute. split; reflexivity. Qed.

(* a signed merge commit the way git writes it *)
Definition ex_sig (n : bytes) : gsig := mkGSig n (bs "a@b.c") (mkGTime 1700000000 true 1 30).
Definition ex_commit : gcommit :=
  mkGCommit (repeat x11 20) [repeat x22 20; repeat x33 20] (ex_sig (bs "A U Thor")) (ex_sig (bs "C O Mitter"))
            (Some (bs "ISO-8859-1"))
            [mkGExtra (bs "mergetag") (bs "object 1234") [bs "type commit"; []; bs " indented"];
             mkGExtra (bs "gpgsig") PGP_BEGIN [[]; bs "iQEzBAABCAAdFiEE"; bs "=AbCd"; PGP_END];
             mkGExtra (bs "x") (bs "v") []]
            (bs "subject" ++ NL ++ NL ++ bs "body" ++ NL).

Lemma L_ex_commit :
  commit_wf ex_commit = true
  /\ commit_decode (git_write_commit ex_commit) = Ok (commitref_of ex_commit)
  /\ commit_iter (git_write_commit ex_commit) = map IOk (commit_tokens_of ex_commit)
  /\ commit_write (commitref_of ex_commit) = Ok (git_write_commit ex_commit).
Proof. repeat split; vm_compute; reflexivity. Qed.

Definition ex_tag : gtag :=
  mkGTag (repeat x11 20) KCommit (bs "v1.0") (Some (ex_sig (bs "T Agger"))) (bs "release")
         (Some (PGP_BEGIN ++ NL ++ bs "abc" ++ NL ++ PGP_END ++ NL)).

Lemma L_ex_tag :
  tag_wf ex_tag = true
  /\ tag_decode (git_write_tag ex_tag) = Ok (tagref_of ex_tag)
  /\ tag_write (tagref_of ex_tag) = Ok (git_write_tag ex_tag).
Proof. repeat split; vm_compute; reflexivity. Qed.
