(* C02 — independent specification: the byte layout git itself gives to commits, annotated tags and
   trees built from field values (commit.c commit_tree_extended / ident.c fmt_ident / tag.c
   build_tag_object / tree.c via mktree), and the fields a faithful reader must report for them.
   Validated against real git (commit-tree, tag -a, mktag, mktree, hash-object) by the `git` mode of
   the harness.  NO proofs here. *)
From GixV.Base Require Import Bytes Outcome.
From GixV.C02 Require Import Model.
Local Open Scope N_scope.

(* "<seconds> <+|->HHMM" *)
Record gtime := mkGTime { gt_secs : Z; gt_minus : bool; gt_hh : N; gt_mm : N }.
Record gsig := mkGSig { gs_name : bytes; gs_email : bytes; gs_time : gtime }.
(* an extra header: name, first line, continuation lines (gpgsig, mergetag, …) *)
Record gextra := mkGExtra { gx_name : bytes; gx_first : bytes; gx_conts : list bytes }.
Record gcommit := mkGCommit {
  gc_tree : bytes;                          (* 20 raw bytes *)
  gc_parents : list bytes;
  gc_author : gsig;
  gc_committer : gsig;
  gc_encoding : option bytes;
  gc_extra : list gextra;
  gc_message : bytes }.
Record gtag := mkGTag {
  gg_target : bytes;                        (* 20 raw bytes *)
  gg_kind : kind;
  gg_name : bytes;
  gg_tagger : option gsig;
  gg_message : bytes;                       (* for a signed tag: the text before the armour's line break *)
  gg_pgp : option bytes }.                  (* "-----BEGIN PGP SIGNATURE-----" … to the end of the object *)

Definition two_digits (n : N) : bytes := [N2b (48 + n / 10); N2b (48 + n mod 10)].

Definition git_write_time (t : gtime) : bytes :=
  Z_to_dec (gt_secs t) ++ bs " " ++ (if gt_minus t then bs "-" else bs "+")
  ++ two_digits (gt_hh t) ++ two_digits (gt_mm t).

Definition git_write_sig (s : gsig) : bytes :=
  gs_name s ++ bs " <" ++ gs_email s ++ bs "> " ++ git_write_time (gs_time s).

Definition git_write_extra (x : gextra) : bytes :=
  gx_name x ++ bs " " ++ gx_first x ++ NL ++ concat (map (fun l => bs " " ++ l ++ NL) (gx_conts x)).

Definition git_write_commit (c : gcommit) : bytes :=
  bs "tree " ++ hex_encode (gc_tree c) ++ NL
  ++ concat (map (fun p => bs "parent " ++ hex_encode p ++ NL) (gc_parents c))
  ++ bs "author " ++ git_write_sig (gc_author c) ++ NL
  ++ bs "committer " ++ git_write_sig (gc_committer c) ++ NL
  ++ match gc_encoding c with Some e => bs "encoding " ++ e ++ NL | None => [] end
  ++ concat (map git_write_extra (gc_extra c))
  ++ NL ++ gc_message c.

Definition git_write_tag (g : gtag) : bytes :=
  bs "object " ++ hex_encode (gg_target g) ++ NL
  ++ bs "type " ++ kind_bytes (gg_kind g) ++ NL
  ++ bs "tag " ++ gg_name g ++ NL
  ++ match gg_tagger g with Some s => bs "tagger " ++ git_write_sig s ++ NL | None => [] end
  ++ NL ++ gg_message g
  ++ match gg_pgp g with Some p => NL ++ p | None => [] end.

(* a tree entry: "<octal mode> <name>\0<20 bytes>"; git prints the mode with "%o" *)
Definition git_write_entry (e : entry) : bytes :=
  mode_bytes (e_mode e) ++ bs " " ++ e_name e ++ [x00] ++ e_oid e.
Definition git_write_tree (l : list entry) : bytes := concat (map git_write_entry l).

(* ---- the fields a reader must report ---------------------------------------------------------- *)

Definition time_of (t : gtime) : time :=
  mkTime (gt_secs t)
         ((Z.of_N (gt_hh t) * 3600 + Z.of_N (gt_mm t) * 60) * (if gt_minus t then -1 else 1))%Z
         (gt_minus t).
Definition sig_of (s : gsig) : sig := mkSig (gs_name s) (gs_email s) (time_of (gs_time s)).

(* single-line values come back as they are; folded ones with every line (the last included)
   terminated by LF *)
Definition extra_value (x : gextra) : bytes :=
  match gx_conts x with
  | [] => gx_first x
  | _ => gx_first x ++ NL ++ concat (map (fun l => l ++ NL) (gx_conts x))
  end.

Definition commitref_of (c : gcommit) : commitref :=
  mkCommit (hex_encode (gc_tree c)) (map hex_encode (gc_parents c))
           (sig_of (gc_author c)) (sig_of (gc_committer c)) (gc_encoding c)
           (map (fun x => (gx_name x, extra_value x)) (gc_extra c)) (gc_message c).

Definition tagref_of (g : gtag) : tagref :=
  mkTag (hex_encode (gg_target g)) (gg_kind g) (gg_name g) (option_map sig_of (gg_tagger g))
        (gg_message g) (gg_pgp g).

Definition commit_tokens_of (c : gcommit) : list ctoken :=
  CTree (gc_tree c) :: map CParent (gc_parents c)
  ++ [CAuthor (sig_of (gc_author c)); CCommitter (sig_of (gc_committer c))]
  ++ match gc_encoding c with Some e => [CEncoding e] | None => [] end
  ++ map (fun x => CExtra (gx_name x) (extra_value x)) (gc_extra c)
  ++ [CMessage (gc_message c)].

(* ---- which field values git can produce (boolean, executable) ----------------------------------- *)

Definition no_byte (p : byte -> bool) (l : bytes) : bool := negb (existsb p l).

Definition time_wf (t : gtime) : bool :=
  (i64_min <=? gt_secs t)%Z && (gt_secs t <=? i64_max)%Z && (gt_hh t <=? 99) && (gt_mm t <=? 59).

Definition first_not_ws (l : bytes) : bool :=
  match l with b :: _ => negb (is_ascii_ws b) | [] => true end.

(* ident.c strips "crud" (which includes white space) from both ends of name and e-mail and drops
   '<', '>' and LF inside *)
Definition sig_wf (s : gsig) : bool :=
  no_byte illegal_in_token (gs_name s)
  && no_byte illegal_in_token (gs_email s)
  && first_not_ws (gs_email s) && first_not_ws (rev (gs_email s))
  && time_wf (gs_time s).

Definition line_ok (l : bytes) : bool := no_byte is_nl l.

Definition extra_wf (x : gextra) : bool :=
  match gx_name x with [] => false | _ => true end
  && no_byte is_sp_or_nl (gx_name x)
  && match gx_first x with [] => false | _ => true end
  && line_ok (gx_first x)
  && forallb line_ok (gx_conts x).

Definition len20 (b : bytes) : bool := Nat.eqb (length b) 20.

(* the first extra header must not read as the (absent) encoding header *)
Definition first_extra_ok (enc : option bytes) (xs : list gextra) : bool :=
  match enc, xs with
  | None, x :: _ => negb (bytes_eqb (gx_name x) (bs "encoding"))
  | _, _ => true
  end.

Definition commit_wf (c : gcommit) : bool :=
  len20 (gc_tree c) && forallb len20 (gc_parents c)
  && sig_wf (gc_author c) && sig_wf (gc_committer c)
  && match gc_encoding c with
     | Some e => match e with [] => false | _ => line_ok e end
     | None => true
     end
  && forallb extra_wf (gc_extra c)
  && first_extra_ok (gc_encoding c) (gc_extra c).

Definition has_sub (pat l : bytes) : bool :=
  match find_sub pat l with Some _ => true | None => false end.

Definition pgp_wf (p : bytes) : bool :=
  match strip_prefix PGP_BEGIN p with
  | Some q => has_sub PGP_END q
  | None => false
  end.

Definition tag_wf (g : gtag) : bool :=
  len20 (gg_target g)
  && tag_name_valid (gg_name g)
  && match gg_name g with b :: _ => negb (beqb b "-"%byte) | [] => false end
  && match gg_tagger g with Some s => sig_wf s | None => true end
  && negb (has_sub PGP_BEGIN_NL (gg_message g))
  && match gg_pgp g with Some p => pgp_wf p | None => true end.

Definition mode_wf (m : N) : bool :=
  (m <? 65536) && ((m =? 16384) || (m =? 40960) || (m =? 57344) || (N.land m 32768 =? 32768)).
Definition entry_wf (e : entry) : bool :=
  mode_wf (e_mode e) && no_byte is_nul (e_name e) && len20 (e_oid e).
Definition tree_wf (l : list entry) : bool := forallb entry_wf l.
