(* C02 — CommitRefIter against CommitRef::from_bytes, for every byte string *)
From Coq Require Import ZArith NArith Lia ZifyBool ZifyNat ZifyN List.
From GixV.Base Require Import Bytes BytesFacts Outcome.
From GixV.C02 Require Import Model Spec.
Local Open Scope N_scope.

(* ---- hex_hash yields text that ObjectId::from_hex accepts ------------------------------------------ *)

Lemma span_upto_spec n p : forall i a t, span_upto n p i = (a, t) ->
  i = a ++ t /\ forallb p a = true /\ (length a <= n)%nat.
Proof.
  induction n as [|n IH]; intros i a t H; cbn [span_upto] in H.
  - injection H as <- <-. repeat split. cbn. lia.
  - destruct i as [|b r]; [injection H as <- <-; repeat split; cbn; lia|].
    destruct (p b) eqn:Pb; [|injection H as <- <-; repeat split; cbn; lia].
    destruct (span_upto n p r) as [a' t'] eqn:E. injection H as <- <-.
    destruct (IH r a' t' E) as (-> & F & L). repeat split; cbn [forallb length]; [rewrite Pb, F; reflexivity|lia].
Qed.

Lemma hexlc_is_hex : forall b, implb (is_hex_digit_lc b) (is_hex b) = true.
Proof. apply forall_bytes. vm_compute. reflexivity. Qed.

Lemma forallb_hexlc a : forallb is_hex_digit_lc a = true -> forallb is_hex a = true.
Proof.
  induction a as [|b a IH]; [reflexivity|]. cbn [forallb]. intros H.
  apply Bool.andb_true_iff in H. destruct H as [H1 H2]. rewrite (IH H2).
  pose proof (hexlc_is_hex b) as Hb. rewrite H1 in Hb. cbn in Hb. rewrite Hb. reflexivity.
Qed.

Lemma hex_hash_spec i h r : hex_hash i = POk h r ->
  i = h ++ r /\ length h = 40%nat /\ exists id, oid_from_hex h = Some id.
Proof.
  unfold hex_hash, take_while_mn. destruct (span_upto 40 is_hex_digit_lc i) as [a t] eqn:E.
  destruct (Nat.ltb (length a) 40) eqn:L; [discriminate|]. intros H. injection H as <- <-.
  destruct (span_upto_spec _ _ _ _ _ E) as (-> & F & Le). apply Nat.ltb_ge in L.
  assert (length a = 40%nat) as L40 by lia. repeat split; [exact L40|].
  unfold oid_from_hex. rewrite L40. cbn [Nat.eqb].
  apply hex_decode_total; [rewrite L40; reflexivity|apply forallb_hexlc; exact F].
Qed.

Lemma strip_prefix_spec t : forall i r, strip_prefix t i = Some r -> i = t ++ r.
Proof.
  induction t as [|x t IH]; intros i r H; cbn [strip_prefix] in H.
  - injection H as <-. reflexivity.
  - destruct i as [|y i]; [discriminate|]. destruct (beqb x y) eqn:E; [|discriminate].
    apply beqb_eq in E. subst y. cbn [app]. f_equal. apply IH. exact H.
Qed.

Lemma lit_spec t i u r : lit t i = POk u r -> i = t ++ r.
Proof. unfold lit. destruct (strip_prefix t i) eqn:E; [|discriminate]. intros H. injection H as _ <-. apply strip_prefix_spec. exact E. Qed.

(* header_field with a non-empty name consumes input when the value parser does not grow it *)
Definition nonincr {A} (p : parser A) : Prop := forall i a r, p i = POk a r -> (length r <= length i)%nat.

Lemma header_field_shrinks {A} name (pv : parser A) i a r : name <> [] -> nonincr pv ->
  header_field name pv i = POk a r -> (length r < length i)%nat.
Proof.
  intros Hn Hp. unfold header_field, terminated, preceded.
  destruct (lit name i) as [u r1| | | |] eqn:E1; cbn [pbind]; try discriminate.
  destruct (lit SPACE r1) as [u2 r2| | | |] eqn:E2; cbn [pbind]; try discriminate.
  destruct (pv r2) as [v r3| | | |] eqn:E3; cbn [pbind]; try discriminate.
  destruct (lit NL r3) as [u4 r4| | | |] eqn:E4; cbn [pbind]; try discriminate.
  intros H. injection H as <- <-.
  apply lit_spec in E1, E2, E4. apply Hp in E3. subst i r1 r3.
  rewrite !app_length in *. destruct name; [congruence|]. cbn [length] in *. lia.
Qed.

Lemma hex_hash_nonincr : nonincr hex_hash.
Proof. intros i a r H. destruct (hex_hash_spec _ _ _ H) as (-> & _ & _). rewrite app_length. lia. Qed.

Lemma span_spec p : forall i a t, span p i = (a, t) -> i = a ++ t.
Proof.
  induction i as [|b r IH]; intros a t H; cbn [span] in H.
  - injection H as <- <-. reflexivity.
  - destruct (p b); [|injection H as <- <-; reflexivity].
    destruct (span p r) as [a' t'] eqn:E. injection H as <- <-. cbn [app]. f_equal. apply IH. reflexivity.
Qed.

Lemma take_till1_shrinks stop i a r : take_till1 stop i = POk a r -> (length r < length i)%nat.
Proof.
  unfold take_till1. destruct (span (fun b => negb (stop b)) i) as [x t] eqn:E.
  destruct x as [|b x]; [discriminate|]. intros H. injection H as <- <-.
  apply span_spec in E. subst i. rewrite app_length. cbn [length]. lia.
Qed.
Lemma take_till1_nonincr stop : nonincr (take_till1 stop).
Proof. intros i a r H. apply take_till1_shrinks in H. lia. Qed.

Lemma take_while_m_nonincr m p : nonincr (take_while_m m p).
Proof.
  intros i a r. unfold take_while_m. destruct (span p i) as [x t] eqn:E.
  destruct (Nat.ltb (length x) m); [discriminate|]. intros H. injection H as <- <-.
  apply span_spec in E. subst i. rewrite app_length. lia.
Qed.
Lemma take_while_mn_nonincr m n p : nonincr (take_while_mn m n p).
Proof.
  intros i a r. unfold take_while_mn. destruct (span_upto n p i) as [x t] eqn:E.
  destruct (Nat.ltb (length x) m); [discriminate|]. intros H. injection H as <- <-.
  destruct (span_upto_spec _ _ _ _ _ E) as (-> & _ & _). rewrite app_length. lia.
Qed.

Lemma find_sub_spec pat : forall i a t, find_sub pat i = Some (a, t) -> i = a ++ t.
Proof.
  induction i as [|b r IH]; intros a t H; cbn [find_sub] in H.
  - destruct (strip_prefix pat []); [injection H as <- <-; reflexivity|discriminate].
  - destruct (strip_prefix pat (b :: r)); [injection H as <- <-; reflexivity|].
    destruct (find_sub pat r) as [[a' t']|] eqn:E; [|discriminate]. injection H as <- <-.
    cbn [app]. f_equal. apply IH. reflexivity.
Qed.
Lemma take_until0_nonincr pat : nonincr (take_until0 pat).
Proof.
  intros i a r. unfold take_until0. destruct (find_sub pat i) as [[x t]|] eqn:E; [|discriminate].
  intros H. injection H as <- <-. apply find_sub_spec in E. subst i. rewrite app_length. lia.
Qed.
Lemma lit_nonincr t : nonincr (lit t).
Proof. intros i a r H. apply lit_spec in H. subst i. rewrite app_length. lia. Qed.
Lemma popt_nonincr {A} (p : parser A) : nonincr p -> nonincr (popt p).
Proof.
  intros Hp i a r. unfold popt. destruct (p i) as [v r1| | | |] eqn:E; try discriminate.
  - intros H. injection H as <- <-. apply Hp in E. exact E.
  - intros H. injection H as <- <-. lia.
Qed.
Lemma verify_map_nonincr {A B} (p : parser A) (f : A -> option B) : nonincr p -> nonincr (verify_map p f).
Proof.
  intros Hp i a r. unfold verify_map. destruct (p i) as [v r1| | | |] eqn:E; cbn [pbind]; try discriminate.
  destruct (f v); [|discriminate]. intros H. injection H as <- <-. apply Hp in E. exact E.
Qed.
Lemma terminated_nonincr {A B} (p : parser A) (q : parser B) : nonincr p -> nonincr q -> nonincr (terminated p q).
Proof.
  intros Hp Hq i a r. unfold terminated. destruct (p i) as [v r1| | | |] eqn:E; cbn [pbind]; try discriminate.
  destruct (q r1) as [w r2| | | |] eqn:E2; cbn [pbind]; try discriminate.
  intros H. injection H as <- <-. apply Hp in E. apply Hq in E2. lia.
Qed.
Lemma take1_nonincr : nonincr take1.
Proof. intros [|b i] a r H; cbn in H; [discriminate|]. injection H as <- <-. cbn [length]. lia. Qed.

Lemma time_parts_nonincr : nonincr time_parts.
Proof.
  intros i a r. unfold time_parts.
  destruct (verify_map (terminated (take_until0 SPACE) take1) (to_signed i64_min i64_max) i) as [v1 r1| | | |] eqn:E1; cbn [pbind]; try discriminate.
  apply (verify_map_nonincr _ _ (terminated_nonincr _ _ (take_until0_nonincr _) take1_nonincr)) in E1.
  unfold palt.
  destruct (pmap (fun _ : bytes => true) (take_while_m 1 is_minus r1)) as [v2 r2| | | |] eqn:E2; cbn [pbind]; try discriminate.
  - assert ((length r2 <= length r1)%nat) as L2.
    { unfold pmap in E2. destruct (take_while_m 1 is_minus r1) as [x rr| | | |] eqn:E; cbn [pbind] in E2; try discriminate.
      injection E2 as _ <-. apply take_while_m_nonincr in E. exact E. }
    destruct (verify_map (take_while_mn 2 2 is_dec_digit) (to_signed i32_min i32_max) r2) as [v3 r3| | | |] eqn:E3; cbn [pbind]; try discriminate.
    apply (verify_map_nonincr _ _ (take_while_mn_nonincr _ _ _)) in E3.
    destruct (verify_map (take_while_mn 1 2 is_dec_digit) (to_signed i32_min i32_max) r3) as [v4 r4| | | |] eqn:E4; cbn [pbind]; try discriminate.
    apply (verify_map_nonincr _ _ (take_while_mn_nonincr _ _ _)) in E4.
    destruct (take_while_m 0 is_dec_digit r4) as [v5 r5| | | |] eqn:E5; cbn [pbind]; try discriminate.
    apply take_while_m_nonincr in E5. intros H. injection H as <- <-. lia.
  - destruct (pmap (fun _ : bytes => false) (take_while_m 1 is_plus r1)) as [v2 r2| | | |] eqn:E2'; cbn [pbind]; try discriminate.
    assert ((length r2 <= length r1)%nat) as L2.
    { unfold pmap in E2'. destruct (take_while_m 1 is_plus r1) as [x rr| | | |] eqn:E; cbn [pbind] in E2'; try discriminate.
      injection E2' as _ <-. apply take_while_m_nonincr in E. exact E. }
    destruct (verify_map (take_while_mn 2 2 is_dec_digit) (to_signed i32_min i32_max) r2) as [v3 r3| | | |] eqn:E3; cbn [pbind]; try discriminate.
    apply (verify_map_nonincr _ _ (take_while_mn_nonincr _ _ _)) in E3.
    destruct (verify_map (take_while_mn 1 2 is_dec_digit) (to_signed i32_min i32_max) r3) as [v4 r4| | | |] eqn:E4; cbn [pbind]; try discriminate.
    apply (verify_map_nonincr _ _ (take_while_mn_nonincr _ _ _)) in E4.
    destruct (take_while_m 0 is_dec_digit r4) as [v5 r5| | | |] eqn:E5; cbn [pbind]; try discriminate.
    apply take_while_m_nonincr in E5. intros H. injection H as <- <-. lia.
Qed.

Lemma identity_nonincr : nonincr identity.
Proof.
  intros i a r. unfold identity.
  destruct (rfind_byte is_gt _) as [rd|]; [|discriminate].
  destruct (find_byte is_lt _) as [ld|]; [|discriminate].
  destruct (get_range _ _ _); [|discriminate].
  intros H. injection H as _ <-. rewrite skipn_length. lia.
Qed.

Lemma sig_decode_nonincr : nonincr sig_decode.
Proof.
  intros i a r. unfold sig_decode.
  destruct (identity i) as [ne r1| | | |] eqn:E1; cbn [pbind]; try discriminate.
  apply identity_nonincr in E1.
  destruct (popt (lit SPACE) r1) as [u r2| | | |] eqn:E2; cbn [pbind]; try discriminate.
  apply (popt_nonincr _ (lit_nonincr _)) in E2.
  destruct (popt time_parts r2) as [ot r3| | | |] eqn:E3; cbn [pbind]; try discriminate.
  apply (popt_nonincr _ time_parts_nonincr) in E3.
  intros H. injection H as <- <-. lia.
Qed.

(* ---- repeat0 -------------------------------------------------------------------------------------- *)

Lemma repeat0_fuel_indep {A} (p : parser A) : forall f1 f2 i, (length i < f1)%nat -> (length i < f2)%nat ->
  repeat0_fuel f1 p i = repeat0_fuel f2 p i.
Proof.
  induction f1 as [|f1 IH]; intros f2 i H1 H2; [lia|]. destruct f2 as [|f2]; [lia|].
  cbn [repeat0_fuel]. destruct (p i) as [a r| | | |]; try reflexivity.
  destruct (Nat.leb (length i) (length r)) eqn:L; [reflexivity|]. apply Nat.leb_gt in L.
  rewrite (IH f2 r) by lia. reflexivity.
Qed.

Lemma repeat0_unfold {A} (p : parser A) i :
  repeat0 p i = match p i with
                | PBack => POk [] i
                | PCut => PCut | PPanic => PPanic | PHang => PHang
                | POk a r => if Nat.leb (length i) (length r) then PPanic
                             else pbind (repeat0 p r) (fun l r' => POk (a :: l) r')
                end.
Proof.
  unfold repeat0 at 1. cbn [repeat0_fuel]. destruct (p i) as [a r| | | |]; try reflexivity.
  destruct (Nat.leb (length i) (length r)) eqn:L; [reflexivity|]. apply Nat.leb_gt in L.
  unfold repeat0. rewrite (repeat0_fuel_indep p (length i) (S (length r)) r) by lia. reflexivity.
Qed.

(* ---- the grammar cut into the iterator's stages ----------------------------------------------------- *)

Definition P_tree := header_field (bs "tree") hex_hash.
Definition P_parent := header_field (bs "parent") hex_hash.
Definition P_author := header_field (bs "author") sig_decode.
Definition P_committer := header_field (bs "committer") sig_decode.
Definition P_enc := header_field (bs "encoding") (take_till1 is_nl).
Definition P_msg := terminated commit_message peof.

Definition no_message (l : list (item ctoken)) : Prop := forall m, ~ In (IOk (CMessage m)) l.

Lemma no_message_nil : no_message []. Proof. intros m H. destruct H. Qed.
Lemma no_message_single_err : no_message [IErr]. Proof. intros m [H|[]]. discriminate. Qed.
Lemma no_message_single_panic : no_message [IPanic]. Proof. intros m [H|[]]. discriminate. Qed.
Lemma no_message_single_hang : no_message [IHang]. Proof. intros m [H|[]]. discriminate. Qed.
Lemma no_message_cons t l : (forall m, t <> CMessage m) -> no_message l -> no_message (IOk t :: l).
Proof. intros Ht Hl m [H|H]; [injection H as H; exact (Ht m H)|exact (Hl m H)]. Qed.

Definition xtok (kv : bytes * bytes) : ctoken := CExtra (fst kv) (snd kv).

Lemma P_msg_spec i m r : P_msg i = POk m r -> r = [] /\ i <> [].
Proof.
  unfold P_msg, terminated, commit_message. destruct i as [|b i]; [discriminate|].
  destruct (preceded (lit NL) prest (b :: i)) as [v r1| | | |]; cbn [pbind]; try discriminate.
  unfold peof. destruct r1; cbn [pbind]; [|discriminate]. intros H. injection H as _ <-. split; [reflexivity|discriminate].
Qed.

Lemma iter_nil fuel st : commit_iter_fuel fuel [] st = [].
Proof. destruct fuel; reflexivity. Qed.

(* stage Message *)
Lemma stage_message i fuel : (length i < fuel)%nat ->
  match P_msg i with
  | POk m _ => commit_iter_fuel fuel i StMessage = [IOk (CMessage m)]
  | PBack | PCut => no_message (commit_iter_fuel fuel i StMessage)
  | _ => True
  end.
Proof.
  intros Hf. destruct fuel as [|fuel]; [lia|].
  destruct i as [|b i]; [cbn; apply no_message_nil|].
  cbn [commit_iter_fuel commit_next_inner]. unfold ni_message, pmap. fold P_msg.
  destruct (P_msg (b :: i)) as [m r| | | |] eqn:E; cbn [pbind]; try exact I; try apply no_message_single_err.
  destruct (P_msg_spec _ _ _ E) as [-> _]. rewrite iter_nil. reflexivity.
Qed.

(* stage ExtraHeaders: the rest of the grammar from here *)
Definition rest_extra : parser (list (bytes * bytes) * bytes) :=
  fun i => pbind (repeat0 extra_header i) (fun xs r => pbind (P_msg r) (fun m r' => POk (xs, m) r')).

Lemma stage_extra fuel : forall i, (length i < fuel)%nat ->
  match rest_extra i with
  | POk (xs, m) _ => commit_iter_fuel fuel i StExtra = map IOk (map xtok xs ++ [CMessage m])
  | PBack | PCut => no_message (commit_iter_fuel fuel i StExtra)
  | _ => True
  end.
Proof.
  induction fuel as [|fuel IH]; intros i Hf; [lia|].
  destruct i as [|b i].
  { (* no data left: the iterator stops silently *)
    assert (rest_extra [] = PBack) as -> by (vm_compute; reflexivity). cbn. apply no_message_nil. }
  unfold rest_extra. rewrite repeat0_unfold.
  cbn [commit_iter_fuel commit_next_inner]. unfold ni_extra, popt.
  destruct (extra_header (b :: i)) as [[k v] r| | | |] eqn:E; cbn [pbind]; try exact I; try apply no_message_single_err.
  - destruct (Nat.leb (length (b :: i)) (length r)) eqn:L; cbn [pbind]; [exact I|]. apply Nat.leb_gt in L.
    specialize (IH r ltac:(cbn [length] in *; lia)). unfold rest_extra in IH.
    destruct (repeat0 extra_header r) as [l r'| | | |]; cbn [pbind] in *; try exact I;
      try (apply no_message_cons; [discriminate|exact IH]).
    destruct (P_msg r') as [m r''| | | |]; cbn [pbind] in *; try exact I;
      try (apply no_message_cons; [discriminate|exact IH]).
    rewrite IH. reflexivity.
  - (* no further header: fall through to the message *)
    pose proof (stage_message (b :: i) (S fuel) Hf) as M. cbn [commit_iter_fuel commit_next_inner] in M.
    unfold ni_message, pmap in *. fold P_msg in *.
    destruct (P_msg (b :: i)) as [m r| | | |] eqn:Em; cbn [pbind] in *; try exact I; try exact M.
Qed.

(* stage Encoding *)
Definition rest_enc : parser (option bytes * list (bytes * bytes) * bytes) :=
  fun i => pbind (popt P_enc i) (fun e r => pbind (rest_extra r) (fun xm r' => POk (e, fst xm, snd xm) r')).

Definition enc_toks (e : option bytes) : list ctoken := match e with Some e => [CEncoding e] | None => [] end.

Lemma P_enc_shrinks i e r : P_enc i = POk e r -> (length r < length i)%nat.
Proof. apply header_field_shrinks; [discriminate|apply take_till1_nonincr]. Qed.

Lemma stage_enc fuel i : (length i < fuel)%nat ->
  match rest_enc i with
  | POk (e, xs, m) _ => commit_iter_fuel fuel i StEncoding = map IOk (enc_toks e ++ map xtok xs ++ [CMessage m])
  | PBack | PCut => no_message (commit_iter_fuel fuel i StEncoding)
  | _ => True
  end.
Proof.
  intros Hf. destruct fuel as [|fuel]; [lia|].
  destruct i as [|b i].
  { assert (rest_enc [] = PBack) as -> by (vm_compute; reflexivity). cbn. apply no_message_nil. }
  unfold rest_enc, popt.
  cbn [commit_iter_fuel commit_next_inner]. unfold ni_encoding, popt. fold P_enc.
  destruct (P_enc (b :: i)) as [e r| | | |] eqn:E; cbn [pbind]; try exact I; try apply no_message_single_err.
  - apply P_enc_shrinks in E.
    pose proof (stage_extra fuel r ltac:(cbn [length] in *; lia)) as X.
    destruct (rest_extra r) as [[xs m] r'| | | |]; cbn [pbind fst snd] in *; try exact I;
      try (apply no_message_cons; [discriminate|exact X]).
    rewrite X. reflexivity.
  - pose proof (stage_extra (S fuel) (b :: i) Hf) as X. cbn [commit_iter_fuel commit_next_inner] in X.
    destruct (rest_extra (b :: i)) as [[xs m] r'| | | |]; cbn [pbind fst snd enc_toks app] in *; try exact I; exact X.
Qed.

Lemma P_committer_shrinks i a r : P_committer i = POk a r -> (length r < length i)%nat.
Proof. apply header_field_shrinks; [discriminate|apply sig_decode_nonincr]. Qed.
Lemma P_author_shrinks i a r : P_author i = POk a r -> (length r < length i)%nat.
Proof. apply header_field_shrinks; [discriminate|apply sig_decode_nonincr]. Qed.
Lemma P_parent_shrinks i a r : P_parent i = POk a r -> (length r < length i)%nat.
Proof. apply header_field_shrinks; [discriminate|apply hex_hash_nonincr]. Qed.
Lemma P_tree_shrinks i a r : P_tree i = POk a r -> (length r < length i)%nat.
Proof. apply header_field_shrinks; [discriminate|apply hex_hash_nonincr]. Qed.

(* stages Committer, Author *)
Definition rest_committer : parser (sig * option bytes * list (bytes * bytes) * bytes) :=
  fun i => pbind (P_committer i) (fun c r => pbind (rest_enc r) (fun exm r' =>
             POk (c, fst (fst exm), snd (fst exm), snd exm) r')).
Definition rest_author : parser (sig * sig * option bytes * list (bytes * bytes) * bytes) :=
  fun i => pbind (P_author i) (fun a r => pbind (rest_committer r) (fun v r' =>
             match v with (c, e, xs, m) => POk (a, c, e, xs, m) r' end)).

Definition tail_toks (a c : sig) (e : option bytes) (xs : list (bytes * bytes)) (m : bytes) : list ctoken :=
  CAuthor a :: CCommitter c :: enc_toks e ++ map xtok xs ++ [CMessage m].

Lemma stage_committer fuel i : (length i < fuel)%nat ->
  match rest_committer i with
  | POk (c, e, xs, m) _ =>
      commit_iter_fuel fuel i StCommitter = map IOk (CCommitter c :: enc_toks e ++ map xtok xs ++ [CMessage m])
  | PBack | PCut => no_message (commit_iter_fuel fuel i StCommitter)
  | _ => True
  end.
Proof.
  intros Hf. destruct fuel as [|fuel]; [lia|].
  destruct i as [|b i].
  { assert (rest_committer [] = PBack) as -> by (vm_compute; reflexivity). cbn. apply no_message_nil. }
  unfold rest_committer.
  cbn [commit_iter_fuel commit_next_inner]. unfold ni_committer, pmap. fold P_committer.
  destruct (P_committer (b :: i)) as [c r| | | |] eqn:E; cbn [pbind]; try exact I; try apply no_message_single_err.
  apply P_committer_shrinks in E.
  pose proof (stage_enc fuel r ltac:(cbn [length] in *; lia)) as X.
  destruct (rest_enc r) as [[[e xs] m] r'| | | |]; cbn [pbind fst snd] in *; try exact I;
    try (apply no_message_cons; [discriminate|exact X]).
  rewrite X. reflexivity.
Qed.

Lemma stage_author fuel i : (length i < fuel)%nat ->
  match rest_author i with
  | POk (a, c, e, xs, m) _ => commit_iter_fuel fuel i StAuthor = map IOk (tail_toks a c e xs m)
  | PBack | PCut => no_message (commit_iter_fuel fuel i StAuthor)
  | _ => True
  end.
Proof.
  intros Hf. destruct fuel as [|fuel]; [lia|].
  destruct i as [|b i].
  { assert (rest_author [] = PBack) as -> by (vm_compute; reflexivity). cbn. apply no_message_nil. }
  unfold rest_author.
  cbn [commit_iter_fuel commit_next_inner]. unfold ni_author, pmap. fold P_author.
  destruct (P_author (b :: i)) as [a r| | | |] eqn:E; cbn [pbind]; try exact I; try apply no_message_single_err.
  apply P_author_shrinks in E.
  pose proof (stage_committer fuel r ltac:(cbn [length] in *; lia)) as X.
  destruct (rest_committer r) as [[[[c e] xs] m] r'| | | |]; cbn [pbind] in *; try exact I;
    try (apply no_message_cons; [discriminate|exact X]).
  unfold tail_toks. cbn [map]. rewrite X. reflexivity.
Qed.

(* stage Parents *)
Definition rest_parents : parser (list bytes * (sig * sig * option bytes * list (bytes * bytes) * bytes)) :=
  fun i => pbind (repeat0 P_parent i) (fun ps r => pbind (rest_author r) (fun v r' => POk (ps, v) r')).

Lemma P_parent_spec i h r : P_parent i = POk h r -> exists id, oid_from_hex h = Some id.
Proof.
  unfold P_parent, header_field, terminated, preceded.
  destruct (lit (bs "parent") i) as [u r1| | | |]; cbn [pbind]; try discriminate.
  destruct (lit SPACE r1) as [u2 r2| | | |]; cbn [pbind]; try discriminate.
  destruct (hex_hash r2) as [v r3| | | |] eqn:E3; cbn [pbind]; try discriminate.
  destruct (lit NL r3) as [u4 r4| | | |]; cbn [pbind]; try discriminate.
  intros H. injection H as <- _. destruct (hex_hash_spec _ _ _ E3) as (_ & _ & Hid). exact Hid.
Qed.
Lemma P_tree_spec i h r : P_tree i = POk h r -> exists id, oid_from_hex h = Some id.
Proof.
  unfold P_tree, header_field, terminated, preceded.
  destruct (lit (bs "tree") i) as [u r1| | | |]; cbn [pbind]; try discriminate.
  destruct (lit SPACE r1) as [u2 r2| | | |]; cbn [pbind]; try discriminate.
  destruct (hex_hash r2) as [v r3| | | |] eqn:E3; cbn [pbind]; try discriminate.
  destruct (lit NL r3) as [u4 r4| | | |]; cbn [pbind]; try discriminate.
  intros H. injection H as <- _. destruct (hex_hash_spec _ _ _ E3) as (_ & _ & Hid). exact Hid.
Qed.

Lemma stage_parents fuel : forall i, (length i < fuel)%nat ->
  match rest_parents i with
  | POk (ps, (a, c, e, xs, m)) _ =>
      exists ids, parse_all ps = Some ids
        /\ commit_iter_fuel fuel i StParents = map IOk (map CParent ids ++ tail_toks a c e xs m)
  | PBack | PCut => no_message (commit_iter_fuel fuel i StParents)
  | _ => True
  end.
Proof.
  induction fuel as [|fuel IH]; intros i Hf; [lia|].
  destruct i as [|b i].
  { assert (rest_parents [] = PBack) as -> by (vm_compute; reflexivity). cbn. apply no_message_nil. }
  unfold rest_parents. rewrite repeat0_unfold.
  cbn [commit_iter_fuel commit_next_inner]. unfold ni_parents, popt. fold P_parent.
  destruct (P_parent (b :: i)) as [h r| | | |] eqn:E; cbn [pbind]; try exact I; try apply no_message_single_err.
  - destruct (P_parent_spec _ _ _ E) as [id Hid]. unfold with_id. rewrite Hid.
    destruct (Nat.leb (length (b :: i)) (length r)) eqn:L; cbn [pbind]; [exact I|]. apply Nat.leb_gt in L.
    specialize (IH r ltac:(cbn [length] in *; lia)). unfold rest_parents in IH.
    destruct (repeat0 P_parent r) as [ps r'| | | |]; cbn [pbind] in *; try exact I;
      try (apply no_message_cons; [discriminate|exact IH]).
    destruct (rest_author r') as [[[[[a c] e] xs] m] r''| | | |]; cbn [pbind] in *; try exact I;
      try (apply no_message_cons; [discriminate|exact IH]).
    destruct IH as (ids & Hp & Hi). exists (id :: ids). cbn [parse_all]. rewrite Hid, Hp. split; [reflexivity|].
    rewrite Hi. reflexivity.
  - pose proof (stage_author (S fuel) (b :: i) Hf) as X. cbn [commit_iter_fuel commit_next_inner] in X.
    destruct (rest_author (b :: i)) as [[[[[a c] e] xs] m] r''| | | |]; cbn [pbind] in *; try exact I; try exact X.
    exists []. split; [reflexivity|]. exact X.
Qed.

(* ---- the whole commit ------------------------------------------------------------------------------ *)

Definition commit_tokens (c : commitref) (t : bytes) (ps : list bytes) : list ctoken :=
  CTree t :: map CParent ps
  ++ tail_toks (c_author c) (c_committer c) (c_encoding c) (c_extra c) (c_message c).

Lemma commit_parser_stages i :
  commit_parser i =
  pbind (P_tree i) (fun t r1 => pbind (rest_parents r1) (fun v r' =>
    match v with (ps, (a, c, e, xs, m)) => POk (mkCommit t ps a c e xs m) r' end)).
Proof.
  unfold commit_parser, rest_parents, rest_author, rest_committer, rest_enc, rest_extra.
  fold P_tree P_parent P_author P_committer P_enc P_msg.
  destruct (P_tree i) as [t r1| | | |]; cbn [pbind]; try reflexivity.
  destruct (repeat0 P_parent r1) as [ps r2| | | |]; cbn [pbind]; try reflexivity.
  destruct (P_author r2) as [a r3| | | |]; cbn [pbind]; try reflexivity.
  destruct (P_committer r3) as [c r4| | | |]; cbn [pbind]; try reflexivity.
  destruct (popt P_enc r4) as [e r5| | | |]; cbn [pbind]; try reflexivity.
  destruct (repeat0 extra_header r5) as [xs r6| | | |]; cbn [pbind]; try reflexivity.
  destruct (P_msg r6) as [m r7| | | |]; cbn [pbind fst snd]; reflexivity.
Qed.

Lemma commit_stage_tree i :
  match commit_parser i with
  | POk c _ => exists t ps, oid_from_hex (c_tree c) = Some t /\ parse_all (c_parents c) = Some ps
                 /\ commit_iter i = map IOk (commit_tokens c t ps)
  | PBack | PCut => no_message (commit_iter i)
  | _ => True
  end.
Proof.
  destruct i as [|b i].
  { assert (commit_parser [] = PBack) as -> by (vm_compute; reflexivity). cbn. apply no_message_nil. }
  rewrite commit_parser_stages. unfold commit_iter.
  replace (length (b :: i) + 8)%nat with (S (length (b :: i) + 7))%nat by lia.
  cbn [commit_iter_fuel commit_next_inner]. unfold ni_tree. fold P_tree.
  destruct (P_tree (b :: i)) as [t r| | | |] eqn:E; cbn [pbind]; try exact I; try apply no_message_single_err.
  destruct (P_tree_spec _ _ _ E) as [id Hid]. unfold with_id. rewrite Hid.
  apply P_tree_shrinks in E.
  pose proof (stage_parents (length (b :: i) + 7) r ltac:(lia)) as X.
  destruct (rest_parents r) as [[ps [[[[a c] e] xs] m]] r'| | | |]; cbn [pbind] in *; try exact I;
    try (apply no_message_cons; [discriminate|exact X]).
  destruct X as (ids & Hp & Hi). exists id, ids. cbn [c_tree c_parents]. repeat split; try assumption.
  rewrite Hi. reflexivity.
Qed.

Lemma L_commit_iter_agrees data c : commit_decode data = Ok c ->
  exists t ps, oid_from_hex (c_tree c) = Some t /\ parse_all (c_parents c) = Some ps
               /\ commit_iter data = map IOk (commit_tokens c t ps).
Proof.
  unfold commit_decode, finish. pose proof (commit_stage_tree data) as S.
  destruct (commit_parser data) as [c' r| | | |]; try discriminate.
  intros H. apply Ok_inj in H. subst c'. exact S.
Qed.

Lemma L_commit_iter_on_failure data e : commit_decode data = Err e -> no_message (commit_iter data).
Proof.
  unfold commit_decode, finish. pose proof (commit_stage_tree data) as S.
  destruct (commit_parser data) as [c' r| | | |]; try discriminate; intros _; exact S.
Qed.

(* ---- re-encoding a decoded commit never reaches the `expect`s on the hex ids ------------------------ *)

Lemma obind_np {A B} (o : outcome A err) (f : A -> outcome B err) :
  o <> Panic -> (forall a, f a <> Panic) -> obind o f <> Panic.
Proof. destruct o; cbn [obind]; auto; discriminate. Qed.

Lemma sig_write_np s : sig_write s <> Panic.
Proof.
  unfold sig_write, validated_token, time_write.
  destruct (existsb illegal_in_token (s_name s)); cbn [obind]; try discriminate.
  destruct (existsb illegal_in_token (s_email s)); cbn [obind]; try discriminate.
  destruct (99 <? _); cbn [obind]; discriminate.
Qed.
Lemma ths_np n s : trusted_header_signature n s <> Panic.
Proof. unfold trusted_header_signature. apply obind_np; [apply sig_write_np|discriminate]. Qed.
Lemma whf_np n v : w_header_field n v <> Panic.
Proof. unfold w_header_field. destruct v; [discriminate|]. destruct (existsb is_nl (b :: v)); discriminate. Qed.
Lemma ehw_np l : extra_headers_write l <> Panic.
Proof.
  induction l as [|[n v] l IH]; cbn [extra_headers_write]; [discriminate|].
  apply obind_np.
  - unfold w_header_field_multi_line. destruct (lines_wt v); discriminate.
  - intros a. apply obind_np; [exact IH|discriminate].
Qed.

Lemma L_commit_write_np data c : commit_decode data = Ok c -> commit_write c <> Panic.
Proof.
  intros H. destruct (L_commit_iter_agrees data c H) as (t & ps & Ht & Hp & _).
  unfold commit_write. rewrite Ht, Hp.
  apply obind_np; [apply ths_np|intros a].
  apply obind_np; [apply ths_np|intros cm].
  apply obind_np; [destruct (c_encoding c); [apply whf_np|discriminate]|intros en].
  apply obind_np; [apply ehw_np|discriminate].
Qed.
