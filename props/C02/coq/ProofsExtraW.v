(* C02 — the writer folds the decoded value of an extra header back to git's bytes; whole commits *)
From Coq Require Import List Arith ZArith NArith Lia ZifyBool ZifyNat ZifyN Bool.
From GixV.Base Require Import Bytes BytesFacts Outcome.
From GixV.C02 Require Import Model Spec ProofsIter ProofsTime ProofsWrite ProofsSig ProofsCommitRT ProofsExtraRT.
Import ListNotations.

Lemma lines_wt_aux_nonl l : forall cur, cur <> [] -> existsb is_nl l = false -> lines_wt_aux cur l = [rev cur ++ l].
Proof.
  induction l as [|b l IH]; intros cur Hc H.
  - cbn [lines_wt_aux]. destruct cur; [congruence|]. rewrite app_nil_r. reflexivity.
  - cbn [existsb] in H. apply orb_false_iff in H. destruct H as [Hb Hl].
    cbn [lines_wt_aux]. rewrite Hb. rewrite (IH (b :: cur) ltac:(discriminate) Hl). cbn [rev].
    rewrite <- app_assoc. reflexivity.
Qed.
Lemma lines_wt_single l : l <> [] -> existsb is_nl l = false -> lines_wt l = [l].
Proof.
  intros Hne H. destruct l as [|b l]; [congruence|]. cbn [existsb] in H. apply orb_false_iff in H.
  destruct H as [Hb Hl]. unfold lines_wt. cbn [lines_wt_aux]. rewrite Hb.
  rewrite (lines_wt_aux_nonl l [b] ltac:(discriminate) Hl). reflexivity.
Qed.
Lemma ends_with_nl_nonl l : existsb is_nl l = false -> ends_with_nl l = false.
Proof.
  intros H. unfold ends_with_nl. rewrite <- existsb_rev in H. destruct (rev l) as [|b r]; [reflexivity|].
  cbn [existsb] in H. apply orb_false_iff in H. tauto.
Qed.

Definition nl_line (l : bytes) : bytes := l ++ [x0a].
Lemma lines_wt_nl_lines ls : forallb line_ok ls = true ->
  lines_wt_aux [] (concat (map nl_line ls)) = map nl_line ls.
Proof.
  induction ls as [|l ls IH]; intros H; [reflexivity|].
  cbn [forallb] in H. apply andb_true_iff in H. destruct H as [Hl Hls].
  cbn [map concat]. unfold nl_line at 1. rewrite <- app_assoc. cbn [app].
  rewrite (lines_wt_aux_line l [] _ (no_byte_false _ _ Hl)). cbn [rev app]. rewrite (IH Hls). reflexivity.
Qed.
Lemma nl_lines_end ls : ls <> [] -> exists v, concat (map nl_line ls) = v ++ [x0a].
Proof.
  induction ls as [|l ls IH]; [congruence|]. intros _. destruct ls as [|l' ls'].
  - exists l. cbn [map concat]. rewrite app_nil_r. reflexivity.
  - destruct (IH ltac:(discriminate)) as [v Hv]. exists (nl_line l ++ v).
    change (concat (map nl_line (l :: l' :: ls'))) with (nl_line l ++ concat (map nl_line (l' :: ls'))).
    rewrite Hv, app_assoc. reflexivity.
Qed.
Lemma ends_with_nl_snoc v : ends_with_nl (v ++ [x0a]) = true.
Proof. unfold ends_with_nl. rewrite rev_app_distr. reflexivity. Qed.

Lemma L_extra_writes x : extra_wf x = true ->
  w_header_field_multi_line (gx_name x) (extra_value x) = Ok (git_write_extra x).
Proof.
  intros H. destruct (extra_wf_parts x H) as (_ & _ & Fne & Fnl & Cok).
  unfold w_header_field_multi_line, extra_value. rewrite git_write_extra_shape.
  destruct (gx_conts x) as [|l ls] eqn:Ec.
  - rewrite (lines_wt_single _ Fne Fnl), (ends_with_nl_nonl _ Fnl). cbn [map concat app].
    unfold SPACE, NL. cbn [app]. reflexivity.
  - change (fun l0 : list byte => l0 ++ NL) with nl_line.
    unfold lines_wt. unfold NL at 1. cbn [app].
    rewrite (lines_wt_aux_line (gx_first x) [] _ Fnl). cbn [rev app].
    rewrite lines_wt_nl_lines by exact Cok.
    destruct (nl_lines_end (l :: ls) ltac:(discriminate)) as [v Hv]. unfold bytes in *.
    match goal with |- context [ends_with_nl ?V] => assert (ends_with_nl V = true) as -> end.
    { rewrite Hv. rewrite !app_assoc. apply ends_with_nl_snoc. }
    rewrite app_nil_r. unfold SPACE. cbn [app]. f_equal. f_equal. f_equal. rewrite <- app_assoc. cbn [app].
    f_equal. f_equal. rewrite map_map. reflexivity.
Qed.

Lemma L_extras_write xs : forallb extra_wf xs = true ->
  extra_headers_write (map extra_pair xs) = Ok (concat (map git_write_extra xs)).
Proof.
  induction xs as [|x xs IH]; intros H; [reflexivity|].
  cbn [forallb] in H. apply andb_true_iff in H. destruct H as [Hx Hxs].
  cbn [map extra_headers_write extra_pair]. rewrite (L_extra_writes x Hx). cbn [obind].
  fold (extra_pair). rewrite (IH Hxs). reflexivity.
Qed.

Lemma L_commit_writes c : commit_wf c = true ->
  commit_write (commitref_of c) = Ok (git_write_commit c).
Proof.
  unfold commit_wf. intros H.
  apply andb_true_iff in H. destruct H as [H _].
  apply andb_true_iff in H. destruct H as [H Hx].
  apply andb_true_iff in H. destruct H as [H He].
  apply andb_true_iff in H. destruct H as [H Hc].
  apply andb_true_iff in H. destruct H as [H Ha].
  apply andb_true_iff in H. destruct H as [Ht Hp].
  apply Nat.eqb_eq in Ht. apply enc_wf_parts in He.
  unfold commit_write, commitref_of. cbn [c_tree c_parents c_author c_committer c_encoding c_extra c_message].
  rewrite (oid_from_hex_encode _ Ht), (parse_all_encode _ Hp).
  unfold trusted_header_signature. rewrite (L_sig_write_of _ Ha), (L_sig_write_of _ Hc). cbn [obind].
  change (map (fun x : gextra => (gx_name x, extra_value x)) (gc_extra c)) with (map extra_pair (gc_extra c)).
  rewrite (L_extras_write _ Hx).
  unfold git_write_commit.
  destruct (gc_encoding c) as [e|].
  - destruct He as [Hne Hnl]. rewrite (w_header_field_line _ e Hne Hnl). cbn [obind].
    f_equal. unfold trusted_header_id, SPACE, NL.
    change (bs "tree ") with (bs "tree" ++ [x20]).
    change (bs "author ") with (bs "author" ++ [x20]).
    change (bs "committer ") with (bs "committer" ++ [x20]).
    change (bs "encoding ") with (bs "encoding" ++ [x20]).
    change (fun p : bytes => bs "parent " ++ hex_encode p ++ [x0a]) with (fun p : bytes => bs "parent" ++ [x20] ++ hex_encode p ++ [x0a]).
    rewrite <- ?app_assoc. cbn [app]. reflexivity.
  - cbn [obind]. f_equal. unfold trusted_header_id, SPACE, NL.
    change (bs "tree ") with (bs "tree" ++ [x20]).
    change (bs "author ") with (bs "author" ++ [x20]).
    change (bs "committer ") with (bs "committer" ++ [x20]).
    change (fun p : bytes => bs "parent " ++ hex_encode p ++ [x0a]) with (fun p : bytes => bs "parent" ++ [x20] ++ hex_encode p ++ [x0a]).
    rewrite <- ?app_assoc. cbn [app]. reflexivity.
Qed.
