(* C02 — theorems.  Only statements and `exact lemma` here.  NOTES.md says in plain words what each
   one means and what is not proved. *)
From GixV.Base Require Import Bytes Outcome.
From GixV.C02 Require Import Model Spec ProofsTree ProofsIter ProofsTagIter ProofsWrite ProofsKnown ProofsTime ProofsSig ProofsCommitRT ProofsExtraRT ProofsExtraW ProofsTagRT ProofsTagPGP.

(* ---- trees ------------------------------------------------------------------------------------ *)

(* TreeRefIter collected into a Result equals TreeRef::from_bytes, on EVERY byte string *)
Theorem tree_iter_agrees_with_full : forall data, collect (tree_iter data) = tree_decode data.
Proof. exact L_tree_iter_collect. Qed.

Theorem tree_iter_yields_the_entries : forall data es,
  tree_decode data = Ok es -> tree_iter data = map IOk es.
Proof. exact L_tree_iter_ok. Qed.

Theorem tree_iter_on_failure : forall data e,
  tree_decode data = Err e -> exists pre, tree_iter data = map IOk pre ++ [IErr].
Proof. exact L_tree_iter_err. Qed.

Theorem tree_decoders_total : forall data,
  (tree_decode data <> Panic /\ tree_decode data <> OutOfFuel)
  /\ (~ In IPanic (tree_iter data) /\ ~ In IHang (tree_iter data)).
Proof. intros data. split; [exact (L_tree_decode_total data)|exact (L_tree_iter_total data)]. Qed.

(* a tree as git writes it decodes to its entries (both decoders) and re-encodes verbatim *)
Theorem tree_git_roundtrip : forall l, tree_wf l = true ->
  tree_decode (git_write_tree l) = Ok l
  /\ tree_iter (git_write_tree l) = map IOk l
  /\ tree_write l = Ok (git_write_tree l).
Proof.
  intros l H. pose proof (L_tree_git_decodes l H) as D.
  split; [exact D|]. split; [exact (L_tree_iter_ok _ _ D)|exact (L_tree_reencode l H)].
Qed.

Example tree_example :
  tree_wf [mkEntry 33188 (bs "a-b") (repeat x11 20); mkEntry 16384 (bs "a") (repeat x00 20)] = true.
Proof. vm_compute. reflexivity. Qed.

(* ---- commits: the token stream is the field list, for EVERY byte string ------------------------- *)

(* whenever CommitRef::from_bytes accepts, CommitRefIter yields exactly Tree, Parent*, Author,
   Committer, Encoding?, ExtraHeader*, Message carrying the same values (ids: the hex text decoded),
   without error, panic or fuel exhaustion *)
Theorem commit_iter_agrees_with_full : forall data c, commit_decode data = Ok c ->
  exists t ps, oid_from_hex (c_tree c) = Some t /\ parse_all (c_parents c) = Some ps
               /\ commit_iter data = map IOk (commit_tokens c t ps).
Proof. exact L_commit_iter_agrees. Qed.

(* whenever CommitRef::from_bytes rejects, CommitRefIter never reaches a Message token: it ends in an
   error, or it silently stops at the end of a truncated object *)
Theorem commit_iter_on_failure : forall data e,
  commit_decode data = Err e -> forall m, ~ In (IOk (CMessage m)) (commit_iter data).
Proof. exact L_commit_iter_on_failure. Qed.

(* consequently re-encoding a decoded commit never hits the `expect` on the hex ids *)
Theorem commit_write_never_panics_on_decoded : forall data c,
  commit_decode data = Ok c -> commit_write c <> Panic.
Proof. exact L_commit_write_np. Qed.

(* ---- tags ---------------------------------------------------------------------------------------- *)

(* whenever TagRef::from_bytes accepts, TagRefIter yields Target, TargetKind, Name with the same values
   and then Tagger and Body with the same values — except that it stops as soon as the input is used
   up: an absent body (and an absent tagger before it) is then not reported ([tail_ok]) *)
Theorem tag_iter_agrees_with_full : forall data g, tag_decode data = Ok g ->
  exists id l, oid_from_hex (g_target g) = Some id
    /\ tag_iter data = IOk (TTarget id) :: IOk (TKind (g_kind g)) :: IOk (TName (g_name g)) :: l
    /\ tail_ok (g_tagger g) (g_message g) (g_pgp g) l.
Proof. exact L_tag_iter_agrees. Qed.

Theorem tag_iter_on_failure : forall data e,
  tag_decode data = Err e -> forall m p, ~ In (IOk (TBody m p)) (tag_iter data).
Proof. exact L_tag_iter_on_failure. Qed.

(* ---- writers: signatures as git formats them ------------------------------------------------------ *)

Theorem time_reencodes_as_git_wrote_it : forall t, time_wf t = true ->
  time_write (time_of t) = Ok (git_write_time t).
Proof. exact L_time_write_of. Qed.

Theorem signature_reencodes_as_git_wrote_it : forall s, sig_wf s = true ->
  sig_write (sig_of s) = Ok (git_write_sig s).
Proof. exact L_sig_write_of. Qed.

(* … and the decoder reads git's bytes back to exactly those values, stopping in front of the LF *)
Theorem time_decodes_as_git_wrote_it : forall t rest, time_wf t = true ->
  time_parts (git_write_time t ++ x0a :: rest) = POk (time_of t) (x0a :: rest).
Proof. exact L_time_parts_git. Qed.

Theorem signature_decodes_as_git_wrote_it : forall s rest, sig_wf s = true ->
  sig_decode (git_write_sig s ++ x0a :: rest) = POk (sig_of s) (x0a :: rest).
Proof. exact L_sig_decode_git. Qed.

Example sig_example : sig_wf (mkGSig (bs " A U Thor ") (bs "a b@c") (mkGTime (-1) true 99 59)) = true.
Proof. vm_compute. reflexivity. Qed.

(* ---- the round trip of git-written commits and tags: the FULL statements, proved below
   (commit_git_roundtrip, tag_git_roundtrip); the Examples are computed instances (non-vacuity) ------ *)

Definition commit_git_roundtrip_full_statement : Prop := forall c, commit_wf c = true ->
  commit_decode (git_write_commit c) = Ok (commitref_of c)
  /\ commit_iter (git_write_commit c) = map IOk (commit_tokens_of c)
  /\ commit_write (commitref_of c) = Ok (git_write_commit c).

(* PROVED part: every commit git writes WITHOUT extra headers (tree, any number of parents, author,
   committer, optional encoding, any message bytes) *)
Theorem commit_git_roundtrip_no_extra_headers : forall c, commit_wf c = true -> gc_extra c = [] ->
  commit_decode (git_write_commit c) = Ok (commitref_of c)
  /\ commit_iter (git_write_commit c) = map IOk (commit_tokens_of c)
  /\ commit_write (commitref_of c) = Ok (git_write_commit c).
Proof.
  intros c H Hx. pose proof (L_commit_plain_decodes c H Hx) as D.
  split; [exact D|]. split; [exact (L_iter_of_decoded c H D)|exact (L_commit_plain_writes c H Hx)].
Qed.

(* PROVED: EVERY commit git writes (any extra headers, single-line or folded like gpgsig/mergetag, with
   empty, indented or CR-terminated continuation lines) is accepted by the full decoder with exactly the
   written field values, and the streaming decoder yields exactly those values as tokens *)
Theorem commit_git_decodes_in_both_parsers : forall c, commit_wf c = true ->
  commit_decode (git_write_commit c) = Ok (commitref_of c)
  /\ commit_iter (git_write_commit c) = map IOk (commit_tokens_of c).
Proof.
  intros c H. pose proof (L_commit_decodes c H) as D. split; [exact D|exact (L_iter_of_decoded c H D)].
Qed.

(* PROVED: the full statement for commits — decode, token stream and verbatim re-encoding (hence the
   same id) for EVERY commit git writes *)
Theorem commit_git_roundtrip : commit_git_roundtrip_full_statement.
Proof.
  intros c H. pose proof (L_commit_decodes c H) as D.
  split; [exact D|]. split; [exact (L_iter_of_decoded c H D)|exact (L_commit_writes c H)].
Qed.

Definition tag_git_roundtrip_full_statement : Prop := forall g, tag_wf g = true ->
  tag_decode (git_write_tag g) = Ok (tagref_of g)
  /\ tag_write (tagref_of g) = Ok (git_write_tag g).

(* PROVED part for tags: every annotated tag git writes WITHOUT a PGP block (any of the four kinds, any
   valid name, tagger present or absent, any message not containing the armour header after a line break) *)
Theorem tag_git_roundtrip_without_pgp_block : forall g, tag_wf g = true -> gg_pgp g = None ->
  tag_decode (git_write_tag g) = Ok (tagref_of g)
  /\ tag_write (tagref_of g) = Ok (git_write_tag g).
Proof.
  intros g H Hp. split; [exact (L_tag_plain_decodes g H Hp)|exact (L_tag_plain_writes g H Hp)].
Qed.

(* PROVED: the full statement for tags, signed ones included *)
Theorem tag_git_roundtrip : tag_git_roundtrip_full_statement.
Proof. intros g H. split; [exact (L_tag_decodes g H)|exact (L_tag_writes g H)]. Qed.

Example commit_git_roundtrip_instance :
  commit_wf ex_commit = true
  /\ commit_decode (git_write_commit ex_commit) = Ok (commitref_of ex_commit)
  /\ commit_iter (git_write_commit ex_commit) = map IOk (commit_tokens_of ex_commit)
  /\ commit_write (commitref_of ex_commit) = Ok (git_write_commit ex_commit).
Proof. exact L_ex_commit. Qed.

Example tag_git_roundtrip_instance :
  tag_wf ex_tag = true
  /\ tag_decode (git_write_tag ex_tag) = Ok (tagref_of ex_tag)
  /\ tag_write (tagref_of ex_tag) = Ok (git_write_tag ex_tag).
Proof. exact L_ex_tag. Qed.

(* ---- known classes: tags `git mktag` creates, for which the statement is FALSE of the code --------- *)

Theorem mktag_objects_reencode_verbatim_refuted :
  (is_ok (tag_decode x_email_ws) = true /\ reencodes_verbatim x_email_ws = false)
  /\ (is_ok (tag_decode x_tz_minutes) = true /\ reencodes_verbatim x_tz_minutes = false)
  /\ (is_ok (tag_decode x_ts_plus) = true /\ reencodes_verbatim x_ts_plus = false)
  /\ (exists g, tag_decode x_tz_over = Ok g /\ tag_write g = Err EWrite)
  /\ (exists g, tag_decode x_name_dash = Ok g /\ tag_write g = Err EWrite)
  /\ (exists g, tag_decode x_no_sep = Ok g /\ tag_write g = Ok (x_no_sep ++ NL) /\ length (tag_iter x_no_sep) = 4%nat).
Proof.
  repeat split; first [apply L_known_email_ws | apply L_known_tz_minutes | apply L_known_ts_plus
                      | exact L_known_tz_over | exact L_known_name_dash | exact L_known_no_sep].
Qed.

Theorem mktag_objects_decode_refuted : tag_decode x_ts_space = Err EDecode.
Proof. exact L_known_ts_space. Qed.

Example mktag_plain_object_roundtrips : reencodes_verbatim x_plain = true /\ length (tag_iter x_plain) = 5%nat.
Proof. exact L_plain_ok. Qed.
