(* C02 — theorems.  Only statements and `exact lemma` here. *)
From GixV.Base Require Import Bytes Outcome.
From GixV.C02 Require Import Model Spec ProofsTree.

(* ---- trees ------------------------------------------------------------------------------------ *)

(* TreeRefIter collected into a Result equals TreeRef::from_bytes, on EVERY byte string *)
Theorem tree_iter_agrees_with_full : forall data, collect (tree_iter data) = tree_decode data.
Proof. exact L_tree_iter_collect. Qed.

Theorem tree_iter_yields_the_entries : forall data es,
  tree_decode data = Ok es -> tree_iter data = map IOk es.
Proof. exact L_tree_iter_ok. Qed.

Theorem tree_iter_on_failure : forall data e,
  tree_decode data = Err e -> exists pre, tree_iter data = map IOk pre ++ [IErr].
Proof. exact L_tree_iter_err. Qed.

Theorem tree_decoders_total : forall data,
  (tree_decode data <> Panic /\ tree_decode data <> OutOfFuel)
  /\ (~ In IPanic (tree_iter data) /\ ~ In IHang (tree_iter data)).
Proof. intros data. split; [exact (L_tree_decode_total data)|exact (L_tree_iter_total data)]. Qed.

(* a tree as git writes it decodes to its entries (both decoders) and re-encodes verbatim *)
Theorem tree_git_roundtrip : forall l, tree_wf l = true ->
  tree_decode (git_write_tree l) = Ok l
  /\ tree_iter (git_write_tree l) = map IOk l
  /\ tree_write l = Ok (git_write_tree l).
Proof.
  intros l H. pose proof (L_tree_git_decodes l H) as D.
  split; [exact D|]. split; [exact (L_tree_iter_ok _ _ D)|exact (L_tree_reencode l H)].
Qed.

Example tree_example :
  tree_wf [mkEntry 33188 (bs "a-b") (repeat x11 20); mkEntry 16384 (bs "a") (repeat x00 20)] = true.
Proof. vm_compute. reflexivity. Qed.
