(* C02 — decimal rendering facts, copied from props/C21 (itself from props/C01/coq/ProofsDec.v (dec_to_N inverts N_to_dec; all digits). *)
From Coq Require Import ZArith NArith Lia ZifyBool ZifyNat ZifyN List.
From GixV.Base Require Import Bytes BytesFacts Outcome.
Ltac Zify.zify_post_hook ::= Z.div_mod_to_equations.
Local Open Scope N_scope.

Lemma pow10_succ k : 10 ^ N.succ k = 10 * 10 ^ k.
Proof. apply N.pow_succ_r'. Qed.

(* ---- dec_to_N (N_to_dec n) = n ------------------------------------------------------------ *)

Lemma digit_ok d : d < 10 -> is_digit (N2b (48 + d)) = true /\ b2N (N2b (48 + d)) - 48 = d.
Proof.
  intros H. unfold is_digit. rewrite b2N_N2b_small by lia. split; lia.
Qed.

Lemma dec_to_N_acc_app a : forall acc b,
  dec_to_N_acc (a ++ b) acc =
  match dec_to_N_acc a acc with Some v => dec_to_N_acc b v | None => None end.
Proof.
  induction a as [|x a IH]; intros acc b; cbn [app dec_to_N_acc]; [reflexivity|].
  destruct (is_digit x); [apply IH|reflexivity].
Qed.

(* the digits produced in front of [acc] read back as n when followed by the value of acc *)
Lemma N_to_dec_fuel_value : forall fuel n acc,
  n < 2 ^ N.of_nat fuel -> (0 < fuel)%nat ->
  exists ds, N_to_dec_fuel fuel n acc = ds ++ acc /\ ds <> [] /\
             forall a0, dec_to_N_acc ds a0 = Some (a0 * 10 ^ N.of_nat (length ds) + n).
Proof.
  induction fuel as [|fuel IH]; intros n acc Hn Hf; [lia|].
  cbn [N_to_dec_fuel].
  destruct (digit_ok (n mod 10)) as [Hd Hv]; [lia|].
  destruct (N.eqb_spec (n / 10) 0) as [Hq|Hq].
  - exists [N2b (48 + n mod 10)]. split; [reflexivity|]. split; [discriminate|].
    intros a0. cbn [dec_to_N_acc length]. rewrite Hd, Hv. f_equal.
    change (10 ^ N.of_nat 1) with 10. lia.
  - destruct fuel as [|fuel].
    + exfalso. change (2 ^ N.of_nat 1) with 2 in Hn. lia.
    + destruct (IH (n / 10) (N2b (48 + n mod 10) :: acc)) as (ds & E & Hne & Hval).
      * replace (N.of_nat (S (S fuel))) with (N.succ (N.of_nat (S fuel))) in Hn by lia.
        rewrite N.pow_succ_r' in Hn. lia.
      * lia.
      * exists (ds ++ [N2b (48 + n mod 10)]). split.
        { rewrite E. rewrite <- app_assoc. reflexivity. }
        split. { destruct ds; discriminate. }
        intros a0. rewrite dec_to_N_acc_app, Hval. cbn [dec_to_N_acc]. rewrite Hd, Hv.
        f_equal. rewrite app_length. cbn [length].
        replace (N.of_nat (length ds + 1)) with (N.succ (N.of_nat (length ds))) by lia.
        rewrite pow10_succ. lia.
Qed.

Lemma N_to_dec_value n :
  N_to_dec n <> [] /\ forall rest a0,
    dec_to_N_acc (N_to_dec n ++ rest) a0 =
    dec_to_N_acc rest (a0 * 10 ^ N.of_nat (length (N_to_dec n)) + n).
Proof.
  unfold N_to_dec.
  destruct (N_to_dec_fuel_value (S (N.to_nat (N.log2 n))) n []) as (ds & E & Hne & Hval).
  - replace (N.of_nat (S (N.to_nat (N.log2 n)))) with (N.succ (N.log2 n)) by lia.
    destruct (N.eq_dec n 0) as [->|Hz]; [reflexivity|].
    apply N.log2_spec. lia.
  - lia.
  - rewrite E, app_nil_r. split; [exact Hne|].
    intros rest a0. rewrite dec_to_N_acc_app, Hval. reflexivity.
Qed.

Lemma dec_to_N_N_to_dec n : dec_to_N (N_to_dec n) = Some n.
Proof.
  destruct (N_to_dec_value n) as [Hne Hval].
  unfold dec_to_N. specialize (Hval [] 0). rewrite app_nil_r in Hval.
  destruct (N_to_dec n) as [|d ds] eqn:E; [congruence|].
  change (dec_to_N_acc (d :: ds) 0 = Some n). rewrite Hval.
  cbn [dec_to_N_acc]. f_equal.
Qed.

Lemma N_to_dec_all_digits n : forallb is_digit (N_to_dec n) = true.
Proof.
  unfold N_to_dec. generalize (S (N.to_nat (N.log2 n))) as fuel.
  assert (G : forall fuel n acc, forallb is_digit acc = true -> forallb is_digit (N_to_dec_fuel fuel n acc) = true).
  { induction fuel as [|fuel IH]; intros m acc Hacc; cbn [N_to_dec_fuel]; [exact Hacc|].
    destruct (digit_ok (m mod 10)) as [Hd _]; [lia|].
    destruct (N.eqb (m / 10) 0).
    - cbn [forallb]. rewrite Hd, Hacc. reflexivity.
    - apply IH. cbn [forallb]. rewrite Hd, Hacc. reflexivity. }
  intros fuel. apply G. reflexivity.
Qed.
