(* C02 — extra headers as git writes them (single-line, and folded over continuation lines such as
   gpgsig / mergetag, with empty, indented and CR-terminated lines): decoded to name and unfolded value *)
From Coq Require Import List Arith ZArith NArith Lia ZifyBool ZifyNat ZifyN Bool.
From GixV.Base Require Import Bytes BytesFacts Outcome.
From GixV.C02 Require Import Model Spec ProofsIter ProofsTime ProofsWrite ProofsSig ProofsCommitRT.
Import ListNotations.

Definition nsp (tail : bytes) : Prop := match tail with b :: _ => is_sp b = false | [] => True end.

Lemma lit_space_fail tail : nsp tail -> lit SPACE tail = PBack.
Proof.
  destruct tail as [|b t]; [reflexivity|]. cbn [nsp]. intros H. unfold lit, SPACE. cbn [strip_prefix].
  unfold is_sp in H. assert (beqb x20 b = false) as ->; [|reflexivity].
  destruct (beqb x20 b) eqn:E; [|reflexivity]. apply beqb_eq in E. subst b. discriminate.
Qed.

Lemma find_sub_nl d : forall tail, existsb is_nl d = false ->
  find_sub NL (d ++ x0a :: tail) = Some (d, x0a :: tail).
Proof.
  induction d as [|b d IH]; intros tail H; [reflexivity|].
  cbn [existsb] in H. apply orb_false_iff in H. destruct H as [Hb Hd].
  cbn [app find_sub NL strip_prefix].
  assert (beqb x0a b = false) as ->.
  { destruct (beqb x0a b) eqn:E; [|reflexivity]. apply beqb_eq in E. subst b. discriminate. }
  rewrite (IH tail Hd). reflexivity.
Qed.

Definition cont_line (l : bytes) : bytes := x20 :: l ++ [x0a].
Definition contp : parser bytes :=
  terminated (fun k => pbind (lit SPACE k) (fun _ r => take_until0 NL r)) (lit NL).

Lemma contp_hit l R : existsb is_nl l = false -> contp (cont_line l ++ R) = POk l R.
Proof.
  intros H. unfold contp, terminated, cont_line. cbn [app].
  change (x20 :: (l ++ [x0a]) ++ R) with (SPACE ++ (l ++ [x0a]) ++ R). rewrite lit_app. cbn [pbind].
  rewrite <- app_assoc. cbn [app]. unfold take_until0. rewrite (find_sub_nl l R H). cbn [pbind].
  change (x0a :: R) with (NL ++ R). rewrite lit_app. reflexivity.
Qed.
Lemma contp_fail tail : nsp tail -> contp tail = PBack.
Proof. intros H. unfold contp, terminated. rewrite (lit_space_fail tail H). reflexivity. Qed.

Lemma repeat0_conts ls : forall tail, forallb line_ok ls = true -> nsp tail ->
  repeat0 contp (concat (map cont_line ls) ++ tail) = POk ls tail.
Proof.
  induction ls as [|l ls IH]; intros tail H Ht.
  - cbn [map concat app]. rewrite repeat0_unfold, (contp_fail tail Ht). reflexivity.
  - cbn [forallb] in H. apply andb_true_iff in H. destruct H as [Hl Hls].
    cbn [map concat]. rewrite <- app_assoc. rewrite repeat0_unfold.
    rewrite (contp_hit l _ (no_byte_false _ _ Hl)).
    assert (Nat.leb (length (cont_line l ++ concat (map cont_line ls) ++ tail))
                    (length (concat (map cont_line ls) ++ tail)) = false) as ->.
    { apply Nat.leb_gt. rewrite (app_length (cont_line l)). unfold cont_line. cbn [length]. lia. }
    rewrite (IH tail Hls Ht). reflexivity.
Qed.

(* lines_with_terminator on LF-terminated, LF-free lines *)
Lemma lines_wt_aux_line l : forall cur r, existsb is_nl l = false ->
  lines_wt_aux cur (l ++ x0a :: r) = (rev cur ++ l ++ [x0a]) :: lines_wt_aux [] r.
Proof.
  induction l as [|b l IH]; intros cur r H.
  - cbn [app lines_wt_aux]. change (is_nl x0a) with true. cbv iota. cbn [rev]. reflexivity.
  - cbn [existsb] in H. apply orb_false_iff in H. destruct H as [Hb Hl].
    cbn [app lines_wt_aux]. rewrite Hb. rewrite (IH (b :: cur) r Hl). cbn [rev]. rewrite <- app_assoc. reflexivity.
Qed.
Lemma lines_wt_conts ls : forallb line_ok ls = true ->
  lines_wt_aux [] (concat (map cont_line ls)) = map cont_line ls.
Proof.
  induction ls as [|l ls IH]; intros H; [reflexivity|].
  cbn [forallb] in H. apply andb_true_iff in H. destruct H as [Hl Hls].
  cbn [map concat]. unfold cont_line at 1. cbn [app]. rewrite <- app_assoc. cbn [app].
  change (x20 :: l ++ x0a :: concat (map cont_line ls)) with ((x20 :: l) ++ x0a :: concat (map cont_line ls)).
  rewrite lines_wt_aux_line.
  2:{ cbn [existsb]. rewrite (no_byte_false _ _ Hl). reflexivity. }
  cbn [rev app]. rewrite (IH Hls). reflexivity.
Qed.
Lemma unfold_lines_conts ls : unfold_lines (map cont_line ls) = Some (concat (map (fun l => l ++ NL) ls)).
Proof.
  induction ls as [|l ls IH]; [reflexivity|]. cbn [map unfold_lines cont_line]. rewrite IH. reflexivity.
Qed.

Lemma span_name (n : bytes) r : existsb is_sp_or_nl n = false ->
  span (fun b => negb (is_sp_or_nl b)) (n ++ x20 :: r) = (n, x20 :: r).
Proof.
  induction n as [|b n IH]; cbn [existsb app span]; intros H; [reflexivity|].
  apply orb_false_iff in H. destruct H as [Hb Hn]. rewrite Hb. cbn [negb]. rewrite (IH Hn). reflexivity.
Qed.
Lemma name_hit n r : n <> [] -> existsb is_sp_or_nl n = false ->
  terminated (take_till1 is_sp_or_nl) (lit SPACE) (n ++ x20 :: r) = POk n r.
Proof.
  intros Hne H. unfold terminated, take_till1. rewrite (span_name n r H).
  destruct n as [|b n]; [congruence|]. cbn [pbind]. change (x20 :: r) with (SPACE ++ r). rewrite lit_app. reflexivity.
Qed.

Definition extra_pair (x : gextra) : bytes * bytes := (gx_name x, extra_value x).

Lemma extra_wf_parts x : extra_wf x = true ->
  gx_name x <> [] /\ existsb is_sp_or_nl (gx_name x) = false /\ gx_first x <> []
  /\ existsb is_nl (gx_first x) = false /\ forallb line_ok (gx_conts x) = true.
Proof.
  unfold extra_wf. intros H.
  apply andb_true_iff in H. destruct H as [H H5].
  apply andb_true_iff in H. destruct H as [H H4].
  apply andb_true_iff in H. destruct H as [H H3].
  apply andb_true_iff in H. destruct H as [H1 H2].
  repeat split; try assumption.
  - destruct (gx_name x); [discriminate|discriminate].
  - apply no_byte_false. exact H2.
  - destruct (gx_first x); [discriminate|discriminate].
  - apply no_byte_false. exact H4.
Qed.

Lemma git_write_extra_shape x :
  git_write_extra x = gx_name x ++ x20 :: gx_first x ++ x0a :: concat (map cont_line (gx_conts x)).
Proof.
  unfold git_write_extra.
  change (fun l : bytes => bs " " ++ l ++ NL) with cont_line.
  change (bs " ") with [x20]. unfold NL. rewrite <- ?app_assoc. cbn [app]. reflexivity.
Qed.

Lemma extra_header_hit x tail : extra_wf x = true -> nsp tail ->
  extra_header (git_write_extra x ++ tail) = POk (extra_pair x) tail.
Proof.
  intros H Ht. destruct (extra_wf_parts x H) as (Nne & Nsp & Fne & Fnl & Cok).
  rewrite git_write_extra_shape. rewrite <- app_assoc. cbn [app]. rewrite <- app_assoc. cbn [app].
  unfold extra_header, palt, any_header_field_multi_line.
  rewrite (name_hit _ _ Nne Nsp). cbn [pbind].
  unfold multi_line_value, recognize.
  rewrite (take_till1_line _ _ Fne Fnl). cbn [pbind].
  change (x0a :: concat (map cont_line (gx_conts x)) ++ tail) with (NL ++ concat (map cont_line (gx_conts x)) ++ tail).
  rewrite lit_app. cbn [pbind]. fold contp. unfold repeat1.
  destruct (gx_conts x) as [|l ls] eqn:Ec.
  - (* single line: the folded reading backtracks, the plain one takes the line *)
    cbn [map concat app]. rewrite (contp_fail tail Ht). cbn [pbind].
    unfold any_header_field, terminated.
    change (gx_name x ++ x20 :: gx_first x ++ NL ++ tail) with (gx_name x ++ x20 :: gx_first x ++ x0a :: tail).
    pose proof (name_hit _ (gx_first x ++ x0a :: tail) Nne Nsp) as Hn. unfold terminated in Hn. rewrite Hn. cbn [pbind].
    rewrite (take_till1_line _ _ Fne Fnl). cbn [pbind].
    change (x0a :: tail) with (NL ++ tail). rewrite lit_app. cbn [pbind].
    unfold extra_pair, extra_value. rewrite Ec. reflexivity.
  - cbn [forallb] in Cok. apply andb_true_iff in Cok. destruct Cok as [Hl Hls].
    cbn [map concat]. rewrite <- app_assoc. rewrite (contp_hit l _ (no_byte_false _ _ Hl)). cbn [pbind].
    assert (Nat.leb (length (cont_line l ++ concat (map cont_line ls) ++ tail))
                    (length (concat (map cont_line ls) ++ tail)) = false) as ->.
    { apply Nat.leb_gt. rewrite (app_length (cont_line l)). unfold cont_line. cbn [length]. lia. }
    rewrite (repeat0_conts ls tail Hls Ht). cbn [pbind].
    (* the recognised slice *)
    set (O := gx_first x ++ x0a :: cont_line l ++ concat (map cont_line ls)).
    assert (EO : gx_first x ++ NL ++ cont_line l ++ concat (map cont_line ls) ++ tail = O ++ tail).
    { unfold O, NL. rewrite <- !app_assoc. cbn [app]. rewrite <- !app_assoc. reflexivity. }
    rewrite EO.
    replace (length (O ++ tail) - length tail)%nat with (length O) by (rewrite app_length; lia).
    rewrite firstn_app_exact.
    (* unfolding *)
    unfold unfold_value, lines_wt. unfold O.
    rewrite (lines_wt_aux_line (gx_first x) [] _ Fnl). cbn [rev app].
    change (cont_line l ++ concat (map cont_line ls)) with (concat (map cont_line (l :: ls))).
    rewrite (lines_wt_conts (l :: ls)) by (cbn [forallb]; rewrite Hl, Hls; reflexivity).
    rewrite unfold_lines_conts. cbn [pbind].
    unfold extra_pair, extra_value. rewrite Ec. rewrite <- app_assoc. reflexivity.
Qed.

Lemma nsp_extra x r : extra_wf x = true -> nsp (git_write_extra x ++ r).
Proof.
  intros H. destruct (extra_wf_parts x H) as (Nne & Nsp & _). rewrite git_write_extra_shape.
  destruct (gx_name x) as [|b n]; [congruence|]. cbn [app nsp]. cbn [existsb] in Nsp.
  apply orb_false_iff in Nsp. destruct Nsp as [Hb _]. unfold is_sp_or_nl in Hb.
  apply orb_false_iff in Hb. tauto.
Qed.
Lemma git_write_extra_nonempty x : (0 < length (git_write_extra x))%nat.
Proof. rewrite git_write_extra_shape. rewrite app_length. cbn [length]. lia. Qed.

Lemma repeat0_extras xs : forall m, forallb extra_wf xs = true ->
  repeat0 extra_header (concat (map git_write_extra xs) ++ x0a :: m) = POk (map extra_pair xs) (x0a :: m).
Proof.
  induction xs as [|x xs IH]; intros m H.
  - cbn [map concat app]. rewrite repeat0_unfold, extra_header_at_nl. reflexivity.
  - cbn [forallb] in H. apply andb_true_iff in H. destruct H as [Hx Hxs].
    cbn [map concat]. rewrite <- app_assoc. rewrite repeat0_unfold.
    rewrite (extra_header_hit x _ Hx).
    2:{ destruct xs as [|x' xs']; [cbn; reflexivity|]. cbn [map concat]. rewrite <- app_assoc.
        cbn [forallb] in Hxs. apply andb_true_iff in Hxs. apply nsp_extra. tauto. }
    assert (Nat.leb (length (git_write_extra x ++ concat (map git_write_extra xs) ++ x0a :: m))
                    (length (concat (map git_write_extra xs) ++ x0a :: m)) = false) as ->.
    { apply Nat.leb_gt. rewrite (app_length (git_write_extra x)). pose proof (git_write_extra_nonempty x). lia. }
    rewrite (IH m Hxs). reflexivity.
Qed.

(* a header named differently is not taken for the encoding header *)
Lemma name_mismatch t : forall n r, existsb is_sp t = false -> existsb is_sp n = false -> t <> n ->
  terminated (lit t) (lit SPACE) (n ++ x20 :: r) = PBack.
Proof.
  induction t as [|x t IH]; intros n r Ht Hn Hne.
  - destruct n as [|y n]; [congruence|]. unfold terminated, lit. cbn [strip_prefix pbind app SPACE].
    cbn [existsb] in Hn. apply orb_false_iff in Hn. destruct Hn as [Hy _]. unfold is_sp in Hy.
    assert (beqb x20 y = false) as ->; [|reflexivity].
    destruct (beqb x20 y) eqn:E; [|reflexivity]. apply beqb_eq in E. subst y. discriminate.
  - cbn [existsb] in Ht. apply orb_false_iff in Ht. destruct Ht as [Hx Ht]. unfold is_sp in Hx.
    destruct n as [|y n].
    + unfold terminated, lit. cbn [app strip_prefix]. rewrite Hx. reflexivity.
    + cbn [existsb] in Hn. apply orb_false_iff in Hn. destruct Hn as [_ Hn].
      unfold terminated, lit. cbn [app strip_prefix]. destruct (beqb x y) eqn:E; [|reflexivity].
      apply beqb_eq in E. subst y. assert (t <> n) as Hne' by congruence.
      specialize (IH n r Ht Hn Hne'). unfold terminated, lit in IH. exact IH.
Qed.

Lemma sp_of_sp_or_nl n : existsb is_sp_or_nl n = false -> existsb is_sp n = false.
Proof.
  induction n as [|b n IH]; [reflexivity|]. cbn [existsb]. intros H. apply orb_false_iff in H.
  destruct H as [Hb Hn]. unfold is_sp_or_nl in Hb. apply orb_false_iff in Hb. destruct Hb as [Hb _].
  rewrite Hb, (IH Hn). reflexivity.
Qed.

Lemma P_enc_not_extra x r : extra_wf x = true -> bytes_eqb (gx_name x) (bs "encoding") = false ->
  P_enc (git_write_extra x ++ r) = PBack.
Proof.
  intros H Hne. destruct (extra_wf_parts x H) as (_ & Nsp & _). rewrite git_write_extra_shape.
  rewrite <- app_assoc. cbn [app].
  unfold P_enc, header_field. unfold terminated at 1. unfold preceded.
  rewrite (name_mismatch (bs "encoding") (gx_name x) _ eq_refl (sp_of_sp_or_nl _ Nsp)); [reflexivity|].
  intros E. rewrite <- E in Hne. rewrite (proj2 (bytes_eqb_eq _ _) eq_refl) in Hne. discriminate.
Qed.

Definition extras_text (c : gcommit) : bytes := concat (map git_write_extra (gc_extra c)).

Lemma popt_enc_general c :
  match gc_encoding c with Some e => e <> [] /\ existsb is_nl e = false | None => True end ->
  forallb extra_wf (gc_extra c) = true -> first_extra_ok (gc_encoding c) (gc_extra c) = true ->
  popt P_enc (enc_line (gc_encoding c) ++ extras_text c ++ x0a :: gc_message c)
  = POk (gc_encoding c) (extras_text c ++ x0a :: gc_message c).
Proof.
  intros He Hx Hf. unfold popt. destruct (gc_encoding c) as [e|].
  - destruct He as [Hne Hnl]. unfold enc_line, P_enc.
    replace ((bs "encoding " ++ e ++ NL) ++ extras_text c ++ x0a :: gc_message c)
      with (bs "encoding" ++ x20 :: e ++ x0a :: (extras_text c ++ x0a :: gc_message c))
      by (change (bs "encoding ") with (bs "encoding" ++ [x20]); unfold NL; rewrite <- ?app_assoc; reflexivity).
    rewrite (hf_hit _ _ e e _ (take_till1_line e _ Hne Hnl)). reflexivity.
  - cbn [enc_line app]. unfold extras_text. destruct (gc_extra c) as [|x xs].
    + cbn [map concat app]. rewrite P_enc_at_nl. reflexivity.
    + cbn [map concat]. rewrite <- app_assoc. cbn [forallb] in Hx. apply andb_true_iff in Hx. destruct Hx as [Hx _].
      cbn [first_extra_ok] in Hf. apply negb_true_iff in Hf. rewrite (P_enc_not_extra x _ Hx Hf). reflexivity.
Qed.

Lemma git_write_commit_shape c :
  git_write_commit c =
  bs "tree" ++ x20 :: hex_encode (gc_tree c) ++ x0a ::
  (concat (map parent_line (gc_parents c)) ++
   (bs "author" ++ x20 :: git_write_sig (gc_author c) ++ x0a ::
    (bs "committer" ++ x20 :: git_write_sig (gc_committer c) ++ x0a ::
     (enc_line (gc_encoding c) ++ extras_text c ++ x0a :: gc_message c)))).
Proof.
  unfold git_write_commit, extras_text.
  change (fun p : bytes => bs "parent " ++ hex_encode p ++ NL) with parent_line.
  change (bs "tree ") with (bs "tree" ++ [x20]).
  change (bs "author ") with (bs "author" ++ [x20]).
  change (bs "committer ") with (bs "committer" ++ [x20]).
  unfold enc_line, NL. destruct (gc_encoding c);
    rewrite <- ?app_assoc; cbn [app]; reflexivity.
Qed.

Lemma L_commit_decodes c : commit_wf c = true ->
  commit_decode (git_write_commit c) = Ok (commitref_of c).
Proof.
  unfold commit_wf. intros H.
  apply andb_true_iff in H. destruct H as [H Hf].
  apply andb_true_iff in H. destruct H as [H Hx].
  apply andb_true_iff in H. destruct H as [H He].
  apply andb_true_iff in H. destruct H as [H Hc].
  apply andb_true_iff in H. destruct H as [H Ha].
  apply andb_true_iff in H. destruct H as [Ht Hp].
  apply Nat.eqb_eq in Ht. apply enc_wf_parts in He.
  rewrite (git_write_commit_shape c).
  unfold commit_decode. rewrite commit_parser_stages.
  unfold P_tree. rewrite (hf_hit _ _ _ _ _ (hex_hash_hit (gc_tree c) _ Ht)). cbn [pbind].
  unfold rest_parents. rewrite (repeat0_parents _ _ Hp (P_parent_at_author _)). cbn [pbind].
  unfold rest_author, P_author. rewrite (sig_header_hit _ _ _ Ha). cbn [pbind].
  unfold rest_committer, P_committer. rewrite (sig_header_hit _ _ _ Hc). cbn [pbind].
  unfold rest_enc. rewrite (popt_enc_general c He Hx Hf).
  cbn [pbind]. unfold rest_extra, extras_text. rewrite (repeat0_extras _ _ Hx). cbn [pbind].
  rewrite P_msg_hit. cbn [pbind fst snd finish].
  unfold commitref_of, extra_pair. reflexivity.
Qed.
