(* C02 — annotated tags as git writes them (without a PGP block): decode = the values, writer gives the bytes back *)
From Coq Require Import List Arith ZArith NArith Lia ZifyBool ZifyNat ZifyN Bool.
From GixV.Base Require Import Bytes BytesFacts Outcome.
From GixV.C02 Require Import Model Spec ProofsIter ProofsTagIter ProofsTime ProofsWrite ProofsSig ProofsCommitRT.
Import ListNotations.

(* a valid tag name has no LF (no control byte at all) *)
Lemma nl_invalid : forall b, is_nl b = true -> invalid_ref_byte b = true.
Proof.
  assert (H : forall b, (negb (is_nl b) || invalid_ref_byte b) = true) by (apply forall_bytes; vm_compute; reflexivity).
  intros b Hb. specialize (H b). rewrite Hb in H. exact H.
Qed.
Lemma name_loop_no_nl input last rest : forall pos prev ce,
  name_loop input last rest pos prev ce = true -> existsb is_nl rest = false.
Proof.
  induction rest as [|b r IH]; intros pos prev ce H; [reflexivity|].
  cbn [name_loop] in H. cbn [existsb].
  destruct (invalid_ref_byte b) eqn:Ei; [discriminate|].
  assert (is_nl b = false) as ->.
  { destruct (is_nl b) eqn:E; [|reflexivity]. rewrite (nl_invalid b E) in Ei. discriminate. }
  cbn [orb].
  repeat match type of H with (if ?c then false else _) = true => destruct c; [discriminate|] end.
  exact (IH _ _ _ H).
Qed.
Lemma tag_name_no_nl n : tag_name_valid n = true -> n <> [] /\ existsb is_nl n = false.
Proof.
  unfold tag_name_valid. destruct n as [|f n]; [discriminate|]. intros H. split; [discriminate|].
  repeat match type of H with (if ?c then false else _) = true => destruct c eqn:?; [discriminate|] end.
  match goal with E : negb (name_loop _ _ _ _ _ _) = false |- _ => apply negb_false_iff in E; exact (name_loop_no_nl _ _ _ _ _ _ E) end.
Qed.

Lemma take_while_line n r : n <> [] -> existsb is_nl n = false ->
  take_while_m 1 not_nl (n ++ x0a :: r) = POk n (x0a :: r).
Proof.
  intros Hne H. unfold take_while_m.
  change (span not_nl) with (span (fun b => negb (is_nl b))). rewrite (span_line n r H).
  destruct n; [congruence|reflexivity].
Qed.

Lemma kind_hit k r : T_kind (bs "type" ++ x20 :: kind_bytes k ++ x0a :: r) = POk (kind_bytes k) r.
Proof. apply hf_hit. destruct k; reflexivity. Qed.
Lemma kind_back k : kind_from_bytes (kind_bytes k) = Some k.
Proof. destruct k; reflexivity. Qed.

Definition tagger_line (s : option gsig) : bytes :=
  match s with Some s => bs "tagger" ++ x20 :: git_write_sig s ++ [x0a] | None => [] end.

Lemma git_write_tag_shape g : gg_pgp g = None ->
  git_write_tag g =
  bs "object" ++ x20 :: hex_encode (gg_target g) ++ x0a ::
  (bs "type" ++ x20 :: kind_bytes (gg_kind g) ++ x0a ::
   (bs "tag" ++ x20 :: gg_name g ++ x0a :: (tagger_line (gg_tagger g) ++ x0a :: gg_message g))).
Proof.
  intros Hp. unfold git_write_tag, tagger_line. rewrite Hp.
  change (bs "object ") with (bs "object" ++ [x20]).
  change (bs "type ") with (bs "type" ++ [x20]).
  change (bs "tag ") with (bs "tag" ++ [x20]).
  change (bs "tagger ") with (bs "tagger" ++ [x20]).
  unfold NL. destruct (gg_tagger g); repeat (rewrite <- app_assoc; cbn [app]); rewrite ?app_nil_r; reflexivity.
Qed.

Lemma T_msg_plain m : has_sub PGP_BEGIN_NL m = false -> T_msg (x0a :: m) = POk (m, None) [].
Proof.
  intros H. unfold T_msg, terminated, tag_message.
  change (x0a :: m) with (NL ++ m). rewrite lit_app. cbn [pbind]. unfold palt, take_until0.
  unfold has_sub in H. destruct (find_sub PGP_BEGIN_NL m) as [[a t]|]; [discriminate|]. cbn [pbind].
  unfold prest, pmap. cbn [pbind]. reflexivity.
Qed.

Lemma tag_wf_parts g : tag_wf g = true ->
  length (gg_target g) = 20%nat /\ tag_name_valid (gg_name g) = true
  /\ (match gg_name g with b :: _ => negb (beqb b "-"%byte) | [] => false end) = true
  /\ (match gg_tagger g with Some s => sig_wf s | None => true end) = true
  /\ has_sub PGP_BEGIN_NL (gg_message g) = false.
Proof.
  unfold tag_wf. intros H.
  apply andb_true_iff in H. destruct H as [H _].
  apply andb_true_iff in H. destruct H as [H H5].
  apply andb_true_iff in H. destruct H as [H H4].
  apply andb_true_iff in H. destruct H as [H H3].
  apply andb_true_iff in H. destruct H as [H1 H2].
  apply Nat.eqb_eq in H1. apply negb_true_iff in H5. repeat split; assumption.
Qed.

Lemma L_tag_plain_decodes g : tag_wf g = true -> gg_pgp g = None ->
  tag_decode (git_write_tag g) = Ok (tagref_of g).
Proof.
  intros H Hp. destruct (tag_wf_parts g H) as (Ht & Hn & _ & Hs & Hm).
  destruct (tag_name_no_nl _ Hn) as [Nne Nnl].
  rewrite (git_write_tag_shape g Hp). unfold tag_decode. rewrite tag_parser_stages.
  unfold T_target. rewrite (hf_hit _ _ _ _ _ (hex_hash_hit (gg_target g) _ Ht)). cbn [pbind].
  unfold verify_map. rewrite kind_hit. cbn [pbind]. rewrite kind_back. cbv beta iota. cbn [pbind].
  unfold T_name. rewrite (hf_hit _ _ _ _ _ (take_while_line _ _ Nne Nnl)). cbn [pbind].
  unfold rest_tagger, popt.
  destruct (gg_tagger g) as [s|] eqn:Eg.
  - unfold tagger_line, T_tagger. repeat (rewrite <- app_assoc; cbn [app]).
    rewrite (sig_header_hit _ _ _ Hs). cbn [pbind]. rewrite (T_msg_plain _ Hm). cbn [pbind fst snd finish].
    unfold tagref_of. rewrite Eg, Hp. reflexivity.
  - cbn [tagger_line app]. assert (T_tagger (x0a :: gg_message g) = PBack) as -> by reflexivity.
    cbn [pbind]. rewrite (T_msg_plain _ Hm). cbn [pbind fst snd finish].
    unfold tagref_of. rewrite Eg, Hp. reflexivity.
Qed.

Lemma L_tag_plain_writes g : tag_wf g = true -> gg_pgp g = None ->
  tag_write (tagref_of g) = Ok (git_write_tag g).
Proof.
  intros H Hp. destruct (tag_wf_parts g H) as (Ht & Hn & Hd & Hs & Hm).
  destruct (tag_name_no_nl _ Hn) as [Nne Nnl].
  unfold tag_write, tagref_of. cbn [g_target g_kind g_name g_tagger g_message g_pgp].
  unfold validated_name. rewrite Hn. destruct (gg_name g) as [|b n] eqn:En; [congruence|].
  apply negb_true_iff in Hd. rewrite Hd. cbn [obind].
  rewrite (w_header_field_line _ (b :: n) Nne Nnl). cbn [obind].
  unfold git_write_tag. rewrite Hp, En.
  destruct (gg_tagger g) as [s|]; cbn [option_map].
  - unfold trusted_header_signature. rewrite (L_sig_write_of _ Hs). cbn [obind]. f_equal.
    unfold trusted_header_field, SPACE, NL.
    change (bs "object ") with (bs "object" ++ [x20]).
    change (bs "type ") with (bs "type" ++ [x20]).
    change (bs "tag ") with (bs "tag" ++ [x20]).
    change (bs "tagger ") with (bs "tagger" ++ [x20]).
    repeat (rewrite <- app_assoc; cbn [app]). rewrite ?app_nil_r. reflexivity.
  - cbn [obind]. f_equal. unfold trusted_header_field, SPACE, NL.
    change (bs "object ") with (bs "object" ++ [x20]).
    change (bs "type ") with (bs "type" ++ [x20]).
    change (bs "tag ") with (bs "tag" ++ [x20]).
    repeat (rewrite <- app_assoc; cbn [app]). rewrite ?app_nil_r. reflexivity.
Qed.
