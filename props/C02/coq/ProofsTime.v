(* C02 — the time part of a signature: what git writes ("<seconds> <+|->HHMM") is read back by
   gix_actor::signature::decode's five-part tuple as exactly those values, stopping before the LF. *)
From Coq Require Import List Arith ZArith NArith Lia ZifyBool ZifyNat ZifyN Bool.
From GixV.Base Require Import Bytes BytesFacts Outcome.
From GixV.C02 Require Import Model Spec ProofsDec.
Import ListNotations.
Ltac Zify.zify_post_hook ::= Z.div_mod_to_equations.

Lemma dec_to_N_acc_ge l : forall a v, dec_to_N_acc l a = Some v -> (a <= v)%N.
Proof.
  induction l as [|b l IH]; intros a v H; cbn [dec_to_N_acc] in H.
  - injection H as <-. lia.
  - destruct (is_digit b); [|discriminate]. apply IH in H. lia.
Qed.

Lemma is_dec_digit_is_digit b : is_dec_digit b = is_digit b.
Proof. reflexivity. Qed.

Lemma to_unsigned_acc_dec hi l : forall a v, dec_to_N_acc l a = Some v -> (Z.of_N v <= hi)%Z ->
  to_unsigned_acc hi l (Z.of_N a) = Some (Z.of_N v).
Proof.
  induction l as [|b l IH]; intros a v H Hv; cbn [dec_to_N_acc to_unsigned_acc] in *.
  - injection H as <-. reflexivity.
  - rewrite is_dec_digit_is_digit. destruct (is_digit b) eqn:Eb; [|discriminate]. unfold digit_val.
    pose proof (dec_to_N_acc_ge _ _ _ H) as Hge.
    destruct (Z.ltb_spec hi (Z.of_N a * 10)) as [|_]; [lia|].
    destruct (Z.ltb_spec hi (Z.of_N a * 10 + Z.of_N (b2N b - 48))) as [|_]; [lia|].
    replace (Z.of_N a * 10 + Z.of_N (b2N b - 48))%Z with (Z.of_N (10 * a + (b2N b - 48))) by lia.
    apply IH; assumption.
Qed.

Lemma to_negative_acc_dec lo l : forall a v, dec_to_N_acc l a = Some v -> (lo <= - Z.of_N v)%Z ->
  to_negative_acc lo l (- Z.of_N a) = Some (- Z.of_N v)%Z.
Proof.
  induction l as [|b l IH]; intros a v H Hv; cbn [dec_to_N_acc to_negative_acc] in *.
  - injection H as <-. reflexivity.
  - rewrite is_dec_digit_is_digit. destruct (is_digit b) eqn:Eb; [|discriminate]. unfold digit_val.
    pose proof (dec_to_N_acc_ge _ _ _ H) as Hge.
    destruct (Z.ltb_spec (- Z.of_N a * 10) lo) as [|_]; [lia|].
    destruct (Z.ltb_spec (- Z.of_N a * 10 - Z.of_N (b2N b - 48)) lo) as [|_]; [lia|].
    replace (- Z.of_N a * 10 - Z.of_N (b2N b - 48))%Z with (- Z.of_N (10 * a + (b2N b - 48)))%Z by lia.
    apply IH; assumption.
Qed.

Lemma N_to_dec_head n : exists d ds, N_to_dec n = d :: ds /\ is_digit d = true.
Proof.
  pose proof (N_to_dec_all_digits n) as H. destruct (N_to_dec_value n) as [Hne _].
  destruct (N_to_dec n) as [|d ds]; [congruence|]. exists d, ds. cbn [forallb] in H.
  apply andb_true_iff in H. tauto.
Qed.

Lemma to_unsigned_N_to_dec hi n : (Z.of_N n <= hi)%Z -> to_unsigned hi (N_to_dec n) = Some (Z.of_N n).
Proof.
  intros H. destruct (N_to_dec_head n) as (d & ds & E & _). unfold to_unsigned.
  pose proof (dec_to_N_N_to_dec n) as R. unfold dec_to_N in R. rewrite E in *.
  exact (to_unsigned_acc_dec hi (d :: ds) 0%N n R H).
Qed.

Lemma digit_not_sign : forall b, is_digit b = true -> beqb b "+"%byte = false /\ beqb b "-"%byte = false.
Proof.
  assert (H : forall b, (negb (is_digit b) || (negb (beqb b "+"%byte) && negb (beqb b "-"%byte))) = true)
    by (apply forall_bytes; vm_compute; reflexivity).
  intros b Hb. specialize (H b). rewrite Hb in H. cbn [negb orb] in H. apply andb_true_iff in H.
  destruct H as [H1 H2]. split; now apply negb_true_iff.
Qed.

Lemma to_signed_Z_to_dec lo hi z : (lo <= z <= hi)%Z -> (lo <= 0 <= hi)%Z -> to_signed lo hi (Z_to_dec z) = Some z.
Proof.
  intros Hz H0. destruct z as [|p|p]; unfold Z_to_dec.
  - destruct (N_to_dec_head 0%N) as (d & ds & E & Hd).
    change (bs "0") with (N_to_dec 0). unfold to_signed. rewrite E.
    destruct (digit_not_sign d Hd) as (H1 & H2). rewrite H1, H2. rewrite <- E.
    rewrite to_unsigned_N_to_dec by lia. reflexivity.
  - destruct (N_to_dec_head (Npos p)) as (d & ds & E & Hd). unfold to_signed. rewrite E.
    destruct (digit_not_sign d Hd) as (H1 & H2). rewrite H1, H2. rewrite <- E.
    rewrite to_unsigned_N_to_dec by lia. reflexivity.
  - unfold to_signed. change (beqb "-" "+") with false. change (beqb "-" "-") with true. cbv iota.
    destruct (N_to_dec_head (Npos p)) as (d & ds & E & Hd). rewrite E. rewrite <- E.
    pose proof (dec_to_N_N_to_dec (Npos p)) as R. unfold dec_to_N in R. rewrite E in R. rewrite <- E in R.
    change 0%Z with (- Z.of_N 0)%Z.
    rewrite (to_negative_acc_dec lo (N_to_dec (Npos p)) 0%N (Npos p) R) by lia. reflexivity.
Qed.

(* Z_to_dec writes digits and at most a leading '-': no space inside *)
Definition dchar (b : byte) : bool := is_digit b || beqb b "-"%byte.
Lemma forallb_impl (p q : byte -> bool) l : (forall b, p b = true -> q b = true) -> forallb p l = true -> forallb q l = true.
Proof.
  intros Hpq. induction l as [|b l IH]; [reflexivity|]. cbn [forallb]. intros H.
  apply andb_true_iff in H. destruct H as [H1 H2]. rewrite (Hpq b H1), (IH H2). reflexivity.
Qed.
Lemma Z_to_dec_dchar z : forallb dchar (Z_to_dec z) = true.
Proof.
  assert (G : forall n, forallb dchar (N_to_dec n) = true).
  { intros n. apply (forallb_impl is_digit); [|apply N_to_dec_all_digits]. intros b Hb. unfold dchar. now rewrite Hb. }
  destruct z; unfold Z_to_dec; [reflexivity|apply G|]. cbn [forallb]. rewrite G. reflexivity.
Qed.
Lemma dchar_not_sp : forall b, dchar b = true -> beqb x20 b = false.
Proof.
  assert (H : forall b, (negb (dchar b) || negb (beqb x20 b)) = true) by (apply forall_bytes; vm_compute; reflexivity).
  intros b Hb. specialize (H b). rewrite Hb in H. cbn [negb orb] in H. now apply negb_true_iff.
Qed.

Lemma find_sub_sp d : forall tail, forallb dchar d = true ->
  find_sub SPACE (d ++ x20 :: tail) = Some (d, x20 :: tail).
Proof.
  induction d as [|b d IH]; intros tail H.
  - reflexivity.
  - cbn [forallb] in H. apply andb_true_iff in H. destruct H as [Hb Hd].
    cbn [app find_sub SPACE strip_prefix]. rewrite (dchar_not_sp b Hb). rewrite (IH tail Hd). reflexivity.
Qed.

(* the zone: by exhaustion over hours 0..99 and minutes 0..59 *)
Definition upto (k : nat) : list N := map N.of_nat (seq 0 k).
Lemma in_upto k n : (n < N.of_nat k)%N -> In n (upto k).
Proof.
  intros H. unfold upto. replace n with (N.of_nat (N.to_nat n)) by apply N2Nat.id.
  apply in_map. apply in_seq. lia.
Qed.

Definition two_ok (n : N) : bool :=
  match two_digits n with
  | [a; b] => is_dec_digit a && is_dec_digit b
              && match to_signed i32_min i32_max [a; b] with Some v => Z.eqb v (Z.of_N n) | None => false end
  | _ => false
  end.
Lemma two_all : forallb two_ok (upto 100) = true.
Proof. vm_compute. reflexivity. Qed.
Lemma two_digits_spec n : (n < 100)%N -> exists a b, two_digits n = [a; b] /\ is_dec_digit a = true
  /\ is_dec_digit b = true /\ to_signed i32_min i32_max [a; b] = Some (Z.of_N n).
Proof.
  intros H. pose proof two_all as S. rewrite forallb_forall in S. specialize (S n (in_upto 100 n H)).
  unfold two_ok in S. destruct (two_digits n) as [|a [|b [|c l]]]; try discriminate.
  apply andb_true_iff in S. destruct S as [S S3]. apply andb_true_iff in S. destruct S as [S1 S2].
  exists a, b. repeat split; try assumption.
  destruct (to_signed i32_min i32_max [a; b]); [|discriminate]. apply Z.eqb_eq in S3. now subst.
Qed.

Lemma digit_not_minus_plus b : is_dec_digit b = true -> is_minus b = false /\ is_plus b = false.
Proof. intros H. destruct (digit_not_sign b H) as [A B]. split; assumption. Qed.

Lemma tw_two n a b l : (n = 1 \/ n = 2)%nat -> is_dec_digit a = true -> is_dec_digit b = true ->
  take_while_mn n 2 is_dec_digit (a :: b :: l) = POk [a; b] l.
Proof.
  intros Hn Da Db. unfold take_while_mn. cbn [span_upto]. rewrite Da, Db. cbn [length].
  destruct Hn as [-> | ->]; reflexivity.
Qed.
Lemma tw_sign (p : byte -> bool) s a l : p s = true -> p a = false ->
  take_while_m 1 p (s :: a :: l) = POk [s] (a :: l).
Proof. intros Hs Ha. unfold take_while_m. cbn [span]. rewrite Hs, Ha. reflexivity. Qed.
Lemma tw_sign_fail (p : byte -> bool) s l : p s = false -> take_while_m 1 p (s :: l) = PBack.
Proof. intros Hs. unfold take_while_m. cbn [span]. rewrite Hs. reflexivity. Qed.
Lemma tw_trailing rest : take_while_m 0 is_dec_digit (x0a :: rest) = POk [] (x0a :: rest).
Proof. reflexivity. Qed.

Lemma L_time_parts_git t rest : time_wf t = true ->
  time_parts (git_write_time t ++ x0a :: rest) = POk (time_of t) (x0a :: rest).
Proof.
  unfold time_wf. intros H.
  apply andb_true_iff in H. destruct H as [H Hm].
  apply andb_true_iff in H. destruct H as [H Hh].
  apply andb_true_iff in H. destruct H as [Hlo Hhi].
  apply N.leb_le in Hm, Hh. apply Z.leb_le in Hlo, Hhi.
  destruct (two_digits_spec (gt_hh t) ltac:(lia)) as (a & b & Eh & Da & Db & Vh).
  destruct (two_digits_spec (gt_mm t) ltac:(lia)) as (c & d & Em & Dc & Dd & Vm).
  unfold git_write_time. rewrite Eh, Em.
  unfold time_parts, verify_map, terminated, take_until0.
  replace ((Z_to_dec (gt_secs t) ++ bs " " ++ (if gt_minus t then bs "-" else bs "+") ++ [a; b] ++ [c; d]) ++ x0a :: rest)
    with (Z_to_dec (gt_secs t) ++ x20 :: ((if gt_minus t then bs "-" else bs "+") ++ a :: b :: c :: d :: x0a :: rest))
    by (rewrite <- !app_assoc; destruct (gt_minus t); reflexivity).
  rewrite (find_sub_sp _ _ (Z_to_dec_dchar (gt_secs t))). cbn [pbind take1].
  rewrite (to_signed_Z_to_dec i64_min i64_max (gt_secs t)) by (unfold i64_min, i64_max in *; lia).
  destruct (digit_not_minus_plus a Da) as [Am Ap].
  unfold time_of, palt, pmap.
  destruct (gt_minus t).
  - change (bs "-" ++ a :: b :: c :: d :: x0a :: rest) with ("-"%byte :: a :: b :: c :: d :: x0a :: rest).
    cbv beta iota delta [pbind].
    rewrite (tw_sign is_minus "-"%byte a _ eq_refl Am). cbv beta iota.
    rewrite (tw_two 2 a b _ (or_intror eq_refl) Da Db). cbv beta iota. rewrite Vh. cbv beta iota.
    rewrite (tw_two 1 c d _ (or_introl eq_refl) Dc Dd). cbv beta iota. rewrite Vm. cbv beta iota.
    rewrite tw_trailing. cbv beta iota. reflexivity.
  - change (bs "+" ++ a :: b :: c :: d :: x0a :: rest) with ("+"%byte :: a :: b :: c :: d :: x0a :: rest).
    cbv beta iota delta [pbind].
    rewrite (tw_sign_fail is_minus "+"%byte _ eq_refl). cbv beta iota.
    rewrite (tw_sign is_plus "+"%byte a _ eq_refl Ap). cbv beta iota.
    rewrite (tw_two 2 a b _ (or_intror eq_refl) Da Db). cbv beta iota. rewrite Vh. cbv beta iota.
    rewrite (tw_two 1 c d _ (or_introl eq_refl) Dc Dd). cbv beta iota. rewrite Vm. cbv beta iota.
    rewrite tw_trailing. cbv beta iota. reflexivity.
Qed.
