(* C02 — trees: the streaming and the full decoder agree on every byte string, never panic, always
   terminate; trees written the way git writes them decode to their entries and re-encode verbatim *)
From Coq Require Import ZArith NArith Lia ZifyBool ZifyNat ZifyN List.
From GixV.Base Require Import Bytes BytesFacts Outcome.
From GixV.C02 Require Import Model Spec.
Ltac Zify.zify_post_hook ::= Z.div_mod_to_equations.
Local Open Scope N_scope.

(* what `iter.collect::<Result<Vec<_>, _>>()` makes of the items *)
Fixpoint collect {T} (l : list (item T)) : outcome (list T) err :=
  match l with
  | [] => Ok []
  | IOk t :: r => (es <- collect r ;; Ok (t :: es))%outcome
  | IErr :: _ => Err EDecode
  | IPanic :: _ => Panic
  | IHang :: _ => OutOfFuel
  end.

Lemma tree_iter_fuel_agrees fuel : forall i, collect (tree_iter_fuel fuel i) = tree_decode_fuel fuel i.
Proof.
  induction fuel as [|fuel IH]; intros [|b i]; try reflexivity.
  cbn [tree_iter_fuel tree_decode_fuel].
  destruct (fast_entry (b :: i)) as [[rest e]|]; [|reflexivity].
  cbn [collect]. rewrite IH. reflexivity.
Qed.

Lemma L_tree_iter_collect i : collect (tree_iter i) = tree_decode i.
Proof. apply tree_iter_fuel_agrees. Qed.

Lemma tree_iter_fuel_ok fuel : forall i es, tree_decode_fuel fuel i = Ok es -> tree_iter_fuel fuel i = map IOk es.
Proof.
  induction fuel as [|fuel IH]; intros [|b i] es H; cbn [tree_iter_fuel tree_decode_fuel] in *;
    try (apply Ok_inj in H; subst es; reflexivity); try discriminate.
  destruct (fast_entry (b :: i)) as [[rest e]|]; [|discriminate].
  destruct (tree_decode_fuel fuel rest) as [es'| | |] eqn:E; try discriminate.
  cbn [obind] in H. apply Ok_inj in H. subst es. cbn [map]. f_equal. apply IH. exact E.
Qed.

Lemma L_tree_iter_ok i es : tree_decode i = Ok es -> tree_iter i = map IOk es.
Proof. apply tree_iter_fuel_ok. Qed.

(* on failure the iterator reports the entries before the damage, then one error, then stops *)
Lemma tree_iter_fuel_err fuel : forall i e, tree_decode_fuel fuel i = Err e ->
  exists pre, tree_iter_fuel fuel i = map IOk pre ++ [IErr].
Proof.
  induction fuel as [|fuel IH]; intros [|b i] e H; cbn [tree_iter_fuel tree_decode_fuel] in *; try discriminate.
  destruct (fast_entry (b :: i)) as [[rest en]|]; [|exists []; reflexivity].
  destruct (tree_decode_fuel fuel rest) as [es'|e'| |] eqn:E; try discriminate.
  destruct (IH rest e' E) as [pre Hp]. exists (en :: pre). rewrite Hp. reflexivity.
Qed.

Lemma L_tree_iter_err i e : tree_decode i = Err e -> exists pre, tree_iter i = map IOk pre ++ [IErr].
Proof. apply tree_iter_fuel_err. Qed.

(* ---- totality ---------------------------------------------------------------------------------- *)

Lemma mode_from_decimal_shrinks i : forall acc m r, mode_from_decimal i acc = Some (m, r) -> (length r < length i)%nat.
Proof.
  induction i as [|b i IH]; intros acc m r H; cbn [mode_from_decimal] in H; [discriminate|].
  destruct (beqb b x20).
  - injection H as <- <-. cbn [length]. lia.
  - destruct ((b2N b <? 48) || (55 <? b2N b)); [discriminate|]. apply IH in H. cbn [length]. lia.
Qed.

Lemma split_nul_shrinks i : forall a t, split_nul i = Some (a, t) -> (length t < length i)%nat.
Proof.
  induction i as [|b i IH]; intros a t H; cbn [split_nul] in H; [discriminate|].
  destruct (is_nul b).
  - injection H as <- <-. cbn [length]. lia.
  - destruct (split_nul i) as [[a' t']|]; [|discriminate]. injection H as <- <-.
    specialize (IH a' t' eq_refl). cbn [length]. lia.
Qed.

Lemma fast_entry_shrinks i rest e : fast_entry i = Some (rest, e) -> (length rest < length i)%nat.
Proof.
  unfold fast_entry.
  destruct (mode_from_decimal i 0) as [[m i1]|] eqn:Em; [|discriminate].
  destruct (mode_try_from m); [|discriminate].
  destruct (split_nul i1) as [[fname i2]|] eqn:Es; [|discriminate].
  destruct (Nat.ltb (length i2) 20); [discriminate|].
  intros H. assert (rest = skipn 20 i2) as -> by congruence.
  apply mode_from_decimal_shrinks in Em. apply split_nul_shrinks in Es.
  rewrite skipn_length. lia.
Qed.

Lemma tree_decode_fuel_total fuel : forall i, (length i <= fuel)%nat ->
  tree_decode_fuel fuel i <> Panic /\ tree_decode_fuel fuel i <> OutOfFuel.
Proof.
  induction fuel as [|fuel IH]; intros i Hl.
  - destruct i; [cbn; split; discriminate|cbn [length] in Hl; lia].
  - destruct i as [|b i]; [cbn; split; discriminate|].
    cbn [tree_decode_fuel].
    destruct (fast_entry (b :: i)) as [[rest e]|] eqn:Ef; [|split; discriminate].
    apply fast_entry_shrinks in Ef. destruct (IH rest ltac:(cbn [length] in *; lia)) as [A B].
    destruct (tree_decode_fuel fuel rest); cbn [obind]; split; congruence.
Qed.

Lemma L_tree_decode_total i : tree_decode i <> Panic /\ tree_decode i <> OutOfFuel.
Proof. apply tree_decode_fuel_total. lia. Qed.

Lemma L_tree_iter_total i : ~ In IPanic (tree_iter i) /\ ~ In IHang (tree_iter i).
Proof.
  destruct (L_tree_decode_total i) as [A B].
  destruct (tree_decode i) as [es|e| |] eqn:E; try congruence.
  - rewrite (L_tree_iter_ok _ _ E). split; intros H; apply in_map_iff in H; destruct H as (? & ? & _); discriminate.
  - destruct (L_tree_iter_err _ _ E) as [pre ->].
    split; intros H; apply in_app_or in H; destruct H as [H|H];
      try (apply in_map_iff in H; destruct H as (? & ? & _); discriminate);
      destruct H as [H|[]]; discriminate.
Qed.

(* ---- round trip: exhaustive sweep over the u16 modes -------------------------------------------- *)

Definition mode_check (m : N) : bool :=
  if mode_wf m then
    match mode_from_decimal (mode_bytes m ++ [x20]) 0 with
    | Some (m', []) => match mode_try_from m' with Some m'' => m'' =? m | None => false end
    | _ => false
    end
  else true.

Definition sweep_step (st : N * bool) : N * bool := (fst st + 1, snd st && mode_check (fst st)).
Definition sweep (n : N) : N * bool := N.iter n sweep_step (0, true).

Lemma sweep_spec n : fst (sweep n) = n /\ (snd (sweep n) = true -> forall m, m < n -> mode_check m = true).
Proof.
  induction n as [|n IH] using N.peano_ind.
  - split; [reflexivity|]. intros _ m Hm. lia.
  - unfold sweep in *. rewrite N.iter_succ. destruct IH as [F S].
    unfold sweep_step at 1. cbn [fst snd]. rewrite F. split; [lia|].
    intros H m Hm. apply Bool.andb_true_iff in H. destruct H as [H1 H2].
    rewrite F in H2.
    destruct (N.eq_dec m n) as [->|Hne]; [exact H2|]. apply S; [exact H1|lia].
Qed.

Lemma sweep_all : snd (sweep 65536) = true.
Proof. vm_compute. reflexivity. Qed.

Lemma mode_wf_u16 m : mode_wf m = true -> m < 65536.
Proof. unfold mode_wf. intros H. apply Bool.andb_true_iff in H. destruct H as [H _]. lia. Qed.

Lemma mode_rt m : mode_wf m = true ->
  exists m', mode_from_decimal (mode_bytes m ++ [x20]) 0 = Some (m', []) /\ mode_try_from m' = Some m.
Proof.
  intros Hv. pose proof (proj2 (sweep_spec 65536) sweep_all m (mode_wf_u16 m Hv)) as C.
  unfold mode_check in C. rewrite Hv in C.
  destruct (mode_from_decimal (mode_bytes m ++ [x20]) 0) as [[m' [|? ?]]|]; try discriminate.
  destruct (mode_try_from m') as [m''|] eqn:Et; [|discriminate].
  exists m'. split; [reflexivity|]. rewrite Et. f_equal. lia.
Qed.

Lemma mode_from_decimal_app a : forall acc m t rest,
  mode_from_decimal a acc = Some (m, t) -> mode_from_decimal (a ++ rest) acc = Some (m, t ++ rest).
Proof.
  induction a as [|b a IH]; intros acc m t rest H; cbn [mode_from_decimal app] in *; [discriminate|].
  destruct (beqb b x20).
  - injection H as <- <-. reflexivity.
  - destruct ((b2N b <? 48) || (55 <? b2N b)); [discriminate|]. apply IH. exact H.
Qed.

Lemma split_nul_app name rest : existsb is_nul name = false -> split_nul (name ++ x00 :: rest) = Some (name, rest).
Proof.
  induction name as [|b n IH]; cbn [existsb app split_nul]; intros H.
  - reflexivity.
  - apply Bool.orb_false_iff in H. destruct H as [Hb Hn]. rewrite Hb, (IH Hn). reflexivity.
Qed.

Lemma entry_wf_parts e : entry_wf e = true ->
  mode_wf (e_mode e) = true /\ existsb is_nul (e_name e) = false /\ length (e_oid e) = 20%nat.
Proof.
  unfold entry_wf, no_byte, len20. intros H.
  apply Bool.andb_true_iff in H. destruct H as [H H3].
  apply Bool.andb_true_iff in H. destruct H as [H1 H2].
  repeat split; [exact H1| |apply Nat.eqb_eq; exact H3].
  destruct (existsb is_nul (e_name e)); [discriminate|reflexivity].
Qed.

Lemma fast_entry_written e rest : entry_wf e = true ->
  fast_entry (git_write_entry e ++ rest) = Some (rest, e).
Proof.
  intros H. destruct (entry_wf_parts e H) as (Hm & Hn & Ho). destruct (mode_rt _ Hm) as (m' & Hd & Ht).
  unfold fast_entry, git_write_entry.
  replace ((mode_bytes (e_mode e) ++ bs " " ++ e_name e ++ [x00] ++ e_oid e) ++ rest)
    with ((mode_bytes (e_mode e) ++ [x20]) ++ (e_name e ++ x00 :: e_oid e ++ rest))
    by (cbn [bs]; rewrite <- !app_assoc; reflexivity).
  rewrite (mode_from_decimal_app _ _ _ _ _ Hd). cbn [app]. rewrite Ht.
  rewrite (split_nul_app _ _ Hn).
  assert (Nat.ltb (length (e_oid e ++ rest)) 20 = false) as ->.
  { apply Nat.ltb_ge. rewrite app_length. lia. }
  rewrite <- Ho at 1 2.
  rewrite skipn_app, skipn_all, Nat.sub_diag, firstn_app, firstn_all, Nat.sub_diag.
  cbn [skipn firstn app]. rewrite app_nil_r. destruct e; reflexivity.
Qed.

Lemma git_write_entry_nonempty e rest : git_write_entry e ++ rest <> [].
Proof.
  unfold git_write_entry. intros H. apply (f_equal (@length byte)) in H.
  rewrite !app_length in H. cbn [length bs] in H. lia.
Qed.

Lemma tree_written_decodes l : tree_wf l = true -> forall fuel, (length l <= fuel)%nat ->
  tree_decode_fuel fuel (git_write_tree l) = Ok l.
Proof.
  induction l as [|e r IH]; intros Hwf fuel Hf.
  - destruct fuel; reflexivity.
  - cbn [tree_wf forallb] in Hwf. apply Bool.andb_true_iff in Hwf. destruct Hwf as [He Hr].
    cbn [length] in Hf. destruct fuel as [|fuel]; [lia|].
    unfold git_write_tree. cbn [map concat]. fold (git_write_tree r).
    pose proof (fast_entry_written e (git_write_tree r) He) as F.
    pose proof (git_write_entry_nonempty e (git_write_tree r)) as NE.
    destruct (git_write_entry e ++ git_write_tree r) as [|b i] eqn:Ei; [congruence|].
    cbn [tree_decode_fuel]. rewrite F. rewrite (IH Hr fuel) by lia. reflexivity.
Qed.

Lemma git_write_tree_length l : (length l <= length (git_write_tree l))%nat.
Proof.
  induction l as [|e r IH]; [cbn; lia|].
  unfold git_write_tree. cbn [map concat]. fold (git_write_tree r).
  rewrite app_length. unfold git_write_entry. rewrite !app_length. cbn [length bs]. lia.
Qed.

Lemma L_tree_git_decodes l : tree_wf l = true -> tree_decode (git_write_tree l) = Ok l.
Proof. intros H. apply tree_written_decodes; [exact H|apply git_write_tree_length]. Qed.

Lemma L_tree_reencode l : tree_wf l = true -> tree_write l = Ok (git_write_tree l).
Proof.
  induction l as [|e r IH]; intros Hwf; [reflexivity|].
  cbn [tree_wf forallb] in Hwf. apply Bool.andb_true_iff in Hwf. destruct Hwf as [He Hr].
  destruct (entry_wf_parts e He) as (_ & Hn & _).
  cbn [tree_write]. rewrite Hn, (IH Hr). cbn [obind].
  unfold git_write_tree. cbn [map concat]. unfold git_write_entry, SPACE. cbn [bs].
  rewrite <- !app_assoc. reflexivity.
Qed.
