//! Real git (2.39.5) as the oracle: which bytes does git itself produce for a set of field values,
//! and does `git mktag` create a given tag object.
use crate::*;
use std::io::Write;
use std::path::{Path, PathBuf};
use std::process::{Command, Stdio};
use std::sync::atomic::{AtomicU64, Ordering};

pub const EMPTY_TREE: &str = "4b825dc642cb6eb9a060e54bf8d69288fbee4904";
pub const EMPTY_BLOB: &str = "e69de29bb2d1d6434b8b29ae775ad8c2e48c5391";
/// two fixed commits of the empty tree, usable as parents / tag targets
pub const P0_BYTES: &[u8] = b"tree 4b825dc642cb6eb9a060e54bf8d69288fbee4904\nauthor P <p@x> 1 +0000\ncommitter P <p@x> 1 +0000\n\np0\n";
pub const P1_BYTES: &[u8] = b"tree 4b825dc642cb6eb9a060e54bf8d69288fbee4904\nauthor P <p@x> 2 +0000\ncommitter P <p@x> 2 +0000\n\np1\n";
pub const P0: &str = "e7cf084dec63bfa824069d8be5d617b9ac200496";
pub const P1: &str = "2811999d114817742246934338a30c15f47db50a";

static COUNTER: AtomicU64 = AtomicU64::new(0);

struct Repo(PathBuf);
impl Repo {
    /// a hand-made bare repository (git init costs ~100 ms here)
    fn new() -> Repo {
        let n = COUNTER.fetch_add(1, Ordering::SeqCst);
        let dir = std::env::temp_dir().join(format!("gixv-c02-{}-{}", std::process::id(), n));
        let _ = std::fs::remove_dir_all(&dir);
        std::fs::create_dir_all(dir.join("objects")).unwrap();
        std::fs::create_dir_all(dir.join("refs")).unwrap();
        std::fs::write(dir.join("HEAD"), "ref: refs/heads/main\n").unwrap();
        Repo(dir)
    }
    fn git(&self) -> Command {
        let mut c = Command::new("/usr/bin/git");
        c.env_clear()
            .env("GIT_DIR", &self.0)
            .env("GIT_CONFIG_NOSYSTEM", "1")
            .env("GIT_CONFIG_GLOBAL", "/dev/null")
            .env("HOME", std::env::temp_dir())
            .env("PATH", "/usr/bin:/bin")
            .env("LC_ALL", "C");
        c
    }
    fn path(&self) -> &Path {
        &self.0
    }
}
impl Drop for Repo {
    fn drop(&mut self) {
        let _ = std::fs::remove_dir_all(&self.0);
    }
}

fn run(mut c: Command, input: &[u8]) -> Option<Vec<u8>> {
    let mut ch = c.stdin(Stdio::piped()).stdout(Stdio::piped()).stderr(Stdio::null()).spawn().ok()?;
    let mut stdin = ch.stdin.take().unwrap();
    let d = input.to_vec();
    let th = std::thread::spawn(move || {
        let _ = stdin.write_all(&d);
    });
    let out = ch.wait_with_output().ok()?;
    let _ = th.join();
    if out.status.success() {
        Some(out.stdout)
    } else {
        None
    }
}
fn trimmed(v: Vec<u8>) -> String {
    String::from_utf8_lossy(&v).trim().to_string()
}

fn write_known_commits(r: &Repo) -> bool {
    for (b, id) in [(P0_BYTES, P0), (P1_BYTES, P1)] {
        let mut c = r.git();
        c.args(["hash-object", "-t", "commit", "-w", "--stdin"]);
        match run(c, b) {
            Some(o) if trimmed(o.clone()) == id => {}
            _ => return false,
        }
    }
    true
}

/// does `git mktag` create this object? (target objects: the fixed commits, the empty tree/blob)
pub fn mktag_accepts(data: &[u8]) -> bool {
    let r = Repo::new();
    let mut c = r.git();
    c.args(["hash-object", "-t", "commit", "-w", "--stdin"]);
    if run(c, P0_BYTES).map(trimmed).as_deref() != Some(P0) {
        return false;
    }
    // mktag stores its input unchanged once the strict check passes
    let mut c = r.git();
    c.arg("mktag");
    run(c, data).is_some()
}

/// names/emails that pass git's ident.c unchanged (no crud at the ends, nothing removed inside)
fn ident_plain(s: &[u8]) -> bool {
    let edge = |b: u8| b.is_ascii_alphanumeric() || b >= 0x80;
    !s.is_empty()
        && edge(s[0])
        && edge(*s.last().unwrap())
        && s.iter().all(|b| b.is_ascii_alphanumeric() || *b >= 0x80 || b" .@-_+".contains(b))
}
fn sig_expressible(s: &GSig) -> bool {
    ident_plain(&s.name)
        && ident_plain(&s.email)
        && s.secs >= 0
        && s.secs < (1i64 << 40)
        && s.hh <= 99
        && s.mm <= 59
        && !(s.minus && s.hh == 0 && s.mm == 0)
}
fn date_env(s: &GSig) -> String {
    format!("@{} {}{:02}{:02}", s.secs, if s.minus { '-' } else { '+' }, s.hh, s.mm)
}
fn os(b: &[u8]) -> std::ffi::OsString {
    use std::os::unix::ffi::OsStringExt;
    std::ffi::OsString::from_vec(b.to_vec())
}
fn known_hex(id: &[u8]) -> Option<&'static str> {
    [P0, P1, EMPTY_TREE].into_iter().find(|h| hexs(id) == *h)
}

fn git_commit(v: &GCommit) -> String {
    if !commit_wf(v) {
        return "-".into();
    }
    let r = Repo::new();
    if !write_known_commits(&r) {
        return "git-setup-failed".into();
    }
    let by_commit_tree = hexs(&v.tree) == EMPTY_TREE
        && v.parents.iter().all(|p| hexs(p) == P0 || hexs(p) == P1)
        && (v.parents.len() < 2 || v.parents[0] != v.parents[1])
        && v.parents.len() <= 2
        && v.extra.is_empty()
        && sig_expressible(&v.author)
        && sig_expressible(&v.committer)
        && v.encoding.as_ref().map_or(true, |e| e == b"ISO-8859-1")
        && !v.message.contains(&0)
        // without i18n.commitEncoding commit-tree rewrites bytes that are not UTF-8 as Latin-1
        && (v.encoding.is_some() || std::str::from_utf8(&write_commit(v)).is_ok());
    if !by_commit_tree && v.parents.iter().any(|p| *p == v.tree) {
        return "-".into(); // one id used as tree and as commit: an artefact of the generator
    }
    let id = if by_commit_tree {
        let mut c = r.git();
        if v.encoding.is_some() {
            c.args(["-c", "i18n.commitEncoding=ISO-8859-1"]);
        }
        c.args(["commit-tree", EMPTY_TREE]);
        for p in &v.parents {
            c.args(["-p", &hexs(p)]);
        }
        c.env("GIT_AUTHOR_NAME", os(&v.author.name))
            .env("GIT_AUTHOR_EMAIL", os(&v.author.email))
            .env("GIT_AUTHOR_DATE", date_env(&v.author))
            .env("GIT_COMMITTER_NAME", os(&v.committer.name))
            .env("GIT_COMMITTER_EMAIL", os(&v.committer.email))
            .env("GIT_COMMITTER_DATE", date_env(&v.committer));
        run(c, &v.message)
    } else {
        // extra headers, signatures, arbitrary ids: git stores what hash-object is given after
        // checking that it parses as a commit
        let mut c = r.git();
        c.args(["hash-object", "-t", "commit", "-w", "--stdin"]);
        run(c, &write_commit(v))
    };
    let Some(id) = id else { return "git-rejected".into() };
    let mut c = r.git();
    c.args(["cat-file", "commit", &trimmed(id)]);
    match run(c, b"") {
        Some(b) if b.is_empty() => "empty".into(),
        Some(b) => hexs(&b),
        None => "git-cat-file-failed".into(),
    }
}

fn git_tag(v: &GTag) -> String {
    if !tag_wf(v) {
        return "-".into();
    }
    let r = Repo::new();
    if !write_known_commits(&r) {
        return "git-setup-failed".into();
    }
    let target = known_hex(&v.target);
    let kind_matches = match target {
        Some(h) if h == P0 || h == P1 => v.kind == b"commit",
        Some(h) if h == EMPTY_TREE => v.kind == b"tree",
        Some(_) => v.kind == b"blob",
        None => false,
    };
    let by_git_tag = kind_matches && v.pgp.is_none() && v.tagger.as_ref().map_or(false, sig_expressible) && !v.message.contains(&0)
        && v.name.iter().all(|b| b.is_ascii_alphanumeric() || b"./-_".contains(b));
    let id = if by_git_tag {
        let s = v.tagger.as_ref().unwrap();
        let mut c = r.git();
        c.args(["tag", "-a", "--cleanup=verbatim", "-F", "-"]).arg(os(&v.name)).arg(target.unwrap());
        c.env("GIT_COMMITTER_NAME", os(&s.name)).env("GIT_COMMITTER_EMAIL", os(&s.email)).env("GIT_COMMITTER_DATE", date_env(s));
        if run(c, &v.message).is_none() {
            return "git-rejected".into();
        }
        let mut c = r.git();
        c.arg("rev-parse").arg(format!("refs/tags/{}", String::from_utf8_lossy(&v.name)));
        run(c, b"")
    } else if kind_matches && v.tagger.is_some() {
        // mktag: git's strict check, then stored as given
        let mut c = r.git();
        c.arg("mktag");
        run(c, &write_tag(v))
    } else {
        let mut c = r.git();
        c.args(["hash-object", "-t", "tag", "-w", "--stdin"]);
        run(c, &write_tag(v))
    };
    let Some(id) = id else { return "git-rejected".into() };
    let mut c = r.git();
    c.args(["cat-file", "tag", &trimmed(id)]);
    match run(c, b"") {
        Some(b) if b.is_empty() => "empty".into(),
        Some(b) => hexs(&b),
        None => "git-cat-file-failed".into(),
    }
}

fn git_tree(v: &[GEntry]) -> String {
    if !tree_wf(v) {
        return "-".into();
    }
    let std_mode = |m: u64| [0o100644, 0o100755, 0o120000, 0o40000, 0o160000].contains(&m);
    let r = Repo::new();
    let by_mktree = v.iter().all(|e| std_mode(e.mode) && !e.name.is_empty() && !e.name.contains(&b'/'))
        && generate::git_sorted(v)
        && generate::names_unique(v);
    let id = if by_mktree {
        let mut input = Vec::new();
        for e in v {
            let ty = match e.mode {
                0o40000 => "tree",
                0o160000 => "commit",
                _ => "blob",
            };
            input.extend_from_slice(format!("{:06o} {} {}\t", e.mode, ty, hexs(&e.oid)).as_bytes());
            input.extend_from_slice(&e.name);
            input.push(0);
        }
        let mut c = r.git();
        c.args(["mktree", "-z", "--missing"]);
        run(c, &input)
    } else {
        let mut c = r.git();
        c.args(["hash-object", "-t", "tree", "-w", "--stdin", "--literally"]);
        run(c, &write_tree(v))
    };
    let Some(id) = id else { return "git-rejected".into() };
    let _ = r.path();
    let mut c = r.git();
    c.args(["cat-file", "tree", &trimmed(id)]);
    match run(c, b"") {
        Some(b) if b.is_empty() => "empty".into(),
        Some(b) => hexs(&b),
        None => "git-cat-file-failed".into(),
    }
}

pub fn git_line(c: &Case) -> String {
    match f_str(c, 0) {
        b"cval" => match op_of(c) {
            Op::Commit(_, Some(v)) => git_commit(&v),
            _ => "-".into(),
        },
        b"gval" => match op_of(c) {
            Op::Tag(_, Some(v), _) => git_tag(&v),
            _ => "-".into(),
        },
        b"rval" => match op_of(c) {
            Op::Tree(_, Some(v)) => git_tree(&v),
            _ => "-".into(),
        },
        _ => "-".into(),
    }
}
