//! Case generator: a deterministic boundary block, then a weighted mixture of objects built from
//! field values (the shapes git produces), a malformed stream derived from them, and the stream of
//! unusual-but-accepted tagger lines that is checked against `git mktag`.
use crate::gitside::{EMPTY_TREE, P0, P1};
use crate::*;

fn unhexs(s: &str) -> Vec<u8> {
    unhex(s)
}

/// git's base_name_compare on (name, is_tree)
fn git_key(e: &GEntry) -> Vec<u8> {
    let mut k = e.name.clone();
    if e.mode & 0o170000 == 0o40000 {
        k.push(b'/');
    }
    k
}
pub fn git_sorted(v: &[GEntry]) -> bool {
    v.windows(2).all(|w| git_key(&w[0]) <= git_key(&w[1]))
}
pub fn names_unique(v: &[GEntry]) -> bool {
    for i in 0..v.len() {
        for j in 0..i {
            if v[i].name == v[j].name {
                return false;
            }
        }
    }
    true
}

const SECS: &[i64] = &[0, 1, 9, 10, 99, 100, 1234567890, 1700000000, 4102444800, 9999999999, i64::MAX, -1, -10, i64::MIN, 1 << 40, (1 << 40) - 1];

fn gen_name(r: &mut Rng) -> Vec<u8> {
    match r.below(10) {
        0 => b"A U Thor".to_vec(),
        1 => "Sébastien Ünicode".as_bytes().to_vec(),
        2 => vec![],
        3 => b"a".to_vec(),
        4 => b" lead and trail ".to_vec(),
        5 => b"x  ".to_vec(),
        6 => vec![0xff, 0xfe, b'a'],
        _ => r.word(b"ab .-\t\xc3\xa9@1", 1, 8),
    }
}
fn gen_email(r: &mut Rng) -> Vec<u8> {
    let mut e = match r.below(8) {
        0 => b"author@example.com".to_vec(),
        1 => vec![],
        2 => b"a".to_vec(),
        3 => b"a b@c d".to_vec(),
        _ => r.word(b"ab.@ -1\xc3\xa9", 1, 8),
    };
    while e.first().map_or(false, |b| ws(*b)) {
        e.remove(0);
    }
    while e.last().map_or(false, |b| ws(*b)) {
        e.pop();
    }
    e
}
fn ws(b: u8) -> bool {
    matches!(b, b' ' | b'\t' | b'\n' | 0x0c | b'\r')
}
fn gen_sig(r: &mut Rng) -> GSig {
    let secs = if r.chance(1, 2) { *r.pick(SECS) } else { r.range(0, 2_000_000_000) };
    let (hh, mm) = match r.below(8) {
        0 => (0, 0),
        1 => (99, 59),
        2 => (9, 9),
        3 => (10, 0),
        4 => (0, 59),
        _ => (r.below(100), r.below(60)),
    };
    GSig { name: gen_name(r), email: gen_email(r), secs, minus: r.chance(1, 3), hh, mm }
}
/// a signature git's ident.c leaves untouched: usable with commit-tree / tag -a
fn gen_sig_plain(r: &mut Rng) -> GSig {
    let name = match r.below(4) {
        0 => b"A U Thor".to_vec(),
        1 => "Sébastien Ünicode".as_bytes().to_vec(),
        2 => b"a".to_vec(),
        _ => {
            let mut w = r.word(b"ab .-1", 0, 6);
            w.insert(0, b'x');
            w.push(b'y');
            w
        }
    };
    let email = match r.below(3) {
        0 => b"author@example.com".to_vec(),
        1 => b"a".to_vec(),
        _ => {
            let mut w = r.word(b"ab.@-1", 0, 6);
            w.insert(0, b'e');
            w.push(b'1');
            w
        }
    };
    let secs = *r.pick(&[0, 1, 9, 10, 1234567890, 1700000000, 4102444800, (1i64 << 40) - 1]);
    let (hh, mm, minus) = match r.below(6) {
        0 => (0, 0, false),
        1 => (99, 59, true),
        2 => (0, 1, true),
        3 => (5, 30, false),
        _ => (r.below(100), r.below(60), r.chance(1, 2)),
    };
    GSig { name, email, secs, minus, hh, mm }
}

fn gen_line(r: &mut Rng, allow_empty: bool) -> Vec<u8> {
    // CR-terminated lines (armour produced with CRLF line ends), CR inside a line, a lone CR
    match r.below(7) {
        0 => {
            let mut l = gen_line_plain(r, allow_empty);
            l.push(b'\r');
            return l;
        }
        1 => {
            return match r.below(4) {
                0 => b"\r".to_vec(),
                1 => b"a\rb".to_vec(),
                2 => b"\r\r".to_vec(),
                _ => b"\rx\r".to_vec(),
            }
        }
        _ => {}
    }
    gen_line_plain(r, allow_empty)
}
fn gen_line_plain(r: &mut Rng, allow_empty: bool) -> Vec<u8> {
    match r.below(10) {
        0 if allow_empty => vec![],
        1 => b" leading space".to_vec(),
        2 => PGP_BEGIN.to_vec(),
        3 => PGP_END.to_vec(),
        4 => b"iQEzBAABCAAdFiEE".to_vec(),
        5 => vec![0xff, 0x00, b'a'],
        6 => b"=AbCd".to_vec(),
        _ => {
            let w = r.word(b"ab =-<>\t", if allow_empty { 0 } else { 1 }, 10);
            w
        }
    }
}
fn gen_extra(r: &mut Rng, first_and_no_encoding: bool) -> GExtra {
    let names: &[&[u8]] = &[b"gpgsig", b"mergetag", b"x", b"gpgsig-sha256", b"author", b"parent", b"tree", b"encoding", b"\xc3\xa9", b"HG:extra"];
    let mut name = r.pick(names).to_vec();
    if first_and_no_encoding && name == b"encoding" {
        name = b"gpgsig".to_vec();
    }
    let mut first = gen_line(r, false);
    if first.is_empty() {
        first = b"v".to_vec();
    }
    let n = match r.below(6) {
        0 | 1 | 2 => 0,
        3 => 1,
        4 => 2,
        _ => r.below(6) as usize,
    };
    GExtra { name, first, conts: (0..n).map(|_| gen_line(r, true)).collect() }
}
fn gen_message(r: &mut Rng) -> Vec<u8> {
    match r.below(17) {
        0 => vec![],
        1 => b"\n".to_vec(),
        2 => b"subject".to_vec(),
        3 => b"subject\n".to_vec(),
        4 => b"subject\n\nbody line\nsecond\n".to_vec(),
        5 => "ünïcödé ✓\n".as_bytes().to_vec(),
        6 => vec![0xff, 0xfe, 0x00, 0x01, b'\n', 0x80],
        7 => b"\n\nleading blank lines\n\n\n".to_vec(),
        8 => b"tree 1234\nparent x\nauthor looks like a header\n".to_vec(),
        9 => b" starts with a space\n continued\n".to_vec(),
        10 => b"-----BEGIN PGP SIGNATURE-----\nnot after a line break\n".to_vec(),
        11 => b"subject\r\n\r\nbody\r\n".to_vec(),
        12 => b"\r".to_vec(),
        _ => r.word(b"ab \n\t.-\r", 0, 24),
    }
}
fn rand_id(r: &mut Rng) -> Vec<u8> {
    match r.below(6) {
        0 => vec![0u8; 20],
        1 => vec![0xffu8; 20],
        2 => vec![0x0au8; 20],
        3 => vec![0x20u8; 20],
        _ => r.bytes(20),
    }
}

fn gen_commit(r: &mut Rng, plain: bool) -> GCommit {
    if plain {
        let parents = match r.below(4) {
            0 => vec![],
            1 => vec![unhexs(P0)],
            2 => vec![unhexs(P1)],
            _ => vec![unhexs(P0), unhexs(P1)],
        };
        let mut message = gen_message(r);
        message.retain(|b| *b != 0);
        return GCommit {
            tree: unhexs(EMPTY_TREE),
            parents,
            author: gen_sig_plain(r),
            committer: gen_sig_plain(r),
            encoding: if r.chance(1, 4) { Some(b"ISO-8859-1".to_vec()) } else { None },
            extra: vec![],
            message,
        };
    }
    let np = match r.below(8) {
        0 => 0,
        1 | 2 | 3 | 4 => 1,
        5 => 2,
        6 => 3,
        _ => r.below(9) as usize,
    };
    let encoding = match r.below(6) {
        0 => Some(b"ISO-8859-1".to_vec()),
        1 => Some(r.word(b"ab -8\r", 1, 6)),
        _ => None,
    };
    let nx = match r.below(6) {
        0 | 1 | 2 => 0,
        3 => 1,
        4 => 2,
        _ => r.below(5) as usize,
    };
    let mut extra = Vec::new();
    for i in 0..nx {
        extra.push(gen_extra(r, i == 0 && encoding.is_none()));
    }
    GCommit {
        tree: rand_id(r),
        parents: (0..np).map(|_| rand_id(r)).collect(),
        author: gen_sig(r),
        committer: gen_sig(r),
        encoding,
        extra,
        message: gen_message(r),
    }
}

const TAG_NAMES: &[&[u8]] = &[b"v1.0", b"a/b", b"t", b"1", b"a-b", b"\xc3\xbc", b"release/2024.01", b"x@y", b"a.b.c", b"v1.0-rc1+build", b"a{b}"];
fn gen_pgp(r: &mut Rng) -> Vec<u8> {
    if r.chance(1, 4) {
        // CRLF line ends throughout
        let mut p = PGP_BEGIN.to_vec();
        p.extend_from_slice(b"\r\n\r\niQEzBAABCAAdFiEE\r\n=AbCd\r\n");
        p.extend_from_slice(PGP_END);
        p.extend_from_slice(if r.chance(1, 2) { b"\r\n" } else { b"\r" });
        return p;
    }
    let mut p = PGP_BEGIN.to_vec();
    match r.below(5) {
        0 => p.extend_from_slice(b"\n\niQEzBAABCAAdFiEE\n=AbCd\n"),
        1 => {}
        2 => p.extend_from_slice(b"\nVersion: x\n\nabc\n"),
        _ => {
            p.push(b'\n');
            p.extend_from_slice(&r.word(b"ab\n =\r", 0, 20));
        }
    }
    p.extend_from_slice(PGP_END);
    match r.below(5) {
        0 => {}
        1 => p.extend_from_slice(b"\ntrailing text\n"),
        2 => p.extend_from_slice(b"\n\n"),
        _ => p.push(b'\n'),
    }
    p
}
fn gen_tag(r: &mut Rng, plain: bool) -> GTag {
    let mut message = gen_message(r);
    let begin_nl = [b"\n", PGP_BEGIN].concat();
    if message.find(&begin_nl).is_some() {
        message = b"m\n".to_vec();
    }
    if plain {
        message.retain(|b| *b != 0);
        let (target, kind): (&str, &[u8]) = match r.below(4) {
            0 | 1 => (P0, b"commit"),
            2 => (P1, b"commit"),
            _ => (EMPTY_TREE, b"tree"),
        };
        let names: &[&[u8]] = &[b"v1.0", b"a/b", b"t", b"1", b"a-b", b"release/2024.01", b"a.b.c"];
        return GTag {
            target: unhexs(target),
            kind: kind.to_vec(),
            name: r.pick(names).to_vec(),
            tagger: Some(gen_sig_plain(r)),
            message,
            pgp: if r.chance(1, 3) { Some(gen_pgp(r)) } else { None },
        };
    }
    let kinds: &[&[u8]] = &[b"commit", b"tree", b"blob", b"tag"];
    GTag {
        target: rand_id(r),
        kind: r.pick(kinds).to_vec(),
        name: r.pick(TAG_NAMES).to_vec(),
        tagger: if r.chance(1, 6) { None } else { Some(gen_sig(r)) },
        message,
        pgp: if r.chance(1, 3) { Some(gen_pgp(r)) } else { None },
    }
}

const MODES: &[u64] = &[0o100644, 0o100755, 0o120000, 0o40000, 0o160000];
fn gen_tree(r: &mut Rng, plain: bool) -> Vec<GEntry> {
    let n = match r.below(8) {
        0 => 0,
        1 => 1,
        2 => 2,
        _ => r.below(9) as usize,
    };
    let mut v: Vec<GEntry> = Vec::new();
    for _ in 0..n {
        let mode = if plain || r.chance(5, 6) {
            *r.pick(MODES)
        } else {
            *r.pick(&[0o100664u64, 0o100600, 0o100000, 0o177777, 0o140000, 0o104755])
        };
        let name = match r.below(8) {
            0 => b"a".to_vec(),
            1 => b"a.b".to_vec(),
            2 => b"a-b".to_vec(),
            3 => "dïr name".as_bytes().to_vec(),
            4 => vec![0xff, b'x'],
            _ => r.word(b"ab-.0 \n\xff", 1, 5),
        };
        if v.iter().any(|e| e.name == name) {
            continue;
        }
        v.push(GEntry { mode, name, oid: rand_id(r) });
    }
    // insertion sort by git's order (std sort panics on inconsistent orders, which cannot occur here, but keep it plain)
    for i in 1..v.len() {
        let mut j = i;
        while j > 0 && git_key(&v[j - 1]) > git_key(&v[j]) {
            v.swap(j - 1, j);
            j -= 1;
        }
    }
    if !plain && r.chance(1, 12) && v.len() >= 2 {
        v.swap(0, 1); // unsorted on purpose: decodes, but the writer's debug assertion refuses it
    }
    v
}

fn mutate(r: &mut Rng, mut d: Vec<u8>) -> Vec<u8> {
    let n = 1 + r.below(2);
    for _ in 0..n {
        if d.is_empty() {
            d.push(r.next() as u8);
            continue;
        }
        let i = r.below(d.len() as u64) as usize;
        let nls: Vec<usize> = d.iter().enumerate().filter(|(_, b)| **b == b'\n').map(|(i, _)| i).collect();
        match r.below(12) {
            0 => d[i] ^= 1 << r.below(8),
            1 => d.truncate(i),
            2 => {
                // cut exactly after a line break: the iterator's "no more data" rule
                if let Some(k) = nls.get(r.below(nls.len().max(1) as u64) as usize) {
                    d.truncate(k + 1)
                }
            }
            3 => {
                d.remove(i);
            }
            4 => d.insert(i, *r.pick(b" \n<>\0+-0a")),
            5 => d[i] = *r.pick(b" \n<>\0+-9A"),
            6 => {
                // duplicate a line
                if let Some(k) = nls.get(r.below(nls.len().max(1) as u64) as usize) {
                    let start = d[..*k].iter().rposition(|b| *b == b'\n').map_or(0, |p| p + 1);
                    let line = d[start..=*k].to_vec();
                    let at = k + 1;
                    d.splice(at..at, line);
                }
            }
            7 => {
                // delete a line
                if let Some(k) = nls.get(r.below(nls.len().max(1) as u64) as usize) {
                    let start = d[..*k].iter().rposition(|b| *b == b'\n').map_or(0, |p| p + 1);
                    d.drain(start..=*k);
                }
            }
            8 => {
                // upper-case a hex digit / break an id
                if let Some(p) = d.iter().position(|b| (b'a'..=b'f').contains(b)) {
                    d[p] = d[p].to_ascii_uppercase();
                }
            }
            9 => {
                if let Some(k) = nls.first() {
                    if r.chance(1, 2) {
                        d.remove(k - 1);
                    } else {
                        d.insert(*k, b'0');
                    }
                }
            }
            10 => {
                if let Some(k) = nls.get(r.below(nls.len().max(1) as u64) as usize) {
                    d.truncate(*k);
                }
            }
            _ => {
                let t: &[&[u8]] = &[b"\n", b"\n\n", b" ", b"x"];
                let t = *r.pick(t);
                d.extend_from_slice(t)
            }
        }
    }
    d
}

/// tagger lines `git mktag` accepts although they are not what git writes itself
fn tagx_cases() -> Vec<(&'static str, Vec<u8>)> {
    let head = format!("object {P0}\ntype commit\ntag ");
    let mk = |name: &str, tagger: &str, body: &str| format!("{head}{name}\ntagger {tagger}\n{body}").into_bytes();
    vec![
        ("plain", mk("t", "T <e> 1 +0000", "\nmsg\n")),
        ("plain-neg-tz", mk("t", "T <e> 1700000000 -0130", "\nmsg\n")),
        ("email-ws", mk("t", "T < e > 1 +0000", "\nmsg\n")),
        ("email-ws", mk("t", "T <e\t> 1 +0000", "\nmsg\n")),
        ("tz-minutes", mk("t", "T <e> 1 +0099", "\nmsg\n")),
        ("tz-minutes", mk("t", "T <e> 1 -0060", "\nmsg\n")),
        ("tz-over", mk("t", "T <e> 1 +9999", "\nmsg\n")),
        ("ts-plus", mk("t", "T <e> +12 +0000", "\nmsg\n")),
        ("ts-space", mk("t", "T <e>  12 +0000", "\nmsg\n")),
        ("ts-space", mk("t", "T <e> \t12 +0000", "\nmsg\n")),
        ("no-separator", mk("t", "T <e> 1 +0000", "")),
        ("name-dash", mk("-a", "T <e> 1 +0000", "\nmsg\n")),
        ("plain-empty-name", mk("t", " <e> 12 +0000", "\nmsg\n")),
        ("plain-empty-email", mk("t", "T <> 12 +0000", "\nmsg\n")),
        ("plain-max-ts", mk("t", "T <e> 9223372036854775807 +0000", "\nmsg\n")),
        ("plain-no-message", mk("t", "T <e> 1 +0000", "\n")),
        ("plain-name-spaces", mk("t", " T  <e> 1 +0000", "\nmsg\n")),
        ("plain-minus-zero", mk("t", "T <e> 1 -0000", "\nmsg\n")),
        ("plain-tz-9959", mk("t", "T <e> 1 +9959", "\nmsg\n")),
    ]
}

fn boundary() -> Vec<Case> {
    let mut out: Vec<Case> = Vec::new();
    let sig = |secs: i64, minus: bool, hh: u64, mm: u64| GSig { name: b"A U Thor".to_vec(), email: b"a@b.c".to_vec(), secs, minus, hh, mm };
    let base = GCommit {
        tree: unhexs(EMPTY_TREE),
        parents: vec![],
        author: sig(1, false, 0, 0),
        committer: sig(2, true, 1, 30),
        encoding: None,
        extra: vec![],
        message: b"m\n".to_vec(),
    };
    out.push(commit_case(&base));
    // every timestamp boundary
    for s in SECS {
        let mut c = base.clone();
        c.author.secs = *s;
        out.push(commit_case(&c));
    }
    for (minus, hh, mm) in [(true, 0, 0), (false, 99, 59), (true, 99, 59), (false, 0, 59), (false, 9, 9), (false, 10, 10), (false, 99, 0)] {
        let mut c = base.clone();
        c.committer = sig(5, minus, hh, mm);
        out.push(commit_case(&c));
    }
    for np in [1usize, 2, 3, 8] {
        let mut c = base.clone();
        c.parents = (0..np).map(|i| if i % 2 == 0 { unhexs(P0) } else { unhexs(P1) }).collect();
        out.push(commit_case(&c));
    }
    // extra headers: single line, folded, empty continuation lines, signature block, names of standard headers
    let x = |n: &[u8], f: &[u8], cs: &[&[u8]]| GExtra { name: n.to_vec(), first: f.to_vec(), conts: cs.iter().map(|l| l.to_vec()).collect() };
    let sigblock: &[&[u8]] = &[b"", b"iQEzBAABCAAdFiEE", b"=AbCd", PGP_END];
    for xs in [
        vec![x(b"x", b"v", &[])],
        vec![x(b"gpgsig", PGP_BEGIN, sigblock)],
        vec![x(b"gpgsig", PGP_BEGIN, sigblock), x(b"x", b"v", &[])],
        vec![x(b"mergetag", b"object 1234", &[b"type commit", b"", b"", b" indented"]), x(b"gpgsig", PGP_BEGIN, sigblock)],
        vec![x(b"x", b"v", &[b""])],
        vec![x(b"x", b" ", &[b" "])],
        vec![x(b"author", b"not the author", &[]), x(b"encoding", b"late", &[]), x(b"parent", b"p", &[b"q"]), x(b"tree", b"t", &[])],
    ] {
        let mut c = base.clone();
        c.extra = xs.clone();
        out.push(commit_case(&c));
        c.encoding = Some(b"ISO-8859-1".to_vec());
        out.push(commit_case(&c));
    }
    {
        // armour and merge tags produced with CRLF line ends: every folded line ends in CR
        let crsig: &[&[u8]] = &[b"\r", b"iQEzBAABCAAdFiEE\r", b"=AbCd\r", b"-----END PGP SIGNATURE-----\r"];
        let mut c = base.clone();
        c.extra = vec![
            x(b"mergetag", b"object 1234\r", &[b"type commit\r", b"tag v1\r", b"\r", b"msg\r"]),
            x(b"gpgsig", b"-----BEGIN PGP SIGNATURE-----\r", crsig),
            x(b"x", b"single\r", &[]),
            x(b"y", b"a\rb", &[b"c\rd", b"\r\r"]),
        ];
        c.message = b"subject\r\n\r\nbody\r\n".to_vec();
        out.push(commit_case(&c));
        c.encoding = Some(b"ISO-8859-1\r".to_vec());
        out.push(commit_case(&c));
    }
    for m in [&b""[..], b"\n", b"x", b"x\n", b"\n\nx", b"\xff\x00"] {
        let mut c = base.clone();
        c.message = m.to_vec();
        out.push(commit_case(&c));
    }
    for (n, e) in [(&b""[..], &b""[..]), (b" ", b""), (b"a ", b"b"), (b" a", b"x y"), (b"a\tb", b"\xc3\xa9")] {
        let mut c = base.clone();
        c.author.name = n.to_vec();
        c.author.email = e.to_vec();
        out.push(commit_case(&c));
    }
    // the iterator's end-of-data rule and other raw shapes
    let full = write_commit(&base);
    out.push(vec![tag("craw"), vec![]]);
    for (i, b) in full.iter().enumerate() {
        if *b == b'\n' {
            out.push(vec![tag("craw"), full[..=i].to_vec()]);
            out.push(vec![tag("craw"), full[..i].to_vec()]);
        }
    }
    out.push(vec![tag("craw"), format!("tree {EMPTY_TREE}\nauthor A <a> \ncommitter A <a>\n\n").into_bytes()]);
    out.push(vec![tag("craw"), format!("tree {EMPTY_TREE}\nauthor A <a> 1 +0099\ncommitter A <a> 1 +9999\n\n").into_bytes()]);
    out.push(vec![tag("craw"), format!("tree {EMPTY_TREE}\nauthor A <a> 1 +00001\ncommitter A <a> 1 --05\n\n").into_bytes()]);
    out.push(vec![tag("craw"), format!("tree {EMPTY_TREE}\nauthor A <a> 1 +0000\ncommitter A <a> 1 +0000\nx \n foo\n\nm").into_bytes()]);
    out.push(vec![tag("craw"), format!("tree {EMPTY_TREE}\nauthor A <a> 1 +0000\ncommitter A <a> 1 +0000\nx v\n foo").into_bytes()]);
    out.push(vec![tag("craw"), format!("tree {EMPTY_TREE}\nauthor A <<a>> 1 +0000\ncommitter >A< <a> 1 +0000\n\nm").into_bytes()]);
    out.push(vec![tag("craw"), format!("tree {EMPTY_TREE}\nauthor A > 1 +0000\ncommitter A <a> 1 +0000\n\nm").into_bytes()]);
    out.push(vec![tag("craw"), format!("tree {EMPTY_TREE}\nauthor A <a> 99999999999999999999 +0000\ncommitter A <a> 1 +0000\n\nm").into_bytes()]);

    // tags
    let tbase = GTag { target: unhexs(P0), kind: b"commit".to_vec(), name: b"v1.0".to_vec(), tagger: Some(sig(1, false, 0, 0)), message: b"m\n".to_vec(), pgp: None };
    out.push(tag_case(&tbase));
    for (msg, pgp) in [
        (&b"m"[..], Some([PGP_BEGIN, b"\nabc\n", PGP_END, b"\n"].concat())),
        (b"", Some([PGP_BEGIN, b"\nabc\n", PGP_END, b"\n"].concat())),
        (b"m\n", Some([PGP_BEGIN, PGP_END].concat())),
        (b"m", Some([PGP_BEGIN, b"\n", PGP_END, b"\ntrailing"].concat())),
        (b"m\r", Some([PGP_BEGIN, b"\r\n\r\nabc\r\n", PGP_END, b"\r\n"].concat())),
        (b"subject\r\n\r\nbody\r", Some([PGP_BEGIN, b"\r\nabc\r\n", PGP_END, b"\r"].concat())),
        (b"crlf body\r\n", None),
        (b"", None),
        (b"\n", None),
        (b"-----BEGIN PGP SIGNATURE-----\nx", None),
    ] {
        let mut g = tbase.clone();
        g.message = msg.to_vec();
        g.pgp = pgp;
        out.push(tag_case(&g));
        g.tagger = None;
        out.push(tag_case(&g));
    }
    for k in [&b"tree"[..], b"blob", b"tag"] {
        let mut g = tbase.clone();
        g.kind = k.to_vec();
        out.push(tag_case(&g));
    }
    for n in TAG_NAMES {
        let mut g = tbase.clone();
        g.name = n.to_vec();
        out.push(tag_case(&g));
    }
    let tfull = write_tag(&tbase);
    out.push(vec![tag("graw"), vec![]]);
    for (i, b) in tfull.iter().enumerate() {
        if *b == b'\n' {
            out.push(vec![tag("graw"), tfull[..=i].to_vec()]);
            out.push(vec![tag("graw"), tfull[..i].to_vec()]);
        }
    }
    out.push(vec![tag("graw"), format!("object {P0}\ntype commit\ntag t\n").into_bytes()]);
    out.push(vec![tag("graw"), format!("object {P0}\ntype commit\ntag t\n\n").into_bytes()]);
    out.push(vec![tag("graw"), format!("object {P0}\ntype Commit\ntag t\n\n").into_bytes()]);
    out.push(vec![tag("graw"), format!("object {P0}\ntype commit\ntag t\ntagger A > x\n\nm").into_bytes()]);
    out.push(vec![tag("graw"), format!("object {P0}\ntype commit\ntag t\n\nm\n-----BEGIN PGP SIGNATURE-----\nno end").into_bytes()]);
    for (h, d) in tagx_cases() {
        out.push(vec![tag("tagx"), tag(h), d]);
    }

    // trees
    let e = |m: u64, n: &[u8]| GEntry { mode: m, name: n.to_vec(), oid: vec![0x11; 20] };
    out.push(tree_case(&[]));
    out.push(tree_case(&[e(0o100644, b"a")]));
    out.push(tree_case(&[e(0o100644, b"a-b"), e(0o40000, b"a"), e(0o100644, b"a0")]));
    out.push(tree_case(&[e(0o40000, b"a"), e(0o100644, b"a-b")]));
    for m in [0o100644u64, 0o100755, 0o120000, 0o40000, 0o160000, 0o100664, 0o177777, 0o100000] {
        out.push(tree_case(&[e(m, b"n")]));
    }
    out.push(tree_case(&[GEntry { mode: 0o100644, name: b"nul-oid".to_vec(), oid: vec![0; 20] }, GEntry { mode: 0o100644, name: b"sp".to_vec(), oid: vec![0x20; 20] }]));
    let rfull = write_tree(&[e(0o100644, b"a"), e(0o40000, b"b")]);
    for i in 0..=rfull.len() {
        if i < 12 || i % 7 == 0 || i + 3 > rfull.len() {
            out.push(vec![tag("rraw"), rfull[..i].to_vec()]);
        }
    }
    out.push(vec![tag("rraw"), [&b"040000 a\0"[..], &[0x11; 20]].concat()]);
    out.push(vec![tag("rraw"), [&b"100644 \0"[..], &[0x11; 20]].concat()]);
    out.push(vec![tag("rraw"), [&b" a\0"[..], &[0x11; 20]].concat()]);
    out.push(vec![tag("rraw"), [&b"40000000000040000 a\0"[..], &[0x11; 20]].concat()]);
    out.push(vec![tag("rraw"), [&b"100644 a/b\0"[..], &[0x11; 20]].concat()]);
    out
}

pub fn gen(r: &mut Rng, n: usize) -> Vec<Case> {
    let mut out = Vec::new();
    // the first cases are the ones real git is asked about (prop.json git_cases): shapes that
    // commit-tree / tag -a / mktag / mktree can produce themselves
    let plain_block = (n / 12).clamp(60, 2000);
    for i in 0..plain_block {
        out.push(match i % 5 {
            0 | 1 => commit_case(&gen_commit(r, i % 10 != 1)),
            2 | 3 => tag_case(&gen_tag(r, i % 10 != 3)),
            _ => tree_case(&gen_tree(r, i % 10 != 9)),
        });
    }
    out.extend(boundary());
    let tagx = tagx_cases();
    while out.len() < n {
        let k = r.below(100);
        let c = if k < 34 {
            {
                let p = r.chance(1, 8);
                commit_case(&gen_commit(r, p))
            }
        } else if k < 52 {
            {
                let p = r.chance(1, 8);
                tag_case(&gen_tag(r, p))
            }
        } else if k < 64 {
            {
                let p = r.chance(1, 4);
                tree_case(&gen_tree(r, p))
            }
        } else if k < 80 {
            {
                let d = write_commit(&gen_commit(r, false));
                vec![tag("craw"), mutate(r, d)]
            }
        } else if k < 90 {
            {
                let d = write_tag(&gen_tag(r, false));
                vec![tag("graw"), mutate(r, d)]
            }
        } else if k < 98 {
            {
                let d = write_tree(&gen_tree(r, false));
                vec![tag("rraw"), mutate(r, d)]
            }
        } else {
            // mktag stream: one of the fixed shapes with a varied tagger/time
            let (h, d) = r.pick(&tagx).clone();
            vec![tag("tagx"), tag(h), d]
        };
        out.push(c);
    }
    out.truncate(n.max(1));
    out
}
