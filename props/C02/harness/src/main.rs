//! C02 harness: objects git creates decode identically in the full and the streaming decoder of
//! gix-object and re-encode verbatim.  Case format: see props/C02/coq/Run.v.
use bstr::ByteSlice;
use gix_object::{CommitRef, CommitRefIter, TagRef, TagRefIter, TreeRef, TreeRefIter, WriteTo};
use gixv_common::*;
use std::time::Duration;

mod generate;
mod gitside;

// ------------------------------------------------------------------------------------------------
// field values and the independent writer (git's layout, written from git's sources, not from gix)
// ------------------------------------------------------------------------------------------------
#[derive(Clone, Debug, PartialEq)]
pub struct GSig {
    pub name: Vec<u8>,
    pub email: Vec<u8>,
    pub secs: i64,
    pub minus: bool,
    pub hh: u64,
    pub mm: u64,
}
#[derive(Clone, Debug, PartialEq)]
pub struct GExtra {
    pub name: Vec<u8>,
    pub first: Vec<u8>,
    pub conts: Vec<Vec<u8>>,
}
#[derive(Clone, Debug)]
pub struct GCommit {
    pub tree: Vec<u8>,
    pub parents: Vec<Vec<u8>>,
    pub author: GSig,
    pub committer: GSig,
    pub encoding: Option<Vec<u8>>,
    pub extra: Vec<GExtra>,
    pub message: Vec<u8>,
}
#[derive(Clone, Debug)]
pub struct GTag {
    pub target: Vec<u8>,
    pub kind: Vec<u8>,
    pub name: Vec<u8>,
    pub tagger: Option<GSig>,
    pub message: Vec<u8>,
    pub pgp: Option<Vec<u8>>,
}
#[derive(Clone, Debug, PartialEq)]
pub struct GEntry {
    pub mode: u64,
    pub name: Vec<u8>,
    pub oid: Vec<u8>,
}

pub const PGP_BEGIN: &[u8] = b"-----BEGIN PGP SIGNATURE-----";
pub const PGP_END: &[u8] = b"-----END PGP SIGNATURE-----";

fn w_sig(out: &mut Vec<u8>, s: &GSig) {
    out.extend_from_slice(&s.name);
    out.extend_from_slice(b" <");
    out.extend_from_slice(&s.email);
    out.extend_from_slice(b"> ");
    out.extend_from_slice(s.secs.to_string().as_bytes());
    out.push(b' ');
    out.push(if s.minus { b'-' } else { b'+' });
    out.push(b'0'.wrapping_add(((s.hh / 10) % 256) as u8));
    out.push(b'0' + (s.hh % 10) as u8);
    out.push(b'0'.wrapping_add(((s.mm / 10) % 256) as u8));
    out.push(b'0' + (s.mm % 10) as u8);
}
pub fn write_commit(c: &GCommit) -> Vec<u8> {
    let mut o = Vec::new();
    o.extend_from_slice(b"tree ");
    o.extend_from_slice(hexs(&c.tree).as_bytes());
    o.push(b'\n');
    for p in &c.parents {
        o.extend_from_slice(b"parent ");
        o.extend_from_slice(hexs(p).as_bytes());
        o.push(b'\n');
    }
    o.extend_from_slice(b"author ");
    w_sig(&mut o, &c.author);
    o.extend_from_slice(b"\ncommitter ");
    w_sig(&mut o, &c.committer);
    o.push(b'\n');
    if let Some(e) = &c.encoding {
        o.extend_from_slice(b"encoding ");
        o.extend_from_slice(e);
        o.push(b'\n');
    }
    for x in &c.extra {
        o.extend_from_slice(&x.name);
        o.push(b' ');
        o.extend_from_slice(&x.first);
        o.push(b'\n');
        for l in &x.conts {
            o.push(b' ');
            o.extend_from_slice(l);
            o.push(b'\n');
        }
    }
    o.push(b'\n');
    o.extend_from_slice(&c.message);
    o
}
pub fn write_tag(g: &GTag) -> Vec<u8> {
    let mut o = Vec::new();
    o.extend_from_slice(b"object ");
    o.extend_from_slice(hexs(&g.target).as_bytes());
    o.extend_from_slice(b"\ntype ");
    o.extend_from_slice(&g.kind);
    o.extend_from_slice(b"\ntag ");
    o.extend_from_slice(&g.name);
    o.push(b'\n');
    if let Some(s) = &g.tagger {
        o.extend_from_slice(b"tagger ");
        w_sig(&mut o, s);
        o.push(b'\n');
    }
    o.push(b'\n');
    o.extend_from_slice(&g.message);
    if let Some(p) = &g.pgp {
        o.push(b'\n');
        o.extend_from_slice(p);
    }
    o
}
pub fn write_tree(es: &[GEntry]) -> Vec<u8> {
    let mut o = Vec::new();
    for e in es {
        o.extend_from_slice(format!("{:o}", e.mode).as_bytes());
        o.push(b' ');
        o.extend_from_slice(&e.name);
        o.push(0);
        o.extend_from_slice(&e.oid);
    }
    o
}

// ---- well-formedness: the field values git can produce (mirror of Spec.v, written independently) ----
fn ws(b: u8) -> bool {
    matches!(b, b' ' | b'\t' | b'\n' | 0x0c | b'\r')
}
pub fn sig_wf(s: &GSig) -> bool {
    let bad = |b: &u8| matches!(*b, b'<' | b'>' | b'\n');
    !s.name.iter().any(bad)
        && !s.email.iter().any(bad)
        && s.email.first().map_or(true, |b| !ws(*b))
        && s.email.last().map_or(true, |b| !ws(*b))
        && s.hh <= 99
        && s.mm <= 59
}
pub fn extra_wf(x: &GExtra) -> bool {
    !x.name.is_empty()
        && !x.name.iter().any(|b| *b == b' ' || *b == b'\n')
        && !x.first.is_empty()
        && !x.first.contains(&b'\n')
        && x.conts.iter().all(|l| !l.contains(&b'\n'))
}
pub fn commit_wf(c: &GCommit) -> bool {
    c.tree.len() == 20
        && c.parents.iter().all(|p| p.len() == 20)
        && sig_wf(&c.author)
        && sig_wf(&c.committer)
        && c.encoding.as_ref().map_or(true, |e| !e.is_empty() && !e.contains(&b'\n'))
        && c.extra.iter().all(extra_wf)
        && !(c.encoding.is_none() && c.extra.first().map_or(false, |x| x.name == b"encoding"))
}
/// plain transcription of the rules of git's check_refname_format for "refs/tags/<name>"
pub fn tag_name_ok(n: &[u8]) -> bool {
    if n.is_empty() || n[0] == b'-' || n[0] == b'/' || *n.last().unwrap() == b'/' || *n.last().unwrap() == b'.' {
        return false;
    }
    if n.find(b"..").is_some() || n.find(b"@{").is_some() || n.find(b"//").is_some() {
        return false;
    }
    for comp in n.split(|b| *b == b'/') {
        if comp.is_empty() || comp[0] == b'.' || comp.ends_with(b".lock") {
            return false;
        }
    }
    !n.iter().any(|b| *b < 32 || *b == 127 || b" ~^:?*[\\".contains(b))
}
pub fn tag_wf(g: &GTag) -> bool {
    let begin_nl = [b"\n", PGP_BEGIN].concat();
    g.target.len() == 20
        && [&b"commit"[..], b"tree", b"blob", b"tag"].contains(&&g.kind[..])
        && tag_name_ok(&g.name)
        && g.tagger.as_ref().map_or(true, sig_wf)
        && g.message.find(&begin_nl).is_none()
        && g.pgp.as_ref().map_or(true, |p| p.starts_with(PGP_BEGIN) && p[PGP_BEGIN.len()..].find(PGP_END).is_some())
}
pub fn mode_wf(m: u64) -> bool {
    m < 65536 && (m == 0o40000 || m == 0o120000 || m == 0o160000 || m & 0o100000 == 0o100000)
}
pub fn tree_wf(es: &[GEntry]) -> bool {
    es.iter().all(|e| mode_wf(e.mode) && !e.name.contains(&0) && e.oid.len() == 20)
}

// ---- case <-> value ----
fn sig_fields(c: &mut Case, s: &GSig) {
    c.push(s.name.clone());
    c.push(s.email.clone());
    c.push(num(s.secs));
    c.push(if s.minus { b"-".to_vec() } else { b"+".to_vec() });
    c.push(num(s.hh));
    c.push(num(s.mm));
}
fn sig_at(c: &Case, k: usize) -> GSig {
    GSig {
        name: f_str(c, k).to_vec(),
        email: f_str(c, k + 1).to_vec(),
        secs: f_i64(c, k + 2),
        minus: f_str(c, k + 3) == b"-",
        hh: f_u64(c, k + 4),
        mm: f_u64(c, k + 5),
    }
}
fn extra_field(x: &GExtra) -> Vec<u8> {
    let mut o = x.name.clone();
    o.push(b'\n');
    o.extend_from_slice(&x.first);
    for l in &x.conts {
        o.push(b'\n');
        o.extend_from_slice(l);
    }
    o
}
fn extra_of_field(f: &[u8]) -> Option<GExtra> {
    if f.is_empty() {
        return None;
    }
    let mut parts: Vec<Vec<u8>> = f.split(|b| *b == b'\n').map(|s| s.to_vec()).collect();
    let name = parts.remove(0);
    let first = if parts.is_empty() { vec![] } else { parts.remove(0) };
    Some(GExtra { name, first, conts: parts })
}
pub fn commit_case(c: &GCommit) -> Case {
    assert!(c.extra.len() <= 4);
    let mut k: Case = vec![tag("cval"), c.tree.clone(), c.parents.concat()];
    sig_fields(&mut k, &c.author);
    sig_fields(&mut k, &c.committer);
    k.push(c.encoding.clone().unwrap_or_default());
    for i in 0..4 {
        k.push(c.extra.get(i).map(extra_field).unwrap_or_default());
    }
    k.push(c.message.clone());
    k
}
fn commit_of_case(c: &Case) -> GCommit {
    let ps = f_str(c, 2);
    GCommit {
        tree: f_str(c, 1).to_vec(),
        parents: ps.chunks(20).map(|x| x.to_vec()).collect(),
        author: sig_at(c, 3),
        committer: sig_at(c, 9),
        encoding: if f_str(c, 15).is_empty() { None } else { Some(f_str(c, 15).to_vec()) },
        extra: (16..20).filter_map(|i| extra_of_field(f_str(c, i))).collect(),
        message: f_str(c, 20).to_vec(),
    }
}
pub fn tag_case(g: &GTag) -> Case {
    let mut k: Case = vec![tag("gval"), g.target.clone(), g.kind.clone(), g.name.clone()];
    k.push(if g.tagger.is_some() { b"1".to_vec() } else { b"0".to_vec() });
    match &g.tagger {
        Some(s) => sig_fields(&mut k, s),
        None => (0..6).for_each(|_| k.push(vec![])),
    }
    k.push(g.message.clone());
    k.push(g.pgp.clone().unwrap_or_default());
    k
}
fn tag_of_case(c: &Case) -> GTag {
    let kind = f_str(c, 2);
    GTag {
        target: f_str(c, 1).to_vec(),
        kind: if [&b"commit"[..], b"tree", b"blob", b"tag"].contains(&kind) { kind.to_vec() } else { b"commit".to_vec() },
        name: f_str(c, 3).to_vec(),
        tagger: if f_str(c, 4) == b"1" { Some(sig_at(c, 5)) } else { None },
        message: f_str(c, 11).to_vec(),
        pgp: if f_str(c, 12).is_empty() { None } else { Some(f_str(c, 12).to_vec()) },
    }
}
pub fn tree_case(es: &[GEntry]) -> Case {
    let mut k: Case = vec![tag("rval"), num(es.len())];
    for e in es {
        k.push(num(e.mode));
        k.push(e.name.clone());
        k.push(e.oid.clone());
    }
    k
}
fn tree_of_case(c: &Case) -> Vec<GEntry> {
    let n = f_u64(c, 1) as usize;
    let mut v = Vec::new();
    for i in 0..n {
        if c.len() < 2 + 3 * i + 3 {
            break;
        }
        v.push(GEntry { mode: f_u64(c, 2 + 3 * i), name: f_str(c, 3 + 3 * i).to_vec(), oid: f_str(c, 4 + 3 * i).to_vec() });
    }
    v
}

pub enum Op {
    Commit(Vec<u8>, Option<GCommit>),
    Tag(Vec<u8>, Option<GTag>, Option<String>),
    Tree(Vec<u8>, Option<Vec<GEntry>>),
    Unknown,
}
pub fn op_of(c: &Case) -> Op {
    match f_str(c, 0) {
        b"craw" => Op::Commit(f_str(c, 1).to_vec(), None),
        b"graw" => Op::Tag(f_str(c, 1).to_vec(), None, None),
        b"tagx" => Op::Tag(f_str(c, 2).to_vec(), None, Some(String::from_utf8_lossy(f_str(c, 1)).into_owned())),
        b"rraw" => Op::Tree(f_str(c, 1).to_vec(), None),
        b"cval" => {
            let v = commit_of_case(c);
            Op::Commit(write_commit(&v), Some(v))
        }
        b"gval" => {
            let v = tag_of_case(c);
            Op::Tag(write_tag(&v), Some(v), None)
        }
        b"rval" => {
            let v = tree_of_case(c);
            Op::Tree(write_tree(&v), Some(v))
        }
        _ => Op::Unknown,
    }
}

// ------------------------------------------------------------------------------------------------
// impl: the observable behaviour of the decoders, as one line
// ------------------------------------------------------------------------------------------------
fn show_sig(s: &gix_actor::SignatureRef<'_>) -> String {
    format!(
        "{}/{}/{}/{}/{}",
        hexs(s.name),
        hexs(s.email),
        s.time.seconds,
        s.time.offset,
        match s.time.sign {
            gix_date::time::Sign::Plus => "+",
            gix_date::time::Sign::Minus => "-",
        }
    )
}
fn show_opt(o: Option<&[u8]>) -> String {
    match o {
        Some(b) => hexs(b),
        None => "~".into(),
    }
}
fn kind_str(k: gix_object::Kind) -> String {
    String::from_utf8_lossy(k.as_bytes()).into_owned()
}
fn show_write(r: std::thread::Result<std::io::Result<Vec<u8>>>, data: &[u8]) -> String {
    match r {
        Err(_) => "PANIC".into(),
        Ok(Err(_)) => "err".into(),
        Ok(Ok(b)) => {
            if b == data {
                "same".into()
            } else {
                format!("ok {}", hexs(&b))
            }
        }
    }
}
fn write_of(o: &dyn WriteTo) -> std::thread::Result<std::io::Result<Vec<u8>>> {
    std::panic::catch_unwind(std::panic::AssertUnwindSafe(|| {
        let mut v = Vec::new();
        o.write_to(&mut v).map(|_| v)
    }))
}
fn guarded<T>(f: impl FnOnce() -> T) -> Option<T> {
    std::panic::catch_unwind(std::panic::AssertUnwindSafe(f)).ok()
}

fn commit_tokens(data: &[u8]) -> Vec<String> {
    use gix_object::commit::ref_iter::Token;
    let mut out = Vec::new();
    let mut it = CommitRefIter::from_bytes(data);
    for _ in 0..data.len() + 16 {
        match guarded(|| it.next()) {
            None => {
                out.push("PANIC".into());
                return out;
            }
            Some(None) => return out,
            Some(Some(Err(_))) => out.push("ERR".into()),
            Some(Some(Ok(t))) => out.push(match t {
                Token::Tree { id } => format!("T{}", hexs(id.as_bytes())),
                Token::Parent { id } => format!("P{}", hexs(id.as_bytes())),
                Token::Author { signature } => format!("A{}", show_sig(&signature)),
                Token::Committer { signature } => format!("C{}", show_sig(&signature)),
                Token::Encoding(e) => format!("E{}", hexs(e)),
                Token::ExtraHeader((k, v)) => format!("X{}:{}", hexs(k), hexs(v.as_ref())),
                Token::Message(m) => format!("M{}", hexs(m)),
            }),
        }
    }
    out.push("HANG".into());
    out
}
fn run_commit(data: &[u8]) -> String {
    let full = match guarded(|| CommitRef::from_bytes(data)) {
        None => "PANIC".to_string(),
        Some(Err(_)) => "err".into(),
        Some(Ok(c)) => format!(
            "ok t={} p={} a={} c={} e={} x={} m={}",
            hexs(c.tree),
            c.parents.iter().map(|p| hexs(p)).collect::<Vec<_>>().join(","),
            show_sig(&c.author),
            show_sig(&c.committer),
            show_opt(c.encoding.map(|e| e.as_bytes())),
            c.extra_headers.iter().map(|(k, v)| format!("{}:{}", hexs(k), hexs(v.as_ref()))).collect::<Vec<_>>().join(","),
            hexs(c.message)
        ),
    };
    let w = match guarded(|| CommitRef::from_bytes(data)) {
        Some(Ok(c)) => {
            let a = show_write(write_of(&c), data);
            // object/convert.rs: the owned form must serialise to the same bytes
            let owned = guarded(|| gix_object::Commit::from(c.clone()));
            let b = match owned {
                Some(o) => show_write(write_of(&o), data),
                None => "PANIC".into(),
            };
            if a == b { a } else { format!("{a} OWNED {b}") }
        }
        _ => "none".into(),
    };
    format!("F {} I {} W {}", full, commit_tokens(data).join(" "), w)
}

fn tag_tokens(data: &[u8]) -> Vec<String> {
    use gix_object::tag::ref_iter::Token;
    let mut out = Vec::new();
    let mut it = TagRefIter::from_bytes(data);
    for _ in 0..data.len() + 16 {
        match guarded(|| it.next()) {
            None => {
                out.push("PANIC".into());
                return out;
            }
            Some(None) => return out,
            Some(Some(Err(_))) => out.push("ERR".into()),
            Some(Some(Ok(t))) => out.push(match t {
                Token::Target { id } => format!("O{}", hexs(id.as_bytes())),
                Token::TargetKind(k) => format!("K{}", kind_str(k)),
                Token::Name(n) => format!("N{}", hexs(n)),
                Token::Tagger(s) => format!("G{}", s.map(|s| show_sig(&s)).unwrap_or("~".into())),
                Token::Body { message, pgp_signature } => {
                    format!("B{}:{}", hexs(message), show_opt(pgp_signature.map(|p| p.as_bytes())))
                }
            }),
        }
    }
    out.push("HANG".into());
    out
}
fn run_tag(data: &[u8]) -> String {
    let full = match guarded(|| TagRef::from_bytes(data)) {
        None => "PANIC".to_string(),
        Some(Err(_)) => "err".into(),
        Some(Ok(g)) => format!(
            "ok o={} k={} n={} g={} m={} s={}",
            hexs(g.target),
            kind_str(g.target_kind),
            hexs(g.name),
            g.tagger.as_ref().map(show_sig).unwrap_or("~".into()),
            hexs(g.message),
            show_opt(g.pgp_signature.map(|p| p.as_bytes()))
        ),
    };
    let w = match guarded(|| TagRef::from_bytes(data)) {
        Some(Ok(g)) => {
            let a = show_write(write_of(&g), data);
            let owned = guarded(|| gix_object::Tag::from(g.clone()));
            let b = match owned {
                Some(o) => show_write(write_of(&o), data),
                None => "PANIC".into(),
            };
            if a == b { a } else { format!("{a} OWNED {b}") }
        }
        _ => "none".into(),
    };
    format!("F {} I {} W {}", full, tag_tokens(data).join(" "), w)
}

fn show_entry(e: &gix_object::tree::EntryRef<'_>) -> String {
    format!("{}:{}:{}", e.mode.0, hexs(e.filename), hexs(e.oid.as_bytes()))
}
fn run_tree(data: &[u8]) -> String {
    let dec = guarded(|| TreeRef::from_bytes(data));
    let full = match &dec {
        None => "PANIC".to_string(),
        Some(Err(_)) => "err".into(),
        Some(Ok(t)) => format!("ok {}", t.entries.iter().map(show_entry).collect::<Vec<_>>().join(",")),
    };
    let mut toks = Vec::new();
    let mut it = TreeRefIter::from_bytes(data);
    let mut n = 0;
    loop {
        n += 1;
        if n > data.len() + 16 {
            toks.push("HANG".to_string());
            break;
        }
        match guarded(|| it.next()) {
            None => {
                toks.push("PANIC".into());
                break;
            }
            Some(None) => break,
            Some(Some(Err(_))) => toks.push("ERR".into()),
            Some(Some(Ok(e))) => toks.push(show_entry(&e)),
        }
    }
    let w = match &dec {
        Some(Ok(t)) => {
            if t.entries.iter().any(|e| e.filename.contains(&b'/')) {
                "skip".into()
            } else {
                let a = show_write(write_of(t), data);
                let owned = guarded(|| gix_object::Tree::from(t.clone()));
                let b = match owned {
                    Some(o) => show_write(write_of(&o), data),
                    None => "PANIC".into(),
                };
                if a == b { a } else { format!("{a} OWNED {b}") }
            }
        }
        _ => "none".into(),
    };
    format!("F {} I {} W {}", full, toks.join(" "), w)
}

fn imp(c: &Case) -> String {
    let is_val = matches!(f_str(c, 0), b"cval" | b"gval" | b"rval");
    let (data, line) = match op_of(c) {
        Op::Commit(d, _) => {
            let l = run_commit(&d);
            (d, l)
        }
        Op::Tag(d, _, _) => {
            let l = run_tag(&d);
            (d, l)
        }
        Op::Tree(d, _) => {
            let l = run_tree(&d);
            (d, l)
        }
        Op::Unknown => return "?".into(),
    };
    if is_val {
        format!("D {} {}", hexs(&data), line)
    } else {
        line
    }
}

// ------------------------------------------------------------------------------------------------
// prop: the property itself, evaluated on the implementation with an independent oracle
// ------------------------------------------------------------------------------------------------
fn sig_matches(s: &gix_actor::SignatureRef<'_>, v: &GSig) -> bool {
    let off = (v.hh as i64 * 3600 + v.mm as i64 * 60) * if v.minus { -1 } else { 1 };
    s.name == v.name.as_bstr()
        && s.email == v.email.as_bstr()
        && s.time.seconds == v.secs
        && s.time.offset as i64 == off
        && (s.time.sign == gix_date::time::Sign::Minus) == v.minus
}
fn extra_value(x: &GExtra) -> Vec<u8> {
    if x.conts.is_empty() {
        x.first.clone()
    } else {
        let mut o = x.first.clone();
        o.push(b'\n');
        for l in &x.conts {
            o.extend_from_slice(l);
            o.push(b'\n');
        }
        o
    }
}
fn id_of(kind: gix_object::Kind, data: &[u8]) -> gix_hash::ObjectId {
    gix_object::compute_hash(gix_hash::Kind::Sha1, kind, data)
}

/// re-encode through the borrowed and the owned form; both must reproduce `data` (and so the id)
fn reencode_check(kind: gix_object::Kind, r: &dyn WriteTo, o: &dyn WriteTo, data: &[u8], cls: &dyn Fn(&str) -> String) -> Result<(), Verdict> {
    for (which, w) in [("ref", r), ("owned", o)] {
        match write_of(w) {
            Err(_) => return Err(Verdict::fail(cls("reencode-panic"), format!("{which} write_to panicked"))),
            Ok(Err(e)) => return Err(Verdict::fail(cls("reencode-err"), format!("{which} write_to: {e}"))),
            Ok(Ok(b)) => {
                if b != data {
                    return Err(Verdict::fail(cls("reencode-differs"), format!("{which}: {} != {}", hexs(&b), hexs(data))));
                }
                if id_of(kind, &b) != id_of(kind, data) {
                    return Err(Verdict::fail(cls("id"), "id differs"));
                }
                if w.size() != data.len() as u64 {
                    return Err(Verdict::fail(cls("size"), "size() differs from the original length"));
                }
            }
        }
    }
    Ok(())
}

fn prop_commit(data: &[u8], val: Option<&GCommit>) -> Verdict {
    use gix_object::commit::ref_iter::Token;
    let full = match guarded(|| CommitRef::from_bytes(data)) {
        None => return Verdict::fail("commit-panic", "CommitRef::from_bytes panicked"),
        Some(r) => r,
    };
    let mut toks = Vec::new();
    let mut it = CommitRefIter::from_bytes(data);
    let mut iter_err = false;
    for _ in 0..data.len() + 16 {
        match guarded(|| it.next()) {
            None => return Verdict::fail("commit-iter-panic", "CommitRefIter panicked"),
            Some(None) => break,
            Some(Some(Err(_))) => {
                iter_err = true;
            }
            Some(Some(Ok(t))) => {
                if iter_err {
                    return Verdict::fail("commit-iter-after-error", "token after an error");
                }
                toks.push(t)
            }
        }
    }
    let wf = val.map_or(false, commit_wf);
    match &full {
        Err(_) => {
            if wf {
                return Verdict::fail("commit-decode", "a commit git creates is rejected by CommitRef::from_bytes");
            }
            if matches!(toks.last(), Some(Token::Message(_))) && !iter_err {
                return Verdict::fail("commit-agree", "iterator reaches the message, full decoder fails");
            }
            Verdict::ok(!data.is_empty(), "commit-rejected")
        }
        Ok(c) => {
            // the token stream must be exactly the fields
            let mut exp: Vec<Token<'_>> = Vec::new();
            let oid = |h: &[u8]| gix_hash::ObjectId::from_hex(h).ok();
            let (Some(t), true) = (oid(c.tree), c.parents.iter().all(|p| oid(p).is_some())) else {
                return Verdict::fail("commit-fields", "tree/parent is not a hex id");
            };
            exp.push(Token::Tree { id: t });
            for p in c.parents.iter() {
                exp.push(Token::Parent { id: oid(p).unwrap() });
            }
            exp.push(Token::Author { signature: c.author });
            exp.push(Token::Committer { signature: c.committer });
            if let Some(e) = c.encoding {
                exp.push(Token::Encoding(e));
            }
            for (k, v) in &c.extra_headers {
                exp.push(Token::ExtraHeader((k, v.clone())));
            }
            exp.push(Token::Message(c.message));
            if iter_err || toks != exp {
                return Verdict::fail("commit-agree", format!("iterator tokens differ from the fields: {toks:?} vs {exp:?}"));
            }
            if let Some(v) = val {
                if wf {
                    let ok = c.tree == hexs(&v.tree).as_bytes().as_bstr()
                        && c.parents.len() == v.parents.len()
                        && c.parents.iter().zip(&v.parents).all(|(a, b)| *a == hexs(b).as_bytes().as_bstr())
                        && sig_matches(&c.author, &v.author)
                        && sig_matches(&c.committer, &v.committer)
                        && c.encoding.map(|e| e.to_vec()) == v.encoding
                        && c.extra_headers.len() == v.extra.len()
                        && c.extra_headers.iter().zip(&v.extra).all(|((k, val), x)| *k == x.name.as_bstr() && val.as_ref() == extra_value(x).as_bstr())
                        && c.message == v.message.as_bstr();
                    if !ok {
                        return Verdict::fail("commit-fields", format!("decoded fields differ from the values written: {c:?}"));
                    }
                    let owned = match guarded(|| gix_object::Commit::from(c.clone())) {
                        Some(o) => o,
                        None => return Verdict::fail("commit-reencode-panic", "conversion to Commit panicked"),
                    };
                    if let Err(v) = reencode_check(gix_object::Kind::Commit, c, &owned, data, &|s| format!("commit-{s}")) {
                        return v;
                    }
                    return Verdict::ok(true, "commit-git");
                }
            }
            // arbitrary accepted bytes: re-encoding, when it succeeds, must be a fixed point of decode∘encode
            match write_of(c) {
                Err(_) => Verdict::fail("commit-reencode-panic", "write_to panicked on a decoded commit"),
                Ok(Err(_)) => Verdict::ok(true, "commit-accepted-unwritable"),
                Ok(Ok(b)) => {
                    let first = gix_object::Commit::from(c.clone());
                    let again = CommitRef::from_bytes(&b).ok().map(gix_object::Commit::from);
                    if again.as_ref() == Some(&first) {
                        Verdict::ok(true, if b == data { "commit-accepted-verbatim" } else { "commit-accepted-normalised" })
                    } else {
                        Verdict::fail("commit-renormalise", "decode(encode(decode x)) differs from decode x")
                    }
                }
            }
        }
    }
}

fn prop_tag(data: &[u8], val: Option<&GTag>, hint: Option<&str>) -> Verdict {
    use gix_object::tag::ref_iter::Token;
    let full = match guarded(|| TagRef::from_bytes(data)) {
        None => return Verdict::fail("tag-panic", "TagRef::from_bytes panicked"),
        Some(r) => r,
    };
    let mut toks = Vec::new();
    let mut it = TagRefIter::from_bytes(data);
    let mut iter_err = false;
    for _ in 0..data.len() + 16 {
        match guarded(|| it.next()) {
            None => return Verdict::fail("tag-iter-panic", "TagRefIter panicked"),
            Some(None) => break,
            Some(Some(Err(_))) => iter_err = true,
            Some(Some(Ok(t))) => {
                if iter_err {
                    return Verdict::fail("tag-iter-after-error", "token after an error");
                }
                toks.push(t)
            }
        }
    }
    let wf = val.map_or(false, tag_wf);
    // for the mktag stream: does git itself create this object?
    let git_creates = hint.map(|_| gitside::mktag_accepts(data));
    let must = wf || git_creates == Some(true);
    let cls = |shape: &str| match hint {
        Some(h) => format!("mktag-{h}-{shape}"),
        None => format!("tag-{shape}"),
    };
    match &full {
        Err(_) => {
            if must {
                return Verdict::fail(cls("decode"), "a tag git creates is rejected by TagRef::from_bytes");
            }
            if matches!(toks.last(), Some(Token::Body { .. })) && !iter_err {
                return Verdict::fail("tag-agree", "iterator reaches the body, full decoder fails");
            }
            Verdict::ok(!data.is_empty(), "tag-rejected")
        }
        Ok(g) => {
            let Ok(id) = gix_hash::ObjectId::from_hex(g.target) else {
                return Verdict::fail("tag-fields", "target is not a hex id");
            };
            let exp = vec![
                Token::Target { id },
                Token::TargetKind(g.target_kind),
                Token::Name(g.name),
                Token::Tagger(g.tagger),
                Token::Body { message: g.message, pgp_signature: g.pgp_signature },
            ];
            // the iterator stops as soon as the input is used up: the trailing tokens of an object
            // without body (and without tagger) are not reported
            let n = toks.len();
            let prefix_ok = !iter_err
                && n >= 3
                && n <= 5
                && toks[..] == exp[..n]
                && (n == 5 || (g.message.is_empty() && g.pgp_signature.is_none()))
                && (n >= 4 || g.tagger.is_none());
            if !prefix_ok {
                return Verdict::fail("tag-agree", format!("iterator tokens differ from the fields: {toks:?} vs {exp:?}"));
            }
            if must {
                if n != 5 {
                    return Verdict::fail(cls("iter-short"), "the iterator does not report the body of a tag git creates");
                }
                if let (Some(v), true) = (val, wf) {
                    let ok = g.target == hexs(&v.target).as_bytes().as_bstr()
                        && g.target_kind.as_bytes() == &v.kind[..]
                        && g.name == v.name.as_bstr()
                        && g.tagger.is_some() == v.tagger.is_some()
                        && g.tagger.as_ref().zip(v.tagger.as_ref()).map_or(true, |(a, b)| sig_matches(a, b))
                        && g.message == v.message.as_bstr()
                        && g.pgp_signature.map(|p| p.to_vec()) == v.pgp;
                    if !ok {
                        return Verdict::fail("tag-fields", format!("decoded fields differ from the values written: {g:?}"));
                    }
                }
                let owned = match guarded(|| gix_object::Tag::from(g.clone())) {
                    Some(o) => o,
                    None => return Verdict::fail(cls("reencode-panic"), "conversion to Tag panicked"),
                };
                if let Err(v) = reencode_check(gix_object::Kind::Tag, g, &owned, data, &cls) {
                    return v;
                }
                return Verdict::ok(true, if hint.is_some() { "mktag-ok" } else { "tag-git" });
            }
            match write_of(g) {
                Err(_) => Verdict::fail("tag-reencode-panic", "write_to panicked on a decoded tag"),
                Ok(Err(_)) => Verdict::ok(true, "tag-accepted-unwritable"),
                Ok(Ok(b)) => {
                    let first = gix_object::Tag::from(g.clone());
                    let again = TagRef::from_bytes(&b).ok().map(gix_object::Tag::from);
                    if again.as_ref() == Some(&first) {
                        Verdict::ok(true, if b == data { "tag-accepted-verbatim" } else { "tag-accepted-normalised" })
                    } else {
                        Verdict::fail("tag-renormalise", "decode(encode(decode x)) differs from decode x")
                    }
                }
            }
        }
    }
}

/// naive reference reader for trees: split at the first space, the first NUL, take 20 bytes
fn ref_tree(mut d: &[u8]) -> Option<Vec<GEntry>> {
    let mut out = Vec::new();
    while !d.is_empty() {
        let sp = d.iter().position(|b| *b == b' ')?;
        let mut mode: u64 = 0;
        for b in &d[..sp] {
            if !(b'0'..=b'7').contains(b) {
                return None;
            }
            mode = (mode * 8 + (*b - b'0') as u64) & 0xffff_ffff;
        }
        if !(mode == 0o40000 || mode == 0o120000 || mode == 0o160000 || mode & 0o100000 != 0) {
            return None;
        }
        d = &d[sp + 1..];
        let nul = d.iter().position(|b| *b == 0)?;
        let name = d[..nul].to_vec();
        d = &d[nul + 1..];
        if d.len() < 20 {
            return None;
        }
        out.push(GEntry { mode: mode & 0xffff, name, oid: d[..20].to_vec() });
        d = &d[20..];
    }
    Some(out)
}
fn prop_tree(data: &[u8], val: Option<&[GEntry]>) -> Verdict {
    let full = match guarded(|| TreeRef::from_bytes(data)) {
        None => return Verdict::fail("tree-panic", "TreeRef::from_bytes panicked"),
        Some(r) => r,
    };
    let collected = match guarded(|| TreeRefIter::from_bytes(data).entries()) {
        None => return Verdict::fail("tree-iter-panic", "TreeRefIter panicked"),
        Some(r) => r,
    };
    let conv = |es: &[gix_object::tree::EntryRef<'_>]| -> Vec<GEntry> {
        es.iter().map(|e| GEntry { mode: e.mode.0 as u64, name: e.filename.to_vec(), oid: e.oid.as_bytes().to_vec() }).collect()
    };
    let reference = ref_tree(data);
    match (&full, &collected) {
        (Ok(t), Ok(es)) => {
            if t.entries != *es {
                return Verdict::fail("tree-agree", "iterator entries differ from TreeRef::from_bytes");
            }
            if reference.as_ref() != Some(&conv(es)) {
                return Verdict::fail("tree-fields", "entries differ from the reference reader");
            }
        }
        (Err(_), Err(_)) => {
            if reference.is_some() {
                return Verdict::fail("tree-decode", "a tree the reference reader accepts is rejected");
            }
        }
        _ => return Verdict::fail("tree-agree", "one decoder accepts, the other rejects"),
    }
    let wf = val.map_or(false, tree_wf);
    match full {
        Err(_) => {
            if wf {
                Verdict::fail("tree-decode", "a tree git creates is rejected")
            } else {
                Verdict::ok(!data.is_empty(), "tree-rejected")
            }
        }
        Ok(t) => {
            if let (Some(v), true) = (val, wf) {
                if conv(&t.entries) != v {
                    return Verdict::fail("tree-fields", "decoded entries differ from the values written");
                }
                if t.entries.iter().any(|e| e.filename.contains(&b'/')) || !generate::git_sorted(v) {
                    return Verdict::ok(true, "tree-git-unsorted");
                }
                let owned = gix_object::Tree::from(t.clone());
                if let Err(v) = reencode_check(gix_object::Kind::Tree, &t, &owned, data, &|s| format!("tree-{s}")) {
                    return v;
                }
                return Verdict::ok(!v.is_empty(), "tree-git");
            }
            Verdict::ok(!t.entries.is_empty(), "tree-accepted")
        }
    }
}

fn prop(c: &Case) -> Verdict {
    match op_of(c) {
        Op::Commit(d, v) => prop_commit(&d, v.as_ref()),
        Op::Tag(d, v, h) => prop_tag(&d, v.as_ref(), h.as_deref()),
        Op::Tree(d, v) => prop_tree(&d, v.as_deref()),
        Op::Unknown => Verdict::ok(false, "unknown-op"),
    }
}

fn git(c: &Case) -> String {
    gitside::git_line(c)
}

fn main() {
    main_with(Harness { gen: generate::gen, imp, prop, git: Some(git), deadline: Duration::from_secs(300) });
}
