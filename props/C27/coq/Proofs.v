(* C27 — lemmas: case rules of the lookup. *)
From Coq Require Import Lia.
From GixV.Base Require Import Bytes BytesFacts Outcome.
From GixV.C27 Require Import Model Spec.

(* ---- eq_ignore_ascii_case is an equivalence; the Spec's tolower is the model's ---------------- *)

Lemma lower_is_tolower c : lower c = s_tolower c.
Proof. reflexivity. Qed.

Lemma eq_ci_is_spec a : forall b, eq_ci a b = s_eq_ci a b.
Proof. induction a as [|x a IH]; intros [|y b]; cbn [eq_ci s_eq_ci]; try reflexivity; try (now rewrite IH). Qed.

Lemma beqb_refl c : beqb c c = true.
Proof. now apply beqb_eq. Qed.

Lemma beqb_sym a b : beqb a b = beqb b a.
Proof.
  destruct (beqb a b) eqn:E.
  - apply beqb_eq in E. subst. now rewrite beqb_refl.
  - destruct (beqb b a) eqn:E2; [|reflexivity]. apply beqb_eq in E2. subst. rewrite beqb_refl in E. discriminate.
Qed.

Lemma eq_ci_refl a : eq_ci a a = true.
Proof. induction a as [|x a IH]; cbn [eq_ci]; [reflexivity|]. now rewrite beqb_refl. Qed.

Lemma eq_ci_sym a : forall b, eq_ci a b = eq_ci b a.
Proof. induction a as [|x a IH]; intros [|y b]; cbn [eq_ci]; try reflexivity. now rewrite beqb_sym, IH. Qed.

Lemma eq_ci_trans a : forall b c, eq_ci a b = true -> eq_ci b c = true -> eq_ci a c = true.
Proof.
  induction a as [|x a IH]; intros [|y b] [|z c]; cbn [eq_ci]; try discriminate; try reflexivity.
  intros H1 H2. apply Bool.andb_true_iff in H1 as [H1 H1']. apply Bool.andb_true_iff in H2 as [H2 H2'].
  apply beqb_eq in H1. apply beqb_eq in H2. rewrite H1, H2, beqb_refl. cbn [andb]. eapply IH; eassumption.
Qed.

Lemma eq_ci_congr a b : eq_ci a b = true -> forall k, eq_ci k a = eq_ci k b.
Proof.
  intros H k. destruct (eq_ci k a) eqn:E1, (eq_ci k b) eqn:E2; try reflexivity.
  - rewrite (eq_ci_trans _ _ _ E1 H) in E2. discriminate.
  - rewrite eq_ci_sym in H. rewrite (eq_ci_trans _ _ _ E2 H) in E1. discriminate.
Qed.

(* the length and the lower-cased text decide eq_ci *)
Lemma eq_ci_map_lower a : forall b, eq_ci a b = true <-> map lower a = map lower b.
Proof.
  induction a as [|x a IH]; intros [|y b]; cbn [eq_ci map]; try (split; congruence).
  rewrite Bool.andb_true_iff, beqb_eq, IH. split.
  - intros [-> ->]. reflexivity.
  - intros H. injection H as -> ->. split; reflexivity.
Qed.

(* ---- value names compare case-insensitively -------------------------------------------------- *)

Section KeyCase.
  Variables key key' : bytes.
  Hypothesis Hk : eq_ci key key' = true.

  Lemma values_loop_ci evs : forall expect concat acc,
    values_loop key evs expect concat acc = values_loop key' evs expect concat acc.
  Proof.
    induction evs as [|e r IH]; intros; cbn [values_loop]; [reflexivity|].
    destruct e; try apply IH.
    - rewrite (eq_ci_congr _ _ Hk). destruct (eq_ci k key'); apply IH.
    - destruct expect; apply IH.
    - destruct expect; apply IH.
    - destruct expect; apply IH.
  Qed.

  Lemma kv_range_loop_ci ievs : forall st en,
    kv_range_loop key ievs st en = kv_range_loop key' ievs st en.
  Proof.
    induction ievs as [|[i e] r IH]; intros; cbn [kv_range_loop]; [reflexivity|].
    destruct e; try apply IH.
    - rewrite (eq_ci_congr _ _ Hk). destruct (eq_ci k key'); [reflexivity | apply IH].
    - destruct (Nat.eqb en 0); apply IH.
    - destruct (Nat.eqb en 0); apply IH.
  Qed.

  Lemma value_implicit_ci evs : value_implicit evs key = value_implicit evs key'.
  Proof. unfold value_implicit. now rewrite kv_range_loop_ci. Qed.

  Lemma raw_value_loop_ci ss : raw_value_loop ss key = raw_value_loop ss key'.
  Proof. induction ss as [|s r IH]; cbn [raw_value_loop]; [reflexivity|]. now rewrite value_implicit_ci, IH. Qed.

  Lemma boolean_loop_ci ss : boolean_loop ss key = boolean_loop ss key'.
  Proof. induction ss as [|s r IH]; cbn [boolean_loop]; [reflexivity|]. now rewrite value_implicit_ci, IH. Qed.
End KeyCase.

Lemma filter_ext_all {A} (f g : A -> bool) l : (forall x, f x = g x) -> filter f l = filter g l.
Proof. intros H. induction l as [|x l IH]; cbn [filter]; [reflexivity|]. now rewrite H, IH. Qed.

Lemma sections_by_ci secs sec sec' sub : eq_ci sec sec' = true ->
  sections_by secs sec sub = sections_by secs sec' sub.
Proof.
  intros H. unfold sections_by. apply filter_ext_all. intros s. now rewrite (eq_ci_congr _ _ H).
Qed.

Lemma flat_map_ext_all {A B} (f g : A -> list B) l : (forall x, f x = g x) -> flat_map f l = flat_map g l.
Proof. intros H. induction l as [|x l IH]; cbn [flat_map]; [reflexivity|]. now rewrite H, IH. Qed.

Lemma L_lookup_case_insensitive secs sec sec' sub name name' :
  eq_ci sec sec' = true -> eq_ci name name' = true ->
  lookup secs sec sub name = lookup secs sec' sub name'.
Proof.
  intros Hs Hn. unfold lookup. rewrite (sections_by_ci _ _ _ _ Hs).
  rewrite (raw_value_loop_ci _ _ Hn), (boolean_loop_ci _ _ Hn).
  rewrite (flat_map_ext_all (fun s => body_values (sevents s) name) (fun s => body_values (sevents s) name'));
    [reflexivity|].
  intros s. unfold body_values. now apply values_loop_ci.
Qed.

(* header side: only the lower-cased section name and the exact subsection of a header matter *)
Definition same_header_key (h1 h2 : header) : Prop :=
  eq_ci (hname h1) (hname h2) = true /\ hsub h1 = hsub h2.

Lemma L_header_case_irrelevant h1 h2 evs secs1 secs2 sec sub :
  same_header_key h1 h2 ->
  map sevents (sections_by (secs1 ++ PSection h1 evs :: secs2) sec sub) =
  map sevents (sections_by (secs1 ++ PSection h2 evs :: secs2) sec sub).
Proof.
  intros [Hn Hs]. unfold sections_by. rewrite !filter_app, !map_app. f_equal.
  cbn [filter sheader sevents]. rewrite Hs.
  replace (eq_ci (hname h1) sec) with (eq_ci (hname h2) sec).
  - destruct (eq_ci (hname h2) sec && sub_matches (hsub h2) sub); reflexivity.
  - rewrite (eq_ci_sym (hname h2)), (eq_ci_sym (hname h1)). symmetry. now apply eq_ci_congr.
Qed.

(* subsections compare exactly *)
Lemma L_subsection_exact secs sec sub s :
  In s (sections_by secs sec (Some sub)) -> hsub (sheader s) = Some sub.
Proof.
  unfold sections_by. intros H. apply filter_In in H as [_ H]. apply Bool.andb_true_iff in H as [_ H].
  unfold sub_matches in H. destruct (hsub (sheader s)) as [a|]; [|discriminate].
  apply bytes_eqb_eq in H. now subst.
Qed.

(* ---- booleans: the keywords ------------------------------------------------------------------- *)

Lemma L_bool_keywords v :
  parse_true v || parse_false v = true -> git_bool (Some v) = boolean_try_from v.
Proof.
  unfold parse_true, parse_false, boolean_try_from, git_bool, parse_true, parse_false.
  destruct v as [|c t]; [reflexivity|].
  rewrite <- (eq_ci_is_spec (c :: t) (bs "true")), <- (eq_ci_is_spec (c :: t) (bs "yes")),
          <- (eq_ci_is_spec (c :: t) (bs "on")), <- (eq_ci_is_spec (c :: t) (bs "false")),
          <- (eq_ci_is_spec (c :: t) (bs "no")), <- (eq_ci_is_spec (c :: t) (bs "off")).
  change (s_is_nil (c :: t)) with false. change (is_nil (c :: t)) with false.
  destruct (eq_ci (c :: t) (bs "yes")), (eq_ci (c :: t) (bs "on")), (eq_ci (c :: t) (bs "true"));
    cbn [orb]; try reflexivity.
  destruct (eq_ci (c :: t) (bs "no")), (eq_ci (c :: t) (bs "off")), (eq_ci (c :: t) (bs "false"));
    cbn [orb]; try reflexivity. discriminate.
Qed.
