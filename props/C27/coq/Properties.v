(* C27 — Config values are interpreted like git.
   Only statements here; every proof is [exact <lemma of Proofs*.v>].
   Model.v: gix-config (parser, section lookup, Body::{values,value_implicit}, File::{strings,string,
   boolean,integer,path}, value::normalize, Boolean/Integer/Path).  Spec.v: git 2.39.5 config.c. *)
From GixV.Base Require Import Bytes BytesFacts Outcome.
From Coq Require Import ZArith.
From GixV.C27 Require Import Model Spec Proofs ProofsNorm ProofsValue ProofsNum ProofsLookup.

(* Case rules, lookup side: two keys whose section names and value names differ only in ASCII case
   (and whose subsections are identical) get the same answer for every query type. *)
Theorem lookup_case_insensitive : forall secs sec sec' sub name name',
  eq_ci sec sec' = true -> eq_ci name name' = true ->
  lookup secs sec sub name = lookup secs sec' sub name'.
Proof. exact L_lookup_case_insensitive. Qed.

(* Case rules, file side: the case of a header's section name does not influence which section
   bodies a key sees. *)
Theorem header_case_irrelevant : forall h1 h2 evs secs1 secs2 sec sub,
  same_header_key h1 h2 ->
  map sevents (sections_by (secs1 ++ PSection h1 evs :: secs2) sec sub) =
  map sevents (sections_by (secs1 ++ PSection h2 evs :: secs2) sec sub).
Proof. exact L_header_case_irrelevant. Qed.

(* ... while a subsection matches only byte for byte. *)
Theorem subsection_exact : forall secs sec sub s,
  In s (sections_by secs sec (Some sub)) -> hsub (sheader s) = Some sub.
Proof. exact L_subsection_exact. Qed.

(* Booleans: on every spelling of the keywords (and the empty string) gix and git agree. *)
Theorem bool_keywords_are_git : forall v,
  parse_true v || parse_false v = true -> git_bool (Some v) = boolean_try_from v.
Proof. exact L_bool_keywords. Qed.

(* normalize: for EVERY byte string the result is that of the plain unescape loop (drop quotes,
   backslash-n/t to LF/TAB, backslash-b pops, backslash-x to x, a final lone backslash is dropped):
   the quote-stripping fast path, the borrowed/owned distinction and the early returns never
   change the value. *)
Theorem normalize_is_unescape : forall x, normalize x = unescape x [].
Proof. exact L_normalize_is_unescape. Qed.

(* normalize is git's parse_value (git >= 2.45 whitespace rule, Spec.v [verbatim := true]) on every
   one-line raw value that is [clean_value]: quotes balanced, escapes among backslash-n, -t, -backslash, -quote, no comment
   character outside quotes, no unquoted whitespace before the first value byte or at the end.
   git consumes the line feed and leaves [rest]. *)
Theorem normalize_is_git_parse_value_partial : forall r rest,
  clean_value r = true ->
  git_parse_value true (r ++ x0a :: rest) = Some (normalize r, rest).
Proof. exact L_unescape_is_git_value. Qed.

(* ... and likewise when the value is the last thing in the file (no final newline). *)
Theorem normalize_is_git_parse_value_eof_partial : forall r,
  clean_value r = true -> git_parse_value true r = Some (normalize r, []).
Proof. exact L_unescape_is_git_value_eof. Qed.

(* the full statement the partial theorems are a part of: for every input [i] of value_impl (the text
   after `=`), whenever git accepts the value, gix parses it and normalize of the concatenated
   Value/ValueNotDone/ValueDone payloads ([concat_values]) is git's value.  It is FALSE of the code as it is (classes
   leading-whitespace-kept, backslash-at-eof, value-trailing-formfeed, lone-cr, doc-backspace): *)
Definition normalize_is_git_full_statement : Prop :=
  forall i v rest, git_parse_value true (crlf i) = Some (v, rest) ->
    exists evs rest', value_impl i = Ok (evs, rest') /\ normalize (concat_values evs) = v.

Theorem normalize_is_git_refuted : ~ normalize_is_git_full_statement.
Proof. exact L_full_statement_refuted. Qed.

Example clean_value_example :
  let r := bs "a ""b ;# c"" \n\""d" in
  clean_value r = true /\ normalize r = bs "a b ;# c " ++ [x0a; x22] ++ bs "d".
Proof. split; reflexivity. Qed.

Example case_rules_example :
  eq_ci (bs "Core") (bs "cORE") = true /\ eq_ci (bs "bare") (bs "BARE") = true /\
  parse_true (bs "YeS") || parse_false (bs "YeS") = true /\
  same_header_key (Header (bs "Core") None None) (Header (bs "core") None None).
Proof. repeat split. Qed.

(* ---- numbers ------------------------------------------------------------------------------------
   Class predicates on the TEXT of a value (ProofsNum.v; the harness' number_form mirrors them):
   [leading_space] first byte is C white space; [num_radix_prefix] after an optional sign the text
   starts with 0 followed by a digit or x/X; [num_no_digits] the text is one unit letter;
   [bool_unit_suffix] sign? digits+ unit letter; [bool_outside_i32] sign? digits+ with a value in i64
   but beyond 32 bits.  Class int-min is stated on the result. *)

(* Integers: for EVERY byte string outside the known classes, Integer::try_from + to_decimal is
   git_parse_signed (strtoimax, k/m/g factors, overflow -> error) with the int64 bound. *)
Theorem int_is_git_except_known : forall v,
  leading_space v = false -> num_radix_prefix v = false -> num_no_digits v = false ->
  integer_of v <> IntOk i64_min ->
  int_opt (integer_of v) = git_int (Some v).
Proof. exact L_int_is_git. Qed.

Theorem int_is_git_refuted :
  (exists v, leading_space v = true /\ int_opt (integer_of v) <> git_int (Some v)) /\
  (exists v, num_radix_prefix v = true /\ int_opt (integer_of v) <> git_int (Some v)) /\
  (exists v, num_no_digits v = true /\ int_opt (integer_of v) <> git_int (Some v)) /\
  (exists v, integer_of v = IntOk i64_min /\ int_opt (integer_of v) <> git_int (Some v)).
Proof.
  repeat split.
  - exists (bs " 1"). split; [reflexivity | vm_compute; discriminate].
  - exists (bs "010"). split; [reflexivity | vm_compute; discriminate].
  - exists (bs "k"). split; [reflexivity | vm_compute; discriminate].
  - exists (bs "-9223372036854775808"). split; [reflexivity | vm_compute; discriminate].
Qed.

(* Booleans: for EVERY byte string outside the known classes, Boolean::try_from is
   git_parse_maybe_bool (keywords, the empty string, numbers through git_parse_int). *)
Theorem bool_is_git_except_known : forall v,
  leading_space v = false -> num_radix_prefix v = false -> num_no_digits v = false ->
  bool_unit_suffix v = false -> bool_outside_i32 v = false ->
  git_bool (Some v) = boolean_try_from v.
Proof. exact L_bool_is_git. Qed.

Theorem bool_is_git_refuted :
  (exists v, bool_unit_suffix v = true /\ git_bool (Some v) <> boolean_try_from v) /\
  (exists v, bool_outside_i32 v = true /\ git_bool (Some v) <> boolean_try_from v).
Proof.
  split.
  - exists (bs "1k"). split; [reflexivity | vm_compute; discriminate].
  - exists (bs "2147483648"). split; [reflexivity | vm_compute; discriminate].
Qed.

Example numbers_example :
  let v := bs "-8589934591g" in
  leading_space v = false /\ num_radix_prefix v = false /\ num_no_digits v = false /\
  integer_of v = IntOk (-9223372035781033984)%Z /\ git_int (Some v) = Some (-9223372035781033984)%Z /\
  bool_unit_suffix (bs "-7") = false /\ bool_outside_i32 (bs "-7") = false /\
  boolean_try_from (bs "-7") = Some true.
Proof. repeat split; vm_compute; reflexivity. Qed.

(* ---- last one wins ---------------------------------------------------------------------------------
   Among the sections matching the key's section and subsection (in file order), the last one with an
   explicit value for the key decides string, integer and path; it also decides the boolean when no
   later matching section mentions the key at all (a later key without `=` is an implicit true). *)
Theorem lookup_last_wins : forall secs sec sub name ss1 s ss2 v,
  sections_by secs sec sub = ss1 ++ s :: ss2 ->
  value_implicit (sevents s) name = Ok (Some (Some v)) ->
  Forall (no_value name) ss2 ->
  exists a, lookup secs sec sub name = Ok a /\
            a_string a = Some v /\ a_int a = Some (integer_of v) /\ a_path a = Some (interpolate v) /\
            (Forall (no_key name) ss2 -> a_bool a = bool_of v).
Proof. exact L_lookup_last_wins. Qed.

(* the multi-value accessor lists the values of the matching sections in file order *)
Theorem strings_in_file_order : forall secs sec sub name a,
  lookup secs sec sub name = Ok a ->
  a_strings a = (let vals := flat_map (fun s => body_values (sevents s) name) (sections_by secs sec sub) in
                 if is_nil vals then None else Some vals).
Proof. exact L_strings_in_file_order. Qed.

Example last_wins_example :
  match file_sections false (bs "[a]" ++ [x0a] ++ bs "k = 1" ++ [x0a] ++ bs "[A]" ++ [x0a] ++ bs "k = 2" ++ [x0a] ++ bs "[a]" ++ [x0a] ++ bs "j") with
  | Ok secs =>
      match sections_by secs (bs "a") None with
      | [s1; s2; s3] =>
          value_implicit (sevents s2) (bs "k") = Ok (Some (Some (bs "2"))) /\
          no_key (bs "k") s3 /\
          match lookup secs (bs "a") None (bs "k") with Ok a => a_string a = Some (bs "2") | _ => False end
      | _ => False
      end
  | _ => False
  end.
Proof. vm_compute. repeat split. Qed.
