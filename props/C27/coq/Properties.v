(* C27 — Config values are interpreted like git.
   Only statements here; every proof is [exact <lemma of Proofs*.v>].
   Model.v: gix-config (parser, section lookup, Body::{values,value_implicit}, File::{strings,string,
   boolean,integer,path}, value::normalize, Boolean/Integer/Path).  Spec.v: git 2.39.5 config.c. *)
From GixV.Base Require Import Bytes BytesFacts Outcome.
From GixV.C27 Require Import Model Spec Proofs.

(* Case rules, lookup side: two keys whose section names and value names differ only in ASCII case
   (and whose subsections are identical) get the same answer for every query type. *)
Theorem lookup_case_insensitive : forall secs sec sec' sub name name',
  eq_ci sec sec' = true -> eq_ci name name' = true ->
  lookup secs sec sub name = lookup secs sec' sub name'.
Proof. exact L_lookup_case_insensitive. Qed.

(* Case rules, file side: the case of a header's section name does not influence which section
   bodies a key sees. *)
Theorem header_case_irrelevant : forall h1 h2 evs secs1 secs2 sec sub,
  same_header_key h1 h2 ->
  map sevents (sections_by (secs1 ++ PSection h1 evs :: secs2) sec sub) =
  map sevents (sections_by (secs1 ++ PSection h2 evs :: secs2) sec sub).
Proof. exact L_header_case_irrelevant. Qed.

(* ... while a subsection matches only byte for byte. *)
Theorem subsection_exact : forall secs sec sub s,
  In s (sections_by secs sec (Some sub)) -> hsub (sheader s) = Some sub.
Proof. exact L_subsection_exact. Qed.

(* Booleans: on every spelling of the keywords (and the empty string) gix and git agree. *)
Theorem bool_keywords_are_git : forall v,
  parse_true v || parse_false v = true -> git_bool (Some v) = boolean_try_from v.
Proof. exact L_bool_keywords. Qed.

Example case_rules_example :
  eq_ci (bs "Core") (bs "cORE") = true /\ eq_ci (bs "bare") (bs "BARE") = true /\
  parse_true (bs "YeS") || parse_false (bs "YeS") = true /\
  same_header_key (Header (bs "Core") None None) (Header (bs "core") None None).
Proof. repeat split. Qed.
