(* C27 — Config values are interpreted like git.
   Only statements here; every proof is [exact <lemma of Proofs*.v>].
   Model.v: gix-config (parser, section lookup, Body::{values,value_implicit}, File::{strings,string,
   boolean,integer,path}, value::normalize, Boolean/Integer/Path).  Spec.v: git 2.39.5 config.c. *)
From GixV.Base Require Import Bytes BytesFacts Outcome.
From GixV.C27 Require Import Model Spec Proofs ProofsNorm ProofsValue.

(* Case rules, lookup side: two keys whose section names and value names differ only in ASCII case
   (and whose subsections are identical) get the same answer for every query type. *)
Theorem lookup_case_insensitive : forall secs sec sec' sub name name',
  eq_ci sec sec' = true -> eq_ci name name' = true ->
  lookup secs sec sub name = lookup secs sec' sub name'.
Proof. exact L_lookup_case_insensitive. Qed.

(* Case rules, file side: the case of a header's section name does not influence which section
   bodies a key sees. *)
Theorem header_case_irrelevant : forall h1 h2 evs secs1 secs2 sec sub,
  same_header_key h1 h2 ->
  map sevents (sections_by (secs1 ++ PSection h1 evs :: secs2) sec sub) =
  map sevents (sections_by (secs1 ++ PSection h2 evs :: secs2) sec sub).
Proof. exact L_header_case_irrelevant. Qed.

(* ... while a subsection matches only byte for byte. *)
Theorem subsection_exact : forall secs sec sub s,
  In s (sections_by secs sec (Some sub)) -> hsub (sheader s) = Some sub.
Proof. exact L_subsection_exact. Qed.

(* Booleans: on every spelling of the keywords (and the empty string) gix and git agree. *)
Theorem bool_keywords_are_git : forall v,
  parse_true v || parse_false v = true -> git_bool (Some v) = boolean_try_from v.
Proof. exact L_bool_keywords. Qed.

(* normalize: for EVERY byte string the result is that of the plain unescape loop (drop quotes,
   backslash-n/t to LF/TAB, backslash-b pops, backslash-x to x, a final lone backslash is dropped):
   the quote-stripping fast path, the borrowed/owned distinction and the early returns never
   change the value. *)
Theorem normalize_is_unescape : forall x, normalize x = unescape x [].
Proof. exact L_normalize_is_unescape. Qed.

(* normalize is git's parse_value (git >= 2.45 whitespace rule, Spec.v [verbatim := true]) on every
   one-line raw value that is [clean_value]: quotes balanced, escapes among backslash-n, -t, -backslash, -quote, no comment
   character outside quotes, no unquoted whitespace before the first value byte or at the end.
   git consumes the line feed and leaves [rest]. *)
Theorem normalize_is_git_parse_value_partial : forall r rest,
  clean_value r = true ->
  git_parse_value true (r ++ x0a :: rest) = Some (normalize r, rest).
Proof. exact L_unescape_is_git_value. Qed.

(* ... and likewise when the value is the last thing in the file (no final newline). *)
Theorem normalize_is_git_parse_value_eof_partial : forall r,
  clean_value r = true -> git_parse_value true r = Some (normalize r, []).
Proof. exact L_unescape_is_git_value_eof. Qed.

(* the full statement the partial theorems are a part of: for every input [i] of value_impl (the text
   after `=`), whenever git accepts the value, gix parses it and normalize of the concatenated
   Value/ValueNotDone/ValueDone payloads ([concat_values]) is git's value.  It is FALSE of the code as it is (classes
   leading-whitespace-kept, backslash-at-eof, value-trailing-formfeed, lone-cr, doc-backspace): *)
Definition normalize_is_git_full_statement : Prop :=
  forall i v rest, git_parse_value true (crlf i) = Some (v, rest) ->
    exists evs rest', value_impl i = Ok (evs, rest') /\ normalize (concat_values evs) = v.

Theorem normalize_is_git_refuted : ~ normalize_is_git_full_statement.
Proof. exact L_full_statement_refuted. Qed.

Example clean_value_example :
  let r := bs "a ""b ;# c"" \n\""d" in
  clean_value r = true /\ normalize r = bs "a b ;# c " ++ [x0a; x22] ++ bs "d".
Proof. split; reflexivity. Qed.

Example case_rules_example :
  eq_ci (bs "Core") (bs "cORE") = true /\ eq_ci (bs "bare") (bs "BARE") = true /\
  parse_true (bs "YeS") || parse_false (bs "YeS") = true /\
  same_header_key (Header (bs "Core") None None) (Header (bs "core") None None).
Proof. repeat split. Qed.
