(* C27 — transcript printer: the same observable string the Rust harness prints for a case. *)
From GixV.Base Require Import Bytes Outcome.
From GixV.C27 Require Import Model Spec.

Definition hx (b : bytes) : bytes := if is_nil b then bs "-" else hex_encode b.

Fixpoint join_with (sep : bytes) (ls : list bytes) : bytes :=
  match ls with
  | [] => []
  | [x] => x
  | x :: r => x ++ sep ++ join_with sep r
  end.

Definition show_int (r : int_result) : bytes :=
  match r with IntOk z => Z_to_dec z | IntErr => bs "err" | IntOverflow => bs "err" end.

Definition show_answers (a : answers) : bytes :=
  bs "vals=" ++ match a_strings a with Some l => join_with (bs ",") (map hx l) | None => bs "none" end ++
  bs " str=" ++ match a_string a with Some v => hx v | None => bs "none" end ++
  bs " bool=" ++ match a_bool a with BNone => bs "none" | BTrue => bs "true" | BFalse => bs "false" | BErr => bs "err" end ++
  bs " int=" ++ match a_int a with Some r => show_int r | None => bs "none" end ++
  bs " path=" ++ match a_path a with Some (Some p) => hx p | Some None => bs "err" | None => bs "none" end.

Definition run_query (lossy : bool) (file key : bytes) : bytes :=
  match file_sections lossy file with
  | Ok secs =>
      match parse_key key with
      | None => bs "nokey"
      | Some (sec, sub, name) =>
          match lookup secs sec sub name with
          | Ok a => show_answers a
          | Err _ => bs "?" | Panic => bs "PANIC" | OutOfFuel => bs "HANG"
          end
      end
  | Err _ => bs "parse-err"
  | Panic => bs "PANIC"
  | OutOfFuel => bs "HANG"
  end.

Definition run_model (fs : list bytes) : bytes :=
  let op := nth_field 0 fs in
  if bytes_eqb op (bs "q") then run_query false (nth_field 1 fs) (nth_field 2 fs)
  else if bytes_eqb op (bs "ql") then run_query true (nth_field 1 fs) (nth_field 2 fs)
  else if bytes_eqb op (bs "norm") then hx (normalize (nth_field 1 fs))
  else if bytes_eqb op (bs "bool") then
    match boolean_try_from (nth_field 1 fs) with Some true => bs "true" | Some false => bs "false" | None => bs "err" end
  else if bytes_eqb op (bs "int") then
    match integer_of (nth_field 1 fs) with IntOk z => Z_to_dec z | IntErr => bs "err" | IntOverflow => bs "overflow" end
  else if bytes_eqb op (bs "path") then
    match interpolate (nth_field 1 fs) with Some p => hx p | None => bs "err" end
  else bs "?".

(* git side: `git config -f <file> -z -l`, `--get-all`, `--type=bool|int --get` (the CLI converts
   every value of the key before showing the last one, so one bad value makes it fail) *)
Definition show_gbool (r : option bool) : bytes :=
  match r with Some true => bs "true" | Some false => bs "false" | None => bs "err" end.
Definition show_gint (r : option Z) : bytes := match r with Some z => Z_to_dec z | None => bs "err" end.

Definition all_some {A} (l : list (option A)) : bool := forallb (fun o => match o with Some _ => true | None => false end) l.

Definition run_spec (fs : list bytes) : bytes :=
  let op := nth_field 0 fs in
  if bytes_eqb op (bs "q") then
    match git_parse_file false (nth_field 1 fs) with
    | None => bs "bad-file"
    | Some entries =>
        match git_parse_key (nth_field 2 fs) with
        | None => bs "bad-key"
        | Some k =>
            let vals := git_values entries k in
            match rev vals with
            | [] => bs "vals=none bool=none int=none"
            | lastv :: _ =>
                let bools := map git_bool vals in
                let ints := map git_int vals in
                bs "vals=" ++ join_with (bs ",") (map (fun v => match v with Some b => hx b | None => bs "~" end) vals) ++
                bs " bool=" ++ (if all_some bools then show_gbool (git_bool lastv) else bs "err") ++
                bs " int=" ++ (if all_some ints then show_gint (git_int lastv) else bs "err")
            end
        end
    end
  else bs "-".

Definition run (fs : list bytes) : bytes :=
  match fs with
  | mode :: rest => if bytes_eqb mode (bs "spec") then run_spec rest else run_model rest
  | [] => bs "?"
  end.
