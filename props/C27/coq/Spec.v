(* C27 — Spec: git's reading of a config file, transcribed from config.c / parse.c of git 2.39.5
   (git_parse_source, get_base_var, get_extended_base_var, get_value, parse_value,
   git_config_parse_key, git_parse_maybe_bool, git_parse_signed + strtoimax(.., 0)).
   Independent of Model.v.  Validated against /usr/bin/git by the `git` oracle of the harness
   (`run ("spec" :: ...)`), with [verbatim := false].

   [verbatim] selects how parse_value treats unquoted whitespace inside a value:
     false  git <= 2.44: every such byte (space, tab, lone CR) becomes one space;
     true   git >= 2.45 ("config: really keep value-internal whitespace verbatim"): kept as is.
   The installed git 2.39.5 validates only [false]; the two coincide when all unquoted inner
   whitespace consists of spaces. *)
From GixV.Base Require Import Bytes.

Definition s_in_range (lo hi : N) (c : byte) : bool := N.leb lo (b2N c) && N.leb (b2N c) hi.
Definition s_is_alpha (c : byte) : bool := s_in_range 65 90 c || s_in_range 97 122 c.
Definition s_is_digit (c : byte) : bool := s_in_range 48 57 c.
Definition iskeychar (c : byte) : bool := s_is_alpha c || s_is_digit c || beqb c x2d.
Definition s_tolower (c : byte) : byte := if s_in_range 65 90 c then N2b (b2N c + 32) else c.
(* git's sane_ctype isspace: space, \t, \n, \r *)
Definition g_isspace (c : byte) : bool := match c with x20 | x09 | x0a | x0d => true | _ => false end.
Definition g_is_comment (c : byte) : bool := match c with x3b | x23 => true | _ => false end.
Definition s_is_nil {A} (l : list A) : bool := match l with [] => true | _ => false end.

(* get_next_char turns CR LF into LF wherever it occurs: read from this stream instead.
   End of input reads as LF (with the eof flag). *)
Fixpoint crlf (s : bytes) : bytes :=
  match s with
  | [] => []
  | c :: t => match c, t with
              | x0d, x0a :: _ => crlf t
              | _, _ => c :: crlf t
              end
  end.

(* parse_value; [v_rev] is cs->value newest first, [pending] the counted/kept whitespace *)
Fixpoint gvalue (verbatim : bool) (s : bytes) (quote comment : bool) (pending v_rev : bytes)
  : option (bytes * bytes) :=
  match s with
  | [] => if quote then None else Some (rev v_rev, [])
  | c :: t =>
      if beqb c x0a then (if quote then None else Some (rev v_rev, t))
      else if comment then gvalue verbatim t quote comment pending v_rev
      else if g_isspace c && negb quote then
        gvalue verbatim t quote comment
               (if s_is_nil v_rev then pending else (if verbatim then c else x20) :: pending) v_rev
      else if negb quote && g_is_comment c then gvalue verbatim t quote true pending v_rev
      else
        let v1 := pending ++ v_rev in
        if beqb c x5c then
          match t with
          | [] => if quote then None else Some (rev v1, [])
          | d :: t' =>
              if beqb d x0a then gvalue verbatim t' quote false [] v1
              else if beqb d x74 then gvalue verbatim t' quote false [] (x09 :: v1)
              else if beqb d x62 then gvalue verbatim t' quote false [] (x08 :: v1)
              else if beqb d x6e then gvalue verbatim t' quote false [] (x0a :: v1)
              else if beqb d x5c || beqb d x22 then gvalue verbatim t' quote false [] (d :: v1)
              else None
          end
        else if beqb c x22 then gvalue verbatim t (negb quote) false [] v1
        else gvalue verbatim t quote false [] (c :: v1)
  end.

Definition git_parse_value (verbatim : bool) (s : bytes) : option (bytes * bytes) :=
  gvalue verbatim s false false [] [].

(* the quoted part of get_extended_base_var *)
Fixpoint gext_string (s : bytes) (acc_rev : bytes) : option (bytes * bytes) :=
  match s with
  | [] => None
  | c :: t =>
      if beqb c x0a then None
      else if beqb c x22 then Some (rev acc_rev, t)
      else if beqb c x5c then
        match t with
        | [] => None
        | d :: t' => if beqb d x0a then None else gext_string t' (d :: acc_rev)
        end
      else gext_string t (c :: acc_rev)
  end.

(* `do { if (c == '\n') error; c = get_next_char(); } while (isspace(c));` *)
Fixpoint gext_skip (c : byte) (s : bytes) : option (byte * bytes) :=
  if beqb c x0a then None else
  match s with
  | [] => None
  | d :: t => if g_isspace d then gext_skip d t else Some (d, t)
  end.

(* get_base_var, after the `[` *)
Fixpoint gbase (s : bytes) (acc_rev : bytes) : option (bytes * bytes) :=
  match s with
  | [] => None
  | c :: t =>
      if beqb c x5d then Some (rev acc_rev, t)
      else if g_isspace c then
        match gext_skip c t with
        | None => None
        | Some (d, t1) =>
            if beqb d x22 then
              match gext_string t1 [] with
              | None => None
              | Some (sub, t2) =>
                  match t2 with
                  | c2 :: t3 => if beqb c2 x5d then Some (rev acc_rev ++ x2e :: sub, t3) else None
                  | [] => None
                  end
              end
            else None
        end
      else if iskeychar c || beqb c x2e then gbase t (s_tolower c :: acc_rev)
      else None
  end.

Fixpoint gname (s : bytes) (acc_rev : bytes) : bytes * bytes :=
  match s with
  | c :: t => if iskeychar c then gname t (s_tolower c :: acc_rev) else (rev acc_rev, s)
  | [] => (rev acc_rev, [])
  end.

Fixpoint skip_blank (s : bytes) : bytes :=
  match s with
  | c :: t => if beqb c x20 || beqb c x09 then skip_blank t else s
  | [] => []
  end.

Definition entry := (bytes * option bytes)%type.

(* git_parse_source on the CR-LF-folded stream; every round consumes at least one byte *)
Fixpoint gmain (verbatim : bool) (fuel : nat) (s base : bytes) (comment : bool) (acc_rev : list entry)
  : option (list entry) :=
  match fuel with
  | O => None
  | S f =>
      match s with
      | [] => Some (rev acc_rev)
      | c :: t =>
          if beqb c x0a then gmain verbatim f t base false acc_rev
          else if comment || g_isspace c then gmain verbatim f t base comment acc_rev
          else if g_is_comment c then gmain verbatim f t base true acc_rev
          else if beqb c x5b then
            match gbase t [] with
            | None => None
            | Some (name, t1) =>
                if s_is_nil name then None else gmain verbatim f t1 (name ++ [x2e]) false acc_rev
            end
          else if s_is_alpha c then
            let '(nm, t1) := gname t [] in
            let var := base ++ s_tolower c :: nm in
            match skip_blank t1 with
            | [] => gmain verbatim f [] base false ((var, None) :: acc_rev)
            | d :: t3 =>
                if beqb d x0a then gmain verbatim f t3 base false ((var, None) :: acc_rev)
                else if beqb d x3d then
                  match git_parse_value verbatim t3 with
                  | None => None
                  | Some (v, t4) => gmain verbatim f t4 base false ((var, Some v) :: acc_rev)
                  end
                else None
            end
          else None
      end
  end.

Definition utf8_bom : bytes := [xef; xbb; xbf].

(* the (variable, value) pairs handed to the callback, in file order; None = "bad config line" *)
Definition git_parse_file (verbatim : bool) (input : bytes) : option (list entry) :=
  match input with
  | xef :: xbb :: xbf :: t => let s := crlf t in gmain verbatim (S (length s)) s [] false []
  | xef :: _ => None
  | _ => let s := crlf input in gmain verbatim (S (length s)) s [] false []
  end.

(* ---- git_config_parse_key ------------------------------------------------------------------ *)

Fixpoint s_memrchr (c : byte) (l : bytes) : option nat :=
  match l with
  | [] => None
  | x :: t => match s_memrchr c t with
              | Some k => Some (S k)
              | None => if beqb x c then Some 0%nat else None
              end
  end.

Fixpoint gkey_loop (s : bytes) (i baselen : nat) (dot : bool) (acc_rev : bytes) : option bytes :=
  match s with
  | [] => Some (rev acc_rev)
  | c :: t =>
      let dot' := dot || beqb c x2e in
      if negb dot' || Nat.ltb baselen i then
        if negb (iskeychar c) || (Nat.eqb i (S baselen) && negb (s_is_alpha c)) then None
        else gkey_loop t (S i) baselen dot' (s_tolower c :: acc_rev)
      else if beqb c x0a then None
      else gkey_loop t (S i) baselen dot' (c :: acc_rev)
  end.

Definition git_parse_key (key : bytes) : option bytes :=
  match s_memrchr x2e key with
  | None => None
  | Some last_dot =>
      if Nat.eqb last_dot 0 || Nat.eqb (S last_dot) (length key) then None
      else gkey_loop key 0 last_dot false []
  end.

Definition git_values (entries : list entry) (k : bytes) : list (option bytes) :=
  map snd (filter (fun e => bytes_eqb (fst e) k) entries).

(* ---- numbers and booleans -------------------------------------------------------------------- *)

Definition c_isspace (c : byte) : bool :=
  match c with x20 | x09 | x0a | x0b | x0c | x0d => true | _ => false end.

Fixpoint s_skip_while (p : byte -> bool) (l : bytes) : bytes :=
  match l with
  | c :: t => if p c then s_skip_while p t else l
  | [] => []
  end.

Definition digit_val (base : N) (c : byte) : option N :=
  match hex_val c with
  | Some d => if N.ltb d base then Some d else None
  | None => None
  end.

Fixpoint digits (base : N) (s : bytes) (acc : N) (cnt : nat) : N * nat * bytes :=
  match s with
  | c :: t => match digit_val base c with
              | Some d => digits base t (base * acc + d)%N (S cnt)
              | None => (acc, cnt, s)
              end
  | [] => (acc, cnt, [])
  end.

Definition s_i64_max : Z := 9223372036854775807%Z.
Definition s_i64_min : Z := (-9223372036854775808)%Z.

(* strtoimax(s, &end, 0) in the C locale: (None on ERANGE | Some value, text at `end`);
   without any digit nothing is converted: value 0 and end = s *)
Definition strtoimax0 (s : bytes) : option Z * bytes :=
  let s1 := s_skip_while c_isspace s in
  let '(neg, s2) := match s1 with
                    | c :: t => if beqb c x2d then (true, t) else if beqb c x2b then (false, t) else (false, s1)
                    | [] => (false, s1)
                    end in
  let '(base, s3) := match s2 with
                     | x30 :: x :: h :: t =>
                         if (beqb x x78 || beqb x x58) && (match hex_val h with Some _ => true | None => false end)
                         then (16%N, h :: t) else (8%N, s2)
                     | x30 :: _ => (8%N, s2)
                     | _ => (10%N, s2)
                     end in
  let '(val, cnt, rest) := digits base s3 0 0 in
  if Nat.eqb cnt 0 then (Some 0%Z, s) else
  let z := if neg then Z.opp (Z.of_N val) else Z.of_N val in
  if Z.leb s_i64_min z && Z.leb z s_i64_max then (Some z, rest) else (None, rest).

Definition unit_factor (s : bytes) : option Z :=
  match s with
  | [] => Some 1%Z
  | [c] => match c with
           | x6b | x4b => Some 1024%Z
           | x6d | x4d => Some 1048576%Z
           | x67 | x47 => Some 1073741824%Z
           | _ => None
           end
  | _ => None
  end.

(* git_parse_signed(value, &ret, max) *)
Definition git_parse_signed (v : bytes) (max : Z) : option Z :=
  if s_is_nil v then None else
  match strtoimax0 v with
  | (None, _) => None
  | (Some val, rest) =>
      match unit_factor rest with
      | None => None
      | Some f => if Z.ltb max (f * Z.abs val) then None else Some (val * f)%Z
      end
  end.

Fixpoint s_eq_ci (a b : bytes) : bool :=
  match a, b with
  | [], [] => true
  | x :: a', y :: b' => beqb (s_tolower x) (s_tolower y) && s_eq_ci a' b'
  | _, _ => false
  end.

(* git_parse_maybe_bool; None as argument = variable without `=` *)
Definition git_bool (v : option bytes) : option bool :=
  match v with
  | None => Some true
  | Some v =>
      if s_is_nil v then Some false
      else if s_eq_ci v (bs "true") || s_eq_ci v (bs "yes") || s_eq_ci v (bs "on") then Some true
      else if s_eq_ci v (bs "false") || s_eq_ci v (bs "no") || s_eq_ci v (bs "off") then Some false
      else match git_parse_signed v 2147483647%Z with
           | Some z => Some (negb (Z.eqb z 0))
           | None => None
           end
  end.

(* git_config_int64 as `git config --type=int` calls it (no `=` reads as the empty string) *)
Definition git_int (v : option bytes) : option Z :=
  git_parse_signed (match v with Some v => v | None => [] end) s_i64_max.
