(* C27 — numbers: Integer::try_from + to_decimal and Boolean::try_from against git_parse_signed /
   strtoimax(.., 0), outside the known numeric classes. *)
From Coq Require Import Lia ZArith.
From GixV.Base Require Import Bytes BytesFacts Outcome.
From GixV.C27 Require Import Model Spec Proofs ProofsNorm.

(* ---- shape of a number text: optional sign, maximal run of decimal digits, the rest ------------ *)

Definition sign_split (s : bytes) : bool * bytes :=
  match s with
  | c :: t => if beqb c x2d then (true, t) else if beqb c x2b then (false, t) else (false, s)
  | [] => (false, s)
  end.
Fixpoint dval (D : bytes) (acc : N) : N :=
  match D with [] => acc | c :: t => dval t (10 * acc + (b2N c - 48))%N end.
Definition sgn (neg : bool) (n : N) : Z := if neg then Z.opp (Z.of_N n) else Z.of_N n.

(* the classes of findings.txt, as predicates on the text *)
Definition leading_space (v : bytes) : bool := match v with c :: _ => c_isspace c | [] => false end.
Definition radix_prefix (u : bytes) : bool :=
  match u with
  | c :: d :: _ => beqb c x30 && (is_digit d || beqb d x78 || beqb d x58)
  | _ => false
  end.
Definition num_radix_prefix (v : bytes) : bool := radix_prefix (snd (sign_split v)).
Definition is_unit (c : byte) : bool :=
  match c with x6b | x4b | x6d | x4d | x67 | x47 => true | _ => false end.
Definition num_no_digits (v : bytes) : bool := match v with [c] => is_unit c | _ => false end.

(* ---- span ------------------------------------------------------------------------------------ *)

Definition head_fails (p : byte -> bool) (R : bytes) : Prop :=
  match R with [] => True | c :: _ => p c = false end.

Lemma span_spec p s : forall D R, span p s = (D, R) ->
  s = D ++ R /\ forallb p D = true /\ head_fails p R.
Proof.
  induction s as [|c t IH]; intros D R H; cbn [span] in H.
  - injection H as <- <-. repeat split.
  - destruct (p c) eqn:Ec.
    + destruct (span p t) as [a r] eqn:Es. injection H as <- <-.
      destruct (IH a r eq_refl) as (-> & Ha & Hr). cbn [forallb app]. rewrite Ec, Ha. repeat split. exact Hr.
    + injection H as <- <-. repeat split. exact Ec.
Qed.

Lemma span_app p D : forall R, forallb p D = true -> head_fails p R -> span p (D ++ R) = (D, R).
Proof.
  induction D as [|c D IH]; intros R HD HR; cbn [app].
  - destruct R as [|r R]; [reflexivity|]. cbn [span]. cbn in HR. now rewrite HR.
  - cbn [forallb] in HD. apply Bool.andb_true_iff in HD as [Hc HD]. cbn [span]. rewrite Hc.
    now rewrite (IH R HD HR).
Qed.

(* ---- decimal digits ---------------------------------------------------------------------------- *)

Lemma dec_acc_span s : forall acc,
  dec_to_N_acc s acc = let (D, R) := span is_digit s in if is_nil R then Some (dval D acc) else None.
Proof.
  induction s as [|c t IH]; intros acc; cbn [dec_to_N_acc span]; [reflexivity|].
  destruct (is_digit c); [|reflexivity]. rewrite IH. destruct (span is_digit t) as [a r]. reflexivity.
Qed.

Lemma digit_val10 : forall c, digit_val 10 c = if is_digit c then Some (b2N c - 48)%N else None.
Proof.
  assert (H : forall c, (match digit_val 10 c, (if is_digit c then Some (b2N c - 48)%N else None) with
                         | Some a, Some b => N.eqb a b | None, None => true | _, _ => false end) = true)
    by (apply forall_bytes; vm_compute; reflexivity).
  intros c. specialize (H c). destruct (digit_val 10 c), (if is_digit c then Some (b2N c - 48)%N else None);
    try discriminate; [|reflexivity]. apply N.eqb_eq in H. now subst.
Qed.

Lemma digit_val8_nondigit : forall c, is_digit c = false -> digit_val 8 c = None.
Proof.
  assert (H : forall c, (is_digit c || match digit_val 8 c with None => true | Some _ => false end) = true)
    by (apply forall_bytes; vm_compute; reflexivity).
  intros c Hc. specialize (H c). rewrite Hc in H. destruct (digit_val 8 c); [discriminate | reflexivity].
Qed.

Lemma digits10 s : forall acc cnt,
  digits 10 s acc cnt = let (D, R) := span is_digit s in (dval D acc, (cnt + length D)%nat, R).
Proof.
  induction s as [|c t IH]; intros acc cnt; cbn [digits span].
  - cbn [dval length]. now rewrite Nat.add_0_r.
  - rewrite digit_val10. destruct (is_digit c).
    + rewrite IH. destruct (span is_digit t) as [a r]. cbn [dval length]. f_equal. f_equal. lia.
    + cbn [dval length]. now rewrite Nat.add_0_r.
Qed.

(* ---- i64::from_str --------------------------------------------------------------------------- *)

Definition nf_plain (neg : bool) (D R : bytes) : option Z :=
  if negb (is_nil D) && is_nil R then
    (let z := sgn neg (dval D 0) in if in_i64 z then Some z else None)
  else None.

Lemma parse_i64_shape s : s <> [] ->
  parse_i64 s = let (neg, s2) := sign_split s in let (D, R) := span is_digit s2 in nf_plain neg D R.
Proof.
  destruct s as [|c t]; [congruence|]. intros _. unfold parse_i64, sign_split.
  assert (G : forall (neg : bool) (s2 : bytes),
    match dec_to_N s2 with
    | Some n => let z := if neg then (- Z.of_N n)%Z else Z.of_N n in if in_i64 z then Some z else None
    | None => None
    end = let (D, R) := span is_digit s2 in nf_plain neg D R).
  { intros neg s2. unfold dec_to_N, nf_plain. destruct s2 as [|d s2']; [reflexivity|].
    rewrite dec_acc_span. destruct (span is_digit (d :: s2')) as [D R] eqn:Es.
    destruct R as [|r R'].
    - cbn [is_nil]. destruct D as [|d0 D']; [|reflexivity].
      apply span_spec in Es as (Hs & _). discriminate.
    - cbn [is_nil]. now rewrite Bool.andb_false_r. }
  destruct (beqb c x2d); [exact (G true t)|]. destruct (beqb c x2b); [exact (G false t) | exact (G false (c :: t))].
Qed.

(* ---- strtoimax(.., 0) without leading space and radix prefix ---------------------------------- *)

Lemma digit_val8_zero : digit_val 8 x30 = Some 0%N.
Proof. reflexivity. Qed.

Lemma base_choice s2 : radix_prefix s2 = false ->
  (let '(base, s3) := match s2 with
                     | x30 :: x :: h :: t =>
                         if (beqb x x78 || beqb x x58) && (match hex_val h with Some _ => true | None => false end)
                         then (16%N, h :: t) else (8%N, s2)
                     | x30 :: _ => (8%N, s2)
                     | _ => (10%N, s2)
                     end in digits base s3 0 0) = digits 10 s2 0 0.
Proof.
  intros H. destruct s2 as [|c l]; [reflexivity|].
  destruct c; try reflexivity.
  destruct l as [|d l']; [reflexivity|].
  unfold radix_prefix in H. replace (beqb x30 x30) with true in H by reflexivity. cbn [andb] in H.
  apply Bool.orb_false_iff in H as [H Hx58]. apply Bool.orb_false_iff in H as [Hd Hx78].
  assert (E : digits 8 (x30 :: d :: l') 0 0 = digits 10 (x30 :: d :: l') 0 0).
  { cbn [digits]. rewrite digit_val8_zero, digit_val10. replace (is_digit x30) with true by reflexivity.
    cbn [digits]. rewrite (digit_val8_nondigit d Hd), digit_val10, Hd. reflexivity. }
  destruct l' as [|h t]; [exact E|]. rewrite Hx78, Hx58. cbn [orb andb]. exact E.
Qed.

Definition range64 (z : Z) : bool := Z.leb s_i64_min z && Z.leb z s_i64_max.

Lemma strtoimax0_shape s : leading_space s = false -> num_radix_prefix s = false ->
  strtoimax0 s = let (neg, s2) := sign_split s in let (D, R) := span is_digit s2 in
                 if is_nil D then (Some 0%Z, s)
                 else let z := sgn neg (dval D 0) in ((if range64 z then Some z else None), R).
Proof.
  intros Hsp Hrx. unfold strtoimax0.
  assert (Hs1 : s_skip_while c_isspace s = s).
  { destruct s as [|c t]; [reflexivity|]. cbn [leading_space] in Hsp. cbn [s_skip_while]. now rewrite Hsp. }
  rewrite Hs1. unfold num_radix_prefix in Hrx.
  change (match s with
          | c :: t => if beqb c x2d then (true, t) else if beqb c x2b then (false, t) else (false, s)
          | [] => (false, s)
          end) with (sign_split s).
  destruct (sign_split s) as [neg s2]. cbn [snd] in Hrx.
  pose proof (base_choice s2 Hrx) as Hb.
  destruct (match s2 with
            | x30 :: x :: h :: t =>
                if (beqb x x78 || beqb x x58) && (match hex_val h with Some _ => true | None => false end)
                then (16%N, h :: t) else (8%N, s2)
            | x30 :: _ => (8%N, s2)
            | _ => (10%N, s2)
            end) as [base s3].
  rewrite Hb, digits10. destruct (span is_digit s2) as [D R].
  destruct D as [|d D']; [reflexivity|]. cbn [length Nat.add Nat.eqb is_nil].
  unfold range64, sgn. destruct (_ && _); reflexivity.
Qed.

(* ---- Integer::try_from: the split at the last byte ---------------------------------------------- *)

Definition is_ascii (c : byte) : bool := N.ltb (b2N c) 128.

Lemma ascii_utf8 s : forallb is_ascii s = true -> utf8_valid s = true.
Proof.
  induction s as [|c t IH]; [reflexivity|]. cbn [forallb]. intros H. apply Bool.andb_true_iff in H as [Hc Ht].
  cbn [utf8_valid]. unfold is_ascii in Hc. rewrite Hc. now apply IH.
Qed.

Lemma digit_ascii : forall c, is_digit c = true -> is_ascii c = true.
Proof.
  assert (H : forall c, (negb (is_digit c) || is_ascii c) = true) by (apply forall_bytes; vm_compute; reflexivity).
  intros c Hc. specialize (H c). now rewrite Hc in H.
Qed.

Lemma digit_no_suffix : forall c, is_digit c = true -> suffix_factor [c] = None.
Proof. intros c; destruct c; try reflexivity; intros H; vm_compute in H; discriminate. Qed.

Lemma suffix_ascii : forall c f, suffix_factor [c] = Some f -> is_ascii c = true /\ cont c = false.
Proof. intros c f; destruct c; cbn [suffix_factor]; try discriminate; intros _; split; reflexivity. Qed.

Lemma suffix_values s f : suffix_factor s = Some f -> f = 1024%Z \/ f = 1048576%Z \/ f = 1073741824%Z.
Proof.
  destruct s as [|c [|d t]]; try discriminate. destruct c; cbn [suffix_factor]; try discriminate;
    intros H; injection H as <-; auto.
Qed.

Lemma unit_is_suffix : forall c, unit_factor [c] = suffix_factor [c].
Proof. intros c; destruct c; reflexivity. Qed.

Lemma forallb_removelast {A} (p : A -> bool) l : forallb p l = true -> forallb p (removelast l) = true.
Proof.
  induction l as [|a [|b t] IH]; intros H; try reflexivity.
  change (removelast (a :: b :: t)) with (a :: removelast (b :: t)).
  cbn [forallb] in H |- *. apply Bool.andb_true_iff in H as [Ha Ht]. rewrite Ha. apply IH. exact Ht.
Qed.

Lemma rl_span D R : forallb is_digit D = true -> head_fails is_digit R ->
  span is_digit (removelast (D ++ R)) =
  match R with [] => (removelast D, []) | [_] => (D, []) | _ => (D, removelast R) end.
Proof.
  intros HD HR. destruct R as [|r [|r2 R']].
  - rewrite app_nil_r. rewrite <- (app_nil_r (removelast D)) at 1.
    apply span_app; [now apply forallb_removelast | exact I].
  - rewrite removelast_last. rewrite <- (app_nil_r D) at 1. apply span_app; [exact HD | exact I].
  - rewrite removelast_app by discriminate. apply span_app; [exact HD | exact HR].
Qed.

Lemma rl_sign c t : t <> [] ->
  sign_split (removelast (c :: t)) = (fst (sign_split (c :: t)), removelast (snd (sign_split (c :: t)))).
Proof.
  intros Ht. destruct t as [|d t']; [congruence|].
  change (removelast (c :: d :: t')) with (c :: removelast (d :: t')).
  unfold sign_split. destruct (beqb c x2d); [reflexivity|]. destruct (beqb c x2b); reflexivity.
Qed.

Lemma skipn_last (v : bytes) : v <> [] -> skipn (length v - 1) v = [last v x00].
Proof.
  intros Hv. rewrite (app_removelast_last x00 Hv) at 2.
  assert (Hl : (length v - 1)%nat = length (removelast v)).
  { rewrite (app_removelast_last x00 Hv) at 1. rewrite app_length. cbn [length]. lia. }
  rewrite Hl, skipn_app, skipn_all, Nat.sub_diag. reflexivity.
Qed.

Lemma firstn_removelast (v : bytes) : firstn (length v - 1) v = removelast v.
Proof. rewrite removelast_firstn_len. f_equal. lia. Qed.

Lemma try_from_split v : parse_i64 v = None -> (2 <= length v)%nat ->
  integer_try_from v =
  if utf8_valid v && negb (cont (last v x00)) then
    match parse_i64 (removelast v), suffix_factor [last v x00] with
    | Some z, Some f => Some (z, Some f)
    | _, _ => None
    end
  else None.
Proof.
  intros Hp Hl. unfold integer_try_from. rewrite Hp.
  assert (Hv : v <> []) by (destruct v; [cbn in Hl; lia | discriminate]).
  destruct (utf8_valid v); [|reflexivity]. cbn [negb andb].
  destruct (Nat.leb (length v) 1) eqn:E; [apply Nat.leb_le in E; lia|].
  unfold is_char_boundary. rewrite firstn_removelast, (skipn_last v Hv).
  assert (Hn : nth (length v - 1) v x00 = last v x00) by now apply nth_pred_last.
  rewrite Hn. destruct (cont (last v x00)); reflexivity.
Qed.

(* ---- the normal form of Integer::try_from + to_decimal ------------------------------------------- *)

Definition gix_int_nf (neg : bool) (D R : bytes) : int_result :=
  if is_nil D then IntErr else
  let z := sgn neg (dval D 0) in
  match R with
  | [] => if in_i64 z then IntOk z else IntErr
  | [u] => match suffix_factor [u] with
           | None => IntErr
           | Some f => if in_i64 z then (if in_i64 (z * f) then IntOk (z * f)%Z else IntOverflow) else IntErr
           end
  | _ => IntErr
  end.

Lemma sign_split_cases v neg s2 : sign_split v = (neg, s2) ->
  v = s2 \/ exists c, is_ascii c = true /\ v = c :: s2.
Proof.
  destruct v as [|c t]; cbn [sign_split]; [intros H; injection H as _ <-; now left|].
  destruct (beqb c x2d) eqn:E1.
  - intros H. injection H as _ <-. right. exists c. apply beqb_eq in E1. subst. now split.
  - destruct (beqb c x2b) eqn:E2; intros H; injection H as _ <-; [|now left].
    right. exists c. apply beqb_eq in E2. subst. now split.
Qed.

Lemma last_cons_ne (c : byte) t : t <> [] -> last (c :: t) x00 = last t x00.
Proof. destruct t; [congruence | reflexivity]. Qed.

Lemma integer_of_shape v : v <> [] ->
  integer_of v = let (neg, s2) := sign_split v in let (D, R) := span is_digit s2 in gix_int_nf neg D R.
Proof.
  intros Hv. pose proof (parse_i64_shape v Hv) as Hp.
  destruct (sign_split v) as [neg s2] eqn:Ess. destruct (span is_digit s2) as [D R] eqn:Esp.
  destruct (span_spec _ _ _ _ Esp) as (Hs2 & HD & HR).
  (* the split branch, when it is taken *)
  assert (Hsplit : (2 <= length v)%nat -> s2 <> [] ->
            parse_i64 (removelast v) =
              (let (D', R') := span is_digit (removelast s2) in nf_plain neg D' R') /\
            last v x00 = last s2 x00).
  { intros Hl Hs2ne. destruct v as [|c t]; [congruence|].
    assert (Ht : t <> []) by (destruct t; [cbn in Hl; lia | discriminate]).
    assert (Hrl : removelast (c :: t) <> []) by (destruct t; [congruence | discriminate]).
    rewrite (parse_i64_shape _ Hrl), (rl_sign c t Ht), Ess. cbn [fst snd]. split; [reflexivity|].
    destruct (sign_split_cases _ _ _ Ess) as [E|(c' & _ & E)]; [now rewrite E|].
    injection E as -> ->. now apply last_cons_ne. }
  unfold gix_int_nf. destruct D as [|d D'].
  - (* no digit at all *)
    cbn [is_nil]. unfold nf_plain in Hp. cbn [is_nil negb andb] in Hp.
    unfold integer_of. destruct (Nat.le_gt_cases 2 (length v)) as [Hl|Hl].
    + rewrite (try_from_split v Hp Hl).
      destruct (utf8_valid v && negb (cont (last v x00))); [|reflexivity].
      assert (Hs2ne : s2 <> []).
      { intros ->. destruct (sign_split_cases _ _ _ Ess) as [E|(c' & _ & E)]; subst v; cbn in Hl; lia. }
      destruct (Hsplit Hl Hs2ne) as [Hq _]. rewrite Hq. cbn [app] in Hs2. subst s2.
      destruct R as [|r [|r2 R']]; [congruence | reflexivity |].
      change (removelast (r :: r2 :: R')) with (r :: removelast (r2 :: R')). cbn [span]. cbn in HR. rewrite HR.
      reflexivity.
    + unfold integer_try_from. rewrite Hp. destruct (utf8_valid v); [|reflexivity]. cbn [negb].
      destruct (Nat.leb (length v) 1) eqn:E; [reflexivity|]. apply Nat.leb_gt in E. lia.
  - cbn [is_nil]. set (z := sgn neg (dval (d :: D') 0)) in *.
    assert (Hs2ne : s2 <> []) by (rewrite Hs2; discriminate).
    assert (Hvascii : forallb is_ascii R = true -> forallb is_ascii v = true).
    { intros HRa. assert (Hs2a : forallb is_ascii s2 = true).
      { rewrite Hs2, forallb_app, HRa, Bool.andb_true_r. apply forallb_forall. intros x Hx.
        apply digit_ascii. rewrite forallb_forall in HD. now apply HD. }
      destruct (sign_split_cases _ _ _ Ess) as [E|(c' & Hc' & E)]; rewrite E; [exact Hs2a|].
      cbn [forallb]. now rewrite Hc', Hs2a. }
    destruct R as [|u [|r2 R']].
    + (* plain decimal *)
      unfold nf_plain in Hp. cbn [is_nil negb andb] in Hp. fold z in Hp.
      unfold integer_of. destruct (in_i64 z) eqn:Ez.
      * unfold integer_try_from. rewrite (ascii_utf8 v (Hvascii eq_refl)), Hp. reflexivity.
      * destruct (Nat.le_gt_cases 2 (length v)) as [Hl|Hl].
        -- rewrite (try_from_split v Hp Hl). destruct (utf8_valid v && negb (cont (last v x00))); [|reflexivity].
           destruct (Hsplit Hl Hs2ne) as [_ Hlast]. rewrite Hlast, Hs2, app_nil_r.
           assert (Hld : is_digit (last (d :: D') x00) = true).
           { rewrite forallb_forall in HD. apply HD.
             rewrite (app_removelast_last x00 (l := d :: D')) at 2 by discriminate. apply in_or_app. right. now left. }
           rewrite (digit_no_suffix _ Hld). destruct (parse_i64 (removelast v)); reflexivity.
        -- unfold integer_try_from. rewrite Hp. destruct (utf8_valid v); [|reflexivity]. cbn [negb].
           destruct (Nat.leb (length v) 1) eqn:E; [reflexivity|]. apply Nat.leb_gt in E. lia.
    + (* digits and one more byte *)
      unfold nf_plain in Hp. cbn [is_nil] in Hp. rewrite Bool.andb_false_r in Hp.
      assert (Hl : (2 <= length v)%nat).
      { assert (2 <= length s2)%nat by (rewrite Hs2, app_length; cbn [length]; lia).
        destruct (sign_split_cases _ _ _ Ess) as [E|(c' & _ & E)]; rewrite E; cbn [length]; lia. }
      destruct (Hsplit Hl Hs2ne) as [Hq Hlast].
      unfold integer_of. rewrite (try_from_split v Hp Hl), Hq, Hlast.
      rewrite Hs2. rewrite (rl_span _ _ HD HR). rewrite last_last.
      unfold nf_plain. cbn [is_nil negb andb]. fold z.
      destruct (suffix_factor [u]) as [f|] eqn:Ef.
      * destruct (suffix_ascii _ _ Ef) as [Hua Huc].
        assert (Hva : forallb is_ascii v = true) by (apply Hvascii; cbn [forallb]; now rewrite Hua).
        rewrite (ascii_utf8 v Hva), Huc. cbn [negb andb].
        destruct (in_i64 z); [|reflexivity]. unfold to_decimal. destruct (in_i64 (z * f)); reflexivity.
      * destruct (utf8_valid v && negb (cont u)); [|reflexivity]. destruct (in_i64 z); reflexivity.
    + (* digits and at least two more bytes *)
      unfold nf_plain in Hp. cbn [is_nil] in Hp. rewrite Bool.andb_false_r in Hp.
      assert (Hl : (2 <= length v)%nat).
      { assert (2 <= length s2)%nat by (rewrite Hs2, app_length; cbn [length]; lia).
        destruct (sign_split_cases _ _ _ Ess) as [E|(c' & _ & E)]; rewrite E; cbn [length]; lia. }
      destruct (Hsplit Hl Hs2ne) as [Hq _].
      unfold integer_of. rewrite (try_from_split v Hp Hl), Hq.
      rewrite Hs2. rewrite (rl_span _ _ HD HR).
      change (removelast (u :: r2 :: R')) with (u :: removelast (r2 :: R')).
      unfold nf_plain. cbn [is_nil]. rewrite Bool.andb_false_r.
      destruct (utf8_valid v && negb (cont (last v x00))); reflexivity.
Qed.

(* ---- int_is_git ---------------------------------------------------------------------------------- *)

Definition int_opt (r : int_result) : option Z := match r with IntOk z => Some z | _ => None end.

Lemma in_i64_iff z : in_i64 z = true <-> (-9223372036854775808 <= z <= 9223372036854775807)%Z.
Proof. unfold in_i64, i64_min, i64_max. rewrite Bool.andb_true_iff, !Z.leb_le. reflexivity. Qed.

Lemma unit_needs_letter c f : unit_factor [c] = Some f -> is_unit c = true.
Proof. destruct c; cbn [unit_factor]; try discriminate; reflexivity. Qed.

(* git_parse_signed's range test against gix's checked_mul, for a value in range and a unit factor *)
Lemma mul_range z f : in_i64 z = true ->
  f = 1%Z \/ f = 1024%Z \/ f = 1048576%Z \/ f = 1073741824%Z ->
  (z * f)%Z <> i64_min ->
  (if Z.ltb s_i64_max (f * Z.abs z) then None else Some (z * f)%Z) =
  (if in_i64 (z * f) then Some (z * f)%Z else None).
Proof.
  intros Hz Hf Hmin. apply in_i64_iff in Hz. unfold i64_min in Hmin. unfold s_i64_max.
  destruct (in_i64 (z * f)) eqn:E.
  - apply in_i64_iff in E. destruct (Z.ltb_spec 9223372036854775807 (f * Z.abs z)); [|reflexivity].
    exfalso. destruct Hf as [-> | [-> | [-> | ->]]]; lia.
  - destruct (Z.ltb_spec 9223372036854775807 (f * Z.abs z)); [reflexivity|].
    exfalso. assert (in_i64 (z * f) = true); [|congruence].
    apply in_i64_iff. destruct Hf as [-> | [-> | [-> | ->]]]; lia.
Qed.

Lemma L_int_is_git v :
  leading_space v = false -> num_radix_prefix v = false -> num_no_digits v = false ->
  integer_of v <> IntOk i64_min ->
  int_opt (integer_of v) = git_int (Some v).
Proof.
  intros Hsp Hrx Hnd Hmin. unfold git_int, git_parse_signed.
  destruct v as [|c0 t0]; [reflexivity|]. set (v := c0 :: t0) in *.
  assert (Hv : v <> []) by discriminate. change (s_is_nil v) with false. cbn iota.
  rewrite (strtoimax0_shape v Hsp Hrx). rewrite (integer_of_shape v Hv) in Hmin |- *.
  destruct (sign_split v) as [neg s2]. destruct (span is_digit s2) as [D R].
  unfold gix_int_nf in *. destruct D as [|d D'].
  - cbn [is_nil int_opt]. destruct (unit_factor v) as [f|] eqn:Ef; [|reflexivity].
    exfalso. subst v. destruct t0 as [|c1 t1]; [|discriminate].
    apply unit_needs_letter in Ef. cbn [num_no_digits] in Hnd. congruence.
  - cbn [is_nil] in *. set (z := sgn neg (dval (d :: D') 0)) in *.
    change (range64 z) with (in_i64 z).
    destruct R as [|u [|r2 R']].
    + destruct (in_i64 z) eqn:Ez; [|reflexivity]. cbn [int_opt unit_factor].
      assert (Hm : (z * 1)%Z <> i64_min) by (rewrite Z.mul_1_r; congruence).
      rewrite (mul_range z 1 Ez (or_introl eq_refl) Hm).
      rewrite Z.mul_1_r, Ez. reflexivity.
    + rewrite unit_is_suffix. destruct (suffix_factor [u]) as [f|] eqn:Ef.
      * destruct (in_i64 z) eqn:Ez; [|reflexivity].
        assert (Hf : f = 1%Z \/ f = 1024%Z \/ f = 1048576%Z \/ f = 1073741824%Z)
          by (right; exact (suffix_values _ _ Ef)).
        assert (Hm : (z * f)%Z <> i64_min).
        { intros E. apply Hmin. rewrite E. replace (in_i64 i64_min) with true by reflexivity. reflexivity. }
        rewrite (mul_range z f Ez Hf Hm). destruct (in_i64 (z * f)); reflexivity.
      * destruct (in_i64 z); reflexivity.
    + destruct (in_i64 z); reflexivity.
Qed.

(* ---- bool_is_git --------------------------------------------------------------------------------- *)

Definition bool_unit_suffix (v : bytes) : bool :=
  let (neg, s2) := sign_split v in let (D, R) := span is_digit s2 in
  negb (is_nil D) && match R with [u] => is_unit u | _ => false end.
Definition bool_outside_i32 (v : bytes) : bool :=
  let (neg, s2) := sign_split v in let (D, R) := span is_digit s2 in
  negb (is_nil D) && is_nil R &&
  (let z := sgn neg (dval D 0) in in_i64 z && Z.ltb 2147483647 (Z.abs z)).

Lemma shape_ascii v neg s2 D : sign_split v = (neg, s2) -> span is_digit s2 = (D, []) ->
  forallb is_ascii v = true.
Proof.
  intros Ess Esp. destruct (span_spec _ _ _ _ Esp) as (Hs2 & HD & _). rewrite app_nil_r in Hs2.
  assert (Hs2a : forallb is_ascii s2 = true).
  { subst s2. apply forallb_forall. intros x Hx. apply digit_ascii. rewrite forallb_forall in HD. now apply HD. }
  destruct (sign_split_cases _ _ _ Ess) as [E|(c' & Hc' & E)]; rewrite E; [exact Hs2a|].
  cbn [forallb]. now rewrite Hc', Hs2a.
Qed.

Lemma L_bool_is_git v :
  leading_space v = false -> num_radix_prefix v = false -> num_no_digits v = false ->
  bool_unit_suffix v = false -> bool_outside_i32 v = false ->
  git_bool (Some v) = boolean_try_from v.
Proof.
  intros Hsp Hrx Hnd Hus Ho32.
  destruct (parse_true v || parse_false v) eqn:Ekw; [now apply L_bool_keywords|].
  apply Bool.orb_false_iff in Ekw as [Ht Hf].
  unfold boolean_try_from. rewrite Ht, Hf. unfold git_bool.
  unfold parse_true in Ht. unfold parse_false in Hf.
  repeat (apply Bool.orb_false_iff in Ht as [Ht ?]). repeat (apply Bool.orb_false_iff in Hf as [Hf ?]).
  destruct v as [|c0 t0]; [discriminate|]. set (v := c0 :: t0) in *.
  change (s_is_nil v) with false. cbn iota.
  rewrite <- (eq_ci_is_spec v (bs "true")), <- (eq_ci_is_spec v (bs "yes")), <- (eq_ci_is_spec v (bs "on")),
          <- (eq_ci_is_spec v (bs "false")), <- (eq_ci_is_spec v (bs "no")), <- (eq_ci_is_spec v (bs "off")).
  replace (eq_ci v (bs "true")) with false by (symmetry; assumption).
  replace (eq_ci v (bs "yes")) with false by (symmetry; assumption).
  replace (eq_ci v (bs "on")) with false by (symmetry; assumption).
  replace (eq_ci v (bs "false")) with false by (symmetry; assumption).
  replace (eq_ci v (bs "no")) with false by (symmetry; assumption).
  replace (eq_ci v (bs "off")) with false by (symmetry; assumption).
  cbn [orb]. unfold git_parse_signed. change (s_is_nil v) with false. cbn iota.
  assert (Hv : v <> []) by discriminate.
  rewrite (strtoimax0_shape v Hsp Hrx), (parse_i64_shape v Hv).
  unfold bool_unit_suffix in Hus. unfold bool_outside_i32 in Ho32.
  destruct (sign_split v) as [neg s2] eqn:Ess. destruct (span is_digit s2) as [D R] eqn:Esp.
  unfold nf_plain. destruct D as [|d D'].
  - cbn [is_nil negb andb]. destruct (unit_factor v) as [f|] eqn:Ef.
    + exfalso. subst v. destruct t0 as [|c1 t1]; [|discriminate].
      apply unit_needs_letter in Ef. cbn [num_no_digits] in Hnd. congruence.
    + destruct (utf8_valid v); reflexivity.
  - cbn [is_nil negb andb] in *. set (z := sgn neg (dval (d :: D') 0)) in *.
    change (range64 z) with (in_i64 z).
    destruct R as [|u [|r2 R']].
    + cbn [is_nil] in *. rewrite (ascii_utf8 v (shape_ascii _ _ _ _ Ess Esp)).
      destruct (in_i64 z) eqn:Ez; [|reflexivity]. cbn [andb] in Ho32. cbn [unit_factor].
      rewrite Z.mul_1_l, Ho32, Z.mul_1_r. reflexivity.
    + cbn [is_nil]. destruct (unit_factor [u]) as [f|] eqn:Ef.
      * apply unit_needs_letter in Ef. congruence.
      * destruct (in_i64 z), (utf8_valid v); reflexivity.
    + cbn [is_nil]. destruct (in_i64 z), (utf8_valid v); reflexivity.
Qed.
