(* C27 — last one wins across sections: the single-value accessors answer from the last section (in
   file order, among those matching the key's section and subsection) that has the key. *)
From Coq Require Import Lia.
From GixV.Base Require Import Bytes BytesFacts Outcome.
From GixV.C27 Require Import Model.

(* the section has no explicit value for the key: key absent, or present without `=` *)
Definition no_value (name : bytes) (s : psection) : Prop :=
  exists o, value_implicit (sevents s) name = Ok o /\ flatten2 o = None.
(* the section does not have the key at all *)
Definition no_key (name : bytes) (s : psection) : Prop := value_implicit (sevents s) name = Ok None.

Lemma raw_value_skip name l : forall rest, Forall (no_value name) l ->
  raw_value_loop (l ++ rest) name = raw_value_loop rest name.
Proof.
  induction l as [|s l IH]; intros rest H; [reflexivity|]. inversion H as [|? ? (o & Ho & Hf) Hl]; subst.
  cbn [app raw_value_loop]. rewrite Ho, Hf. now apply IH.
Qed.

Lemma boolean_skip name l : forall rest, Forall (no_key name) l ->
  boolean_loop (l ++ rest) name = boolean_loop rest name.
Proof.
  induction l as [|s l IH]; intros rest H; [reflexivity|]. inversion H as [|? ? Ho Hl]; subst.
  cbn [app boolean_loop]. unfold no_key in Ho. rewrite Ho. now apply IH.
Qed.

Lemma boolean_total_after name l : forall rest b, Forall (no_value name) l ->
  boolean_loop rest name = Ok b -> exists b', boolean_loop (l ++ rest) name = Ok b'.
Proof.
  induction l as [|s l IH]; intros rest b H Hb; [now exists b|]. inversion H as [|? ? (o & Ho & Hf) Hl]; subst.
  cbn [app boolean_loop]. rewrite Ho. destruct o as [[x|]|]; [discriminate | now exists BTrue | now apply (IH rest b)].
Qed.

Definition bool_of (v : bytes) : bool_result :=
  match boolean_try_from v with Some true => BTrue | Some false => BFalse | None => BErr end.

Lemma L_lookup_last_wins secs sec sub name ss1 s ss2 v :
  sections_by secs sec sub = ss1 ++ s :: ss2 ->
  value_implicit (sevents s) name = Ok (Some (Some v)) ->
  Forall (no_value name) ss2 ->
  exists a, lookup secs sec sub name = Ok a /\
            a_string a = Some v /\ a_int a = Some (integer_of v) /\ a_path a = Some (interpolate v) /\
            (Forall (no_key name) ss2 -> a_bool a = bool_of v).
Proof.
  intros Hs Hv Hl. unfold lookup. rewrite Hs, rev_app_distr. cbn [rev]. rewrite <- app_assoc. cbn [app].
  assert (Hl' : Forall (no_value name) (rev ss2)) by (apply Forall_rev; exact Hl).
  rewrite (raw_value_skip name (rev ss2) _ Hl'). cbn [raw_value_loop]. rewrite Hv. cbn [flatten2].
  assert (Hb0 : boolean_loop (s :: rev ss1) name = Ok (bool_of v)).
  { cbn [boolean_loop]. rewrite Hv. reflexivity. }
  destruct (boolean_total_after name (rev ss2) _ _ Hl' Hb0) as [b' Hb'].
  rewrite Hb'. eexists. split; [reflexivity|]. cbn [a_string a_int a_path a_bool option_map].
  repeat split. intros Hk. assert (Hk' : Forall (no_key name) (rev ss2)) by (apply Forall_rev; exact Hk).
  rewrite (boolean_skip name (rev ss2) _ Hk'), Hb0 in Hb'. now injection Hb' as <-.
Qed.

(* the values of a multi-valued key are those of the matching sections, in file order *)
Lemma L_strings_in_file_order secs sec sub name a :
  lookup secs sec sub name = Ok a ->
  a_strings a = (let vals := flat_map (fun s => body_values (sevents s) name) (sections_by secs sec sub) in
                 if is_nil vals then None else Some vals).
Proof.
  unfold lookup. destruct (raw_value_loop _ name); try discriminate.
  destruct (boolean_loop _ name); try discriminate. intros H. injection H as <-. reflexivity.
Qed.
