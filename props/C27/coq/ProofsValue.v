(* C27 — the unescape loop of normalize against git's parse_value, on one-line values. *)
From Coq Require Import Lia.
From GixV.Base Require Import Bytes BytesFacts Outcome.
From GixV.C27 Require Import Model Spec ProofsNorm.

(* [clean r quote started pend]: the raw one-line value text [r] (as value_impl hands it to normalize:
   the bytes after `=` and blanks, up to the comment / line end, trailing whitespace trimmed)
   - has no line feed, no comment character outside quotes, balanced quotes,
   - only the escapes backslash-n, -t, -backslash, -quote (backslash-b is the documented deviation; others are rejected by both),
   - no unquoted whitespace while the value is still empty (class leading-whitespace-kept) and
     none at the end (the parser trims it). *)
Fixpoint clean (r : bytes) (quote started pend : bool) : bool :=
  match r with
  | [] => negb quote && negb pend
  | c :: t =>
      if beqb c x0a then false
      else if g_isspace c && negb quote then started && clean t quote started true
      else if negb quote && g_is_comment c then false
      else if beqb c x5c then
        match t with
        | d :: t' => (beqb d x74 || beqb d x6e || beqb d x5c || beqb d x22) && clean t' quote true false
        | [] => false
        end
      else if beqb c x22 then clean t (negb quote) started false
      else clean t quote true false
  end.

Definition clean_value (r : bytes) : bool := clean r false false false.

Lemma space_not_special : forall c, g_isspace c = true -> beqb c x5c = false /\ beqb c x22 = false.
Proof.
  assert (H : forall c, (negb (g_isspace c) || (negb (beqb c x5c) && negb (beqb c x22))) = true)
    by (apply forall_bytes; vm_compute; reflexivity).
  intros c Hc. specialize (H c). rewrite Hc in H. cbn [negb orb] in H.
  apply Bool.andb_true_iff in H as [H1 H2]. apply Bool.negb_true_iff in H1, H2. now split.
Qed.

Lemma is_nil_app_l (a b : bytes) : (b = [] -> a = []) -> s_is_nil (a ++ b) = s_is_nil b.
Proof. intros H. destruct b; [rewrite (H eq_refl); reflexivity|]. destruct a; reflexivity. Qed.

Lemma sim n rest : forall r quote started pend pending v_rev,
  (length r <= n)%nat ->
  clean r quote started pend = true ->
  started = negb (s_is_nil v_rev) -> (v_rev = [] -> pending = []) -> pend = negb (s_is_nil pending) ->
  gvalue true (r ++ x0a :: rest) quote false pending v_rev = Some (unescape r (pending ++ v_rev), rest).
Proof.
  induction n as [|n IH]; intros r quote started pend pending v_rev Hl Hc Hs Hp Hpend.
  - destruct r; [|cbn [length] in Hl; lia]. cbn [clean] in Hc.
    apply Bool.andb_true_iff in Hc as [Hq Hpe]. apply Bool.negb_true_iff in Hq, Hpe. subst quote.
    rewrite Hpe in Hpend. destruct pending; [|discriminate]. reflexivity.
  - destruct r as [|c t].
    { cbn [clean] in Hc. apply Bool.andb_true_iff in Hc as [Hq Hpe]. apply Bool.negb_true_iff in Hq, Hpe.
      subst quote. rewrite Hpe in Hpend. destruct pending; [|discriminate]. reflexivity. }
    cbn [length] in Hl. cbn [clean] in Hc. cbn [app gvalue].
    destruct (beqb c x0a) eqn:E0; [discriminate|].
    destruct (g_isspace c && negb quote) eqn:Esp.
    + (* unquoted whitespace after the value has started *)
      apply Bool.andb_true_iff in Hc as [Hst Hc]. subst started.
      apply Bool.andb_true_iff in Esp as [Hsp _]. destruct (space_not_special c Hsp) as [Hb Hq].
      symmetry in Hs. apply Bool.negb_true_iff in Hs. rewrite Hs.
      cbn [unescape]. rewrite Hb, Hq.
      rewrite (IH t quote true true (c :: pending) v_rev); [reflexivity | lia | exact Hc | now rewrite Hs | | reflexivity].
      intros ->. discriminate.
    + destruct (negb quote && g_is_comment c) eqn:Ecm; [discriminate|].
      destruct (beqb c x5c) eqn:Eb.
      * (* escape *)
        destruct t as [|d t']; [discriminate|]. apply Bool.andb_true_iff in Hc as [Hd Hc].
        cbn [length] in Hl. cbn [app unescape]. rewrite Eb.
        assert (Hl' : (length t' <= n)%nat) by lia.
        repeat (apply Bool.orb_true_iff in Hd as [Hd|Hd]); apply beqb_eq in Hd; subst d; cbn;
          (rewrite (IH t' quote true false [] _ Hl' Hc); [reflexivity | reflexivity | discriminate | reflexivity]).
      * cbn [unescape]. rewrite Eb. destruct (beqb c x22) eqn:Eq.
        -- rewrite (IH t (negb quote) started false [] (pending ++ v_rev)); [reflexivity | lia | exact Hc | | | reflexivity].
           ++ rewrite Hs. f_equal. symmetry. now apply is_nil_app_l.
           ++ reflexivity.
        -- rewrite (IH t quote true false [] (c :: pending ++ v_rev)); [reflexivity | lia | exact Hc | reflexivity | discriminate | reflexivity].
Qed.

Lemma L_unescape_is_git_value r rest :
  clean_value r = true ->
  git_parse_value true (r ++ x0a :: rest) = Some (normalize r, rest).
Proof.
  intros H. rewrite L_normalize_is_unescape. unfold git_parse_value.
  exact (sim (length r) rest r false false false [] [] (le_n _) H eq_refl (fun _ => eq_refl) eq_refl).
Qed.

(* at the end of the input (no final newline) git reads the same value *)
Lemma sim_eof n : forall r quote started pend pending v_rev,
  (length r <= n)%nat ->
  clean r quote started pend = true ->
  started = negb (s_is_nil v_rev) -> (v_rev = [] -> pending = []) -> pend = negb (s_is_nil pending) ->
  gvalue true r quote false pending v_rev = Some (unescape r (pending ++ v_rev), []).
Proof.
  induction n as [|n IH]; intros r quote started pend pending v_rev Hl Hc Hs Hp Hpend.
  - destruct r; [|cbn [length] in Hl; lia]. cbn [clean] in Hc.
    apply Bool.andb_true_iff in Hc as [Hq Hpe]. apply Bool.negb_true_iff in Hq, Hpe. subst quote.
    rewrite Hpe in Hpend. destruct pending; [|discriminate]. reflexivity.
  - destruct r as [|c t].
    { cbn [clean] in Hc. apply Bool.andb_true_iff in Hc as [Hq Hpe]. apply Bool.negb_true_iff in Hq, Hpe.
      subst quote. rewrite Hpe in Hpend. destruct pending; [|discriminate]. reflexivity. }
    cbn [length] in Hl. cbn [clean] in Hc. cbn [gvalue].
    destruct (beqb c x0a) eqn:E0; [discriminate|].
    destruct (g_isspace c && negb quote) eqn:Esp.
    + apply Bool.andb_true_iff in Hc as [Hst Hc]. subst started.
      apply Bool.andb_true_iff in Esp as [Hsp _]. destruct (space_not_special c Hsp) as [Hb Hq].
      symmetry in Hs. apply Bool.negb_true_iff in Hs. rewrite Hs.
      cbn [unescape]. rewrite Hb, Hq.
      rewrite (IH t quote true true (c :: pending) v_rev); [reflexivity | lia | exact Hc | now rewrite Hs | | reflexivity].
      intros ->. discriminate.
    + destruct (negb quote && g_is_comment c) eqn:Ecm; [discriminate|].
      destruct (beqb c x5c) eqn:Eb.
      * destruct t as [|d t']; [discriminate|]. apply Bool.andb_true_iff in Hc as [Hd Hc].
        cbn [length] in Hl. cbn [unescape]. rewrite Eb.
        assert (Hl' : (length t' <= n)%nat) by lia.
        repeat (apply Bool.orb_true_iff in Hd as [Hd|Hd]); apply beqb_eq in Hd; subst d; cbn;
          (rewrite (IH t' quote true false [] _ Hl' Hc); [reflexivity | reflexivity | discriminate | reflexivity]).
      * cbn [unescape]. rewrite Eb. destruct (beqb c x22) eqn:Eq.
        -- rewrite (IH t (negb quote) started false [] (pending ++ v_rev)); [reflexivity | lia | exact Hc | | | reflexivity].
           ++ rewrite Hs. f_equal. symmetry. now apply is_nil_app_l.
           ++ reflexivity.
        -- rewrite (IH t quote true false [] (c :: pending ++ v_rev)); [reflexivity | lia | exact Hc | reflexivity | discriminate | reflexivity].
Qed.

Lemma L_unescape_is_git_value_eof r :
  clean_value r = true -> git_parse_value true r = Some (normalize r, []).
Proof.
  intros H. rewrite L_normalize_is_unescape. unfold git_parse_value.
  exact (sim_eof (length r) r false false false [] [] (le_n _) H eq_refl (fun _ => eq_refl) eq_refl).
Qed.

(* the full statement fails: `\<LF>  y` (git: "y", gix: "  y") *)
Definition concat_values (evs : list event) : bytes :=
  flat_map (fun e => match e with Value v | ValueNotDone v | ValueDone v => v | _ => [] end) evs.

Lemma L_full_statement_refuted :
  ~ (forall i v rest, git_parse_value true (crlf i) = Some (v, rest) ->
       exists evs rest', value_impl i = Ok (evs, rest') /\ normalize (concat_values evs) = v).
Proof.
  intros H. specialize (H [x5c; x0a; x20; x20; x79; x0a] [x79] [] eq_refl).
  destruct H as (evs & rest' & Hv & Hn). vm_compute in Hv. injection Hv as <- _.
  vm_compute in Hn. discriminate.
Qed.
