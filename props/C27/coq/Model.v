(* C27 — executable model of how gix-config reads values out of a config file.
   Part 1 (parser) follows gix-config/src/parse/nom/mod.rs function by function; it is the parser
   model of props/C26 (snapshot, constants inlined), re-validated here by this property's own
   correspondence run.  Part 2 follows
     gix-config/src/parse/events.rs          from_bytes (grouping into sections, lossy filter)
     gix-config/src/file/util.rs             push_section_internal, section_ids_by_name_and_subname
     gix-config/src/file/section/body.rs     values, value_implicit, value, key_and_value_range_by
     gix-config/src/file/access/raw.rs       raw_value_filter_inner, raw_values_filter_inner
     gix-config/src/file/access/comfort.rs   string, strings, boolean, integer, path
     gix-config/src/key.rs                   KeyRef::parse_unvalidated
     gix-config/src/value/normalize.rs       normalize
     gix-config-value/src/{boolean,integer,path}.rs
   No proofs in this file. *)
From GixV.Base Require Import Bytes Outcome.

Definition newline_repeat_end : nat := 1024%nat.
Definition value_escapes : bytes := [x6e; x74; x5c; x62; x22].

(* ======================================================================================== *)
(* Part 1: parse::from_bytes                                                                 *)
(* ======================================================================================== *)

Inductive perr := Backtrack.

(* parse::section::Header { name, separator, subsection_name } *)
Record header := Header { hname : bytes; hsep : option bytes; hsub : option bytes }.

(* parse::Event *)
Inductive event :=
| Comment (tag : byte) (text : bytes)
| SectionHeader (h : header)
| SectionValueName (k : bytes)
| Value (v : bytes)
| Newline (v : bytes)
| ValueNotDone (v : bytes)
| ValueDone (v : bytes)
| Whitespace (v : bytes)
| KeyValueSeparator.

(* ---- byte classes ---------------------------------------------------------------------- *)

Definition in_range (lo hi : N) (c : byte) : bool := N.leb lo (b2N c) && N.leb (b2N c) hi.
Definition is_alpha (c : byte) : bool := in_range 65 90 c || in_range 97 122 c.     (* u8::is_ascii_alphabetic *)
Definition is_alnum (c : byte) : bool := is_alpha c || in_range 48 57 c.            (* u8::is_ascii_alphanumeric *)
(* u8::is_ascii_whitespace: space, \t, \n, \x0c, \r *)
Definition is_ascii_ws (c : byte) : bool :=
  match c with x20 | x09 | x0a | x0c | x0d => true | _ => false end.
(* winnow AsChar::is_space for u8 *)
Definition is_space (c : byte) : bool := match c with x20 | x09 => true | _ => false end.
Definition is_section_char (c : byte) : bool :=
  is_alnum c || match c with x2d | x2e => true | _ => false end.
Definition is_name_char (c : byte) : bool := is_alnum c || match c with x2d => true | _ => false end.
Definition is_subsection_unescaped_char (c : byte) : bool :=
  match c with x22 | x5c | x0a | x00 => false | _ => true end.
Definition is_subsection_escapable_char (c : byte) : bool :=
  match c with x0a => false | _ => true end.
Definition is_comment_tag (c : byte) : bool := match c with x3b | x23 => true | _ => false end.
Definition not_lf (c : byte) : bool := match c with x0a => false | _ => true end.

(* ---- slices ---------------------------------------------------------------------------- *)

(* winnow `take_while(0.., p)`: longest prefix satisfying p, and the rest *)
Fixpoint span (p : byte -> bool) (l : bytes) : bytes * bytes :=
  match l with
  | c :: t => if p c then let (a, r) := span p t in (c :: a, r) else ([], l)
  | [] => ([], [])
  end.

Definition is_nil {A} (l : list A) : bool := match l with [] => true | _ => false end.

(* `i.next_slice(n)` / `i[..n]` : panics when n > len *)
Definition take_n (n : nat) (l : bytes) : option (bytes * bytes) :=
  if Nat.leb n (length l) then Some (firstn n l, skipn n l) else None.

(* slice.get(a..b) *)
Definition get_range (a b : nat) (l : bytes) : option bytes :=
  if Nat.leb a b && Nat.leb b (length l) then Some (firstn (b - a) (skipn a l)) else None.

(* memchr::memrchr *)
Fixpoint memrchr (c : byte) (l : bytes) : option nat :=
  match l with
  | [] => None
  | x :: t => match memrchr c t with
              | Some k => Some (S k)
              | None => if beqb x c then Some 0%nat else None
              end
  end.

(* ---- unicode_bom::Bom::from(&[u8]).len() ------------------------------------------------- *)

(* compare_tail!(slice, len, bytes, from): slice.len() >= len && slice[from..from+bytes.len()] == bytes *)
Definition compare_tail (s : bytes) (len : nat) (bytes_ : bytes) (from : nat) : bool :=
  Nat.leb len (length s) && bytes_eqb (firstn (length bytes_) (skipn from s)) bytes_.
Definition tail1 (s : bytes) (b : bytes) : bool := compare_tail s (length b + 1) b 1.

Definition bom_len (s : bytes) : nat :=
  match s with
  | c0 :: c1 :: _ =>
      match c0 with
      | x00 => if tail1 s [x00; xfe; xff] then 4 else 0
      | x0e => if tail1 s [xfe; xff] then 3 else 0
      | x2b => if compare_tail s 4 [x2f; x76] 1 &&
                  match nth 3 s x00 with x38 | x39 | x2b | x2f => true | _ => false end
               then 4 else 0
      | x84 => if tail1 s [x31; x95; x33] then 4 else 0
      | xdd => if tail1 s [x73; x66; x73] then 4 else 0
      | xef => if tail1 s [xbb; xbf] then 3 else 0
      | xf7 => if tail1 s [x64; x4c] then 3 else 0
      | xfb => if tail1 s [xee; x28] then 3 else 0
      | xfe => if beqb c1 xff then 2 else 0
      | xff => if beqb c1 xfe then (if compare_tail s 4 [x00; x00] 2 then 4 else 2) else 0
      | _ => 0
      end
  | _ => 0
  end%nat.

(* ---- leaf parsers ---------------------------------------------------------------------- *)

(* comment: one_of([';', '#']) then take_till(0.., '\n') *)
Definition comment (i : bytes) : option (event * bytes) :=
  match i with
  | c :: t => if is_comment_tag c then let (text, r) := span not_lf t in Some (Comment c text, r) else None
  | [] => None
  end.

(* take_spaces1: take_while(1.., is_space) *)
Definition take_spaces1 (i : bytes) : option (bytes * bytes) :=
  let (a, r) := span is_space i in if is_nil a then None else Some (a, r).

(* take_newlines1: repeat(1..NEWLINE_REPEAT_END, alt(("\r\n", "\n"))).take()
   (a winnow Range from `1..N` allows at most N-1 repetitions) *)
Fixpoint newlines (n : nat) (i : bytes) : bytes * bytes :=
  match n with
  | O => ([], i)
  | S n' =>
      match i with
      | x0d :: x0a :: t => let (a, r) := newlines n' t in (x0d :: x0a :: a, r)
      | x0a :: t => let (a, r) := newlines n' t in (x0a :: a, r)
      | _ => ([], i)
      end
  end.
Definition take_newlines1 (i : bytes) : option (bytes * bytes) :=
  let (a, r) := newlines (newline_repeat_end - 1) i in if is_nil a then None else Some (a, r).

(* config_name: (one_of(alphabetic), take_while(0.., alnum | '-')).take() *)
Definition config_name (i : bytes) : option (bytes * bytes) :=
  match i with
  | c :: t => if is_alpha c then let (a, r) := span is_name_char t in Some (c :: a, r) else None
  | [] => None
  end.

(* ---- section header -------------------------------------------------------------------- *)

(* subsection_subset = alt((subsection_unescaped, subsection_escaped_char)):
   a run of plain characters, or a backslash followed by one escapable byte of which only the
   escaped byte itself is returned (`one_of(..).take()`) *)
Definition subsection_subset (i : bytes) : option (bytes * bytes) :=
  let (a, r) := span is_subsection_unescaped_char i in
  if negb (is_nil a) then Some (a, r)
  else match i with
       | x5c :: c :: t => if is_subsection_escapable_char c then Some ([c], t) else None
       | _ => None
       end.

(* sub_section: concatenation of the pieces until none matches.  Every piece consumes at least
   one byte, so the input length bounds the number of rounds. *)
Fixpoint sub_section_loop (fuel : nat) (i : bytes) (out : bytes) : outcome (bytes * bytes) perr :=
  match fuel with
  | O => OutOfFuel
  | S f => match subsection_subset i with
           | Some (piece, r) => sub_section_loop f r (out ++ piece)
           | None => Ok (out, i)
           end
  end.
Definition sub_section (i : bytes) : outcome (bytes * bytes) perr :=
  sub_section_loop (S (length i)) i [].

(* `[section]` or the deprecated `[section.subsection]`: the text after the closing bracket is [t2] *)
Definition legacy_header (name t2 : bytes) : outcome (header * bytes) perr :=
  let h := match memrchr x2e name with
           | Some index =>
               Header (firstn index name) (get_range index (S index) name)
                      (get_range (S index) (length name) name)
           | None => Header name None None
           end in
  if is_nil (hname h) then Err Backtrack else Ok (h, t2).

(* `[section "subsection"]`: (take_spaces1, delimited('"', opt(sub_section), "\"]")) on [t1] *)
Definition modern_header (name t1 : bytes) : outcome (header * bytes) perr :=
  match take_spaces1 t1 with
  | None => Err Backtrack
  | Some (ws, t3) =>
      match t3 with
      | q :: t4 =>
          if beqb q x22 then
            match sub_section t4 with
            | Ok (sub, t5) =>
                match t5 with
                | q2 :: b2 :: t6 =>
                    if beqb q2 x22 && beqb b2 x5d then Ok (Header name (Some ws) (Some sub), t6)
                    else Err Backtrack
                | _ => Err Backtrack
                end
            | Err e => Err e | Panic => Panic | OutOfFuel => OutOfFuel
            end
          else Err Backtrack
      | [] => Err Backtrack
      end
  end.

Definition section_header (i : bytes) : outcome (header * bytes) perr :=
  match i with
  | c :: t =>
      if beqb c x5b then
        let (name, t1) := span is_section_char t in
        if is_nil name then Err Backtrack else
        match t1 with
        | c1 :: t2 => if beqb c1 x5d then legacy_header name t2 else modern_header name t1
        | [] => modern_header name t1
        end
      else Err Backtrack
  | [] => Err Backtrack
  end.

(* ---- values ---------------------------------------------------------------------------- *)

(* `i[..value_end].iter().enumerate().rev().find_map(|(idx, b)| (!b.is_ascii_whitespace()).then_some(idx + 1)).unwrap_or(0)` *)
Fixpoint trimmed_len (l : bytes) : nat :=
  match l with
  | [] => 0
  | c :: t => match trimmed_len t with
              | O => if is_ascii_ws c then 0 else 1
              | S k => S (S k)
              end
  end%nat.

Definition is_value_escape (c : byte) : bool := existsb (beqb c) value_escapes.

(* the tail of value_impl after the loop.  [vstart] is the input at value_start_checkpoint, [cur] the
   input where the loop stopped, [off] = i.offset_from(&value_start_checkpoint) at that point. *)
Definition value_finish (vstart cur : bytes) (value_end : option nat) (off : nat)
           (inq partial : bool) (acc : list event) : outcome (list event * bytes) perr :=
  if inq then Err Backtrack else
  let trim (ve : nat) :=
    ('(pre, _) <- unwrap (take_n ve vstart) ;;                     (* i.reset(..); i[..value_end] *)
     let n := trimmed_len pre in
     '(remainder, rest) <- unwrap (take_n n vstart) ;;             (* i.next_slice(n) *)
     Ok ((if partial then ValueDone remainder else Value remainder) :: acc, rest))%outcome in
  match value_end with
  | None => if Nat.eqb off 0 then Ok ((if partial then ValueDone [] else Value []) :: acc, cur) else trim off
  | Some idx => trim idx
  end.

(* the `b'\n'` arm after a backslash: emit ValueNotDone(value before the backslash), skip the
   backslash, emit Newline(the `consumed` bytes after it) *)
Definition continuation (vstart : bytes) (escape_index consumed : nat)
  : outcome (event * event * bytes) perr :=
  ('(value, r) <- unwrap (take_n escape_index vstart) ;;
   let r1 := tl r in
   '(nlb, r2) <- unwrap (take_n consumed r1) ;;
   Ok (ValueNotDone value, Newline nlb, r2))%outcome.

(* the loop of value_impl; one round per byte (the leading take_while of non-special bytes is the
   default arm).  [acc] holds the dispatched events, newest first. *)
Fixpoint value_loop (fuel : nat) (vstart cur : bytes) (off : nat) (inq partial : bool)
         (acc : list event) : outcome (list event * bytes) perr :=
  match fuel with
  | O => OutOfFuel
  | S f =>
    match cur with
    | [] => value_finish vstart cur None off inq partial acc
    | c :: t =>
      let off1 := S off in
      if beqb c x0a then value_finish vstart t (Some (off1 - 1)%nat) off1 inq partial acc
      else if is_comment_tag c && negb inq then value_finish vstart t (Some (off1 - 1)%nat) off1 inq partial acc
      else if beqb c x5c then
          let escape_index := (off1 - 1)%nat in
          match t with
          | [] => Err Backtrack
          | c1 :: t1 =>
              let after :=
                if beqb c1 x0d then
                  match t1 with
                  | [] => Err Backtrack
                  | c2 :: t2 => if beqb c2 x0a then Ok (c2, t2, 2%nat) else Err Backtrack
                  end
                else Ok (c1, t1, 1%nat) in
              match after with
              | Ok (cc, tl1, consumed) =>
                  if beqb cc x0a then
                    match continuation vstart escape_index consumed with
                    | Ok (e1, e2, r2) => value_loop f r2 r2 0 inq true (e2 :: e1 :: acc)
                    | Err e => Err e | Panic => Panic | OutOfFuel => OutOfFuel
                    end
                  else if is_value_escape cc
                       then value_loop f vstart tl1 (off1 + consumed)%nat inq partial acc
                       else Err Backtrack
              | Err e => Err e | Panic => Panic | OutOfFuel => OutOfFuel
              end
          end
      else if beqb c x22 then value_loop f vstart t off1 (negb inq) partial acc
      else value_loop f vstart t off1 inq partial acc
    end
  end.

(* value_impl: events in dispatch order, and the remaining input *)
Definition value_impl (i : bytes) : outcome (list event * bytes) perr :=
  match value_loop (S (length i)) i i 0 false false [] with
  | Ok (acc, r) => Ok (rev acc, r)
  | Err e => Err e | Panic => Panic | OutOfFuel => OutOfFuel
  end.

Definition ws_event (ws : bytes) : list event := if is_nil ws then [] else [Whitespace ws].

(* config_value *)
Definition config_value (i : bytes) : outcome (list event * bytes) perr :=
  match i with
  | x3d :: r =>
      let (ws, r1) := span is_space r in
      match value_impl r1 with
      | Ok (evs, r2) => Ok (KeyValueSeparator :: ws_event ws ++ evs, r2)
      | Err e => Err e | Panic => Panic | OutOfFuel => OutOfFuel
      end
  | _ => Ok ([Value []], i)
  end.

(* key_value_pair *)
Definition key_value_pair (i : bytes) : outcome (list event * bytes) perr :=
  match config_name i with
  | Some (name, r) =>
      let (ws, r1) := span is_space r in
      match config_value r1 with
      | Ok (evs, r2) => Ok (SectionValueName name :: ws_event ws ++ evs, r2)
      | Err e => Err e | Panic => Panic | OutOfFuel => OutOfFuel
      end
  | None => Ok ([], i)
  end.

(* ---- sections -------------------------------------------------------------------------- *)

(* the `loop` of `section`: optional spaces, optional newlines, optional key-value pair, optional
   comment; stops when a round consumed nothing.  [acc]: dispatched events, newest first. *)
Fixpoint section_loop (fuel : nat) (i : bytes) (acc : list event) : outcome (list event * bytes) perr :=
  match fuel with
  | O => OutOfFuel
  | S f =>
      let (ws, i1) := span is_space i in
      let acc1 := rev_append (ws_event ws) acc in
      let '(acc2, i2) := match take_newlines1 i1 with
                         | Some (v, r) => (Newline v :: acc1, r)
                         | None => (acc1, i1)
                         end in
      match key_value_pair i2 with
      | Ok (evs, i3) =>
          let acc3 := rev_append evs acc2 in
          let '(acc4, i4) := match comment i3 with
                             | Some (c, r) => (c :: acc3, r)
                             | None => (acc3, i3)
                             end in
          if Nat.eqb (length i4) (length i) then Ok (acc4, i4) else section_loop f i4 acc4
      | Err e => Err e | Panic => Panic | OutOfFuel => OutOfFuel
      end
  end.

Definition section (fuel : nat) (i : bytes) (acc : list event) : outcome (list event * bytes) perr :=
  match section_header i with
  | Ok (h, r) => section_loop fuel r (SectionHeader h :: acc)
  | Err e => Err e | Panic => Panic | OutOfFuel => OutOfFuel
  end.

(* the loop of winnow's repeat1_ after the first success: a backtracking failure resets the input
   and ends the repetition; a success that consumed nothing is winnow's "parsers must always
   consume" assertion (a panic in debug builds).
   Events dispatched by a section that fails later are dropped here: the reset input is then
   non-empty, so from_bytes returns Err and Events::from_bytes discards everything. *)
Fixpoint sections_more (fuel : nat) (i : bytes) (acc : list event) : outcome (list event * bytes) perr :=
  match fuel with
  | O => OutOfFuel
  | S f =>
      match section (S (length i)) i acc with
      | Ok (acc', r) => if Nat.eqb (length r) (length i) then Panic else sections_more f r acc'
      | Err _ => Ok (acc, i)
      | Panic => Panic
      | OutOfFuel => OutOfFuel
      end
  end.

(* frontmatter: repeat(0.., alt((comment, take_spaces1 -> Whitespace, take_newlines1 -> Newline))).fold(..)
   followed by `.expect(..)`: the "must always consume" assertion would be a panic *)
Definition frontmatter_item (i : bytes) : option (event * bytes) :=
  match comment i with
  | Some r => Some r
  | None => match take_spaces1 i with
            | Some (v, r) => Some (Whitespace v, r)
            | None => match take_newlines1 i with
                      | Some (v, r) => Some (Newline v, r)
                      | None => None
                      end
            end
  end.

Fixpoint frontmatter (fuel : nat) (i : bytes) (acc : list event) : outcome (list event * bytes) perr :=
  match fuel with
  | O => OutOfFuel
  | S f => match frontmatter_item i with
           | Some (e, r) => if Nat.eqb (length r) (length i) then Panic else frontmatter f r (e :: acc)
           | None => Ok (acc, i)
           end
  end.

(* parse::from_bytes: the events in dispatch order *)
Definition from_bytes (input : bytes) : outcome (list event) perr :=
  match take_n (bom_len input) input with                   (* input.next_slice(bom.len()) *)
  | None => Panic
  | Some (_, i0) =>
    match frontmatter (S (length i0)) i0 [] with
    | Ok (acc, i1) =>
        if is_nil i1 then Ok (rev acc) else
        match section (S (length i1)) i1 acc with
        | Ok (acc1, i2) =>
            match sections_more (S (length i2)) i2 acc1 with
            | Ok (acc2, i3) => if is_nil i3 then Ok (rev acc2) else Err Backtrack
            | Err e => Err e | Panic => Panic | OutOfFuel => OutOfFuel
            end
        | Err e => Err e | Panic => Panic | OutOfFuel => OutOfFuel
        end
    | Err e => Err e | Panic => Panic | OutOfFuel => OutOfFuel
    end
  end.

(* ======================================================================================== *)
(* Part 2: values                                                                            *)
(* ======================================================================================== *)

(* ---- value::normalize -------------------------------------------------------------------- *)

(* the `while let Some(c) = bytes.next()` loop of normalize; [out_rev] is `out`, newest first.
   `\b` pops the last byte of `out` (no-op when empty); a trailing lone backslash ends the loop. *)
Fixpoint unescape (i : bytes) (out_rev : bytes) : bytes :=
  match i with
  | [] => rev out_rev
  | c :: t =>
      if beqb c x5c then
        match t with
        | [] => rev out_rev
        | d :: t' =>
            if beqb d x6e then unescape t' (x0a :: out_rev)
            else if beqb d x74 then unescape t' (x09 :: out_rev)
            else if beqb d x62 then unescape t' (tl out_rev)
            else unescape t' (d :: out_rev)
        end
      else if beqb c x22 then unescape t out_rev
      else unescape t (c :: out_rev)
  end.

Definition two_quotes : bytes := [x22; x22].

(* the quote-stripping `while` loop; None = the early `return ""` *)
Fixpoint strip_quotes (fuel : nat) (i : bytes) : option bytes :=
  match fuel with
  | O => Some i
  | S f =>
      if Nat.leb 3 (length i) && beqb (hd x00 i) x22 && beqb (last i x00) x22
         && negb (beqb (nth (length i - 2) i x00) x5c)
      then let i' := removelast (tl i) in
           if bytes_eqb i' two_quotes then None else strip_quotes f i'
      else Some i
  end.

Definition is_quote_or_backslash (c : byte) : bool := beqb c x22 || beqb c x5c.

Definition normalize (input : bytes) : bytes :=
  if bytes_eqb input two_quotes then [] else
  match strip_quotes (length input) input with
  | None => []
  | Some i => if existsb is_quote_or_backslash i then unescape i [] else i
  end.

(* ---- UTF-8 validity (core::str::from_utf8) ------------------------------------------------ *)

Definition cont (c : byte) : bool := in_range 128 191 c.
Fixpoint utf8_valid (s : bytes) : bool :=
  match s with
  | [] => true
  | c :: t =>
      let n := b2N c in
      if N.ltb n 128 then utf8_valid t
      else if in_range 194 223 c then
        match t with c1 :: t1 => cont c1 && utf8_valid t1 | _ => false end
      else if in_range 224 239 c then
        match t with
        | c1 :: c2 :: t2 =>
            (if N.eqb n 224 then in_range 160 191 c1 else if N.eqb n 237 then in_range 128 159 c1 else cont c1)
            && cont c2 && utf8_valid t2
        | _ => false
        end
      else if in_range 240 244 c then
        match t with
        | c1 :: c2 :: c3 :: t3 =>
            (if N.eqb n 240 then in_range 144 191 c1 else if N.eqb n 244 then in_range 128 143 c1 else cont c1)
            && cont c2 && cont c3 && utf8_valid t3
        | _ => false
        end
      else false
  end.

(* ---- gix-config-value: Integer, Boolean ---------------------------------------------------- *)

Definition i64_min : Z := (-9223372036854775808)%Z.
Definition i64_max : Z := 9223372036854775807%Z.
Definition in_i64 (z : Z) : bool := Z.leb i64_min z && Z.leb z i64_max.

(* <i64 as FromStr>::from_str: optional single sign, at least one decimal digit, no overflow *)
Definition parse_i64 (s : bytes) : option Z :=
  match s with
  | [] => None
  | c :: t =>
      let '(neg, digits) := if beqb c x2d then (true, t) else if beqb c x2b then (false, t) else (false, s) in
      match dec_to_N digits with
      | None => None
      | Some n => let z := if neg then Z.opp (Z.of_N n) else Z.of_N n in
                  if in_i64 z then Some z else None
      end
  end.

(* Suffix::from_str: the factor *)
Definition suffix_factor (s : bytes) : option Z :=
  match s with
  | [c] => match c with
           | x6b | x4b => Some 1024%Z
           | x6d | x4d => Some 1048576%Z
           | x67 | x47 => Some 1073741824%Z
           | _ => None
           end
  | _ => None
  end.

(* str::is_char_boundary for 0 < idx < len: the byte is not a continuation byte *)
Definition is_char_boundary (s : bytes) (idx : nat) : bool := negb (cont (nth idx s x00)).

(* Integer::try_from(&BStr): (value, factor of the suffix) *)
Definition integer_try_from (s : bytes) : option (Z * option Z) :=
  if negb (utf8_valid s) then None else
  match parse_i64 s with
  | Some v => Some (v, None)
  | None =>
      if Nat.leb (length s) 1 then None else
      let last_idx := (length s - 1)%nat in
      if negb (is_char_boundary s last_idx) then None else
      match parse_i64 (firstn last_idx s), suffix_factor (skipn last_idx s) with
      | Some v, Some f => Some (v, Some f)
      | _, _ => None
      end
  end.

(* Integer::to_decimal: checked_mul *)
Definition to_decimal (i : Z * option Z) : option Z :=
  match i with
  | (v, None) => Some v
  | (v, Some f) => if in_i64 (v * f) then Some (v * f)%Z else None
  end.

Inductive int_result := IntOk (z : Z) | IntErr | IntOverflow.
Definition integer_of (s : bytes) : int_result :=
  match integer_try_from s with
  | None => IntErr
  | Some i => match to_decimal i with Some z => IntOk z | None => IntOverflow end
  end.

Definition lower (c : byte) : byte := if in_range 65 90 c then N2b (b2N c + 32) else c.
(* <[u8]>::eq_ignore_ascii_case *)
Fixpoint eq_ci (a b : bytes) : bool :=
  match a, b with
  | [], [] => true
  | x :: a', y :: b' => beqb (lower x) (lower y) && eq_ci a' b'
  | _, _ => false
  end.

(* Boolean::try_from(&BStr) *)
Definition parse_true (v : bytes) : bool := eq_ci v (bs "yes") || eq_ci v (bs "on") || eq_ci v (bs "true").
Definition parse_false (v : bytes) : bool :=
  eq_ci v (bs "no") || eq_ci v (bs "off") || eq_ci v (bs "false") || is_nil v.
Definition boolean_try_from (v : bytes) : option bool :=
  if parse_true v then Some true
  else if parse_false v then Some false
  else if utf8_valid v then
    match parse_i64 v with Some z => Some (negb (Z.eqb z 0)) | None => None end
  else None.

(* ---- gix-config-value: Path::interpolate, with the harness' fixed Context ------------------- *)

Definition ctx_install : bytes := bs "/p".
Definition ctx_home : bytes := bs "/h".
Definition is_lower_ascii (c : byte) : bool := in_range 97 122 c.
Definition ctx_home_for_user (name : bytes) : option bytes :=
  if negb (is_nil name) && forallb is_lower_ascii name then Some (bs "/u/" ++ name) else None.

Fixpoint starts_with (l p : bytes) {struct p} : bool :=
  match p, l with
  | [], _ => true
  | a :: p', b :: l' => beqb a b && starts_with l' p'
  | _ :: _, [] => false
  end.

(* PathBuf::join on unix *)
Definition path_join (base p : bytes) : bytes :=
  if starts_with p [x2f] then p
  else if is_nil base || beqb (last base x00) x2f then base ++ p
  else base ++ x2f :: p.

Fixpoint position (c : byte) (l : bytes) : option nat :=
  match l with
  | [] => None
  | x :: t => if beqb x c then Some 0%nat else option_map S (position c t)
  end.

Definition interpolate (v : bytes) : option bytes :=
  if is_nil v then None
  else if starts_with v (bs "%(prefix)/") then Some (path_join ctx_install (skipn 10 v))
  else if starts_with v (bs "~/") then Some (path_join ctx_home (skipn 2 v))
  else if starts_with v (bs "~") && existsb (beqb x2f) v then
    let val := skipn 1 v in
    match position x2f val with
    | None => None
    | Some i =>
        let username := firstn i val in
        if negb (utf8_valid username) then None else
        match ctx_home_for_user username with
        | None => None
        | Some home => Some (path_join home (skipn (S i) val))
        end
    end
  else Some v.

(* ---- parse::Events::from_bytes: sections; Options::lossy drops non-essential events ------------ *)

Record psection := PSection { sheader : header; sevents : list event }.

Definition essential (e : event) : bool :=
  match e with Whitespace _ | Comment _ _ | Newline _ => false | _ => true end.

(* the dispatch closure; events before the first header are the frontmatter (not needed here) *)
Fixpoint group (lossy : bool) (evs : list event) (cur : option (header * list event))
         (done : list psection) : list psection :=
  match evs with
  | [] => match cur with
          | None => rev done
          | Some (h, es) => rev (PSection h (rev es) :: done)
          end
  | SectionHeader h :: r =>
      match cur with
      | None => group lossy r (Some (h, [])) done
      | Some (h0, es) => group lossy r (Some (h, [])) (PSection h0 (rev es) :: done)
      end
  | e :: r =>
      match cur with
      | None => group lossy r None done
      | Some (h0, es) =>
          group lossy r (Some (h0, if lossy && negb (essential e) then es else e :: es)) done
      end
  end.

(* File::from_bytes_no_includes: the sections in push order (section ids ascend in this order) *)
Definition file_sections (lossy : bool) (input : bytes) : outcome (list psection) perr :=
  match from_bytes input with
  | Ok evs => Ok (group lossy evs None [])
  | Err e => Err e | Panic => Panic | OutOfFuel => OutOfFuel
  end.

(* ---- KeyRef::parse_unvalidated ------------------------------------------------------------- *)

Definition parse_key (k : bytes) : option (bytes * option bytes * bytes) :=
  match position x2e k with
  | None => None
  | Some i =>
      let sec := firstn i k in
      let rest := skipn (S i) k in
      let '(sub, name) := match memrchr x2e rest with
                          | Some j => (Some (firstn j rest), skipn (S j) rest)
                          | None => (None, rest)
                          end in
      if utf8_valid sec && utf8_valid name then Some (sec, sub, name) else None
  end.

(* ---- File::section_ids_by_name_and_subname --------------------------------------------------
   The lookup tree maps a case-insensitively hashed and compared section Name to at most one
   Terminal node (ids of the sections without subsection) and one NonTerminal node (a map from the
   exact subsection bytes to ids); ids are pushed in file order.  Its observable content is this
   filter; every error (SectionMissing, SubSectionMissing) shows as the empty list. *)
Definition sub_matches (hs qs : option bytes) : bool :=
  match hs, qs with
  | None, None => true
  | Some a, Some b => bytes_eqb a b
  | _, _ => false
  end.
Definition sections_by (secs : list psection) (name : bytes) (sub : option bytes) : list psection :=
  filter (fun s => eq_ci (hname (sheader s)) name && sub_matches (hsub (sheader s)) sub) secs.

(* ---- section::Body ------------------------------------------------------------------------- *)

(* Body::values *)
Fixpoint values_loop (key : bytes) (evs : list event) (expect : bool) (concat : bytes)
         (acc : list bytes) : list bytes :=
  match evs with
  | [] => rev acc
  | e :: r =>
      match e with
      | SectionValueName k =>
          if eq_ci k key then values_loop key r true concat acc else values_loop key r expect concat acc
      | Value v =>
          if expect then values_loop key r false concat (normalize v :: acc)
          else values_loop key r expect concat acc
      | ValueNotDone v =>
          if expect then values_loop key r expect (concat ++ v) acc
          else values_loop key r expect concat acc
      | ValueDone v =>
          if expect then values_loop key r false [] (normalize (concat ++ v) :: acc)
          else values_loop key r expect concat acc
      | _ => values_loop key r expect concat acc
      end
  end.
Definition body_values (evs : list event) (key : bytes) : list bytes := values_loop key evs false [] [].

(* Body::key_and_value_range_by: the reverse scan; (key_start, value_range.start, value_range.end)
   with the range still inclusive *)
Fixpoint kv_range_loop (key : bytes) (ievs : list (nat * event)) (st en : nat) : option (nat * nat * nat) :=
  match ievs with
  | [] => None
  | (i, e) :: r =>
      match e with
      | SectionValueName k => if eq_ci k key then Some (i, st, en) else kv_range_loop key r 0%nat 0%nat
      | Value _ => kv_range_loop key r i i
      | ValueNotDone _ | ValueDone _ =>
          if Nat.eqb en 0 then kv_range_loop key r st i else kv_range_loop key r i en
      | _ => kv_range_loop key r st en
      end
  end.

(* `&self.0[a..b]` *)
Definition slice_range {A} (a b : nat) (l : list A) : option (list A) :=
  if Nat.leb a b && Nat.leb b (length l) then Some (firstn (b - a) (skipn a l)) else None.

Fixpoint vi_loop (evs : list event) (concat : bytes) : option (option bytes) :=
  match evs with
  | [] => None
  | Value v :: _ => Some (Some (normalize v))
  | ValueNotDone v :: r => vi_loop r (concat ++ v)
  | ValueDone v :: _ => Some (Some (normalize (concat ++ v)))
  | _ :: r => vi_loop r concat
  end.

Definition is_separator (e : event) : bool := match e with KeyValueSeparator => true | _ => false end.

(* Body::value_implicit: None = no such key, Some None = key without `=`, Some (Some v) = value *)
Definition value_implicit (evs : list event) (key : bytes) : outcome (option (option bytes)) perr :=
  match kv_range_loop key (rev (combine (seq 0 (length evs)) evs)) 0%nat 0%nat with
  | None => Ok None
  | Some (key_start, st, en) =>
      (* has_separator: `self.0.get(key_start..value_range.start)` contains a KeyValueSeparator *)
      if match slice_range key_start st evs with
         | Some sl => existsb is_separator sl
         | None => false
         end
      then
        match slice_range st (S en) evs with
        | None => Panic
        | Some sl => Ok (vi_loop sl [])
        end
      else Ok (Some None)
  end.

(* ---- File: raw_value / boolean / raw_values -------------------------------------------------- *)

Definition flatten2 {A} (o : option (option A)) : option A := match o with Some (Some a) => Some a | _ => None end.

(* raw_value_filter_inner: `for section_id in section_ids.rev()`, Body::value = value_implicit.flatten() *)
Fixpoint raw_value_loop (secs_rev : list psection) (key : bytes) : outcome (option bytes) perr :=
  match secs_rev with
  | [] => Ok None
  | s :: r =>
      match value_implicit (sevents s) key with
      | Ok o => match flatten2 o with Some v => Ok (Some v) | None => raw_value_loop r key end
      | Err e => Err e | Panic => Panic | OutOfFuel => OutOfFuel
      end
  end.

Inductive bool_result := BNone | BTrue | BFalse | BErr.
Fixpoint boolean_loop (secs_rev : list psection) (key : bytes) : outcome bool_result perr :=
  match secs_rev with
  | [] => Ok BNone
  | s :: r =>
      match value_implicit (sevents s) key with
      | Ok (Some (Some v)) =>
          Ok (match boolean_try_from v with Some true => BTrue | Some false => BFalse | None => BErr end)
      | Ok (Some None) => Ok BTrue
      | Ok None => boolean_loop r key
      | Err e => Err e | Panic => Panic | OutOfFuel => OutOfFuel
      end
  end.

Record answers := Answers {
  a_strings : option (list bytes);
  a_string : option bytes;
  a_bool : bool_result;
  a_int : option int_result;
  a_path : option (option bytes) }.

(* File::{strings, string, boolean, integer, path}(key) after KeyRef::parse_unvalidated *)
Definition lookup (secs : list psection) (sec : bytes) (sub : option bytes) (name : bytes)
  : outcome answers perr :=
  let ss := sections_by secs sec sub in
  let vals := flat_map (fun s => body_values (sevents s) name) ss in
  match raw_value_loop (rev ss) name with
  | Ok sv =>
      match boolean_loop (rev ss) name with
      | Ok b => Ok (Answers (if is_nil vals then None else Some vals) sv b
                            (option_map integer_of sv) (option_map interpolate sv))
      | Err e => Err e | Panic => Panic | OutOfFuel => OutOfFuel
      end
  | Err e => Err e | Panic => Panic | OutOfFuel => OutOfFuel
  end.
