//! C27 harness: gix-config value interpretation against git.
//!
//! cases
//!   q  <file> <key>     File::from_bytes_no_includes(lossy = false), then strings/string/boolean/integer/path of <key>
//!   ql <file> <key>     the same with Options::lossy = true
//!   norm <raw>          gix_config::value::normalize_bstr
//!   bool <v>            gix_config_value::Boolean::try_from
//!   int  <v>            gix_config_value::Integer::try_from + to_decimal
//!   path <v>            gix_config_value::Path::interpolate with the fixed context CTX (home /h, install dir /p,
//!                       home_for_user(n) = /u/n for lower-case ASCII n)
//!
//! transcripts (impl / model)
//!   q,ql : `parse-err` | `nokey` | `vals=<hex,hex|none> str=<hex|none> bool=<true|false|err|none> int=<n|err|none> path=<hex|err|none>`
//!          (an empty byte string prints as `-`)
//!   norm : `<hex>`     bool: `true|false|err`     int: `<n>|err|overflow`     path: `<hex>|err`
//! transcripts (git / spec), only for q:
//!   `bad-file` | `bad-key` | `vals=<hex|~,...|none> bool=<true|false|err|none> int=<n|err|none>`   (`~` = no `=`)
use bstr::{BStr, ByteSlice};
use gix_config::File;
use gixv_common::*;
use std::path::PathBuf;

// ---------------------------------------------------------------------------------------------
// implementation side

fn hx(b: &[u8]) -> String {
    if b.is_empty() {
        "-".into()
    } else {
        hexs(b)
    }
}

fn home_for_user(name: &str) -> Option<PathBuf> {
    if !name.is_empty() && name.bytes().all(|b| b.is_ascii_lowercase()) {
        Some(PathBuf::from(format!("/u/{name}")))
    } else {
        None
    }
}

fn interpolate(p: gix_config::Path<'_>) -> String {
    use std::os::unix::ffi::OsStrExt;
    let ctx = gix_config::path::interpolate::Context {
        git_install_dir: Some(std::path::Path::new("/p")),
        home_dir: Some(std::path::Path::new("/h")),
        home_for_user: Some(home_for_user),
    };
    match p.interpolate(ctx) {
        Ok(p) => hx(p.as_os_str().as_bytes()),
        Err(_) => "err".into(),
    }
}

fn show_int(r: Result<i64, gix_config::value::Error>) -> String {
    match r {
        Ok(n) => n.to_string(),
        Err(_) => "err".into(),
    }
}

fn open(bytes: &[u8], lossy: bool) -> Option<File<'_>> {
    let opts = gix_config::file::init::Options { lossy, ..Default::default() };
    File::from_bytes_no_includes(bytes, gix_config::file::Metadata::api(), opts).ok()
}

fn query(file: &File<'_>, key: &BStr) -> String {
    if gix_config::KeyRef::parse_unvalidated(key).is_none() {
        return "nokey".into();
    }
    let vals = match file.strings(key) {
        Some(v) => v.iter().map(|s| hx(s)).collect::<Vec<_>>().join(","),
        None => "none".into(),
    };
    let s = match file.string(key) {
        Some(v) => hx(&v),
        None => "none".into(),
    };
    let b = match file.boolean(key) {
        Some(Ok(true)) => "true",
        Some(Ok(false)) => "false",
        Some(Err(_)) => "err",
        None => "none",
    };
    let i = match file.integer(key) {
        Some(r) => show_int(r),
        None => "none".into(),
    };
    let p = match file.path(key) {
        Some(p) => interpolate(p),
        None => "none".into(),
    };
    format!("vals={vals} str={s} bool={b} int={i} path={p}")
}

fn imp(c: &Case) -> String {
    match f_str(c, 0) {
        op @ (b"q" | b"ql") => {
            let Some(file) = open(f_str(c, 1), op == b"ql") else { return "parse-err".into() };
            query(&file, f_str(c, 2).as_bstr())
        }
        b"norm" => hx(&gix_config::value::normalize_bstr(f_str(c, 1).as_bstr())),
        b"bool" => match gix_config_value::Boolean::try_from(f_str(c, 1).as_bstr()) {
            Ok(b) => if b.0 { "true" } else { "false" }.into(),
            Err(_) => "err".into(),
        },
        b"int" => match gix_config_value::Integer::try_from(f_str(c, 1).as_bstr()) {
            Ok(i) => match i.to_decimal() {
                Some(n) => n.to_string(),
                None => "overflow".into(),
            },
            Err(_) => "err".into(),
        },
        b"path" => interpolate(gix_config::Path::from(std::borrow::Cow::Borrowed(f_str(c, 1).as_bstr()))),
        _ => "?".into(),
    }
}

// ---------------------------------------------------------------------------------------------
// git reference: a transcription of config.c (git 2.39.5) — the oracle of prop()

fn g_isspace(c: u8) -> bool {
    matches!(c, b' ' | b'\t' | b'\n' | b'\r')
}
fn iskeychar(c: u8) -> bool {
    c.is_ascii_alphanumeric() || c == b'-'
}

struct Src<'a> {
    b: &'a [u8],
    pos: usize,
    eof: bool,
}
impl Src<'_> {
    /// get_next_char: CRLF is one '\n'; EOF reads as '\n' with the eof flag set
    fn next(&mut self) -> u8 {
        if self.pos >= self.b.len() {
            self.eof = true;
            return b'\n';
        }
        let mut c = self.b[self.pos];
        self.pos += 1;
        if c == b'\r' && self.pos < self.b.len() && self.b[self.pos] == b'\n' {
            self.pos += 1;
            c = b'\n';
        }
        c
    }
}

fn g_parse_value(s: &mut Src<'_>, verbatim: bool) -> Option<Vec<u8>> {
    let mut pending: Vec<u8> = Vec::new();
    let (mut quote, mut comment, mut space) = (false, false, 0usize);
    let mut v = Vec::new();
    loop {
        let mut c = s.next();
        if c == b'\n' {
            return if quote { None } else { Some(v) };
        }
        if comment {
            continue;
        }
        if g_isspace(c) && !quote {
            if !v.is_empty() {
                space += 1;
                pending.push(if verbatim { c } else { b' ' });
            }
            continue;
        }
        if !quote && (c == b';' || c == b'#') {
            comment = true;
            continue;
        }
        if space > 0 {
            v.append(&mut pending);
            space = 0;
        }
        if c == b'\\' {
            c = s.next();
            match c {
                b'\n' => continue,
                b't' => c = b'\t',
                b'b' => c = 8,
                b'n' => c = b'\n',
                b'\\' | b'"' => {}
                _ => return None,
            }
            v.push(c);
            continue;
        }
        if c == b'"' {
            quote = !quote;
            continue;
        }
        v.push(c);
    }
}

type Entries = Vec<(Vec<u8>, Option<Vec<u8>>)>;

/// git_parse_source: the (key, value) pairs handed to the callback, or None for "bad config line"
fn g_parse_file(b: &[u8], verbatim: bool) -> Option<Entries> {
    let mut s = Src { b, pos: 0, eof: false };
    if b.starts_with(&[0xef, 0xbb, 0xbf]) {
        s.pos = 3;
    } else if b.first() == Some(&0xef) {
        // partial BOM: first byte matches, a later one does not
        return None;
    }
    let mut out = Vec::new();
    let mut var: Vec<u8> = Vec::new();
    let mut baselen = 0usize;
    let mut comment = false;
    loop {
        let c = s.next();
        if c == b'\n' {
            if s.eof {
                return Some(out);
            }
            comment = false;
            continue;
        }
        if comment || g_isspace(c) {
            continue;
        }
        if c == b'#' || c == b';' {
            comment = true;
            continue;
        }
        if c == b'[' {
            var.clear();
            // get_base_var
            loop {
                let c = s.next();
                if s.eof {
                    return None;
                }
                if c == b']' {
                    break;
                }
                if g_isspace(c) {
                    // get_extended_base_var
                    let mut c = c;
                    loop {
                        if c == b'\n' {
                            return None;
                        }
                        c = s.next();
                        if !g_isspace(c) {
                            break;
                        }
                    }
                    if c != b'"' {
                        return None;
                    }
                    var.push(b'.');
                    loop {
                        let mut c = s.next();
                        if c == b'\n' {
                            return None;
                        }
                        if c == b'"' {
                            break;
                        }
                        if c == b'\\' {
                            c = s.next();
                            if c == b'\n' {
                                return None;
                            }
                        }
                        var.push(c);
                    }
                    if s.next() != b']' {
                        return None;
                    }
                    break;
                }
                if !iskeychar(c) && c != b'.' {
                    return None;
                }
                var.push(c.to_ascii_lowercase());
            }
            if var.is_empty() {
                return None;
            }
            var.push(b'.');
            baselen = var.len();
            continue;
        }
        if !c.is_ascii_alphabetic() {
            return None;
        }
        var.truncate(baselen);
        var.push(c.to_ascii_lowercase());
        // get_value
        let mut c;
        loop {
            c = s.next();
            if s.eof || !iskeychar(c) {
                break;
            }
            var.push(c.to_ascii_lowercase());
        }
        while c == b' ' || c == b'\t' {
            c = s.next();
        }
        let mut value = None;
        if c != b'\n' {
            if c != b'=' {
                return None;
            }
            value = Some(g_parse_value(&mut s, verbatim)?);
        }
        out.push((var.clone(), value));
    }
}

/// git_config_parse_key: the canonical form of a key given on the command line
fn g_parse_key(key: &[u8]) -> Option<Vec<u8>> {
    let last_dot = key.iter().rposition(|&b| b == b'.')?;
    if last_dot == 0 || last_dot + 1 == key.len() {
        return None;
    }
    let baselen = last_dot;
    let mut out = Vec::new();
    let mut dot = false;
    for (i, &c0) in key.iter().enumerate() {
        let mut c = c0;
        if c == b'.' {
            dot = true;
        }
        if !dot || i > baselen {
            if !iskeychar(c) || (i == baselen + 1 && !c.is_ascii_alphabetic()) {
                return None;
            }
            c = c.to_ascii_lowercase();
        } else if c == b'\n' {
            return None;
        }
        out.push(c);
    }
    Some(out)
}

/// strtoimax(s, &end, 0) in the C locale: (value or None on ERANGE, index of end)
fn strtoimax0(s: &[u8]) -> (Option<i128>, usize) {
    let mut i = 0;
    while i < s.len() && matches!(s[i], b' ' | b'\t' | b'\n' | 0x0b | 0x0c | b'\r') {
        i += 1;
    }
    let mut neg = false;
    if i < s.len() && (s[i] == b'+' || s[i] == b'-') {
        neg = s[i] == b'-';
        i += 1;
    }
    let mut base = 10u32;
    if i + 2 < s.len() + 0 && s[i] == b'0' && (s[i + 1] | 0x20) == b'x' && s.get(i + 2).map_or(false, |c| c.is_ascii_hexdigit()) {
        base = 16;
        i += 2;
    } else if i < s.len() && s[i] == b'0' {
        base = 8;
    }
    let start = i;
    let mut val: i128 = 0;
    let mut over = false;
    while i < s.len() {
        let d = match (s[i] as char).to_digit(base) {
            Some(d) => d,
            None => break,
        };
        if !over {
            val = val * base as i128 + d as i128;
            if val > (1i128 << 64) {
                over = true;
            }
        }
        i += 1;
    }
    if i == start {
        return (Some(0), 0); // no conversion: end == value
    }
    let v = if neg { -val } else { val };
    if over || v > i64::MAX as i128 || v < i64::MIN as i128 {
        (None, i)
    } else {
        (Some(v), i)
    }
}

/// git_parse_signed(value, &ret, max)
fn g_parse_signed(v: &[u8], max: i128) -> Option<i64> {
    if v.is_empty() {
        return None;
    }
    let (val, end) = strtoimax0(v);
    let val = val?;
    let factor: i128 = match &v[end..] {
        b"" => 1,
        b"k" | b"K" => 1024,
        b"m" | b"M" => 1024 * 1024,
        b"g" | b"G" => 1024 * 1024 * 1024,
        _ => return None,
    };
    let uval = val.abs();
    if factor * uval > max {
        return None;
    }
    Some((val * factor) as i64)
}

fn g_bool(v: Option<&[u8]>) -> Result<bool, ()> {
    let Some(v) = v else { return Ok(true) };
    if v.is_empty() {
        return Ok(false);
    }
    for t in [&b"true"[..], b"yes", b"on"] {
        if v.eq_ignore_ascii_case(t) {
            return Ok(true);
        }
    }
    for t in [&b"false"[..], b"no", b"off"] {
        if v.eq_ignore_ascii_case(t) {
            return Ok(false);
        }
    }
    g_parse_signed(v, i32::MAX as i128).map(|n| n != 0).ok_or(())
}

fn g_int(v: Option<&[u8]>) -> Result<i64, ()> {
    g_parse_signed(v.unwrap_or(b""), i64::MAX as i128).ok_or(())
}

fn g_show(entries: &Entries, key: &[u8]) -> String {
    let Some(k) = g_parse_key(key) else { return "bad-key".into() };
    let vals: Vec<&Option<Vec<u8>>> = entries.iter().filter(|(n, _)| *n == k).map(|(_, v)| v).collect();
    if vals.is_empty() {
        return "vals=none bool=none int=none".into();
    }
    let vs = vals
        .iter()
        .map(|v| match v {
            Some(v) => hx(v),
            None => "~".into(),
        })
        .collect::<Vec<_>>()
        .join(",");
    let last = vals.last().unwrap().as_deref();
    // the CLI converts every value of the key before it shows the last one
    let b = match g_bool(last) {
        _ if vals.iter().any(|v| g_bool(v.as_deref()).is_err()) => "err",
        Ok(true) => "true",
        Ok(false) => "false",
        Err(()) => "err",
    };
    let i = match g_int(last) {
        _ if vals.iter().any(|v| g_int(v.as_deref()).is_err()) => "err".into(),
        Ok(n) => n.to_string(),
        Err(()) => "err".into(),
    };
    format!("vals={vs} bool={b} int={i}")
}

// ---------------------------------------------------------------------------------------------
// real git

fn git_real(c: &Case) -> String {
    if f_str(c, 0) != b"q" {
        return "-".into();
    }
    let (file, key) = (f_str(c, 1), f_str(c, 2));
    if file.contains(&0) || key.contains(&0) || key.is_empty() {
        return "-".into();
    }
    if std::env::var_os("GIXV_C27_REF").is_some() {
        return match g_parse_file(file, false) {
            None => "bad-file".into(),
            Some(e) => g_show(&e, key),
        };
    }
    use std::os::unix::ffi::OsStrExt;
    static N: std::sync::atomic::AtomicUsize = std::sync::atomic::AtomicUsize::new(0);
    let dir = std::env::temp_dir().join(format!(
        "gixv-c27-{}-{}",
        std::process::id(),
        N.fetch_add(1, std::sync::atomic::Ordering::SeqCst)
    ));
    std::fs::create_dir_all(&dir).unwrap();
    let path = dir.join("cfg");
    std::fs::write(&path, file).unwrap();
    let run = |args: &[&std::ffi::OsStr]| {
        std::process::Command::new("/usr/bin/git")
            .arg("config")
            .arg("-f")
            .arg(&path)
            .args(args)
            .env("HOME", "/h")
            .env("GIT_CONFIG_NOSYSTEM", "1")
            .env("LC_ALL", "C")
            .current_dir(&dir)
            .output()
            .expect("git runs")
    };
    let os = |s: &str| std::ffi::OsStr::new(s).to_owned();
    let keyo = std::ffi::OsStr::from_bytes(key).to_owned();
    let res = (|| {
        let l = run(&[&os("-z"), &os("-l")]);
        if !l.status.success() {
            return "bad-file".to_string();
        }
        let Some(k) = g_parse_key(key) else {
            let o = run(&[&os("-z"), &os("--get-all"), &keyo]);
            return if o.status.success() || o.status.code() == Some(1) && o.stderr.is_empty() {
                "key-accepted?".into()
            } else {
                "bad-key".into()
            };
        };
        // `-z -l`: "key\nvalue\0" or "key\0" (no `=`)
        let mut vals: Vec<String> = Vec::new();
        for rec in l.stdout.split(|&b| b == 0) {
            if rec.is_empty() {
                continue;
            }
            match rec.iter().position(|&b| b == b'\n') {
                Some(p) => {
                    if rec[..p] == k[..] {
                        vals.push(hx(&rec[p + 1..]));
                    }
                }
                None => {
                    if rec == &k[..] {
                        vals.push("~".into());
                    }
                }
            }
        }
        let o = run(&[&os("-z"), &os("--get-all"), &keyo]);
        if !o.status.success() && !(o.status.code() == Some(1) && o.stderr.is_empty()) {
            return "bad-key".into();
        }
        let n_get_all = o.stdout.iter().filter(|&&b| b == 0).count();
        if n_get_all != vals.len() {
            return format!("list/get-all-differ {} {}", n_get_all, vals.len());
        }
        if vals.is_empty() {
            return "vals=none bool=none int=none".into();
        }
        let b = run(&[&os("--type=bool"), &os("--get"), &keyo]);
        let b = if b.status.success() { String::from_utf8_lossy(b.stdout.trim()).to_string() } else { "err".into() };
        let i = run(&[&os("--type=int"), &os("--get"), &keyo]);
        let i = if i.status.success() { String::from_utf8_lossy(i.stdout.trim()).to_string() } else { "err".into() };
        format!("vals={} bool={} int={}", vals.join(","), b, i)
    })();
    let _ = std::fs::remove_dir_all(&dir);
    res
}

// ---------------------------------------------------------------------------------------------
// the property, evaluated on the implementation

/// git's reading of a path value, for the forms both sides define alike
fn g_path(v: &[u8]) -> Option<Vec<u8>> {
    if let Some(rest) = v.strip_prefix(b"~/") {
        if rest.starts_with(b"/") {
            return None;
        }
        let mut o = b"/h/".to_vec();
        o.extend_from_slice(rest);
        Some(o)
    } else if v.is_empty() || v.starts_with(b"~") || v.starts_with(b"%(prefix)/") {
        None
    } else {
        Some(v.to_vec())
    }
}

// ---- classes ------------------------------------------------------------------------------------
// Deviations from git found on the unchanged tree (listed in findings.txt). A failure of one of these
// classes is reported only if no other failure is found for the case.
const DEVIATION_CLASSES: &[&str] = &[
    "lone-cr",
    "value-trailing-formfeed",
    "backslash-at-eof",
    "empty-section-name",
    "legacy-header-dots",
    "leading-whitespace-kept",
    "num-leading-space",
    "num-radix-prefix",
    "num-no-digits",
    "bool-unit-suffix",
    "bool-outside-i32",
    "int-min",
];

fn c_isspace(c: u8) -> bool {
    matches!(c, b' ' | b'\t' | b'\n' | 0x0b | 0x0c | b'\r')
}
fn strip_sign(v: &[u8]) -> &[u8] {
    match v.first() {
        Some(b'+') | Some(b'-') => &v[1..],
        _ => v,
    }
}
fn is_unit(c: u8) -> bool {
    matches!(c, b'k' | b'K' | b'm' | b'M' | b'g' | b'G')
}
/// the form of a number text that git and gix read differently, by shape of the text alone
fn number_form(v: &[u8]) -> Option<&'static str> {
    if v.first().map_or(false, |&c| c_isspace(c)) {
        return Some("num-leading-space");
    }
    let u = strip_sign(v);
    if u.len() >= 2 && u[0] == b'0' && (u[1].is_ascii_digit() || u[1] == b'x' || u[1] == b'X') {
        return Some("num-radix-prefix");
    }
    if v.len() == 1 && is_unit(v[0]) {
        return Some("num-no-digits");
    }
    None
}
fn plain_decimal(v: &[u8]) -> Option<i128> {
    let u = strip_sign(v);
    if u.is_empty() || u.len() > 30 || !u.iter().all(u8::is_ascii_digit) {
        return None;
    }
    let n: i128 = std::str::from_utf8(u).ok()?.parse().ok()?;
    Some(if v[0] == b'-' { -n } else { n })
}
fn decimal_with_unit(v: &[u8]) -> bool {
    v.len() >= 2 && is_unit(v[v.len() - 1]) && plain_decimal(&v[..v.len() - 1]).is_some()
}

fn bool_class(v: Option<&[u8]>, git: Result<bool, ()>, gix: Result<bool, ()>) -> &'static str {
    let Some(v) = v else { return "bool-implicit" };
    if let Some(f) = number_form(v) {
        return f;
    }
    match (git, gix) {
        (Ok(_), Err(())) if decimal_with_unit(v) => "bool-unit-suffix",
        (Err(()), Ok(_)) if plain_decimal(v).map_or(false, |n| n.abs() > i32::MAX as i128) => "bool-outside-i32",
        _ => "bool-differs",
    }
}
fn int_class(v: &[u8], git: Result<i64, ()>, gix: Result<i64, ()>) -> &'static str {
    if let Some(f) = number_form(v) {
        return f;
    }
    match (git, gix) {
        (Err(()), Ok(i64::MIN)) => "int-min",
        _ => "int-differs",
    }
}

fn has_lone_cr(file: &[u8]) -> bool {
    file.windows(2).any(|w| w[0] == b'\r' && w[1] != b'\n') || file.last() == Some(&b'\r')
}
fn reject_class(file: &[u8]) -> &'static str {
    if has_lone_cr(file) {
        "lone-cr"
    } else if file.contains(&0x0c) {
        "value-trailing-formfeed"
    } else if file.last() == Some(&b'\\') {
        "backslash-at-eof"
    } else if file.windows(2).any(|w| w[0] == b'[' && matches!(w[1], b' ' | b'\t' | b'.')) {
        "empty-section-name"
    } else {
        "gix-rejects-file"
    }
}
/// `gix` is `git` with additional blanks in front
fn extra_leading_blanks(git: &[u8], gix: &[u8]) -> bool {
    gix.len() > git.len() && gix.ends_with(git) && gix[..gix.len() - git.len()].iter().all(|&c| c == b' ' || c == b'\t')
}

struct Failures(Vec<(String, String)>);
impl Failures {
    fn add(&mut self, class: &str, detail: String) {
        self.0.push((class.to_string(), detail));
    }
    fn verdict(self, nontrivial: bool, class: &str) -> Verdict {
        if let Some((c, d)) = self.0.iter().find(|(c, _)| !DEVIATION_CLASSES.contains(&c.as_str())) {
            return Verdict::fail(c.clone(), d.clone());
        }
        match self.0.into_iter().next() {
            Some((c, d)) => Verdict::fail(c, d),
            None => Verdict::ok(nontrivial, class),
        }
    }
}

fn prop_q(file_bytes: &[u8], key: &[u8], lossy: bool) -> Verdict {
    if file_bytes.contains(&0) {
        return Verdict::ok(false, "nul-skip");
    }
    let Some(entries) = g_parse_file(file_bytes, false) else { return Verdict::ok(false, "git-rejects-file") };
    let entries_verbatim = g_parse_file(file_bytes, true).expect("whitespace handling does not change acceptance");
    let Some(file) = open(file_bytes, lossy) else {
        // documented: no key before the first section header (parse/events.rs "Global properties … strictly disallowed")
        if entries.iter().any(|(k, _)| !k.contains(&b'.')) {
            return Verdict::ok(false, "doc-global-property");
        }
        return Verdict::fail(reject_class(file_bytes), "git accepts the file, gix does not parse it");
    };
    // every key of the file, plus the query key of the case
    let mut queries: Vec<Vec<u8>> = Vec::new();
    for (k, _) in &entries {
        if !queries.contains(k) {
            queries.push(k.clone());
        }
    }
    if !queries.iter().any(|k| k == key) {
        queries.push(key.to_vec());
    }
    let legacy_upper = legacy_header_with_upper(file_bytes);
    let legacy_dots = dotted_section(file_bytes);
    let mut nontrivial = false;
    let mut class = "no-values";
    let mut fails = Failures(Vec::new());
    for q in &queries {
        let Some(canon) = g_parse_key(q) else { continue };
        let pick = |es: &Entries| -> Vec<Option<Vec<u8>>> { es.iter().filter(|(n, _)| *n == canon).map(|(_, v)| v.clone()).collect() };
        let want = pick(&entries);
        let want_verbatim = pick(&entries_verbatim);
        let qs = format!("{:?}", String::from_utf8_lossy(q));
        let flat = |w: &[Option<Vec<u8>>]| -> Vec<Vec<u8>> { w.iter().map(|v| v.clone().unwrap_or_default()).collect() };
        let want_strings = flat(&want);
        let got_strings: Vec<Vec<u8>> = file.strings(q.as_bstr()).unwrap_or_default().iter().map(|s| s.to_vec()).collect();
        if want_strings != got_strings {
            let detail = format!("key {qs}: git {:?} gix {:?}", show_vals(&want_strings), show_vals(&got_strings));
            if legacy_upper {
                // documented: legacy `[section.Sub]` headers keep their case (lib.rs "Known differences")
                class = "doc-legacy-header-case";
            } else if want_strings.iter().any(|v| v.contains(&8)) {
                // documented: normalize() "`\b` will remove the previous character"
                class = "doc-backspace";
            } else if flat(&want_verbatim) == got_strings {
                // git >= 2.45 keeps unquoted inner whitespace verbatim, as gix does; 2.39 writes spaces
                class = "git-2.45-inner-whitespace";
            } else if has_lone_cr(file_bytes) {
                fails.add("lone-cr", detail);
            } else if legacy_dots {
                fails.add("legacy-header-dots", detail);
            } else if want_strings.len() == got_strings.len()
                && flat(&want_verbatim).iter().zip(&got_strings).all(|(w, g)| w == g || extra_leading_blanks(w, g))
            {
                fails.add("leading-whitespace-kept", detail);
            } else {
                fails.add("values-differ", detail);
            }
            continue;
        }
        if want.is_empty() {
            continue;
        }
        nontrivial = true;
        if class == "no-values" {
            class = "values-equal";
        }
        let last = want.last().unwrap();
        // last one wins
        match last {
            Some(v) => {
                if file.string(q.as_bstr()).map(|s| s.to_vec()) != Some(v.clone()) {
                    fails.add("string-not-last", format!("key {qs}"));
                }
            }
            None => {
                // documented: Body::value() "we consider values without separator `=` non-existing"
            }
        }
        let gb = g_bool(last.as_deref());
        match file.boolean(q.as_bstr()) {
            None => fails.add("bool-missing", format!("key {qs}")),
            Some(ib) => {
                let ib = ib.map_err(|_| ());
                if gb != ib {
                    let v = last.clone().unwrap_or_default();
                    fails.add(
                        bool_class(last.as_deref(), gb, ib),
                        format!("key {qs} value {:?}: git {:?} gix {:?}", String::from_utf8_lossy(&v), gb, ib),
                    );
                }
            }
        }
        if let Some(v) = last {
            let gi = g_int(Some(v));
            match file.integer(q.as_bstr()) {
                None => fails.add("int-missing", format!("key {qs}")),
                Some(ii) => {
                    let ii = ii.map_err(|_| ());
                    if gi != ii {
                        fails.add(int_class(v, gi, ii), format!("key {qs} value {:?}: git {:?} gix {:?}", String::from_utf8_lossy(v), gi, ii));
                    }
                }
            }
            if let Some(want_path) = g_path(v) {
                if file.path(q.as_bstr()).map(interpolate) != Some(hx(&want_path)) {
                    fails.add("path-differs", format!("key {qs}"));
                }
            }
        }
    }
    fails.verdict(nontrivial, class)
}

fn show_vals(v: &[Vec<u8>]) -> Vec<String> {
    v.iter().map(|x| String::from_utf8_lossy(x).to_string()).collect()
}

/// a `[name.Sub]` header whose part after the first dot has an upper-case letter
fn legacy_header_with_upper(file: &[u8]) -> bool {
    for line in file.split(|&b| b == b'\n') {
        let mut rest = line;
        while let Some(p) = rest.iter().position(|&b| b == b'[') {
            rest = &rest[p + 1..];
            let end = rest.iter().position(|&b| !(b.is_ascii_alphanumeric() || b == b'-' || b == b'.')).unwrap_or(rest.len());
            if rest.get(end) == Some(&b']') {
                if let Some(d) = rest[..end].iter().position(|&b| b == b'.') {
                    if rest[d..end].iter().any(|b| b.is_ascii_uppercase()) {
                        return true;
                    }
                }
            }
        }
    }
    false
}
/// a `[a.b.c]` or `[a.b "x"]` header (a dot besides the one legacy separator): git's key is a.b.c.<name> / a.b.x.<name>,
/// gix splits headers at the last dot, but keys at the first
fn dotted_section(file: &[u8]) -> bool {
    for line in file.split(|&b| b == b'\n') {
        let mut rest = line;
        while let Some(p) = rest.iter().position(|&b| b == b'[') {
            rest = &rest[p + 1..];
            let end = rest.iter().position(|&b| !(b.is_ascii_alphanumeric() || b == b'-' || b == b'.')).unwrap_or(rest.len());
            let dots = rest[..end].iter().filter(|&&b| b == b'.').count();
            if dots > 1 || (dots == 1 && rest.get(end) != Some(&b']')) {
                return true;
            }
        }
    }
    false
}

fn prop(c: &Case) -> Verdict {
    match f_str(c, 0) {
        op @ (b"q" | b"ql") => prop_q(f_str(c, 1), f_str(c, 2), op == b"ql"),
        b"norm" => {
            // normalize against git's parse_value on the one-line text `<raw>\n`, when that line is
            // a value git accepts and the parser would hand over unchanged
            let raw = f_str(c, 1);
            if raw.contains(&0) || raw.contains(&b'\n') || raw.contains(&b'\r') {
                return Verdict::ok(false, "norm-not-a-line");
            }
            if raw.last().map_or(false, |b| b.is_ascii_whitespace()) || raw.first().map_or(false, |b| *b == b' ' || *b == b'\t') {
                return Verdict::ok(false, "norm-untrimmed");
            }
            let mut line = raw.to_vec();
            line.push(b'\n');
            let parse = |verbatim: bool| {
                let mut s = Src { b: &line, pos: 0, eof: false };
                g_parse_value(&mut s, verbatim).map(|v| (v, s.pos))
            };
            let Some((want, pos)) = parse(false) else { return Verdict::ok(false, "norm-git-rejects") };
            if pos != line.len() {
                return Verdict::ok(false, "norm-not-a-line");
            }
            if has_unquoted_comment(raw) {
                return Verdict::ok(false, "norm-comment");
            }
            let got = gix_config::value::normalize_bstr(raw.as_bstr()).to_vec();
            if got == want {
                Verdict::ok(true, "norm-equal")
            } else if want.contains(&8) {
                Verdict::ok(false, "doc-backspace")
            } else if parse(true).map(|p| p.0) == Some(got.clone()) {
                Verdict::ok(true, "git-2.45-inner-whitespace")
            } else if parse(true).map_or(false, |p| extra_leading_blanks(&p.0, &got)) {
                Verdict::fail("leading-whitespace-kept", format!("git {:?} gix {:?}", String::from_utf8_lossy(&want), String::from_utf8_lossy(&got)))
            } else {
                Verdict::fail("norm-differs", format!("git {:?} gix {:?}", String::from_utf8_lossy(&want), String::from_utf8_lossy(&got)))
            }
        }
        b"bool" => {
            let v = f_str(c, 1);
            if v.contains(&0) {
                return Verdict::ok(false, "nul-skip");
            }
            let want = g_bool(Some(v));
            let got = gix_config_value::Boolean::try_from(v.as_bstr()).map(|b| b.0).map_err(|_| ());
            if want == got {
                Verdict::ok(want.is_ok(), if want.is_ok() { "bool-equal" } else { "bool-both-err" })
            } else {
                Verdict::fail(bool_class(Some(v), want, got), format!("{:?}: git {:?} gix {:?}", String::from_utf8_lossy(v), want, got))
            }
        }
        b"int" => {
            let v = f_str(c, 1);
            if v.contains(&0) {
                return Verdict::ok(false, "nul-skip");
            }
            let want = g_int(Some(v));
            let got = match gix_config_value::Integer::try_from(v.as_bstr()) {
                Ok(i) => i.to_decimal().ok_or(()),
                Err(_) => Err(()),
            };
            if want == got {
                Verdict::ok(want.is_ok(), if want.is_ok() { "int-equal" } else { "int-both-err" })
            } else {
                Verdict::fail(int_class(v, want, got), format!("{:?}: git {:?} gix {:?}", String::from_utf8_lossy(v), want, got))
            }
        }
        b"path" => {
            let v = f_str(c, 1);
            match g_path(v) {
                Some(want) => {
                    let got = interpolate(gix_config::Path::from(std::borrow::Cow::Borrowed(v.as_bstr())));
                    if got == hx(&want) {
                        Verdict::ok(true, if v.starts_with(b"~/") { "path-home" } else { "path-plain" })
                    } else {
                        Verdict::fail("path-differs", got)
                    }
                }
                None => Verdict::ok(false, "path-form-not-compared"),
            }
        }
        _ => Verdict::ok(false, "?"),
    }
}


fn has_unquoted_comment(raw: &[u8]) -> bool {
    let mut q = false;
    let mut i = 0;
    while i < raw.len() {
        match raw[i] {
            b'\\' => i += 1,
            b'"' => q = !q,
            b';' | b'#' if !q => return true,
            _ => {}
        }
        i += 1;
    }
    false
}

// ---------------------------------------------------------------------------------------------
// generator

const SECTIONS: &[&str] = &["a", "A", "b", "ab", "a-b", "core", "Core", "a1"];
const SUBS: &[&str] = &["x", "X", "x y", "x.y", "", "a", "x\\\"y", "x\\\\y", "x\\y", "ö"];
const LEGACY: &[&str] = &["x", "x", "x", "a", "a", "b", "X", "xY", "x.y"];
const KEYS: &[&str] = &["k", "K", "key", "Key", "k-1", "b", "a"];
const WORDS: &[&str] = &[
    "v", "hello", "a b", "x  y", "true", "True", "YES", "on", "off", "No", "false", "FALSE", "0", "1", "-1", "+1", "42", "1k",
    "1K", "2m", "3G", "010", "0x10", "1kb", "k", "-", "+", "9223372036854775807", "9223372036854775808",
    "-9223372036854775808", "-9223372036854775809", "8589934592g", "8589934591g", "2147483647", "2147483648", "-2147483648",
    "-2147483649", "4194304k", "~/x", "~", "~/", "~user/x", "~U/x", "%(prefix)/x", "/abs/path", "rel/path", "~//x", "yes ",
    "tru", "onn", "00", "-0", "1 k", " 1",
];

fn gen_value(rng: &mut Rng, nl: &[u8]) -> Vec<u8> {
    let mut v = Vec::new();
    let pieces = 1 + rng.below(3);
    for pi in 0..pieces {
        if pi > 0 && rng.chance(1, 2) {
            v.extend_from_slice(*rng.pick(&[&b" "[..], b"  ", b" ", b"   ", b"\t", b" \t "]));
        }
        match rng.below(14) {
            0..=5 => v.extend_from_slice(rng.pick(WORDS).as_bytes()),
            6 | 7 => {
                // quoted piece
                v.push(b'"');
                match rng.below(6) {
                    0 => v.extend_from_slice(b" lead and trail "),
                    1 => v.extend_from_slice(b"a;b#c"),
                    2 => v.extend_from_slice(rng.pick(WORDS).as_bytes()),
                    3 => v.extend_from_slice(b"q\\\"q"),
                    4 => {}
                    _ => v.extend_from_slice(b"x\ty"),
                }
                v.push(b'"');
            }
            8 => v.extend_from_slice(*rng.pick(&[&b"\\n"[..], b"\\t", b"\\\\", b"\\\"", b"\\b", b"x\\b", b"\\\\\\\""])),
            9 | 10 => {
                // continuation, inside or outside quotes
                let quoted = rng.chance(1, 3);
                if quoted {
                    v.extend_from_slice(b"\"in ");
                } else {
                    v.extend_from_slice(*rng.pick(&[&b""[..], b"x", b"x "]));
                }
                v.push(b'\\');
                v.extend_from_slice(nl);
                v.extend_from_slice(*rng.pick(&[&b""[..], b"  ", b"\t", b"y", b" y", b"  y z"]));
                if quoted {
                    v.extend_from_slice(b"quote\"");
                }
            }
            11 => {
                if rng.chance(1, 4) {
                    // often invalid
                    v.extend_from_slice(*rng.pick(&[&b"\""[..], b"\\", b"\\x", b"\\\r", b"\r", b"\x0c", b"\x0b"]));
                } else {
                    v.extend_from_slice(rng.pick(WORDS).as_bytes());
                }
            }
            12 => v.extend_from_slice(&rng.word(b"ab ;#=[]\t.", 0, 6)),
            _ => v.extend_from_slice(format!("{}", rng.range(-3, 5000)).as_bytes()),
        }
    }
    v
}

struct GenFile {
    bytes: Vec<u8>,
    keys: Vec<Vec<u8>>, // full key texts usable as queries
}

fn gen_file(rng: &mut Rng) -> GenFile {
    let nl: &[u8] = if rng.chance(1, 6) { b"\r\n" } else { b"\n" };
    let mut b = Vec::new();
    let mut keys = Vec::new();
    if rng.chance(1, 25) {
        b.extend_from_slice(&[0xef, 0xbb, 0xbf]);
    }
    if rng.chance(1, 6) {
        b.extend_from_slice(*rng.pick(&[&b"# comment"[..], b"; c \\", b"  ", b""]));
        b.extend_from_slice(nl);
    }
    if rng.chance(1, 40) {
        b.extend_from_slice(b"k = global");
        b.extend_from_slice(nl);
    }
    let nsec = 1 + rng.below(4);
    for _ in 0..nsec {
        let name = *rng.pick(SECTIONS);
        let mut qprefix = name.as_bytes().to_vec();
        b.push(b'[');
        b.extend_from_slice(name.as_bytes());
        match rng.below(20) {
            0..=8 => {}
            9..=17 => {
                let sub = *rng.pick(SUBS);
                b.extend_from_slice(*rng.pick(&[&b" "[..], b" ", b"  ", b"\t"]));
                b.push(b'"');
                b.extend_from_slice(sub.as_bytes());
                b.push(b'"');
                // the query form of the subsection: undo the escapes
                let mut q = Vec::new();
                let sb = sub.as_bytes();
                let mut i = 0;
                while i < sb.len() {
                    if sb[i] == b'\\' && i + 1 < sb.len() {
                        i += 1;
                    }
                    q.push(sb[i]);
                    i += 1;
                }
                qprefix.push(b'.');
                qprefix.extend_from_slice(&q);
            }
            _ => {
                let sub = *rng.pick(LEGACY);
                b.push(b'.');
                b.extend_from_slice(sub.as_bytes());
                qprefix.push(b'.');
                qprefix.extend_from_slice(sub.as_bytes());
            }
        }
        b.push(b']');
        if rng.chance(1, 8) {
            b.extend_from_slice(b" ");
        } else {
            if rng.chance(1, 8) {
                b.extend_from_slice(b" # c");
            }
            b.extend_from_slice(nl);
        }
        let nkeys = rng.below(4);
        for _ in 0..nkeys {
            let key = *rng.pick(KEYS);
            b.extend_from_slice(*rng.pick(&[&b""[..], b"\t", b"  ", b"\t"]));
            b.extend_from_slice(key.as_bytes());
            let mut q = qprefix.clone();
            q.push(b'.');
            q.extend_from_slice(key.as_bytes());
            keys.push(q);
            match rng.below(12) {
                0 => {}                                  // implicit
                1 => b.extend_from_slice(b" "),          // implicit with trailing blank
                2 => b.extend_from_slice(b" ="),         // empty
                _ => {
                    b.extend_from_slice(*rng.pick(&[&b" = "[..], b"=", b" =", b"= ", b"\t=\t"]));
                    b.extend_from_slice(&gen_value(rng, nl));
                    b.extend_from_slice(*rng.pick(&[&b""[..], b"", b" ", b"  \t", b" # c", b";c", b" ; \"c"]));
                }
            }
            if rng.chance(1, 30) {
                // leave the last line without newline / glue the next item
            } else {
                b.extend_from_slice(nl);
            }
            if rng.chance(1, 10) {
                b.extend_from_slice(*rng.pick(&[&b"# c"[..], b"", b"   ", b";"]));
                b.extend_from_slice(nl);
            }
        }
    }
    if rng.chance(1, 10) && b.ends_with(nl) {
        b.truncate(b.len() - nl.len());
    }
    GenFile { bytes: b, keys }
}

fn mutate_case(rng: &mut Rng, k: &[u8]) -> Vec<u8> {
    let mut k = k.to_vec();
    if k.is_empty() {
        return k;
    }
    let first = k.iter().position(|&b| b == b'.').unwrap_or(0);
    let last = k.iter().rposition(|&b| b == b'.').unwrap_or(0);
    let region = rng.below(4);
    for (i, b) in k.iter_mut().enumerate() {
        let in_region = match region {
            0 => i < first,
            1 => i > last,
            2 => i > first && i < last,
            _ => true,
        };
        if in_region && rng.chance(1, 2) {
            *b = if b.is_ascii_lowercase() { b.to_ascii_uppercase() } else { b.to_ascii_lowercase() };
        }
    }
    k
}

fn q_case(rng: &mut Rng) -> Case {
    let mut f = gen_file(rng);
    if rng.chance(1, 12) && !f.bytes.is_empty() {
        // malformed stream
        for _ in 0..1 + rng.below(2) {
            if f.bytes.is_empty() {
                break;
            }
            let i = rng.below(f.bytes.len() as u64) as usize;
            match rng.below(3) {
                0 => f.bytes[i] = *rng.pick(b"\"\\[]=\n \t;#a.\r\x00"),
                1 => {
                    f.bytes.remove(i);
                }
                _ => f.bytes.truncate(i),
            }
        }
    }
    let key = if f.keys.is_empty() || rng.chance(1, 10) {
        let s = *rng.pick(SECTIONS);
        let k = *rng.pick(KEYS);
        match rng.below(3) {
            0 => format!("{s}.{k}").into_bytes(),
            1 => format!("{s}.{}.{k}", rng.pick(LEGACY)).into_bytes(),
            _ => rng.word(b"ak.X-", 0, 6),
        }
    } else {
        let k = rng.pick(&f.keys).clone();
        if rng.chance(1, 2) {
            mutate_case(rng, &k)
        } else {
            k
        }
    };
    let op = if rng.chance(1, 5) { "ql" } else { "q" };
    vec![tag(op), f.bytes, key]
}

fn boundary() -> Vec<Case> {
    let mut out = Vec::new();
    let files: &[(&str, &str)] = &[
        ("[a]\nk = v\n", "a.k"),
        ("[a]\nk = v\n[a]\nk = w\nk = x\n", "a.k"),
        ("[a]\nk = v\n[A]\nK = w\n", "A.K"),
        ("[a \"x\"]\nk = 1\n[a \"X\"]\nk = 2\n", "a.x.k"),
        ("[a \"x\"]\nk = 1\n[a \"X\"]\nk = 2\n", "a.X.k"),
        ("[a.x]\nk = 1\n", "a.x.k"),
        ("[a.X]\nk = 1\n", "a.x.k"),
        ("[a.X]\nk = 1\n", "a.X.k"),
        ("[a.b.c]\nk = 1\n", "a.b.c.k"),
        ("[a]\nk\n", "a.k"),
        ("[a]\nk \n", "a.k"),
        ("[a]\nk =\n", "a.k"),
        ("[a]\nk = v\nk\n", "a.k"),
        ("[a]\nk = \"x y\"  \n", "a.k"),
        ("[a]\nk = x\ty\n", "a.k"),
        ("[a]\nk = x \\\n  y\n", "a.k"),
        ("[a]\nk = \\\n  y\n", "a.k"),
        ("[a]\nk = x\\\n", "a.k"),
        ("[a]\nk = x\\", "a.k"),
        ("[a]\nk = a\\bc\n", "a.k"),
        ("[a]\nk = \"a;b\" ; c\n", "a.k"),
        ("[a]\nk = x\x0c\n", "a.k"),
        ("[a]\r\nk = v\r\n", "a.k"),
        ("[a]\nk = 1k\n", "a.k"),
        ("[a]\nk = 010\n", "a.k"),
        ("[a]\nk = 0x10\n", "a.k"),
        ("[a]\nk = 4294967296\n", "a.k"),
        ("[a]\nk = -9223372036854775808\n", "a.k"),
        ("[a]\nk = ~/x\n", "a.k"),
        ("k = v\n[a]\nk = w\n", "a.k"),
        ("[a]k=v\n", "a.k"),
        ("[a] k = v # c\n", "a.k"),
        ("[a \"x\\\"y\"]\nk = v\n", "a.x\"y.k"),
        ("[a \"x.y\"]\nk = v\n", "a.x.y.k"),
        ("\u{feff}[a]\nk = v\n", "a.k"),
        ("", "a.k"),
        ("[a]\nk = \"\"\n", "a.k"),
        ("[a]\nk = \"a\" \"b\"\n", "a.k"),
        ("[a]\nk = \"a\\\\\"\n", "a.k"),
    ];
    for (f, k) in files {
        out.push(vec![tag("q"), f.as_bytes().to_vec(), k.as_bytes().to_vec()]);
        out.push(vec![tag("ql"), f.as_bytes().to_vec(), k.as_bytes().to_vec()]);
    }
    for w in WORDS {
        out.push(vec![tag("bool"), w.as_bytes().to_vec()]);
        out.push(vec![tag("int"), w.as_bytes().to_vec()]);
        out.push(vec![tag("path"), w.as_bytes().to_vec()]);
    }
    for raw in ["", "\"\"", "\"", "\"\"\"", "\"a\"", "a\"b\"", "\"a\\\"\"", "\"a\\\\\"", "\\", "a\\", "\\b", "a\\b", "a\\bb\\b\\b\\b", "\"\\\"\"", "\"\"\"\"", "\"a\"\"", "\\n\\t\\\\"] {
        out.push(vec![tag("norm"), raw.as_bytes().to_vec()]);
    }
    out
}

fn gen(rng: &mut Rng, n: usize) -> Vec<Case> {
    // Rng::new(seed) starts seed steps further along ONE SplitMix64 sequence, so the streams of
    // neighbouring seeds merge after a few cases; restart from a mixed output instead
    *rng = Rng(rng.next() ^ 0xc27c27c27c27c27);
    let mut out = boundary();
    while out.len() < n {
        match rng.below(20) {
            0..=13 => out.push(q_case(rng)),
            14 | 15 => {
                let v = match rng.below(4) {
                    0 => rng.word(b"\"\\abnt ", 0, 8),
                    1 => rng.word(b"\"\\b;# \t", 0, 6),
                    2 => gen_value(rng, b"\n"),
                    _ => {
                        let mut v = b"\"".to_vec();
                        v.extend(rng.word(b"\"\\ab", 0, 5));
                        v.push(b'"');
                        v
                    }
                };
                out.push(vec![tag("norm"), v]);
            }
            16 => {
                let v = match rng.below(3) {
                    0 => rng.pick(WORDS).as_bytes().to_vec(),
                    1 => rng.word(b"truefalsynoTRUEFALSYNO01", 0, 5),
                    _ => rng.word(b"0123456789-+kKmMgGxX \xc3\xa9", 0, 6),
                };
                out.push(vec![tag("bool"), v]);
            }
            17 | 18 => {
                let v = match rng.below(5) {
                    0 => rng.pick(WORDS).as_bytes().to_vec(),
                    1 => {
                        // around the overflow boundaries of each suffix
                        let (sfx, lim): (&str, i128) = *rng.pick(&[("", 1i128 << 63), ("k", 1i128 << 53), ("m", 1i128 << 43), ("g", 1i128 << 33), ("K", 1i128 << 53), ("G", 1i128 << 33)]);
                        let d = rng.range(-2, 2) as i128;
                        let sign = if rng.chance(1, 2) { -1 } else { 1 };
                        format!("{}{}", sign * (lim + d), sfx).into_bytes()
                    }
                    2 => format!("{}{}", rng.next() as i64, rng.pick(&["", "k", "m", "g"])).into_bytes(),
                    3 => format!("{}{}", rng.range(-5000, 5000), rng.pick(&["", "k", "M", "g", "G", "kb", " ", "t"])).into_bytes(),
                    _ => rng.word(b"0123456789-+kKmMgGxX \xc3\xa9", 0, 7),
                };
                out.push(vec![tag("int"), v]);
            }
            _ => {
                let v = match rng.below(3) {
                    0 => rng.pick(WORDS).as_bytes().to_vec(),
                    1 => {
                        let mut v = rng.pick(&[&b"~/"[..], b"~", b"~ab/", b"~A/", b"%(prefix)/", b"%(prefix)", b"/", b""]).to_vec();
                        v.extend(rng.word(b"ab/.~", 0, 5));
                        v
                    }
                    _ => rng.word(b"~/ab%(prefix)", 0, 12),
                };
                out.push(vec![tag("path"), v]);
            }
        }
    }
    out.truncate(n.max(1));
    out
}

fn main() {
    main_with(Harness { gen, imp, prop, git: Some(git_real), deadline: std::time::Duration::from_secs(120) });
}
